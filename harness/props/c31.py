"""C31 — secure lists behave like Python lists under any operation history.

Proof: coq/props/C31.v over the value-level model coq/theories/SecList.v (refinement of every
secret-index method, of count/find/index/remove and of the comparisons to Python list semantics, for
all lists / in-range indices / histories).  Tie: the REAL mpyc.seclists.seclist (single party,
in-process) is driven through random operation histories and compared after every operation with
(i) a plain Python `list` oracle, (ii) the Coq model `run step` and (iii) the Coq abstract
interpreter `run pystep` evaluated by vm_compute on the same concrete history.
"""
import random
from lib.core import zlit, zlist, natlit, blit

MANIFEST = {
    'text': 'Coq theorems over the value-level model of seclists.py (state = list Z, operations transcribed from the code: '
            '__getitem__/__setitem__ as dot product / x + (v - x_i)*i, __delitem__/insert via prefix-sum step vectors and '
            'schur_prod, pop, remove, count/contains/find(index closure cl)/index, _less_than/_norm, __eq__, secindex offset '
            'and secindex.__add__): for ALL lists and ALL in-range secret indices (secure number, unit vector, secindex, '
            'secindex sum) get = nth, set = update, del = remove_nth, insert = insert_at, pop; count/find/index/remove/contains '
            '= their Python definitions; _less_than = Python lexicographic < for all length combinations (and le/eq/ne/ge/gt); '
            'history_refines: for every operation sequence the model and the abstract Python-list interpreter agree step by '
            'step. Tied to /repo on every run by driving the real seclist (secint, secfxp, secfld(p)) through random '
            'histories and comparing state+output after every operation with a Python list and with the Coq model and the Coq '
            'abstract interpreter (vm_compute) on the same history; plus non-unit index vectors (model vs implementation only), '
            'malformed index lengths (IndexError), comparison pairs of lengths 4..9 differing at several positions (>= 2 inside one '
            'half of the _norm split; all six operators both ways) and histories that reuse ONE index object (unit-vector list, '
            'secindex, secure number) across consecutive operations and two lists (the object must stay unchanged); and an extreme-'
            'values stream for every value-dependent operation (contains/count/find/index/remove/==/!= on full-range values, '
            '</<=/>/>=/sort on values whose differences stay representable): secint(8/16/32/64), secfxp(32:16, 16:8), GF(p) for '
            'p = 11..65537 with lists shorter than p-1, GF(2^8); lists of powers of two +-1, extremes, values whose differences to '
            'an absent item are powers of two / multiples of 2^(l/2) / tiny fractions. Also proved: contains (count != 0 with count '
            'summed in a field of characteristic p) = list membership for every list shorter than p, and the guard is tight '
            '(C31_contains_char_guard / _boundary: the boundary of finding F-C31-2).',
    'note': 'Trusted/modelled, not verified here: runtime helpers at value level (in_prod, vector_add/sub, schur_prod, scalar_mul, '
            'sgn, ==, sum, all, if_else) and runtime.unit_vector represented by its specification uvec (C30 ties unit_vector to it); '
            'list.sort is modelled by a specification sort (runtime._sort belongs to C29); methods delegated to list (public '
            'int/slice, append, extend, +, *, copy, reverse) are list operations by construction. secfxp contents are modelled '
            'scaled by 2^f and secfld(p) as the image mod p of the integer model (ring homomorphism; checked by the '
            'correspondence, not proved). "Only the length is public" is NOT proved in Coq (shape_only over a call-trace monad: '
            'missing); it is only TESTED on the implementation: twin histories with equal public shape but different secret '
            'values/positions must issue identical sequences of _reshare/output/random_bits/_random(s)/trunc calls with identical '
            'sizes (remove/index excluded: they make presence public by design, like Python\'s ValueError; secure-number '
            'indices on secfld excluded: to_bits uses rejection sampling with public coins). '
            'Property streams are single-party (m=1, synchronous) except the concurrency stream (m=3, t=1: operations launched without '
            'awaiting amid 10-30 unrelated secure multiplications/comparisons under RandomOrder/ReverseLinks/Hold schedules) and the '
            'aliasing stream (m=1 asynchronous -M1 and m=3: call, mutate receiver/argument list/index vector in place, then await; '
            'expected = Python list semantics in program order; seclist.remove defers both its read and its write: finding F-C31-5). '
            'On two EMPTY lists ==, != (and count, contains) return public Python values, not secure objects: the values are '
            'Python\'s and depend on the public lengths only, covered as an ordinary case (types recorded in the evidence). secfxp lists use non-integral elements only (mixed integrality is finding F-C03 of '
            'another property). Out-of-range secret indices are excluded (valid_key); public out-of-range ints are checked to '
            'raise IndexError. Extended slices, GF(2^8) and sort are checked against the Python list only.',
    'technique': 'Coq refinement proof (list induction, strong induction for the divide-and-conquer closures) + vm_compute '
                 'correspondence on random histories against the real seclist and a Python list oracle',
}

FRAC = 16          # SecFxp() default: 32 bits, 16 fractional
ONE = 1 << FRAC


# ------------------------------------------------------------------------------------------
# type descriptors

class TI:
    def __init__(self, mpc, kind, p=None, char2=False, l=None, f=None, pmod=None):
        self.kind = kind
        self.p = p
        self.char2 = char2
        self.l = l or 32
        self.f = (f or FRAC) if kind == 'fxp' else 0
        self.one = 1 << self.f
        if kind == 'int':
            self.T = mpc.SecInt(l, p=pmod) if pmod else (mpc.SecInt(l) if l else mpc.SecInt())
            self.pool = [-3, -2, -1, 0, 1, 2, 3, 4]
            self.name = 'secint' + ('(%d)' % l if l else '') + (' p=%dmod4[%d bits]' % (pmod % 4, pmod.bit_length()) if pmod else '')
        elif kind == 'fxp':
            self.T = mpc.SecFxp(l, f) if l else mpc.SecFxp()
            one = self.one
            self.pool = [k * one + one // 2 for k in (-3, -2, -1, 0, 1, 2)] + [one // 4, 3 * one + one // 4]
            self.name = 'secfxp' + ('(%d:%d)' % (l, f) if l else '')
        else:
            self.T = mpc.SecFld(p)
            if char2:
                self.pool = [0, 1, 2, 3, 5, 7, 100, p - 1]
            else:
                self.pool = sorted({0, 1, 2, 3, 4 % p, 5 % p, p - 1, p - 2})
            self.name = 'secfld(%d)' % p
        self.mpc = mpc
        self.public_results = 0

    def to_impl(self, c):
        return c / self.one if self.kind == 'fxp' else c

    def sec(self, c):
        return self.T(self.to_impl(c))

    def canon(self, v):
        """opened list element -> canonical int"""
        if self.kind == 'fxp':
            return int(v * self.one)
        return int(v)

    def canon_small(self, v):
        """opened count/index/bit -> int (field elements stay unsigned)"""
        return int(v)

    def red(self, z):
        """canonical form of a model/oracle integer output for this type"""
        return z % self.p if (self.kind == 'fld' and not self.char2) else z

    def open_list(self, s):
        s = list(s)
        if not s:
            return []
        return [self.canon(v) for v in self.mpc.run(self.mpc.output(s))]

    def open1(self, x):
        return self.canon(self.mpc.run(self.mpc.output(x)))

    def open_small(self, x):
        if isinstance(x, (bool, int)):
            # on EMPTY lists count / contains / == / != return plain public Python values
            # (sum([]) = 0, all([]) = 1): nothing to open; the value is compared as is
            self.public_results += 1
            return int(x)
        return self.canon_small(self.mpc.run(self.mpc.output(x)))



def user_moduli():
    """deterministic user-supplied prime moduli for SecInt(l, p=P): the first primes above 2^96 (enough for l=64 at the
    default security parameter 30: P > 2^(l+k+1)) that are 1 mod 4 (NOT a Blum prime) and 3 mod 4"""
    from mpyc import gmpy
    q = 1 << 96
    P1 = P3 = None
    while P1 is None or P3 is None:
        q = int(gmpy.next_prime(q))
        if q % 4 == 1 and P1 is None:
            P1 = q
        if q % 4 == 3 and P3 is None:
            P3 = q
    return P1, P3


# ------------------------------------------------------------------------------------------
# abstract operations (position-based, so that shrinking can re-materialise them for other lengths)

SECRET_OPS = ('get', 'set', 'del', 'ins', 'pop')
CMPS = ('lt', 'le', 'eq', 'ne', 'ge', 'gt')


def gen_ys(rng, ti, maxn):
    n = rng.choice([0, 0, 1, 1, 2, 3, maxn])
    n = max(0, min(n, maxn))
    return [rng.choice(ti.pool) for _ in range(n)]


def gen_aop(rng, ti, ref, maxlen=12):
    """one abstract operation for the current oracle list ref"""
    n = len(ref)
    kinds = ['num', 'vec', 'sec'] + ([] if (ti.kind == 'fxp' or getattr(ti, 'char2', False) or '2^' in ti.name) else ['add'])
    val = lambda: rng.choice(ti.pool)                                    # noqa: E731
    present_or_not = lambda: rng.choice(ref) if ref and rng.random() < 0.7 else val()   # noqa: E731
    r = rng.random()
    if r < 0.42:
        op = rng.choice(SECRET_OPS)
        if op == 'ins' and n >= maxlen:
            op = 'get'
        hi = n + 1 if op == 'ins' else n
        if hi == 0:
            return {'op': 'append', 'v': val(), 'wrap': rng.random() < 0.5}
        a = rng.choice([0, hi - 1, rng.randrange(hi), rng.randrange(hi)])
        d = {'op': op, 'kind': rng.choice(kinds), 'a': a, 'salt': rng.randrange(1 << 30)}
        if op in ('set', 'ins'):
            d['v'] = val()
            d['wrap'] = rng.random() < 0.5
        return d
    if r < 0.56:
        op = rng.choice(['getpub', 'setpub', 'delpub', 'inspub', 'poppub'])
        if op == 'inspub' and n >= maxlen:
            op = 'getpub'
        i = rng.choice([0, -1, n - 1, -n, n, -n - 1, rng.randrange(-n - 2, n + 3)])
        d = {'op': op, 'i': i}
        if op == 'poppub' and rng.random() < 0.3:
            d['i'] = None                      # s.pop()
        if op in ('setpub', 'inspub'):
            d['v'] = val()
            d['wrap'] = rng.random() < 0.5
        return d
    if r < 0.64:
        op = rng.choice(['getslice', 'setslice', 'delslice'])
        b = lambda: rng.choice([None, 0, 1, -1, n, rng.randrange(-n - 2, n + 3)])   # noqa: E731
        d = {'op': op, 'start': b(), 'stop': b()}
        if op == 'setslice':
            d['ys'] = gen_ys(rng, ti, max(0, min(3, maxlen - n)))
            d['yform'] = rng.randrange(3)
        return d
    if r < 0.74:
        op = rng.choice(['append', 'extend', 'addr', 'addl', 'mul', 'copy', 'reverse', 'sort'])
        if op == 'sort' and ti.kind == 'fld':
            op = 'reverse'
        if n >= maxlen and op in ('append', 'extend', 'addr', 'addl', 'mul'):
            op = 'copy'
        if op == 'append':
            return {'op': op, 'v': val(), 'wrap': rng.random() < 0.5}
        if op in ('extend', 'addr', 'addl'):
            return {'op': op, 'ys': gen_ys(rng, ti, min(3, maxlen - n)), 'yform': rng.randrange(3),
                    'iadd': rng.random() < 0.5}
        if op == 'mul':
            ks = [k for k in (-1, 0, 1, 2, 3) if n * k <= maxlen]
            return {'op': op, 'k': rng.choice(ks), 'form': rng.randrange(3)}
        return {'op': op}
    if r < 0.88:
        op = rng.choice(['count', 'contains', 'find', 'index', 'remove'])
        return {'op': op, 'v': present_or_not(), 'wrap': rng.random() < 0.5}
    # comparisons: equal lists, proper prefixes, one-off differences, empties, random
    cs = CMPS if ti.kind != 'fld' else ('eq', 'ne')
    m = rng.random()
    if m < 0.2:
        ys = list(ref)
    elif m < 0.4:
        ys = list(ref[:rng.randrange(n + 1)])
    elif m < 0.55:
        ys = list(ref) + gen_ys(rng, ti, 2)
    elif m < 0.8 and n:
        ys = list(ref)
        j = rng.randrange(n)
        ys[j] = val()
        if rng.random() < 0.4:
            ys = ys[:rng.randrange(j + 1, n + 1)]
    else:
        ys = gen_ys(rng, ti, 4)
    return {'op': 'cmp', 'c': rng.choice(cs), 'swap': rng.random() < 0.5, 'ys': ys, 'yform': rng.randrange(3)}


def unit(a, n):
    return [1 if i == a else 0 for i in range(n)]


def materialise(aop, n):
    """abstract op -> concrete op for a list of current length n; None when not applicable (only
    happens while shrinking)"""
    op = aop['op']
    c = dict(aop)
    if op in SECRET_OPS:
        N = n + 1 if op == 'ins' else n
        a = aop['a']
        if not 0 <= a < N:
            return None
        r = random.Random(aop['salt'])
        kind = aop['kind']
        if kind == 'num':
            c['key'] = ['num', a]
        elif kind == 'vec':
            c['key'] = ['vec', unit(a, N)]
        elif kind == 'sec':
            off = r.randrange(a + 1)
            c['key'] = ['sec', off, unit(a - off, N - off)]
        else:   # add: off1 + off2 + (m + n2 - 1) == N, a = off1 + off2 + i + j
            off = r.randrange(a + 1)
            o1 = r.randrange(off + 1)
            L = N - off                    # length of the sum's vector, >= 1
            m = r.randrange(1, L + 1)
            n2 = L + 1 - m
            t = a - off                    # i + j = t, 0 <= i < m, 0 <= j < n2
            lo, hi = max(0, t - (n2 - 1)), min(m - 1, t)
            i = r.randrange(lo, hi + 1)
            c['key'] = ['add', o1, unit(i, m), off - o1, unit(t - i, n2)]
        return c
    if op in ('getslice', 'setslice', 'delslice'):
        a, b, _ = slice(aop['start'], aop['stop']).indices(n)
        c['ab'] = [a, b]
        return c
    return c


# ------------------------------------------------------------------------------------------
# implementation, oracle, Coq encodings of a concrete op

def mk_key(ti, key, secindex):
    T = ti.T
    kind = key[0]
    if kind == 'num':
        return T(key[1])
    if kind == 'vec':
        return [T(b) for b in key[1]]
    if kind == 'sec':
        return secindex([T(b) for b in key[2]], offset=key[1], sectype=T)
    i1 = secindex([T(b) for b in key[2]], offset=key[1], sectype=T)
    i2 = secindex([T(b) for b in key[4]], offset=key[3], sectype=T)
    return i1 + i2


def mk_val(ti, c):
    return ti.sec(c['v']) if c.get('wrap') else ti.to_impl(c['v'])


def mk_ys(ti, ys, form, seclist):
    if form == 0:
        return [ti.to_impl(y) for y in ys]
    if form == 1:
        return [ti.sec(y) for y in ys]
    return seclist([ti.to_impl(y) for y in ys], ti.T)


def impl_step(ti, s, c, seclist, secindex, keyobj=None):
    """apply concrete op c to the real seclist s; returns (s', out); keyobj: an already built secret
    index object to be used instead of building a fresh one from c['key'] (index-object reuse)"""
    op = c['op']
    mpc = ti.mpc
    out = None
    try:
        if op == 'get':
            out = ('Z', ti.open1(s[(keyobj if keyobj is not None else mk_key(ti, c['key'], secindex))]))
        elif op == 'set':
            s[(keyobj if keyobj is not None else mk_key(ti, c['key'], secindex))] = mk_val(ti, c)
        elif op == 'del':
            del s[(keyobj if keyobj is not None else mk_key(ti, c['key'], secindex))]
        elif op == 'ins':
            s.insert((keyobj if keyobj is not None else mk_key(ti, c['key'], secindex)), mk_val(ti, c))
        elif op == 'pop':
            out = ('Z', ti.open1(s.pop((keyobj if keyobj is not None else mk_key(ti, c['key'], secindex)))))
        elif op == 'getpub':
            out = ('Z', ti.open1(s[c['i']]))
        elif op == 'setpub':
            s[c['i']] = mk_val(ti, c)
        elif op == 'delpub':
            del s[c['i']]
        elif op == 'inspub':
            s.insert(c['i'], mk_val(ti, c))
        elif op == 'poppub':
            out = ('Z', ti.open1(s.pop() if c['i'] is None else s.pop(c['i'])))
        elif op == 'getslice':
            r = s[slice(c['start'], c['stop'])]
            assert isinstance(r, seclist) and r.sectype is s.sectype
            out = ('L', ti.open_list(r))
        elif op == 'setslice':
            s[slice(c['start'], c['stop'])] = mk_ys(ti, c['ys'], c['yform'], seclist)
        elif op == 'delslice':
            del s[slice(c['start'], c['stop'])]
        elif op == 'append':
            s.append(mk_val(ti, c))
        elif op == 'extend':
            ys = mk_ys(ti, c['ys'], c['yform'], seclist)
            if c['iadd']:
                s += ys
            else:
                s.extend(ys)
        elif op == 'addr':
            s = s + mk_ys(ti, c['ys'], c['yform'], seclist)
        elif op == 'addl':
            s = mk_ys(ti, c['ys'], c['yform'], seclist) + s
        elif op == 'mul':
            if c['form'] == 0:
                s = s * c['k']
            elif c['form'] == 1:
                s = c['k'] * s
            else:
                s *= c['k']
        elif op == 'copy':
            t = s.copy()
            assert t is not s
            out = ('L', ti.open_list(t))
            s = t
        elif op == 'reverse':
            s.reverse()
        elif op == 'sort':
            s.sort()
        elif op == 'count':
            out = ('Z', ti.open_small(s.count(mk_val(ti, c))))
        elif op == 'contains':
            out = ('Z', ti.open_small(s.contains(mk_val(ti, c))))
        elif op == 'find':
            out = ('Z', ti.open_small(s.find(mk_val(ti, c))))
        elif op == 'index':
            out = ('Z', ti.open_small(s.index(mk_val(ti, c))))
        elif op == 'remove':
            r = s.remove(mk_val(ti, c))
            if r is not None and not r.done():
                mpc.run(r)
            elif r is not None:
                r.result()
        elif op == 'cmp':
            ys = c['ys']
            if c['swap']:
                x, y = seclist([ti.to_impl(v) for v in ys], ti.T), s
            else:
                x, y = s, mk_ys(ti, ys, c['yform'], seclist)
            cc = c['c']
            r = (x < y if cc == 'lt' else x <= y if cc == 'le' else x == y if cc == 'eq' else
                 x != y if cc == 'ne' else x >= y if cc == 'ge' else x > y)
            out = ('Z', ti.open_small(r))
        else:
            raise RuntimeError('unknown op ' + op)
    except IndexError:
        out = ('Err', 'Index')
    except ValueError:
        out = ('Err', 'Value')
    if not isinstance(s, seclist) or s.sectype is not ti.T:
        out = ('Err', 'NotSeclist')
    return s, out


def key_pos(key):
    kind = key[0]
    dotp = lambda u: sum(j * b for j, b in enumerate(u))     # noqa: E731
    if kind == 'num':
        return key[1]
    if kind == 'vec':
        return dotp(key[1])
    if kind == 'sec':
        return key[1] + dotp(key[2])
    return key[1] + key[3] + dotp(key[2]) + dotp(key[4])


def oracle_step(ti, ref, c):
    """the same operation on a plain Python list (of canonical ints)"""
    op = c['op']
    ref = list(ref)
    out = None
    try:
        if op == 'get':
            out = ('Z', ref[key_pos(c['key'])])
        elif op == 'set':
            ref[key_pos(c['key'])] = c['v']
        elif op == 'del':
            del ref[key_pos(c['key'])]
        elif op == 'ins':
            ref.insert(key_pos(c['key']), c['v'])
        elif op == 'pop':
            out = ('Z', ref.pop(key_pos(c['key'])))
        elif op == 'getpub':
            out = ('Z', ref[c['i']])
        elif op == 'setpub':
            ref[c['i']] = c['v']
        elif op == 'delpub':
            del ref[c['i']]
        elif op == 'inspub':
            ref.insert(c['i'], c['v'])
        elif op == 'poppub':
            out = ('Z', ref.pop() if c['i'] is None else ref.pop(c['i']))
        elif op == 'getslice':
            out = ('L', ref[slice(c['start'], c['stop'])])
        elif op == 'setslice':
            ref[slice(c['start'], c['stop'])] = list(c['ys'])
        elif op == 'delslice':
            del ref[slice(c['start'], c['stop'])]
        elif op == 'append':
            ref.append(c['v'])
        elif op == 'extend':
            ref.extend(c['ys'])
        elif op == 'addr':
            ref = ref + list(c['ys'])
        elif op == 'addl':
            ref = list(c['ys']) + ref
        elif op == 'mul':
            ref = ref * c['k']
        elif op == 'copy':
            ref = ref.copy()
            out = ('L', list(ref))
        elif op == 'reverse':
            ref.reverse()
        elif op == 'sort':
            ref.sort()
        elif op == 'count':
            out = ('Z', ti.red(ref.count(c['v'])))
        elif op == 'contains':
            out = ('Z', int(c['v'] in ref))
        elif op == 'find':
            out = ('Z', ti.red(ref.index(c['v']) if c['v'] in ref else -1))
        elif op == 'index':
            out = ('Z', ti.red(ref.index(c['v'])))
        elif op == 'remove':
            ref.remove(c['v'])
        elif op == 'cmp':
            x, y = (list(c['ys']), ref) if c['swap'] else (ref, list(c['ys']))
            cc = c['c']
            out = ('Z', int(x < y if cc == 'lt' else x <= y if cc == 'le' else x == y if cc == 'eq' else
                            x != y if cc == 'ne' else x >= y if cc == 'ge' else x > y))
    except IndexError:
        out = ('Err', 'Index')
    except ValueError:
        out = ('Err', 'Value')
    return ref, out


def coq_key(key):
    kind = key[0]
    if kind == 'num':
        return '(KNum %s)' % zlit(key[1])
    if kind == 'vec':
        return '(KVec %s)' % zlist(key[1])
    if kind == 'sec':
        return '(KSec %s %s)' % (natlit(key[1]), zlist(key[2]))
    return '(KAdd %s %s %s %s)' % (natlit(key[1]), zlist(key[2]), natlit(key[3]), zlist(key[4]))


def coq_op(c):
    op = c['op']
    if op == 'get':
        return 'Get %s' % coq_key(c['key'])
    if op == 'set':
        return 'SetK %s %s' % (coq_key(c['key']), zlit(c['v']))
    if op == 'del':
        return 'Del %s' % coq_key(c['key'])
    if op == 'ins':
        return 'Insert %s %s' % (coq_key(c['key']), zlit(c['v']))
    if op == 'pop':
        return 'Pop %s' % coq_key(c['key'])
    if op == 'getpub':
        return 'GetPub %s' % zlit(c['i'])
    if op == 'setpub':
        return 'SetPub %s %s' % (zlit(c['i']), zlit(c['v']))
    if op == 'delpub':
        return 'DelPub %s' % zlit(c['i'])
    if op == 'inspub':
        return 'InsertPub %s %s' % (zlit(c['i']), zlit(c['v']))
    if op == 'poppub':
        return 'PopPub %s' % zlit(-1 if c['i'] is None else c['i'])
    if op == 'getslice':
        return 'GetSlice %s %s' % (natlit(c['ab'][0]), natlit(c['ab'][1]))
    if op == 'setslice':
        return 'SetSlice %s %s %s' % (natlit(c['ab'][0]), natlit(c['ab'][1]), zlist(c['ys']))
    if op == 'delslice':
        return 'DelSlice %s %s' % (natlit(c['ab'][0]), natlit(c['ab'][1]))
    if op == 'append':
        return 'Append %s' % zlit(c['v'])
    if op == 'extend':
        return 'Extend %s' % zlist(c['ys'])
    if op == 'addr':
        return 'AddR %s' % zlist(c['ys'])
    if op == 'addl':
        return 'AddL %s' % zlist(c['ys'])
    if op == 'mul':
        return 'Mul %s' % zlit(c['k'])
    if op == 'copy':
        return 'Copy'
    if op == 'reverse':
        return 'Reverse'
    if op == 'sort':
        return 'Sort'
    if op in ('count', 'contains', 'find', 'index', 'remove'):
        return '%s %s' % (op.capitalize(), zlit(c['v']))
    if op == 'cmp':
        return 'Cmp C%s %s %s' % (c['c'].capitalize(), blit(c['swap']), zlist(c['ys']))
    raise RuntimeError(op)


def coq_hist(init, cops):
    return '%s [%s]' % (zlist(init), '; '.join(coq_op(c) for c in cops))


def coq_out(ti, o, elem):
    """parsed Coq `out` -> canonical tuple; elem: the output is a list element (not reduced for
    secint/secfxp; reduced mod p for secfld)"""
    if o == 'ONone':
        return None
    if isinstance(o, tuple) and o[0] == 'OZ':
        return ('Z', ti.red(o[1]))
    if isinstance(o, tuple) and o[0] == 'OL':
        return ('L', [ti.red(v) for v in o[1]])
    if isinstance(o, tuple) and o[0] == 'OErr':
        return ('Err', {'EIndex': 'Index', 'EValue': 'Value'}[o[1]])
    return ('?', str(o))


def coq_trace(ti, r):
    return [([ti.red(v) for v in st], coq_out(ti, o, True)) for (st, o) in r]


# ------------------------------------------------------------------------------------------
# running histories

def concretise(init, aops):
    """materialise abstract ops along the oracle run; None if some op is not applicable"""
    ref = list(init)
    cops = []
    for a in aops:
        c = materialise(a, len(ref))
        if c is None:
            return None
        cops.append(c)
        ref, _ = _oracle_len(ref, c)
    return cops


def _oracle_len(ref, c):
    class _T:            # oracle_step needs ti only for reducing outputs
        red = staticmethod(lambda z: z)
    return oracle_step(_T, ref, c)


def run_impl(ti, init, cops, seclist, secindex):
    s = seclist([ti.to_impl(v) for v in init], ti.T)
    tr = []
    for c in cops:
        try:
            s, out = impl_step(ti, s, c, seclist, secindex)
            tr.append((ti.open_list(s), out))
        except Exception as e:   # noqa
            tr.append((None, ('Err', type(e).__name__ + ': ' + str(e)[:80])))
            break
    return tr


def run_oracle(ti, init, cops):
    ref = list(init)
    tr = []
    for c in cops:
        ref, out = oracle_step(ti, ref, c)
        tr.append((list(ref), out))
    return tr


def first_diff(a, b):
    for i, (x, y) in enumerate(zip(a, b)):
        if (x[0], x[1]) != (y[0], y[1]):
            return i
    if len(a) != len(b):
        return min(len(a), len(b))
    return None


def shrink(ti, init, aops, seclist, secindex, budget=150):
    """drop operations (and list elements from the end) while implementation != list oracle"""
    def fails(init, aops):
        cops = concretise(init, aops)
        if cops is None:
            return None
        d = first_diff(run_impl(ti, init, cops, seclist, secindex), run_oracle(ti, init, cops))
        return (cops, d) if d is not None else None
    cur = fails(init, aops)
    if cur is None:
        return init, aops, None, None
    changed = True
    while changed and budget > 0:
        changed = False
        aops = aops[:cur[1] + 1]                      # nothing after the first difference matters
        for j in range(len(aops) - 2, -1, -1):
            budget -= 1
            cand = aops[:j] + aops[j + 1:]
            f = fails(init, cand)
            if f is not None:
                aops, cur, changed = cand[:f[1] + 1], f, True
                break
        if not changed and init:
            budget -= 1
            f = fails(init[:-1], aops)
            if f is not None:
                init, cur, changed = init[:-1], f, True
    aops = aops[:cur[1] + 1]
    return init, aops, cur[0][:cur[1] + 1], cur[1]


def gen_history(rng, ti, maxops, maxinit=8):
    m = rng.random()
    n0 = rng.choice([0, 1, 2, 3, 5, maxinit, rng.randrange(maxinit + 1)])
    if m < 0.15:
        init = [rng.choice(ti.pool)] * n0
    elif m < 0.5:
        small = ti.pool[:3]
        init = [rng.choice(small) for _ in range(n0)]        # many duplicates
    else:
        init = [rng.choice(ti.pool) for _ in range(n0)]
    ref = list(init)
    aops, cops = [], []
    for _ in range(rng.randrange(1, maxops + 1)):
        a = gen_aop(rng, ti, ref)
        c = materialise(a, len(ref))
        assert c is not None, a
        aops.append(a)
        cops.append(c)
        ref, _ = _oracle_len(ref, c)
    return init, aops, cops


def nontrivial(cops):
    return any(c['op'] in SECRET_OPS or c['op'] in ('count', 'contains', 'find', 'index', 'remove', 'cmp', 'sort')
               for c in cops)



# ------------------------------------------------------------------------------------------
# "only the length is public", implementation level: two histories with the same public shape
# (lengths, operation kinds, public arguments) but different secret values/positions must issue
# the same sequence of communication-level runtime calls (_reshare / output / random_bits / _random(s))
# with the same sizes

class CallTrace:
    NAMES = ('_reshare', 'output', 'random_bits', '_random', '_randoms', 'trunc')

    def __init__(self, mpc):
        self.mpc = mpc
        self.on = False
        self.log = []
        self.orig = {}
        for nm in self.NAMES:
            if hasattr(mpc, nm):
                self.orig[nm] = getattr(mpc, nm)
                setattr(mpc, nm, self._wrap(nm, self.orig[nm]))

    def _wrap(self, nm, f):
        def g(*a, **k):
            if self.on:
                if nm in ('random_bits', '_randoms'):
                    size = a[1]
                elif nm == '_random':
                    size = 1
                else:
                    x = a[0]
                    size = len(x) if isinstance(x, (list, tuple)) else 0
                self.log.append((nm, size))
            return f(*a, **k)
        return g

    def restore(self):
        for nm, f in self.orig.items():
            try:
                delattr(self.mpc, nm)
            except AttributeError:
                setattr(self.mpc, nm, f)


def twin(rng, ti, init, cops):
    """same public shape, fresh secret content"""
    val = lambda: rng.choice(ti.pool)     # noqa: E731
    init2 = [val() for _ in init]
    out = []
    for c in cops:
        d = dict(c)
        if 'v' in d:
            d['v'] = val()
        if 'ys' in d:
            d['ys'] = [val() for _ in d['ys']]
        if 'key' in d:
            k = d['key']
            if k[0] == 'num':
                d['key'] = ['num', None]      # position filled in by traced_run (needs the current length)
            elif k[0] == 'vec':
                d['key'] = ['vec', unit(rng.randrange(len(k[1])), len(k[1]))]
            elif k[0] == 'sec':
                d['key'] = ['sec', k[1], unit(rng.randrange(len(k[2])), len(k[2]))]
            else:
                d['key'] = ['add', k[1], unit(rng.randrange(len(k[2])), len(k[2])), k[3], unit(rng.randrange(len(k[4])), len(k[4]))]
        out.append(d)
    return init2, out


def traced_run(ti, tr, init, cops, seclist, secindex, rng):
    """run a history recording, per operation, the communication-call trace and the public outcome
    (exception class / public length); 'num' keys with position None get a random in-range position"""
    s = seclist([ti.to_impl(v) for v in init], ti.T)
    res = []
    for c in cops:
        if 'key' in c and c['key'][0] == 'num' and c['key'][1] is None:
            N = len(s) + 1 if c['op'] == 'ins' else len(s)
            c['key'] = ['num', rng.randrange(N)]
        tr.log = []
        tr.on = True
        try:
            s, out = impl_step(ti, s, c, seclist, secindex)    # (the harness' own opening of results is logged too: constant per op)
        finally:
            tr.on = False
        pub = out[1] if out and out[0] == 'Err' else None
        res.append((list(tr.log), len(s), pub))
    return res



# ------------------------------------------------------------------------------------------
# comparison pairs differing at several positions, with >= 2 differences inside one half of _norm's split

def gen_cmp_pair(rng, ti):
    lx = rng.randrange(4, 10)
    ly = lx if rng.random() < 0.5 else rng.randrange(4, 10)
    m = min(lx, ly)                       # _norm works on the zipped prefix of length m, split at m//2
    x = [rng.choice(ti.pool) for _ in range(lx)]
    y = (x + [rng.choice(ti.pool) for _ in range(ly)])[:ly]
    h = m // 2
    half = range(0, h) if (rng.random() < 0.5 and h >= 2) else range(h, m)
    pos = set(rng.sample(list(half), rng.randrange(2, len(half) + 1)))
    if rng.random() < 0.6:                # further differences anywhere
        pos |= {rng.randrange(m) for _ in range(rng.randrange(1, 4))}
    mode = rng.randrange(3)               # all larger / all smaller / mixed signs
    order = sorted(ti.pool)
    for j in pos:
        lo = [v for v in order if v < x[j]]
        hi = [v for v in order if v > x[j]]
        cand = (hi or lo) if mode == 0 else (lo or hi) if mode == 1 else (lo + hi)
        y[j] = rng.choice(cand)
    return x, y


# ------------------------------------------------------------------------------------------
# histories that REUSE one Python index object across consecutive operations on one or two lists

def reuse_history(rng, ti, seclist, secindex):
    """returns (kind, bad, detail, lists) where lists = [(init, cops, impl_trace, oracle_trace)] for s and t"""
    mpc = ti.mpc
    L = rng.randrange(1, 8)                       # length of the index vector: insert on lists of length L-1, others on length L
    a = rng.choice([0, L - 1, rng.randrange(L)])
    kind = rng.choice(['vec', 'vec', 'sec', 'num'])
    if kind == 'vec':
        key = ['vec', unit(a, L)]
    elif kind == 'sec':
        off = rng.randrange(a + 1)
        key = ['sec', off, unit(a - off, L - off)]
    else:
        key = ['num', a]
    obj = mk_key(ti, key, secindex)               # built ONCE

    def opened():
        if kind == 'vec':
            return [int(v) for v in mpc.run(mpc.output(list(obj)))] if obj else []
        if kind == 'sec':
            return [obj.offset, [int(v) for v in mpc.run(mpc.output(list(obj.value)))] if obj.value else []]
        return int(mpc.run(mpc.output(obj)))
    before = opened()
    inits = [[rng.choice(ti.pool) for _ in range(L - 1)], [rng.choice(ti.pool) for _ in range(rng.choice([L - 1, L]))]]
    impl = [seclist([ti.to_impl(v) for v in init], ti.T) for init in inits]
    ref = [list(init) for init in inits]
    cops = [[], []]
    itr = [[], []]
    otr = [[], []]
    bad = None
    for step in range(rng.randrange(2, 7)):
        w = 0 if (step == 0 or rng.random() < 0.65) else 1
        if step == 0 or len(ref[w]) == L - 1:
            op = 'ins'
        elif len(ref[w]) == L:
            op = rng.choice(['get', 'set', 'del', 'pop', 'get', 'set'])
        else:
            continue
        c = {'op': op, 'key': key}
        if op in ('set', 'ins'):
            c['v'] = rng.choice(ti.pool)
            c['wrap'] = rng.random() < 0.5
        try:
            impl[w], out = impl_step(ti, impl[w], c, seclist, secindex, keyobj=obj)
            st = ti.open_list(impl[w])
        except Exception as e:   # noqa
            st, out = None, ('Err', type(e).__name__ + ': ' + str(e)[:80])
        ref[w], oout = oracle_step(ti, ref[w], c)
        cops[w].append(c)
        itr[w].append((st, out))
        otr[w].append((list(ref[w]), oout))
        if (st, out) != (ref[w], oout) and bad is None:
            bad = {'list': w, 'op': op, 'step': step, 'impl': (st, out), 'python_list': (ref[w], oout)}
            break
    after = opened() if bad is None else None
    if bad is None and after != before:
        bad = {'op': 'index object modified by the callee', 'before': before, 'after': after}
    detail = {'type': ti.name, 'key': key, 'inits': inits, 'ops_on_s': cops[0], 'ops_on_t': cops[1], 'bad': bad}
    return kind, bad, detail, [(inits[w], cops[w], itr[w], otr[w]) for w in (0, 1) if cops[w]]



# ------------------------------------------------------------------------------------------
# extreme in-range values for every value-dependent operation

def extreme_values(rng, ti, ranged):
    """candidate canonical values of the type; ranged: keep |v| below a quarter of the range so that
    differences of two values stay representable (needed by <, <=, >, >=, sort: sgn(a - b))"""
    if ti.kind == 'int':
        l = ti.l
        M = (1 << (l - 1)) - 1
        if ranged:
            M = (1 << (l - 2)) - 1
        vals = {0, 1, -1, M, -M, M - 1, -M + 1}
        for k in range(1, l - 1):
            for d in (-1, 0, 1):
                vals |= {(1 << k) + d, -(1 << k) + d}
        h = 1 << (l // 2)
        vals |= {j * h for j in range(-5, 6)} | {j * h + 1 for j in range(-3, 4)}
        return sorted(v for v in vals if abs(v) <= M)
    if ti.kind == 'fxp':
        one = ti.one
        B = 1 << (ti.l - ti.f - 1)                 # |value| < B
        K = (B // 2 if ranged else B) - 1
        ks = {0, 1, -1, K, -K, K - 1, -K + 1}
        for k in range(1, ti.l - ti.f - 1):
            for d in (-1, 0, 1):
                ks |= {(1 << k) + d, -(1 << k) + d}
        fr = [1, one // 2, one - 1, one // 4]       # never integral (mixed integrality is F-C03 of another property)
        vals = {k * one + f for k in ks if abs(k) < K for f in fr} | {K * one - 1, -K * one + 1}
        return sorted(vals)
    p = ti.p
    if ti.char2:
        return list(range(p))
    return sorted({0, 1, 2, 3, p - 1, p - 2, p // 2, p // 2 + 1, rng.randrange(p), rng.randrange(p), rng.randrange(p)})


def gen_extreme_case(rng, ti, ranged):
    """(list, items): items present and absent; lists built so that the differences to an absent item are
    powers of two / multiples of 2^(l/2) / tiny fractions (products of differences overflow, underflow or
    vanish modulo 2^l) or are extreme"""
    E = extreme_values(rng, ti, ranged)
    lo, hi = E[0], E[-1]
    maxn = 12
    if ti.kind == 'fld':
        maxn = min(12, ti.p - 2)
    n = rng.choice([1, 2, 3, 5, 8, maxn, rng.randrange(1, maxn + 1)])
    n = min(n, maxn)
    mode = rng.randrange(4)
    t = rng.choice(E)
    if ti.kind == 'fld':
        if ti.char2:
            xs = rng.sample(E, n)                       # distinct: count <= 1 (F-C31-2 is about even counts)
        else:
            xs = [rng.choice(E) if rng.random() < 0.6 else rng.randrange(ti.p) for _ in range(n)]
    elif mode == 0:
        xs = [rng.choice(E) for _ in range(n)]
    elif mode == 1:
        # differences to t are +-powers of two whose exponents add up to >= l (product = 0 mod 2^l)
        bits = ti.l
        xs = []
        for _ in range(n):
            k = rng.randrange(1, bits - 1)
            for cand in (t + (1 << k), t - (1 << k)):
                if lo <= cand <= hi:
                    xs.append(cand)
                    break
        xs = xs or [t + 1 if t + 1 <= hi else t - 1]
    elif mode == 2:
        # differences are multiples of 2^(l/2) (secint) / of tiny fractions (secfxp: products underflow)
        unit = (1 << (ti.l // 2)) if ti.kind == 'int' else rng.choice([1, 2, 1 << (ti.f // 2)])
        xs = []
        for _ in range(n):
            cand = t + unit * rng.choice([-3, -2, -1, 1, 2, 3])
            if lo <= cand <= hi:
                xs.append(cand)
        xs = xs or [t + 1 if t + 1 <= hi else t - 1]
    else:
        big = [v for v in E if abs(v) >= hi // 2] or E   # long lists of large values (product overflow)
        xs = [rng.choice(big) for _ in range(n)]
    if ti.kind == 'fxp':
        xs = [x if x % ti.one else x + 1 for x in xs]     # keep every element non-integral
    items = []
    if t not in xs:
        items.append(t)
    items.append(rng.choice(xs))
    near = rng.choice(xs) + rng.choice([-1, 1])
    if ti.kind == 'fld':
        near %= ti.p
    if lo <= near <= hi or ti.kind == 'fld':
        items.append(near)
    if ti.char2:
        items = [v for v in items if xs.count(v) <= 1]
    return xs, items


def extreme_history(rng, ti, xs, items, ranged):
    cops = []
    searches = ('contains', 'count') if ti.char2 else ('contains', 'count', 'find', 'index')
    for v in items:
        for op in searches:
            cops.append({'op': op, 'v': v, 'wrap': rng.random() < 0.5})
    ys = list(xs)
    j = rng.randrange(len(ys))
    E = extreme_values(rng, ti, ranged)
    ys[j] = rng.choice([v for v in (ys[j] + 1, ys[j] - 1, rng.choice(E)) if E[0] <= v <= E[-1] or ti.kind == 'fld'] or [ys[j]])
    if ti.kind == 'fld':
        ys[j] %= ti.p
    if ti.kind == 'fxp' and ys[j] % ti.one == 0:
        ys[j] += 1
    cs = CMPS if (ranged and ti.kind != 'fld') else ('eq', 'ne')
    for other in (ys, list(xs)):
        for cc in cs:
            cops.append({'op': 'cmp', 'c': cc, 'swap': rng.random() < 0.5, 'ys': other, 'yform': rng.randrange(3)})
    if ranged and ti.kind != 'fld':
        cops.append({'op': 'sort'})
    if not ti.char2:
        cops.append({'op': 'remove', 'v': rng.choice(items), 'wrap': rng.random() < 0.5})
        cops.append({'op': 'contains', 'v': items[-1], 'wrap': False})
    return cops



# ------------------------------------------------------------------------------------------
# multi-party streams in the in-process simulator (lib/sim.py): concurrency and aliasing

class SimWatchdog(Exception):
    pass


class PerCasePolicy:
    """one fresh delivery policy per case (re-armed when the last party finishes a case); a case that needs more
    than `limit` scheduler rounds is declared hanging"""

    def __init__(self, factory, limit):
        self.factory = factory
        self.k = 0
        self.cur = factory(0)
        self.limit = limit
        self.rounds = 0

    def tick(self):
        self.k += 1
        self.cur = self.factory(self.k)
        self.rounds = 0

    def deliver(self, net):
        self.rounds += 1
        if self.rounds > self.limit:
            raise SimWatchdog()
        return self.cur.deliver(net)


def sim_batch(m, t, cases, case_coro, seed, factory, idle_limit=2500):
    """run cases in order in one simulator; at the first case that does not complete the simulator is discarded
    and the rest continues in a fresh one.  Result per case: value agreed by all parties | ('DIVERGE', values) |
    ('HANG', detail) | ('EXC', text)"""
    from lib.sim import Sim
    results = [None] * len(cases)
    i = 0
    while i < len(cases):
        sim = Sim(m, t, seed=seed + i, track_tasks=False, log_messages=False)
        errs = []
        sim.loop.set_exception_handler(lambda loop, c: errs.append(repr(c.get('exception'))[:160]))
        try:
            sim.start()
            if not sim.started:
                raise RuntimeError('simulator start failed')
            prog_res = [[None] * len(cases) for _ in range(m)]
            start = i
            pol = PerCasePolicy(lambda k, start=start: factory(start + k), 4000 if m == 1 else 400000)

            async def prog(mpc, mods, pid, start=start, prog_res=prog_res, pol=pol):
                for j in range(start, len(cases)):
                    try:
                        r = await case_coro(mpc, mods, pid, cases[j])
                    except Exception as e:   # noqa
                        r = ('EXC', type(e).__name__ + ': ' + str(e)[:80])
                    prog_res[pid][j] = ('ok', r)
                    if pid == m - 1:
                        pol.tick()
                return True
            try:
                sim.run(prog, pol, idle_limit=idle_limit, max_rounds=10**9)
            except SimWatchdog:
                pass
            for j in range(start, len(cases)):
                col = [prog_res[k][j] for k in range(m)]
                if all(c is not None for c in col):
                    vals = [c[1] for c in col]
                    results[j] = vals[0] if all(v == vals[0] for v in vals) else ('DIVERGE', vals)
                    i = j + 1
                else:
                    exc = [e for e in errs if 'CancelledError' not in e and 'InvalidState' not in e]
                    results[j] = ('HANG', {'parties_done': [c is not None for c in col], 'task_exceptions': exc[:3]})
                    i = j + 1
                    break
        finally:
            sim.close()
    return results


def _sim_key(mpc, ti, key, secindex, m):
    """secret index object from genuinely shared values"""
    T = ti.T
    bits = lambda u, j: mpc.input([T(b) for b in u], senders=j % m) if u else []    # noqa: E731
    if key[0] == 'num':
        return mpc.input(T(key[1]), senders=1 % m)
    if key[0] == 'vec':
        return bits(key[1], 2)
    return secindex(bits(key[2], 1), offset=key[1], sectype=T)


def _sim_apply(mpc, mods, ti, s, c, m, keyobj=None, ysobj=None):
    """launch ONE seclist operation without awaiting anything; returns (s', kind, handle):
    kind 'fut' (await it), 'elem'/'small'/'list' (handle = mpc.output future), None"""
    seclist = mods['mpyc.seclists'].seclist
    secindex = mods['mpyc.seclists'].secindex
    T = ti.T
    op = c['op']
    sh = lambda v, j=1: mpc.input(T(ti.to_impl(v)), senders=j % m)     # noqa: E731
    key = keyobj if keyobj is not None else (_sim_key(mpc, ti, c['key'], secindex, m) if 'key' in c else None)
    ys = ysobj if ysobj is not None else (mpc.input([T(ti.to_impl(y)) for y in c['ys']], senders=2 % m) if c.get('ys') else [])
    if op == 'remove':
        return s, 'fut', s.remove(sh(c['v']))
    if op in ('count', 'contains', 'find', 'index'):
        r = getattr(s, op)(sh(c['v']))
        return s, 'small', (r if isinstance(r, (bool, int)) else mpc.output(r))
    if op == 'sort':
        s.sort()
        return s, None, None
    if op == 'reverse':
        s.reverse()
        return s, None, None
    if op == 'get':
        return s, 'elem', mpc.output(s[key])
    if op == 'pop':
        return s, 'elem', mpc.output(s.pop(key))
    if op == 'set':
        s[key] = sh(c['v'])
        return s, None, None
    if op == 'del':
        del s[key]
        return s, None, None
    if op == 'ins':
        s.insert(key, sh(c['v']))
        return s, None, None
    if op == 'append':
        s.append(sh(c['v']))
        return s, None, None
    if op == 'extend':
        s.extend(ys)
        return s, None, None
    if op == 'addr':
        return s + ys, None, None
    if op == 'copy':
        t = s.copy()
        return t, 'list', (mpc.output(list(t)) if len(t) else [])
    if op == 'getslice':
        t = s[slice(c['start'], c['stop'])]
        return s, 'list', (mpc.output(list(t)) if len(t) else [])
    if op == 'setslice':
        s[slice(c['start'], c['stop'])] = ys
        return s, None, None
    if op == 'cmp':
        x, y = (seclist(ys, T), s) if c['swap'] else (s, ys)
        cc = c['c']
        r = (x < y if cc == 'lt' else x <= y if cc == 'le' else x == y if cc == 'eq' else
             x != y if cc == 'ne' else x >= y if cc == 'ge' else x > y)
        return s, 'small', (r if isinstance(r, (bool, int)) else mpc.output(r))
    raise RuntimeError('unknown op ' + op)


async def _sim_collect(ti, kind, h):
    if kind is None:
        return None
    if kind == 'fut':
        await h
        return None
    if isinstance(h, (bool, int)):
        return ('Z', int(h))
    v = await h if not isinstance(h, list) else h
    if kind == 'elem':
        return ('Z', ti.canon(v))
    if kind == 'small':
        return ('Z', int(v))
    return ('L', [ti.canon(x) for x in v])


def USER_MOD_KINDS():
    P1, P3 = user_moduli()
    pool = [-3, -2, -1, 0, 1, 2, 3, 4]
    return [{'kind': 'int', 'l': 64, 'pmod': P1, 'pool': pool}, {'kind': 'int', 'l': 64, 'pmod': P3, 'pool': pool}]


def _mk_ti(mpc, d):
    return TI(mpc, d['kind'], d.get('p'), l=d.get('l'), pmod=d.get('pmod'))


async def conc_coro(mpc, mods, pid, case):
    """operations on two lists launched without awaiting while unrelated secure work is issued and awaited; a pending
    remove() is awaited only before the next operation on the SAME list (or at the end), so removes on the two lists
    overlap with each other and with the unrelated work"""
    m = len(mpc.parties)
    seclist = mods['mpyc.seclists'].seclist
    ti = _mk_ti(mpc, case)
    T = ti.T
    S = [seclist(mpc.input([T(ti.to_impl(c)) for c in init], senders=w % m) if init else [], T)
         for w, init in enumerate(case['inits'])]
    cvals = [(k * 7) % 11 - 5 for k in range(12)]
    cx = mpc.input([T(v) for v in cvals], senders=0)            # operands of the unrelated work, shared once
    pend = [None, None]
    handles = []
    q = 0
    chat_bad = None
    for seg in case['segs']:
        w = seg['w']
        if pend[w] is not None:
            await pend[w]
            pend[w] = None
        S[w], kind, h = _sim_apply(mpc, mods, ti, S[w], seg, m)
        if kind == 'fut':
            pend[w] = h
            handles.append((None, None))
        else:
            handles.append((kind, h))
        for _ in range(seg['chat']):
            a, b = cvals[q % 12], cvals[(q * 5 + 1) % 12]
            x, y = cx[q % 12], cx[(q * 5 + 1) % 12]
            if q % 4 == 0:
                got, want = int(await mpc.output(x + y)), (a + b) % ti.p if ti.kind == 'fld' else a + b
            elif ti.kind != 'fld' and q % 4 == 2:
                got, want = int(await mpc.output(x < y)), int(a < b)
            else:
                got, want = int(await mpc.output(x * y)), (a * b) % ti.p if ti.kind == 'fld' else a * b
            if got != want and chat_bad is None:
                chat_bad = [q, got, want]
            q += 1
    for w in (0, 1):
        if pend[w] is not None:
            await pend[w]
    outs = []
    for kind, h in handles:
        outs.append(await _sim_collect(ti, kind, h))
    finals = [([ti.canon(v) for v in await mpc.output(list(s))] if len(s) else []) for s in S]
    return (chat_bad, outs, finals)


def gen_conc_case(rng, kinds):
    d = dict(rng.choice(kinds))
    ti_pool = d.pop('pool')
    inits = [[rng.choice(ti_pool) for _ in range(rng.randrange(2, 6))] for _ in (0, 1)]
    refs = [list(x) for x in inits]
    segs = []
    ops = ['remove'] * 8 + ['index', 'find', 'count', 'contains', 'ins', 'ins', 'get', 'pop', 'set', 'del']
    if d['kind'] != 'fld':
        ops += ['sort']
    for k in range(rng.randrange(3, 7)):
        op = rng.choice(ops)
        w = k % 2 if rng.random() < 0.8 else rng.randrange(2)
        ref = refs[w]
        c = {'op': op, 'w': w, 'chat': rng.choice([2, 4, 6, 10, 15, 20, 30])}
        if op in ('remove', 'index'):
            if not ref:
                continue
            c['v'] = rng.choice(ref)
        elif op in ('find', 'count', 'contains'):
            c['v'] = rng.choice(ref) if ref and rng.random() < 0.7 else rng.choice(ti_pool)
        elif op in ('ins', 'get', 'pop', 'set', 'del'):
            N = len(ref) + 1 if op == 'ins' else len(ref)
            if N == 0 or (op == 'ins' and len(ref) >= 7):
                continue
            a = rng.randrange(N)
            c['key'] = rng.choice([['num', a], ['vec', unit(a, N)]])
            if op in ('ins', 'set'):
                c['v'] = rng.choice(ti_pool)
        segs.append(c)
        refs[w], _ = _oracle_len(ref, c)
    d.update(inits=inits, segs=segs)
    return d


def conc_expected(case):
    class _T:
        p = case.get('p')
        red = staticmethod((lambda z: z % case['p']) if case['kind'] == 'fld' else (lambda z: z))
    refs = [list(x) for x in case['inits']]
    outs = []
    for c in case['segs']:
        refs[c['w']], o = oracle_step(_T, refs[c['w']], c)
        outs.append(o)
    return (None, outs, refs)


def concurrency_stream(ctx):
    """m=3, t=1: remove/index/find/count/contains/sort/insert/get/pop/set/del with secret index LAUNCHED without awaiting
    while 10-30 unrelated secure multiplications/comparisons are issued and awaited, under RandomOrder / ReverseLinks /
    Hold schedules; all parties must finish, agree, and match the Python list."""
    import random as _random
    from lib.sim import RandomOrder, ReverseLinks, Hold
    rng = ctx.rng
    kinds = [{'kind': 'int', 'pool': [-3, -2, -1, 0, 1, 2, 3, 4]},
             {'kind': 'int', 'pool': [-3, -2, -1, 0, 1, 2, 3, 4]},
             {'kind': 'fld', 'p': 101, 'pool': [0, 1, 2, 3, 4, 5, 99, 100]}] + USER_MOD_KINDS()
    cases = [gen_conc_case(rng, kinds) for _ in range(ctx.n(60, 300))]
    cases = [c for c in cases if c['segs']]
    names = ['RandomOrder', 'ReverseLinks', 'Hold', 'RandomOrder']

    def factory(k, base=ctx.seed * 7907 + 5):
        nm = names[k % len(names)]
        if nm == 'RandomOrder':
            return RandomOrder(_random.Random(base + k))
        if nm == 'ReverseLinks':
            return ReverseLinks()
        return Hold({(0, 1), (2, 0), (1, 2)}, 40)
    res = sim_batch(3, 1, cases, conc_coro, ctx.seed + 311, factory)
    nbad = 0
    for k, (case, got) in enumerate(zip(cases, res)):
        want = conc_expected(case)
        key = {'concurrent': case, 'policy': names[k % len(names)]}
        ctx.case(key, nontrivial=True, kind='concurrent m=3 ' + names[k % len(names)])
        g = got
        if isinstance(g, tuple) and len(g) == 3 and not (isinstance(g[0], str)):
            g = (g[0], [tuple(o) if isinstance(o, (list, tuple)) else o for o in g[1]], [list(x) for x in g[2]])
        if g != want:
            nbad += 1
            what = g[0] if isinstance(g, tuple) and isinstance(g[0], str) else 'WRONG'
            ctx.violation('concurrent-history m=3 %s ops=%s policy=%s' % (what, '+'.join(c['op'] for c in case['segs']), names[k % len(names)]),
                          {'case': case, 'policy': names[k % len(names)], 'got': str(got)[:800], 'want': str(want)[:800]})
    ctx.extra['concurrent_histories_m3'] = len(cases)
    ctx.log('concurrency stream m=3: %d histories, %d bad' % (len(cases), nbad))


# ---- aliasing: call, mutate the receiver / the argument container in place, then await

SELF_MUTS = ('reverse', 'set0', 'del0', 'ins0')
ARG_MUTS = ('reverse', 'swap_ends', 'del0', 'clear')


def _mutate_ref(ref, mut, alt):
    if mut == 'reverse':
        ref.reverse()
    elif mut == 'set0':
        ref[0] = alt
    elif mut == 'del0':
        del ref[0]
    elif mut == 'ins0':
        ref.insert(0, alt)


async def alias_coro(mpc, mods, pid, case):
    m = len(mpc.parties)
    seclist = mods['mpyc.seclists'].seclist
    secindex = mods['mpyc.seclists'].secindex
    ti = _mk_ti(mpc, case)
    T = ti.T
    c = case['op']
    s = seclist(mpc.input([T(ti.to_impl(v)) for v in case['init']], senders=0) if case['init'] else [], T)
    alt = mpc.input(T(ti.to_impl(case['alt'])), senders=1 % m)
    keyobj = _sim_key(mpc, ti, c['key'], secindex, m) if 'key' in c else None
    ysobj = mpc.input([T(ti.to_impl(y)) for y in c['ys']], senders=2 % m) if c.get('ys') else ([] if 'ys' in c else None)
    s0 = s
    s, kind, h = _sim_apply(mpc, mods, ti, s, c, m, keyobj=keyobj, ysobj=ysobj)
    mut = case['mut']
    if case['target'] == 'self':
        tgt = s0
        if mut == 'reverse':
            tgt.reverse()
        elif mut == 'set0':
            tgt[0] = alt
        elif mut == 'del0':
            del tgt[0]
        else:
            tgt.insert(0, alt)
    else:
        tgt = ysobj if case['target'] == 'ys' else (keyobj.value if isinstance(keyobj, secindex) else keyobj)
        if mut == 'reverse':
            tgt.reverse()
        elif mut == 'swap_ends':
            tgt[0], tgt[-1] = tgt[-1], tgt[0]
        elif mut == 'del0':
            del tgt[0]
        else:
            tgt.clear()
    out = await _sim_collect(ti, kind, h)
    final = [ti.canon(v) for v in await mpc.output(list(s))] if len(s) else []
    recv = [ti.canon(v) for v in await mpc.output(list(s0))] if len(s0) else []
    return (out, final, recv)


def gen_alias_case(rng, kinds):
    d = dict(rng.choice(kinds))
    pool = d.pop('pool')
    n = rng.randrange(2, 6)
    init = [rng.choice(pool[:4]) for _ in range(n)]
    ops = ['remove', 'remove', 'remove', 'count', 'contains', 'find', 'index', 'get', 'set', 'del', 'ins', 'pop',
           'extend', 'addr', 'copy', 'getslice', 'setslice', 'cmp', 'cmp', 'append', 'reverse']
    if d['kind'] != 'fld':
        ops.append('sort')
    op = rng.choice(ops)
    c = {'op': op}
    targets = ['self']
    if op in ('remove', 'index'):
        c['v'] = rng.choice(init)
    elif op in ('count', 'contains', 'find'):
        c['v'] = rng.choice(init + pool)
    elif op in ('get', 'set', 'del', 'ins', 'pop'):
        N = n + 1 if op == 'ins' else n
        a = rng.randrange(N)
        kk = rng.choice(['num', 'vec', 'vec', 'sec'])
        if kk == 'num':
            c['key'] = ['num', a]
        elif kk == 'vec':
            c['key'] = ['vec', unit(a, N)]
            targets.append('key')
        else:
            off = rng.randrange(a + 1)
            c['key'] = ['sec', off, unit(a - off, N - off)]
            if N - off >= 1:
                targets.append('key')
        if op in ('set', 'ins'):
            c['v'] = rng.choice(pool)
    elif op in ('extend', 'addr', 'setslice'):
        c['ys'] = [rng.choice(pool) for _ in range(rng.randrange(1, 4))]
        targets.append('ys')
        if op == 'setslice':
            c['start'], c['stop'] = rng.randrange(0, n), rng.randrange(0, n + 1)
    elif op == 'getslice':
        c['start'], c['stop'] = rng.randrange(0, n), rng.randrange(0, n + 1)
    elif op == 'cmp':
        ys = list(init)
        if rng.random() < 0.6:
            ys[rng.randrange(n)] = rng.choice(pool)
        if rng.random() < 0.3:
            ys = ys[:rng.randrange(1, n + 1)]
        c.update(c=rng.choice(CMPS if d['kind'] != 'fld' else ('eq', 'ne')), swap=False, ys=ys)
        targets.append('ys')
    elif op == 'append':
        c['v'] = rng.choice(pool)
    target = rng.choice(targets)
    mut = rng.choice(SELF_MUTS if target == 'self' else ARG_MUTS)
    d.update(init=init, op=c, target=target, mut=mut, alt=rng.choice(pool))
    return d


def alias_expected(case):
    """Python list semantics in program order: the operation acts on the values at call time, then the
    mutation of the receiver happens; a mutation of the argument container afterwards is irrelevant"""
    class _T:
        red = staticmethod((lambda z: z % case['p']) if case['kind'] == 'fld' else (lambda z: z))
    c = case['op']
    ref0 = list(case['init'])
    ref, out = oracle_step(_T, ref0, c)
    newobj = c['op'] in ('addr', 'copy')          # result is a NEW list; the receiver keeps its contents
    recv = list(case['init']) if newobj else ref
    if c['op'] == 'copy':
        pass
    if case['target'] == 'self':
        _mutate_ref(recv, case['mut'], case['alt'])
    final = ref if newobj else recv
    if c['op'] == 'copy':
        out = ('L', list(case['init']))
    return (out, final, recv)


def aliasing_stream(ctx):
    """every seclist operation: call (nothing awaited), mutate the seclist or the argument list / index vector in place,
    then await; m=1 in asynchronous mode (-M1) and m=3; expected = Python list semantics at call time"""
    import random as _random
    from lib.sim import Fifo, RandomOrder
    rng = ctx.rng
    kinds = [{'kind': 'int', 'pool': [-3, -2, -1, 0, 1, 2, 3, 4]},
             {'kind': 'int', 'pool': [-3, -2, -1, 0, 1, 2, 3, 4]},
             {'kind': 'fld', 'p': 101, 'pool': [0, 1, 2, 3, 4, 5, 99, 100]}] + USER_MOD_KINDS()
    for (m, t) in ((1, 0), (3, 1)):
        # the audited late read of seclist.remove (harness/alias_audit.md), always included
        cases = [{'kind': 'int', 'init': [1, 2, 3, 2], 'op': {'op': 'remove', 'v': 2}, 'target': 'self', 'mut': mu, 'alt': 7}
                 for mu in SELF_MUTS]
        while len(cases) < ctx.n(45, 400):
            c = gen_alias_case(rng, kinds)
            try:
                alias_expected(c)
            except (IndexError, ValueError):
                continue
            cases.append(c)
        fac = (lambda k: Fifo()) if m == 1 else (lambda k: (Fifo() if k % 2 else RandomOrder(_random.Random(ctx.seed * 31 + k))))
        res = sim_batch(m, t, cases, alias_coro, ctx.seed + 977 + m, fac, idle_limit=1500)
        nbad = 0
        for case, got in zip(cases, res):
            want = alias_expected(case)
            ctx.case({'aliasing': case, 'm': m}, nontrivial=True, kind='aliasing m=%d %s' % (m, case['op']['op']))
            g = got
            if isinstance(g, tuple) and len(g) == 3 and not isinstance(g[0], str):
                g = (tuple(g[0]) if isinstance(g[0], (list, tuple)) else g[0], list(g[1]), list(g[2]))
                if g[0] is not None and g[0][0] == 'L':
                    g = (('L', list(g[0][1])), g[1], g[2])
            if g != want:
                nbad += 1
                ctx.violation('aliasing seclist.%s mutation=%s target=%s m=%d' % (case['op']['op'], case['mut'], case['target'], m),
                              {'case': case, 'm': m, 'got (result, final list, receiver)': str(got)[:600], 'want': str(want)[:600],
                               'program': 'r = op(s, args)  # nothing awaited; <mutate target in place>; await r; open'})
        ctx.extra['aliasing_cases_m%d' % m] = len(cases)
        ctx.log('aliasing stream m=%d: %d cases, %d differ from call-time semantics' % (m, len(cases), nbad))


# ------------------------------------------------------------------------------------------

def run(ctx):
    import sys
    if not any(a == '--no-log' for a in sys.argv):
        sys.argv = [sys.argv[0], '--no-log']
    from mpyc.runtime import mpc
    from mpyc.seclists import seclist, secindex
    mpc.logging(False)
    mpc.run(mpc.start())
    ok = ctx.build(['MPyC.SecList']) and ctx.check_props()
    rng = ctx.rng
    ctx.rule = ('case = (element type, initial list of length <= 8, history of <= 12 operations); operations drawn from secret-'
                'index get/set/del/insert/pop with index kinds secure number / unit-vector list / secindex(offset) / secindex sum, '
                'public int (negative, out of range) and slice variants, append/extend/+=/+/radd/*/rmul/*=/copy/reverse/sort, '
                'count/contains/find/index/remove (present, duplicate and absent values), six comparisons against equal lists, '
                'prefixes, one-off variants, empties; non-trivial when the history has a secret-index, search, sort or comparison op; '
                'distinct = distinct (type, init, concrete history)')
    ctx.explanation = ('every history is run on the real seclist (state opened after every operation), on a Python list, and in Coq '
                       'on the model (run step) and on the abstract interpreter of the theorems (run pystep); all four traces must agree')

    types = [TI(mpc, 'int'), TI(mpc, 'fxp'), TI(mpc, 'fld', 101), TI(mpc, 'fld', 11), TI(mpc, 'fld', 2**61 - 1)]
    P1, P3 = user_moduli()
    # secure integers over USER-SUPPLIED prime moduli (1 mod 4: not a Blum prime; 3 mod 4), bit lengths on both sides of
    # 2*sec_param (the equality test switches protocol there)
    types += [TI(mpc, 'int', l=64, pmod=P1), TI(mpc, 'int', l=64, pmod=P3), TI(mpc, 'int', l=32, pmod=P1), TI(mpc, 'int', l=64)]
    per_type = ctx.n(60, 700)
    maxops = 12
    exprs, meta = [], []
    nviol = 0
    for tix, ti in enumerate(types):
        for h in range(per_type if tix < 5 else max(12, per_type // 3)):
            init, aops, cops = gen_history(rng, ti, maxops if h % 4 else 4)
            ti_tr = run_impl(ti, init, cops, seclist, secindex)
            or_tr = run_oracle(ti, init, cops)
            d = first_diff(ti_tr, or_tr)
            key = {'type': ti.name, 'init': init, 'ops': [coq_op(c) for c in cops]}
            ctx.case(key, nontrivial=nontrivial(cops), kind=ti.name)
            for c in cops:
                k = 'op:' + c['op'] + ('/' + c['key'][0] if 'key' in c else '')
                ctx.hist[k] = ctx.hist.get(k, 0) + 1
            if d is not None:
                nviol += 1
                if nviol <= 6:
                    sinit, saops, scops, sd = shrink(ti, init, aops, seclist, secindex)
                    if scops is None:
                        sinit, scops, sd = init, cops, d
                    si = run_impl(ti, sinit, scops, seclist, secindex)
                    so = run_oracle(ti, sinit, scops)
                    bad = scops[sd]
                    ctx.violation('history-mismatch %s op=%s%s' % (ti.name, bad['op'], ('/' + bad['key'][0]) if 'key' in bad else ''),
                                  {'type': ti.name, 'init': sinit, 'history': scops, 'first_bad_step': sd,
                                   'impl': si[sd] if sd < len(si) else None, 'python_list': so[sd],
                                   'impl_trace': si, 'python_trace': so, 'unshrunk': {'init': init, 'history': cops}})
                continue
            exprs.append('let x := %s in let h := [%s] in (run step x h, run pystep x h, valid_histb x h)' % (
                zlist(init), '; '.join(coq_op(c) for c in cops)))
            meta.append(('hist', ti, key, ti_tr, or_tr))
    ctx.log('%d histories on the implementation vs Python list: %d mismatching' % (ctx.evaluations, nviol))

    # ---- non-unit index vectors: implementation vs model only (the property does not define them)
    nraw = ctx.n(80, 600)
    for h in range(nraw):
        ti = types[h % 3] if h % 5 else types[3]
        n = rng.randrange(1, 6)
        init = [rng.choice(ti.pool) for _ in range(n)]
        cur = n
        cops = []
        for _ in range(rng.randrange(1, 4)):
            op = rng.choice(SECRET_OPS)
            N = cur + 1 if op == 'ins' else cur
            if N == 0:
                break
            vec = [0] * N
            for _k in range(rng.randrange(1, 4)):
                vec[rng.randrange(N)] = rng.choice([-1, 1, 1, 2])
            if rng.random() < 0.4:
                off = rng.randrange(N + 1)
                keyk = ['sec', off, vec[off:]]
            else:
                keyk = ['vec', vec]
            c = {'op': op, 'key': keyk}
            if op in ('set', 'ins'):
                c['v'] = rng.choice(ti.pool)
                c['wrap'] = rng.random() < 0.5
            cops.append(c)
            cur += 1 if op == 'ins' else -1 if op in ('del', 'pop') else 0
        tr = run_impl(ti, init, cops, seclist, secindex)
        key = {'type': ti.name, 'init': init, 'rawvec': [coq_op(c) for c in cops]}
        ctx.case(key, nontrivial=True, kind='rawvec ' + ti.name)
        exprs.append('run step %s' % coq_hist(init, cops))
        meta.append(('raw', ti, key, tr, None))

    # ---- malformed index lengths: IndexError, state unchanged
    nmal = ctx.n(40, 300)
    for h in range(nmal):
        ti = types[h % 3]
        n = rng.randrange(0, 5)
        init = [rng.choice(ti.pool) for _ in range(n)]
        op = rng.choice(SECRET_OPS)
        N = n + 1 if op == 'ins' else n
        L = rng.choice([x for x in (0, N - 1, N + 1, N + 2) if x >= 0 and x != N])
        vec = unit(rng.randrange(L), L) if L else []
        if rng.random() < 0.5 or not L:
            keyk = ['vec', vec]
        else:
            off = rng.randrange(L + 1)
            keyk = ['sec', off, vec[off:]]
        c = {'op': op, 'key': keyk}
        if op in ('set', 'ins'):
            c['v'] = rng.choice(ti.pool)
            c['wrap'] = False
        tr = run_impl(ti, init, [c], seclist, secindex)
        key = {'type': ti.name, 'init': init, 'malformed': coq_op(c)}
        ctx.case(key, nontrivial=False, kind='malformed index length')
        if tr != [(init, ('Err', 'Index'))]:
            ctx.violation('malformed-index-length %s op=%s' % (ti.name, op),
                          {'type': ti.name, 'init': init, 'op': c, 'impl': tr, 'expected': 'IndexError, list unchanged'})
        exprs.append('run step %s' % coq_hist(init, [c]))
        meta.append(('raw', ti, key, tr, None))

    # ---- comparisons of lists of length 4..9 differing at several positions (>= 2 inside one half of the
    #      _norm split), all six operators both ways; the opened result must be exactly Python's 0/1
    ncmp = ctx.n(60, 400)
    for h in range(ncmp):
        ti = types[h % 2] if h % 6 else types[2]
        x, y = gen_cmp_pair(rng, ti)
        cs = CMPS if ti.kind != 'fld' else ('eq', 'ne')
        cops = [{'op': 'cmp', 'c': cc, 'swap': sw, 'ys': y, 'yform': rng.randrange(3)} for cc in cs for sw in (False, True)]
        itr = run_impl(ti, x, cops, seclist, secindex)
        otr = run_oracle(ti, x, cops)
        key = {'type': ti.name, 'x': x, 'y': y, 'cmp': 'all operators, both orders'}
        ctx.case(key, nontrivial=True, kind='cmp multi-diff ' + ti.name)
        d = first_diff(itr, otr)
        if d is not None:
            c = cops[d]
            ctx.violation('comparison-mismatch %s %s%s len %d/%d' % (ti.name, c['c'], ' swapped' if c['swap'] else '', len(x), len(y)),
                          {'type': ti.name, 'x': x, 'y': y, 'operator': c['c'], 'swapped': c['swap'],
                           'impl': itr[d] if d < len(itr) else None, 'python': otr[d]})
            continue
        exprs.append('let x := %s in let h := [%s] in (run step x h, run pystep x h, valid_histb x h)' % (
            zlist(x), '; '.join(coq_op(c) for c in cops)))
        meta.append(('hist', ti, key, itr, otr))

    # ---- the same Python index object reused across consecutive operations (and across two lists)
    nreuse = ctx.n(90, 500)
    for h in range(nreuse):
        ti = types[h % 3]
        kind, bad, detail, lists = reuse_history(rng, ti, seclist, secindex)
        ctx.case({k: detail[k] for k in ('type', 'key', 'inits', 'ops_on_s', 'ops_on_t')}, nontrivial=True, kind='index object reuse/' + kind)
        if bad is not None:
            ctx.violation('index-object-reuse %s kind=%s op=%s' % (ti.name, kind, bad['op']), detail)
            continue
        for (init, cops, itr, otr) in lists:
            exprs.append('let x := %s in let h := [%s] in (run step x h, run pystep x h, valid_histb x h)' % (
                zlist(init), '; '.join(coq_op(c) for c in cops)))
            meta.append(('hist', ti, {'type': ti.name, 'init': init, 'ops': [coq_op(c) for c in cops], 'reuse': True}, itr, otr))

    # ---- extreme in-range values for every value-dependent operation (Python list oracle + Coq model)
    xtypes = [TI(mpc, 'int', l=8), TI(mpc, 'int', l=16), TI(mpc, 'int', l=32), TI(mpc, 'int', l=64),
              TI(mpc, 'fxp', l=32, f=16), TI(mpc, 'fxp', l=16, f=8),
              TI(mpc, 'int', l=64, pmod=P1), TI(mpc, 'int', l=64, pmod=P3), TI(mpc, 'int', l=32, pmod=P1),
              TI(mpc, 'fld', 11), TI(mpc, 'fld', 13), TI(mpc, 'fld', 101), TI(mpc, 'fld', 257), TI(mpc, 'fld', 65537),
              TI(mpc, 'fld', 2**8, char2=True)]
    xtypes[-1].name = 'secfld(2^8)'
    nx = 0
    for ti in xtypes:
        for h in range(ctx.n(10, 60)):
            ranged = (h % 2 == 1)
            xs, items = gen_extreme_case(rng, ti, ranged)
            if not items:
                continue
            cops = extreme_history(rng, ti, xs, items, ranged)
            itr = run_impl(ti, xs, cops, seclist, secindex)
            otr = run_oracle(ti, xs, cops)
            nx += 1
            key = {'type': ti.name, 'extreme': xs, 'items': items, 'ranged': ranged, 'ops': [coq_op(c) for c in cops]}
            ctx.case(key, nontrivial=True, kind='extreme values ' + ti.name)
            d = first_diff(itr, otr)
            if d is not None:
                c = cops[d]
                before = otr[d - 1][0] if d else xs
                ctx.violation('extreme-values %s op=%s%s' % (ti.name, c['op'], ('/' + c['c']) if 'c' in c else ''),
                              {'type': ti.name, 'list_before': before, 'op': c, 'impl': itr[d] if d < len(itr) else None,
                               'python_list': otr[d], 'init': xs, 'history': cops[:d + 1]})
                continue
            exprs.append('let x := %s in let h := [%s] in (run step x h, run pystep x h, valid_histb x h)' % (
                zlist(xs), '; '.join(coq_op(c) for c in cops)))
            meta.append(('hist', ti, key, itr, otr))
    ctx.extra['extreme_value_cases'] = nx

    # ---- evaluate model and abstract interpreter in Coq
    if ok:
        ctx.log('evaluating %d histories in Coq' % len(exprs))
        res = ctx.coq_eval(['MPyC.SecList'], exprs, chunk=ctx.n(70, 150))
        agree = 0
        for r, (what, ti, key, itr, otr) in zip(res, meta):
            if isinstance(r, tuple) and r and r[0] == 'ERROR':
                ctx.broken.append({'kind': 'correspondence', 'what': 'coq evaluation failed', 'case': key, 'detail': r[1]})
                continue
            try:
                if what == 'hist':
                    mtr, ptr = coq_trace(ti, r[0]), coq_trace(ti, r[1])
                    if r[2] is not True:
                        ctx.broken.append({'kind': 'correspondence', 'what': 'generated history is outside the hypothesis '
                                           'valid_hist of C31_history_refines', 'case': key})
                        continue
                else:
                    mtr, ptr = coq_trace(ti, r), None
            except Exception as e:   # noqa
                ctx.broken.append({'kind': 'correspondence', 'what': 'unparsable Coq value', 'case': key, 'detail': str(e)})
                continue
            itr_c = [([ti.red(v) for v in st] if st is not None else None, o) for st, o in itr]
            if what == 'raw' and ti.kind != 'fld':
                # stay inside the representable range of the secure type (no wrap-around modelled)
                lim = (1 << 30) if ti.kind == 'int' else (1 << (14 + FRAC))
                cut = len(mtr)
                for i, (st, o) in enumerate(mtr):
                    vals = list(st) + ([o[1]] if o and o[0] == 'Z' else [])
                    if any(abs(v) >= lim for v in vals):
                        cut = i
                        break
                mtr, itr_c = mtr[:cut], itr_c[:cut]
            d = first_diff(mtr, itr_c)
            if d is not None:
                ctx.broken.append({'kind': 'correspondence', 'what': 'model (run step) != implementation', 'case': key, 'step': d,
                                   'model': str(mtr[d] if d < len(mtr) else None), 'impl': str(itr_c[d] if d < len(itr_c) else None)})
                continue
            if ptr is not None:
                d = first_diff(ptr, [([ti.red(v) for v in st], o) for st, o in otr])
                if d is not None:
                    ctx.broken.append({'kind': 'correspondence', 'what': 'abstract interpreter (run pystep) != Python list',
                                       'case': key, 'step': d, 'pystep': str(ptr[d] if d < len(ptr) else None), 'python': str(otr[d])})
                    continue
            agree += 1
        ctx.extra['traces_validated_against_impl'] = agree
        ctx.log('Coq model / interpreter agreement on %d of %d histories; broken: %d' % (agree, len(exprs), len(ctx.broken)))

    # ---- Python-list-only streams: extended slices, binary field, lists as long as a small field
    extra_checks(ctx, mpc, seclist, secindex, types)

    # ---- only the length is public (implementation level): twin histories, identical call traces
    tr = CallTrace(mpc)
    nshape, ntw = ctx.n(60, 400), 0
    try:
        for h in range(nshape):
            ti = types[h % 3]
            init, aops, cops = gen_history(rng, ti, 8)
            # remove/index make the PRESENCE of the value public by design (ValueError, like Python)
            # secfld secure-number indices go through to_bits on a prime field, whose rejection sampling makes
            # the trace depend on the (public) random coins: not comparable between two runs
            cut = [i for i, c in enumerate(cops) if c['op'] in ('remove', 'index') or
                   (ti.kind == 'fld' and 'key' in c and c['key'][0] in ('num', 'add'))]
            if cut:
                cops = cops[:cut[0]]
            if not cops:
                continue
            init2, cops2 = twin(rng, ti, init, cops)
            a = traced_run(ti, tr, init, [dict(c) for c in cops], seclist, secindex, rng)
            b = traced_run(ti, tr, init2, cops2, seclist, secindex, rng)
            ntw += 1
            ctx.case({'type': ti.name, 'shape_twin': [coq_op(c) for c in cops], 'init': init, 'init2': init2},
                     nontrivial=nontrivial(cops), kind='shape twin')
            if a != b:
                d = next(i for i, (x, y) in enumerate(zip(a, b)) if x != y)
                ctx.violation('shape-leak %s op=%s' % (ti.name, cops[d]['op']),
                              {'type': ti.name, 'init': init, 'history': cops, 'twin_init': init2, 'twin_history': cops2,
                               'step': d, 'trace': a[d], 'twin_trace': b[d]})
    finally:
        tr.restore()
    ctx.extra['shape_twin_histories'] = ntw
    ctx.extra['public_typed_results_on_empty_lists'] = sum(t.public_results for t in types)

    # ---- multi-party simulator streams (run last: the simulator replaces the event loop and the mpyc modules)
    try:
        concurrency_stream(ctx)
        aliasing_stream(ctx)
    finally:
        import logging as _logging
        _logging.disable(_logging.NOTSET)

    if ctx.broken and not ctx.violations:
        ctx.unproved('C31 model/proof', {'broken': ctx.broken[:5]})


def extra_checks(ctx, mpc, seclist, secindex, types):
    rng = ctx.rng
    # extended slices (get / del / set with equal length), Python list only
    nx = 0
    for h in range(ctx.n(60, 300)):
        ti = types[h % 3]
        n = rng.randrange(0, 9)
        init = [rng.choice(ti.pool) for _ in range(n)]
        s = seclist([ti.to_impl(v) for v in init], ti.T)
        ref = list(init)
        b = lambda: rng.choice([None, 0, 1, -1, n, rng.randrange(-n - 2, n + 3)])   # noqa: E731
        sl = slice(b(), b(), rng.choice([-3, -2, -1, 2, 3]))
        what = rng.choice(['get', 'del', 'set'])
        if what == 'get':
            got, want = ti.open_list(s[sl]), ref[sl]
        elif what == 'del':
            del s[sl]
            del ref[sl]
            got, want = ti.open_list(s), ref
        else:
            k = len(ref[sl])
            ys = [rng.choice(ti.pool) for _ in range(k)]
            s[sl] = [ti.to_impl(y) for y in ys]
            ref[sl] = ys
            got, want = ti.open_list(s), ref
        nx += 1
        ctx.case({'type': ti.name, 'init': init, 'extslice': [sl.start, sl.stop, sl.step], 'what': what},
                 nontrivial=False, kind='extended slice')
        if got != want:
            ctx.violation('extended-slice %s %s' % (ti.name, what), {'type': ti.name, 'init': init,
                          'slice': [sl.start, sl.stop, sl.step], 'what': what, 'got': got, 'want': want})
    # sort(reverse=True) and sort with key, Python list only
    for h in range(ctx.n(20, 100)):
        ti = types[h % 2]
        init = [rng.choice(ti.pool) for _ in range(rng.randrange(0, 9))]
        s = seclist([ti.to_impl(v) for v in init], ti.T)
        rev = rng.random() < 0.5
        neg = rng.random() < 0.5
        s.sort(key=(lambda a: -a) if neg else None, reverse=rev)
        want = sorted(init, key=(lambda a: -a) if neg else None, reverse=rev)
        got = ti.open_list(s)
        ctx.case({'type': ti.name, 'init': init, 'sort': [neg, rev]}, nontrivial=len(init) > 1, kind='sort key/reverse')
        if sorted(got) != sorted(want) or [(-v if neg else v) for v in got] != [(-v if neg else v) for v in want]:
            ctx.violation('sort %s' % ti.name, {'type': ti.name, 'init': init, 'neg_key': neg, 'reverse': rev, 'got': got, 'want': want})
    ctx.extra['python_list_only_checks'] = nx

    # binary field GF(2^8): unit-vector / secure-number histories against the Python list
    ti = TI(mpc, 'fld', 2**8, char2=True)
    ti.name = 'secfld(2^8)'
    for h in range(ctx.n(40, 200)):
        init, aops, cops = gen_history(rng, ti, 8)
        itr = run_impl(ti, init, cops, seclist, secindex)
        otr = run_oracle(ti, init, cops)
        # canonical -1 in characteristic 2 is 1 (find of an absent value)
        otr = [(st, ('Z', 1) if (c['op'] == 'find' and o == ('Z', -1)) else o) for (st, o), c in zip(otr, cops)]
        d = first_diff(itr, otr)
        ctx.case({'type': ti.name, 'init': init, 'ops': [coq_op(c) for c in cops]}, nontrivial=nontrivial(cops), kind=ti.name)
        if d is not None:
            bad = cops[d]
            st_before = otr[d - 1][0] if d else init
            sig = 'history-mismatch %s op=%s%s' % (ti.name, bad['op'], ('/' + bad['key'][0]) if 'key' in bad else '')
            if bad['op'] in ('index', 'remove') and bad['v'] in st_before and st_before.index(bad['v']) == 1:
                sig = 'index-sentinel-collision %s op=%s first occurrence at position 1 == -1' % (ti.name, bad['op'])
            elif bad['op'] in ('count', 'contains') and st_before.count(bad['v']) >= 2:
                sig = 'count-mod-char %s op=%s occurrences=%d' % (ti.name, bad['op'], st_before.count(bad['v']))
            ctx.violation(sig, {'type': ti.name, 'init': init, 'history': cops[:d + 1], 'first_bad_step': d,
                                'list_before': st_before, 'impl': itr[d] if d < len(itr) else None, 'python_list': otr[d]})
    # results on EMPTY lists: count/contains/==/!= return PUBLIC Python values (sum([]) = 0, all([]) = 1), the four order
    # comparisons a secure 0/1; the values are Python's, and a result that is a function of the public lengths alone
    # reveals nothing, so this is covered as an ordinary case (the type of each result is recorded)
    Te = types[0].T
    e1, e2 = seclist([], Te), seclist([], Te)
    kinds = {}
    for nm, r, want in (('==', e1 == e2, 1), ('!=', e1 != e2, 0), ('<', e1 < e2, 0), ('<=', e1 <= e2, 1), ('>', e1 > e2, 0),
                        ('>=', e1 >= e2, 1), ('count', e1.count(0), 0), ('contains', e1.contains(0), 0), ('find', e1.find(0), -1)):
        public = isinstance(r, (bool, int))
        kinds[nm] = 'public ' + type(r).__name__ if public else 'secure'
        val = int(r) if public else int(mpc.run(mpc.output(r)))
        ctx.case('probe empty lists ' + nm, nontrivial=False, kind='probe')
        if val != want:
            ctx.violation('empty-lists %s' % nm, {'call': 'seclist([]) %s seclist([])' % nm, 'got': val, 'want': want})
    ctx.extra['result_types_on_empty_lists'] = kinds
    # deterministic probes of the two characteristic-related defects and of secindex + secindex on secfxp
    F = ti.T
    s = seclist([7, 5, 9], F)
    try:
        r = int(mpc.run(mpc.output(s.index(5))))
        good = r == 1
    except ValueError:
        good = False
    ctx.case('probe index GF(2^8) pos 1', nontrivial=True, kind='probe')
    if not good:
        ctx.violation('index-sentinel-collision secfld(2^8) op=index first occurrence at position 1 == -1',
                      {'list': [7, 5, 9], 'call': 'seclist([7,5,9], SecFld(2**8)).index(5)', 'want': 1, 'got': 'ValueError'})
    s = seclist([3, 5, 3], F)
    r = int(mpc.run(mpc.output(s.contains(3))))
    ctx.case('probe contains GF(2^8) two occurrences', nontrivial=True, kind='probe')
    if r != 1:
        ctx.violation('count-mod-char secfld(2^8) op=contains occurrences=2',
                      {'list': [3, 5, 3], 'call': 'seclist([3,5,3], SecFld(2**8)).contains(3)', 'want': 1, 'got': r})
    F7 = mpc.SecFld(7)
    s = seclist([0, 1, 2, 3, 4, 5, 6], F7)
    ctx.case('probe index GF(7) pos 6', nontrivial=True, kind='probe')
    try:
        r = int(mpc.run(mpc.output(s.index(6))))
        good = r == 6
    except ValueError:
        good = False
    if not good:
        ctx.violation('index-sentinel-collision secfld(7) op=index first occurrence at position 6 == -1',
                      {'list': list(range(7)), 'call': 'seclist(range(7), SecFld(7)).index(6)', 'want': 6, 'got': 'ValueError'})
    # (secindex + secindex is a provisional helper outside the property's operation list: not probed)
