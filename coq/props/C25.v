(** C25 — number-theory helpers of mpyc/gmpy.py (the pure-Python stubs) compute what they should.
    Only statements; models and proofs are in theories/Gmpy.v.  [res] is the outcome type of the
    model: [Ok v] or the exception raised ([EValue] ValueError, [EZeroDiv] ZeroDivisionError);
    [EFuel] would be the model running out of loop fuel (excluded by the theorems). *)
Require Import MPyC.Gmpy MPyC.GmpyGcdext MPyC.GmpyRatrec MPyC.GmpyFpp MPyC.GmpyMR.
From Coq Require Import ZArith Znumtheory List Bool.
Import ListNotations.
Local Open Scope nat_scope.
Local Open Scope Z_scope.

(** ---- gcdext ---- *)
Theorem C25_gcdext_total : forall a b, exists g s t, gcdext a b = Ok (g, s, t).
Proof. exact gcdext_total. Qed.
Print Assumptions C25_gcdext_total.

Theorem C25_gcdext_bezout : forall a b g s t,
  gcdext a b = Ok (g, s, t) -> g = Z.gcd a b /\ a * s + b * t = g.
Proof. exact gcdext_spec. Qed.
Print Assumptions C25_gcdext_bezout.

(** GMP normalisation, for ALL a, b, exactly as the docstring of the stub states it: normally
    |s| < |b|/(2g) and |t| < |a|/(2g); s = 0, t = sgn b when |a| = |b| = g; otherwise s = sgn a if
    b = 0 or |b| = 2g, and t = sgn b if a = 0 or |a| = 2g.  (g = gcd >= 0 by C25_gcdext_bezout.) *)
Theorem C25_gcdext_gmp_normal : forall a b g s t, gcdext a b = Ok (g, s, t) ->
  (a = 0 /\ b = 0 -> g = 0 /\ s = 0 /\ t = 0) /\
  (~ (a = 0 /\ b = 0) -> Z.abs a = g /\ Z.abs b = g -> s = 0 /\ t = Z.sgn b) /\
  (~ (a = 0 /\ b = 0) -> ~ (Z.abs a = g /\ Z.abs b = g) ->
     ((b = 0 \/ Z.abs b = 2 * g) -> s = Z.sgn a) /\ (~ (b = 0 \/ Z.abs b = 2 * g) -> 2 * g * Z.abs s < Z.abs b) /\
     ((a = 0 \/ Z.abs a = 2 * g) -> t = Z.sgn b) /\ (~ (a = 0 \/ Z.abs a = 2 * g) -> 2 * g * Z.abs t < Z.abs a)).
Proof. exact gcdext_gmp_normal_prop. Qed.
Print Assumptions C25_gcdext_gmp_normal.

(** the same as the executable predicate [gmp_normal] (which the earlier bounded check evaluated) *)
Theorem C25_gcdext_gmp_normal_bool : forall a b g s t,
  gcdext a b = Ok (g, s, t) -> gmp_normal a b g s t = true.
Proof. exact gcdext_gmp_normal. Qed.
Print Assumptions C25_gcdext_gmp_normal_bool.

(** ---- invert: raises exactly when no inverse exists (or m = 0) ---- *)
Theorem C25_invert_spec : forall x m,
  (m = 0 \/ Z.gcd x m <> 1) /\ invert x m = EZeroDiv
  \/ m <> 0 /\ Z.gcd x m = 1 /\ exists y, invert x m = Ok y /\ 0 <= y < Z.abs m
       /\ (x * y) mod (Z.abs m) = 1 mod (Z.abs m) /\ (1 < Z.abs m -> 0 < y).
Proof. exact invert_spec. Qed.
Print Assumptions C25_invert_spec.

(** ---- powmod ---- *)
Theorem C25_powmod_spec : forall x y m, m <> 0 -> 0 <= y -> powmod x y m = Ok (x ^ y mod m).
Proof. exact powmod_spec. Qed.
Print Assumptions C25_powmod_spec.

(** ---- isqrt / is_square / iroot ---- *)
Theorem C25_isqrt_spec : forall x,
  (x < 0 /\ isqrt x = EValue) \/
  (0 <= x /\ exists r, isqrt x = Ok r /\ 0 <= r /\ r * r <= x < (r + 1) * (r + 1)).
Proof. exact isqrt_spec. Qed.
Print Assumptions C25_isqrt_spec.

Theorem C25_is_square_spec : forall x, 0 <= x ->
  exists b, is_square x = Ok b /\ (b = true <-> exists r, x = r * r).
Proof. exact is_square_spec. Qed.
Print Assumptions C25_is_square_spec.

Theorem C25_is_square_negative : forall x, x < 0 -> is_square x = Ok false \/ is_square x = EValue.
Proof. exact is_square_neg. Qed.
Print Assumptions C25_is_square_negative.

Theorem C25_iroot_spec : forall x n, 0 < x -> 0 < n ->
  exists y, iroot x n = Ok (y, x =? y ^ n) /\ 0 < y /\ y ^ n <= x < (y + 1) ^ n.
Proof. exact iroot_spec. Qed.
Print Assumptions C25_iroot_spec.

Theorem C25_iroot_zero : forall n, iroot 0 n = Ok (0, true).
Proof. exact iroot_zero. Qed.
Print Assumptions C25_iroot_zero.

(** negative x is rejected (ValueError), as gmpy2.iroot does (stub repaired by /repo commit 15b125f) *)
Theorem C25_iroot_domain : forall x n, x < 0 -> iroot x n = EValue.
Proof. exact iroot_domain. Qed.
Print Assumptions C25_iroot_domain.

(** ---- jacobi / legendre / kronecker ---- *)
Theorem C25_jacobi_domain : forall x y, ~ (0 < y /\ Z.odd y = true) -> jacobi x y = EValue.
Proof. exact jacobi_domain. Qed.
Print Assumptions C25_jacobi_domain.

(** terminates, value in {-1,0,1}, 0 exactly when gcd(x,y) <> 1.  Equality with the Jacobi symbol in
    general needs quadratic reciprocity and is NOT proved (partial). *)
Theorem C25_jacobi_partial : forall x y, 0 < y -> Z.odd y = true ->
  exists j, jacobi x y = Ok j /\ (j = -1 \/ j = 0 \/ j = 1) /\ (j = 0 <-> Z.gcd x y <> 1).
Proof. exact jacobi_spec. Qed.
Print Assumptions C25_jacobi_partial.

Theorem C25_jacobi_periodic : forall x y, 0 < y -> jacobi (x mod y) y = jacobi x y.
Proof. exact jacobi_mod. Qed.
Print Assumptions C25_jacobi_periodic.

(** legendre is literally jacobi in the stub (and in the model) *)
Theorem C25_legendre_is_jacobi : forall x y, legendre x y = jacobi x y.
Proof. reflexivity. Qed.
Print Assumptions C25_legendre_is_jacobi.

(** Euler's criterion for every odd prime below 400 and every x, by computation *)
Theorem C25_jacobi_euler_bounded : forall p x, 2 < p < 400 -> prime p ->
  jacobi x p = Ok (let e := x ^ ((p - 1) / 2) mod p in if e =? p - 1 then -1 else e).
Proof. exact jacobi_euler_bounded. Qed.
Print Assumptions C25_jacobi_euler_bounded.

Theorem C25_kronecker_odd : forall x y, 0 < y -> Z.odd y = true -> kronecker x y = jacobi x y.
Proof. exact kronecker_odd. Qed.
Print Assumptions C25_kronecker_odd.

(** ---- is_prime (trial division by 15 small primes + n Miller-Rabin rounds on a random tape) ---- *)
(** a prime is never rejected: all tapes, all round counts *)
Theorem C25_is_prime_complete : forall n tp x, prime x -> fst (is_prime_n n tp x) = true.
Proof. exact is_prime_complete. Qed.
Print Assumptions C25_is_prime_complete.

Theorem C25_is_prime_false_composite : forall n tp x, fst (is_prime_n n tp x) = false -> ~ prime x.
Proof. exact is_prime_false_composite. Qed.
Print Assumptions C25_is_prime_false_composite.

(** the squaring chain of a round must reach x-1: once it squares to 1 the round is lost ... *)
Theorem C25_mr_sqrt_of_one_rejected : forall x k b, 2 < x -> (b * b) mod x = 1 -> mr_inner k b x = false.
Proof. exact mr_sqrt_of_one_rejected. Qed.
Print Assumptions C25_mr_sqrt_of_one_rejected.

(** ... rightly so: a square root of 1 other than 1 and x-1 proves x composite *)
Theorem C25_mr_nontrivial_sqrt_witness : forall x b, 0 <= b < x -> b <> 1 -> b <> x - 1 ->
  (b * b) mod x = 1 -> ~ prime x.
Proof. exact mr_nontrivial_sqrt_witness. Qed.
Print Assumptions C25_mr_nontrivial_sqrt_witness.

(** a base on which one round fails is a compositeness witness *)
Theorem C25_mr_round_false_witness : forall x sp r s a, x - 1 = Zpos sp -> twos sp = (r, s) ->
  2 <= a <= x - 2 -> mr_round x r s a = false -> ~ prime x.
Proof. exact mr_round_false_witness. Qed.
Print Assumptions C25_mr_round_false_witness.

(** whatever passes the small-prime trial division below 1024 is prime (so Miller-Rabin only matters above) *)
Theorem C25_trial_survivor_prime_bounded : forall x, 53 < x < 1024 -> Z.odd x = true ->
  trial small_primes x = None -> prime x.
Proof. exact trial_survivor_prime_1024. Qed.
Print Assumptions C25_trial_survivor_prime_bounded.

(** the converse direction is probabilistic in the tape; bounded statement by computation: for the
    odd composites below 4096 that survive trial division at most 1/4 of the bases pass a round *)
Theorem C25_mr_liars_bounded : forall x, 53 < x < 4096 -> Z.odd x = true -> trial small_primes x = None ->
  ~ prime x -> 4 * mr_pass_count x <= x - 3.
Proof. exact mr_liars_bounded_4096. Qed.
Print Assumptions C25_mr_liars_bounded.

(** ---- next_prime / prev_prime relative to a correct primality oracle ---- *)
Theorem C25_next_prime_spec : forall (isp : tape -> Z -> bool * tape),
  (forall tp z, fst (isp tp z) = true <-> prime z) ->
  forall fuel tp x p tp', next_prime_gen isp fuel tp x = (Ok p, tp') ->
    prime p /\ x < p /\ forall q, x < q < p -> ~ prime q.
Proof. exact next_prime_spec. Qed.
Print Assumptions C25_next_prime_spec.

Theorem C25_prev_prime_spec : forall (isp : tape -> Z -> bool * tape),
  (forall tp z, fst (isp tp z) = true <-> prime z) ->
  forall fuel tp x p tp', prev_prime_gen isp fuel tp x = (Ok p, tp') ->
    prime p /\ p < x /\ forall q, p < q < x -> ~ prime q.
Proof. exact prev_prime_spec. Qed.
Print Assumptions C25_prev_prime_spec.

Theorem C25_prev_prime_domain : forall isp fuel tp x, x < 3 -> fst (prev_prime_gen isp fuel tp x) = EValue.
Proof. exact prev_prime_domain. Qed.
Print Assumptions C25_prev_prime_domain.

(** without any assumption on the oracle: the result was accepted and every skipped candidate rejected *)
Theorem C25_search_loop_spec : forall (isp : tape -> Z -> bool * tape) step fuel tp c p tp',
  search_loop isp step fuel tp c = (Ok p, tp') ->
  exists k, 0 <= k /\ p = c + step * k /\ (exists t, isp t p = (true, tp')) /\
            forall i, 0 <= i < k -> exists t, fst (isp t (c + step * i)) = false.
Proof. exact search_loop_spec. Qed.
Print Assumptions C25_search_loop_spec.

(** ---- factor_prime_power: soundness (oracle accepts only primes) and completeness (correct oracle) ---- *)
Theorem C25_factor_prime_power_sound : forall (isp : tape -> Z -> bool * tape) npf,
  (forall tp z, fst (isp tp z) = true -> prime z) ->
  forall tp x p d tp', factor_prime_power_gen isp npf tp x = (Ok (p, d), tp') ->
    prime p /\ 0 < d /\ x = p ^ d.
Proof. exact factor_prime_power_sound. Qed.
Print Assumptions C25_factor_prime_power_sound.

Theorem C25_factor_prime_power_domain : forall isp npf tp x, x <= 1 ->
  fst (factor_prime_power_gen isp npf tp x) = EValue.
Proof. exact factor_prime_power_domain. Qed.
Print Assumptions C25_factor_prime_power_domain.

(** completeness on prime powers: with a correct oracle, q^k is factored as (q, k); the only other
    outcome of the MODEL is running out of the explicit search fuel of next_prime (no prime-gap
    bound is provable; the Python loop has no such limit).  All other loop fuels are proved sufficient. *)
Theorem C25_factor_prime_power_complete : forall (isp : tape -> Z -> bool * tape) npf,
  (forall tp z, fst (isp tp z) = true <-> prime z) ->
  forall tp q k r tp', prime q -> 0 < k ->
    factor_prime_power_gen isp npf tp (q ^ k) = (r, tp') -> r = Ok (q, k) \/ r = EFuel.
Proof. exact factor_prime_power_complete. Qed.
Print Assumptions C25_factor_prime_power_complete.

(** hence ValueError is raised only for numbers that are not prime powers *)
Theorem C25_factor_prime_power_raises_only_if_not_prime_power : forall (isp : tape -> Z -> bool * tape) npf,
  (forall tp z, fst (isp tp z) = true <-> prime z) ->
  forall tp x tp', factor_prime_power_gen isp npf tp x = (EValue, tp') ->
    ~ exists q k, prime q /\ 0 < k /\ x = q ^ k.
Proof. exact factor_prime_power_raises_not_prime_power. Qed.
Print Assumptions C25_factor_prime_power_raises_only_if_not_prime_power.

(** ---- ratrec: soundness, domain, termination, uniqueness, completeness ---- *)
Theorem C25_ratrec_sound : forall x y N D n d, ratrec_core x y N D = Ok (n, d) ->
  0 <= N /\ 0 < D /\ 2 * N * D < y /\ (n - x * d) mod y = 0 /\ - N <= n <= N /\
  0 < d <= D /\ Z.gcd n d = 1.
Proof. exact ratrec_core_sound. Qed.
Print Assumptions C25_ratrec_sound.

Theorem C25_ratrec_domain : forall x y N D,
  (N < 0 \/ D <= 0 \/ y <= 2 * N * D) -> ratrec_core x y N D = EValue.
Proof. exact ratrec_core_domain. Qed.
Print Assumptions C25_ratrec_domain.

Theorem C25_ratrec_terminates : forall x y N D, ratrec_core x y N D <> EFuel.
Proof. exact ratrec_core_no_fuel. Qed.
Print Assumptions C25_ratrec_terminates.

(** [is_ratrec x y N D n d]: n = x*d (mod y), |n| <= N, 0 < d <= D, gcd(n, d) = 1 *)
Theorem C25_ratrec_unique : forall x y N D n d n' d', 0 <= N -> 0 < D -> 2 * N * D < y ->
  is_ratrec x y N D n d -> is_ratrec x y N D n' d' -> n = n' /\ d = d'.
Proof. exact ratrec_unique. Qed.
Print Assumptions C25_ratrec_unique.

(** the reconstruction is returned exactly when it exists ... *)
Theorem C25_ratrec_iff : forall x y N D n d, 0 <= N -> 0 < D -> 2 * N * D < y ->
  (ratrec_core x y N D = Ok (n, d) <-> is_ratrec x y N D n d).
Proof. exact ratrec_core_iff. Qed.
Print Assumptions C25_ratrec_iff.

(** ... and ValueError is raised exactly when there is none *)
Theorem C25_ratrec_raises_iff_none : forall x y N D, 0 <= N -> 0 < D -> 2 * N * D < y ->
  (ratrec_core x y N D = EValue <-> ~ exists n d, is_ratrec x y N D n d).
Proof. exact ratrec_core_raises_iff_none. Qed.
Print Assumptions C25_ratrec_raises_iff_none.

(** ---- non-vacuity of the implications ---- *)
Example C25_nonvacuous_gcdext : gcdext 240 (-46) = Ok (2, -9, -47) /\ gcdext (-6) 4 = Ok (2, -1, -1) /\
  gcdext (-3) 2 = Ok (1, -1, -1) /\ gcdext 0 (-5) = Ok (5, 0, -1) /\ gcdext 7 7 = Ok (7, 0, 1).
Proof. vm_compute. repeat split; reflexivity. Qed.
Example C25_nonvacuous_invert : invert 7 (-40) = Ok 23 /\ invert 6 9 = EZeroDiv /\ invert 5 0 = EZeroDiv.
Proof. vm_compute. repeat split; reflexivity. Qed.
Example C25_nonvacuous_roots : iroot 1000 3 = Ok (10, true) /\ iroot 999 3 = Ok (9, false) /\ iroot (-8) 3 = EValue /\
  is_square 144 = Ok true /\ isqrt 99 = Ok 9 /\ powmod 3 200 1000 = Ok 1.
Proof. vm_compute. repeat split; reflexivity. Qed.
Example C25_nonvacuous_jacobi : jacobi 1001 9907 = Ok (-1) /\ jacobi 21 7 = Ok 0 /\ kronecker 5 (-12) = Ok (-1) /\
  jacobi 2 4 = EValue.
Proof. vm_compute. repeat split; reflexivity. Qed.
Example C25_nonvacuous_prime : prime 61 /\ fst (is_prime (of_list []) 61) = true /\
  fst (is_prime (of_list []) 3481) = false /\ 4 * mr_pass_count 3481 <= 3481 - 3 /\ trial small_primes 3481 = None /\
  fst (next_prime 50 (of_list []) 3481) = Ok 3491 /\ fst (prev_prime 50 (of_list []) 2) = EValue.
Proof. split; [apply is_prime_small_correct; reflexivity|]. vm_compute. repeat split; try reflexivity; discriminate. Qed.
Example C25_nonvacuous_fpp_ratrec : fst (factor_prime_power 50 (of_list []) (1031 ^ 3)) = Ok (1031, 3) /\
  fst (factor_prime_power 50 (of_list []) 12) = EValue /\
  ratrec_core 34 101 7 7 = Ok (1, 3) /\ ratrec_core 50 101 7 7 = Ok (-1, 2) /\ ratrec_core 30 101 7 7 = EValue /\ ratrec_core 1 10 3 2 = EValue.
Proof. vm_compute. repeat split; reflexivity. Qed.
Example C25_nonvacuous_ratrec_complete : is_ratrec 34 101 7 7 1 3 /\ ratrec_core 34 101 7 7 = Ok (1, 3) /\
  ratrec_core 10 101 2 2 = EValue.
Proof. split; [exact is_ratrec_ex | split; [exact ratrec_core_ex | exact ratrec_core_ex_none]]. Qed.
(** the Carmichael number 3828001 = 101*151*251 survives the trial division and every coprime base is a Fermat
    liar; base 2: 2^119625 = 2879722 -> 1174932 -> 1, a nontrivial square root of 1, and the model rejects *)
Example C25_nonvacuous_carmichael : trial small_primes 3828001 = None /\ twos 3828000%positive = (5, 119625) /\
  powZ 2 119625 3828001 = 2879722 /\ (2879722 * 2879722) mod 3828001 = 1174932 /\
  (1174932 * 1174932) mod 3828001 = 1 /\ mr_inner 4 2879722 3828001 = false /\
  mr_round 3828001 5 119625 2 = false /\ fst (is_prime (of_list []) 3828001) = false.
Proof. vm_compute. repeat split; reflexivity. Qed.
