"""Core of the check harness: context object, Coq build/eval, evidence, known findings.

Every property module (harness/props/cXX.py) exposes `run(ctx)`; see harness/README_DEV.md.
"""
import os, sys, re, json, time, random, hashlib, subprocess, fcntl, traceback, shutil
from concurrent.futures import ThreadPoolExecutor

VERIF = os.path.dirname(os.path.dirname(os.path.dirname(os.path.abspath(__file__))))
REPO = os.environ.get('MPYC_REPO', '/repo')
COQ_MAIN = os.path.join(VERIF, 'coq')
# VERIF_ALT=<scratch dir>: a run against another tree than /repo (seeded changes, see harness/seeded_run.sh) keeps its
# generated tables, compiled property files, case files, evidence and replays in that scratch directory, so that it
# can neither disturb a concurrent run against /repo nor leave evidence of a modified tree in /verif/evidence.
ALT = os.environ.get('VERIF_ALT')
if ALT:
    COQ = os.path.join(ALT, 'coq')
    EVID = os.path.join(ALT, 'evidence')
    REPLAYS = os.path.join(ALT, 'replays')
    for _d in ('gen', 'cases', 'props'):
        os.makedirs(os.path.join(COQ, _d), exist_ok=True)
    if not os.path.exists(os.path.join(COQ, 'theories')):
        os.symlink(os.path.join(COQ_MAIN, 'theories'), os.path.join(COQ, 'theories'))
    for _f in os.listdir(os.path.join(COQ_MAIN, 'props')):
        if _f.endswith('.v'):
            shutil.copy(os.path.join(COQ_MAIN, 'props', _f), os.path.join(COQ, 'props', _f))
else:
    COQ = COQ_MAIN
    EVID = os.path.join(VERIF, 'evidence')
    REPLAYS = os.path.join(VERIF, 'replays')
PY = '/venv/bin/python'
PYNP = os.path.join(VERIF, '.venv-np', 'bin', 'python')
COQFLAGS = ['-Q', 'theories', 'MPyC', '-Q', 'gen', 'MPyCGen', '-Q', 'props', 'MPyCProps', '-Q', 'cases', 'MPyCCases']

STD_AXIOMS_OK = {
    # axioms declared by Coq's standard library that theorems may depend on (named in trusted base)
    'functional_extensionality_dep', 'proof_irrelevance', 'classic', 'JMeq_eq', 'Eqdep.Eq_rect_eq.eq_rect_eq',
    'ClassicalDedekindReals.sig_forall_dec', 'ClassicalDedekindReals.sig_not_dec', 'FunctionalExtensionality.functional_extensionality_dep',
    'Classical_Prop.classic', 'ProofIrrelevance.proof_irrelevance', 'JMeq.JMeq_eq', 'eq_rect_eq',
}


def sh(cmd, timeout=600, cwd=None, env=None, input=None):
    """Run a command, return (rc, stdout+stderr)."""
    try:
        p = subprocess.run(cmd, cwd=cwd, env=env, input=input, timeout=timeout,
                           stdout=subprocess.PIPE, stderr=subprocess.STDOUT, text=True)
        return p.returncode, p.stdout
    except subprocess.TimeoutExpired as e:
        out = e.stdout if isinstance(e.stdout, str) else (e.stdout or b'').decode(errors='replace')
        return 124, out + '\n[TIMEOUT after %ss]' % timeout


class BuildLock:
    def __enter__(self):
        self.f = open(os.path.join(VERIF, '.build.lock'), 'w')
        fcntl.flock(self.f, fcntl.LOCK_EX)
        return self

    def __exit__(self, *a):
        fcntl.flock(self.f, fcntl.LOCK_UN)
        self.f.close()


def ensure_makefile():
    mk = os.path.join(COQ_MAIN, 'Makefile')
    cp = os.path.join(COQ_MAIN, '_CoqProject')
    if not os.path.exists(mk) or os.path.getmtime(mk) < os.path.getmtime(cp):
        rc, out = sh(['coq_makefile', '-f', '_CoqProject', '-o', 'Makefile'], cwd=COQ_MAIN)
        if rc:
            raise RuntimeError('coq_makefile failed: ' + out)


def regen_coqproject():
    """_CoqProject lists every theories/*.v (props are compiled per check, gen per run)."""
    files = sorted(f for f in os.listdir(os.path.join(COQ_MAIN, 'theories')) if f.endswith('.v'))
    txt = '-Q theories MPyC\n' + ''.join('theories/%s\n' % f for f in files)
    cp = os.path.join(COQ_MAIN, '_CoqProject')
    old = open(cp).read() if os.path.exists(cp) else None
    if old != txt:
        open(cp, 'w').write(txt)


def build_theories(jobs=16, timeout=3000):
    """Full .vo build of coq/theories (incremental). Returns (ok, log)."""
    with BuildLock():
        regen_coqproject()
        ensure_makefile()
        rc, out = sh(['make', '-k', '-j%d' % jobs, '-f', 'Makefile'], cwd=COQ_MAIN, timeout=timeout)
        return rc == 0, out


# ----------------------------------------------------------------------------------------
# parsing of Coq printed terms (lists, tuples, options, bools, numbers, strings)

_tok = re.compile(r'\s*(\[|\]|\(|\)|;|,|"(?:[^"]|"")*"|-?\d+|[A-Za-z_][A-Za-z_0-9\'.]*|%[A-Za-z_]+|::)')


def _tokens(s):
    pos, out = 0, []
    s = s.strip()
    while pos < len(s):
        m = _tok.match(s, pos)
        if not m:
            raise ValueError('cannot tokenise Coq term at: %r' % s[pos:pos + 40])
        t = m.group(1)
        pos = m.end()
        if t.startswith('%'):
            continue
        out.append(t)
    return out


def parse_term(s):
    """Parse a printed Coq value into Python: list -> list, tuple -> tuple, Some x -> ('Some', x),
    None -> None, true/false -> bool, numerals -> int, constructors -> (name, args...) or name."""
    toks = _tokens(s)
    pos = [0]

    def peek():
        return toks[pos[0]] if pos[0] < len(toks) else None

    def nxt():
        t = toks[pos[0]]
        pos[0] += 1
        return t

    def atom():
        t = nxt()
        if t == '[':
            items = []
            if peek() == ']':
                nxt()
                return items
            while True:
                items.append(app())
                t2 = nxt()
                if t2 == ']':
                    return items
                assert t2 == ';', t2
        if t == '(':
            first = app()
            if peek() == ',':
                items = [first]
                while peek() == ',':
                    nxt()
                    items.append(app())
                assert nxt() == ')'
                return tuple(items)
            assert nxt() == ')'
            return first
        if re.fullmatch(r'-?\d+', t):
            return int(t)
        if t.startswith('"'):
            return t[1:-1].replace('""', '"')
        if t == 'true':
            return True
        if t == 'false':
            return False
        if t == 'None':
            return None
        if t == 'tt':
            return ()
        return ('@', t)

    def app():
        head = atom()
        if isinstance(head, tuple) and len(head) == 2 and head[0] == '@':
            name = head[1]
            args = []
            while peek() not in (None, ']', ')', ';', ',', '::'):
                a = atom()
                if isinstance(a, tuple) and len(a) == 2 and a[0] == '@':
                    a = a[1]
                args.append(a)
            res = (name, *args) if args else name
        else:
            res = head
        if peek() == '::':
            nxt()
            rest = app()
            return [res] + rest
        return res

    v = app()
    if pos[0] != len(toks):
        raise ValueError('trailing tokens in Coq term: %r' % toks[pos[0]:pos[0] + 5])
    return v


_eval_re = re.compile(r'^\s+= (.*?)\n\s+: [^\n]*(?:\n(?=\s+=|\Z|[A-Z])|\Z)', re.S | re.M)


def split_eval_output(out):
    """Split coqc stdout into the values printed by successive `Eval ... in`."""
    vals = []
    cur = None
    for line in out.split('\n'):
        if line.startswith('     = '):
            if cur is not None:
                vals.append(cur)
            cur = line[7:]
        elif line.startswith('     : '):
            if cur is not None:
                vals.append(cur)
                cur = None
        elif cur is not None:
            cur += ' ' + line.strip()
    if cur is not None:
        vals.append(cur)
    return vals


def zlit(n):
    """Python int -> Coq Z literal."""
    return '(%d)%%Z' % n


def zlist(xs):
    return '[' + '; '.join('(%d)' % x for x in xs) + ']%Z'


def natlit(n):
    return '%d%%nat' % n


def nlit(n):
    return '%d%%N' % n


def blit(b):
    return 'true' if b else 'false'


def forbidden_vernacular(src):
    """Admitted proofs, declared axioms, switched-off kernel checks, and Variable/Hypothesis/Context outside a section."""
    src = strip_comments(src)
    bad = re.findall(r'\b(Admitted|admit|Axiom|Axioms|Parameter|Parameters|Conjecture|Abort|bypass_check|Admit Obligations|'
                     r'Unset Guard Checking|Unset Positivity Checking|Unset Universe Checking)\b', src)
    depth = 0
    for line in src.split('\n'):
        if re.match(r'\s*(Section|Module)\b', line):
            depth += 1
        elif re.match(r'\s*End\b', line) and depth > 0:
            depth -= 1
        elif depth == 0 and re.match(r'\s*(Variables?|Hypothes[ie]s|Context)\b', line):
            bad.append('outside-section: ' + line.strip()[:50])
    return bad



class Ctx:
    def __init__(self, prop, tier='quick', seed=0, replay=None):
        self.prop = prop
        self.tier = tier
        self.seed = seed
        self.rng = random.Random(seed * 1000003 + int(prop[1:]))
        self.replay = replay
        self.t0 = time.time()
        self.evaluations = 0
        self._distinct = set()
        self.samples = []
        self.violations = []       # (sig, replay_path, found_input)
        self.known_hits = []
        self.theorems = []         # (name, assumptions text)
        self.obligations = 0
        self.discharged = 0
        self.assumptions = []
        self.trusted = [
            'Coq 8.16.1 kernel (coqc, full .vo build) with vm_compute; no native_compute',
            'hand-written Gallina model tied to /repo by the correspondence run of this check '
            '(model evaluated by vm_compute inside coqc on the same inputs as the implementation)',
            'harness (Python): generators, canonicalisation, Coq-output parser',
        ]
        self.extra = {}
        self.rule = ''
        self.explanation = ''
        self.notes = []
        self.hist = {}
        self.broken = []           # descriptions of broken obligations / correspondences
        self.case_no = 0
        self.known = load_known()
        os.makedirs(REPLAYS, exist_ok=True)
        os.makedirs(os.path.join(COQ, 'cases'), exist_ok=True)
        os.makedirs(EVID, exist_ok=True)

    # ---- sizes
    def n(self, quick, thorough):
        return thorough if self.tier == 'thorough' else quick

    # ---- bookkeeping
    def case(self, key, nontrivial=True, kind=None):
        """Count one explored case; key is any JSON-able canonical description."""
        self.evaluations += 1
        if nontrivial:
            h = hashlib.sha1(json.dumps(key, sort_keys=True, default=str).encode()).hexdigest()
            self._distinct.add(h)
        if kind is not None:
            self.hist[kind] = self.hist.get(kind, 0) + 1
        if len(self.samples) < 6 and (self.evaluations in (1, 2, 3) or self.rng.random() < 0.002):
            self.samples.append(key)

    def log(self, *a):
        print('[%s %6.1fs]' % (self.prop, time.time() - self.t0), *a, flush=True)

    # ---- Coq
    def build(self, modules=None):
        """Build coq/theories. A failure in a theory file that this property's props file (and the
        given extra modules) do not depend on is only noted."""
        ok, out = build_theories()
        if ok:
            return True
        failed = set(re.findall(r'File "\./theories/([A-Za-z0-9_]+)\.v"', out))
        failed |= set(re.findall(r'theories/([A-Za-z0-9_]+)\.vo?\]? Error', out))
        need = theory_closure([os.path.join(COQ, 'props', self.prop + '.v')], modules or [])
        hit = sorted(failed & need) if failed else sorted(need)
        if hit:
            tail = out[-3000:]
            self.log('theories build FAILED for %s:\n%s' % (hit, tail))
            self.broken.append({'kind': 'build', 'files': hit, 'detail': tail})
            return False
        self.notes.append('unrelated theory files failed to build: %s' % sorted(failed))
        self.log('note: unrelated theory files failed to build: %s' % sorted(failed))
        return True

    def check_props(self, fname=None, extra_files=()):
        """Compile coq/props/<prop>.v from scratch; record theorems and Print Assumptions output.
        Returns True iff it compiled and no unexpected axiom appears."""
        fname = fname or (self.prop + '.v')
        path = os.path.join(COQ, 'props', fname)
        src = open(path).read()
        names = re.findall(r'^\s*(?:Theorem|Corollary)\s+([A-Za-z_0-9\']+)', src, re.M)
        self.obligations += len(names)
        bad = forbidden_vernacular(src)
        if bad:
            self.broken.append({'kind': 'forbidden', 'detail': 'forbidden vernacular in %s: %s' % (fname, bad)})
            return False
        # the same scan over every theory file this property file depends on (an unused Admitted lemma would not show
        # up in Print Assumptions)
        for m in sorted(theory_closure([path], [])):
            tf = os.path.join(COQ, 'theories', m + '.v')
            if os.path.exists(tf):
                badt = forbidden_vernacular(open(tf).read())
                if badt:
                    self.broken.append({'kind': 'forbidden', 'detail': 'forbidden vernacular in theories/%s.v: %s' % (m, badt)})
                    return False
        with BuildLock():
            for f in extra_files:
                rc, out = sh(['coqc', *COQFLAGS, f], cwd=COQ, timeout=1200)
                if rc:
                    self.broken.append({'kind': 'proof', 'file': f, 'detail': out[-3000:]})
                    self.log('coqc %s FAILED\n%s' % (f, out[-2000:]))
                    return False
            vo = path[:-2] + '.vo'
            if os.path.exists(vo):
                os.remove(vo)
            rc, out = sh(['coqc', *COQFLAGS, 'props/' + fname], cwd=COQ, timeout=1800)
        self.checker_cmd = 'cd /verif/coq && make -f Makefile (theories) && coqc %s props/%s' % (' '.join(COQFLAGS[:6]), fname)
        if rc:
            self.log('coqc props/%s FAILED\n%s' % (fname, out[-3000:]))
            m = re.search(r'File "[^"]*", line (\d+)', out)
            which = None
            if m:
                ln = int(m.group(1))
                upto = '\n'.join(src.split('\n')[:ln])
                nn = re.findall(r'^\s*(?:Theorem|Corollary|Lemma|Example)\s+([A-Za-z_0-9\']+)', upto, re.M)
                which = nn[-1] if nn else None
            self.broken.append({'kind': 'proof', 'file': 'props/' + fname, 'theorem': which, 'detail': out[-3000:]})
            return False
        # parse Print Assumptions blocks, in order of appearance
        blocks = re.split(r'(?=Closed under the global context|Axioms:)', out)
        blocks = [b.strip() for b in blocks if b.strip().startswith(('Closed under', 'Axioms:'))]
        pa_names = re.findall(r'Print Assumptions\s+([A-Za-z_0-9\'.]*[A-Za-z_0-9\'])', src)
        ok = True
        for i, nm in enumerate(pa_names):
            b = blocks[i] if i < len(blocks) else '<no output>'
            b1 = ' '.join(b.split())
            self.theorems.append((nm, b1[:600]))
            if b.startswith('Axioms:'):
                axs = re.findall(r'^([A-Za-z_0-9\'.]+)\s*:', b[len('Axioms:'):], re.M)
                for ax in axs:
                    base = ax.split('.')[-1]
                    if ax not in STD_AXIOMS_OK and base not in STD_AXIOMS_OK:
                        ok = False
                        self.broken.append({'kind': 'axiom', 'theorem': nm, 'detail': 'unexpected axiom ' + ax})
        missing = [n for n in names if n not in pa_names]
        if missing:
            self.notes.append('theorems without Print Assumptions: %s' % missing)
        self.discharged += len(names)
        self.log('props/%s: %d theorems compiled; assumptions: %s' % (
            fname, len(names), sorted({t[1][:60] for t in self.theorems})))
        return ok

    def coq_eval(self, requires, exprs, preamble='', chunk=150, timeout=900, tag=None, jobs=12, raw=False):
        """Evaluate Coq expressions by vm_compute; returns list of parsed values (same order).
        requires: list of module names e.g. ['MPyC.Shamir'].  A value is ('ERROR', text) when
        its chunk failed to compile."""
        tag = tag or self.prop
        self.case_no += 1
        base = '%s_%d_%d' % (tag, os.getpid(), self.case_no)
        head = 'From Coq Require Import ZArith NArith List Bool String.\nImport ListNotations.\n'
        head += ''.join('Require Import %s.\n' % r for r in requires)
        head += 'Set Printing Depth 100000000.\nSet Printing Width 1000000000.\n' + preamble + '\n'
        chunks = [exprs[i:i + chunk] for i in range(0, len(exprs), chunk)]
        files = []
        for ci, ch in enumerate(chunks):
            fn = os.path.join(COQ, 'cases', '%s_%d.v' % (base, ci))
            with open(fn, 'w') as f:
                f.write(head)
                for e in ch:
                    f.write('Eval vm_compute in (%s).\n' % e)
            files.append(fn)

        def runone(fn):
            rc, out = sh(['bash', '-c', 'ulimit -s unlimited 2>/dev/null; exec coqc %s %s' % (
                ' '.join(COQFLAGS), 'cases/' + os.path.basename(fn))], cwd=COQ, timeout=timeout)
            return rc, out

        results = []
        with ThreadPoolExecutor(max_workers=jobs) as ex:
            outs = list(ex.map(runone, files))
        # a chunk that hit the wall-clock limit (loaded machine) is retried once, alone, with three times the limit:
        # a timeout must not turn into an alarm on code where the property holds
        for i, (rc, out) in enumerate(outs):
            if rc == 124:
                self.log('coq_eval: chunk %d timed out after %ss; retrying alone with %ss' % (i, timeout, 3 * timeout))
                rc2, out2 = sh(['bash', '-c', 'ulimit -s unlimited 2>/dev/null; exec coqc %s %s' % (
                    ' '.join(COQFLAGS), 'cases/' + os.path.basename(files[i]))], cwd=COQ, timeout=3 * timeout)
                outs[i] = (rc2, out2)
        for (rc, out), ch, fn in zip(outs, chunks, files):
            vals = split_eval_output(out)
            if rc != 0 or len(vals) != len(ch):
                self.log('coq_eval chunk failed rc=%s (%d of %d values)\n%s' % (rc, len(vals), len(ch), out[-1500:]))
                results.extend([('ERROR', out[-500:])] * len(ch))
            else:
                for v in vals:
                    if raw:
                        results.append(v)
                        continue
                    try:
                        results.append(parse_term(v))
                    except Exception as e:  # noqa
                        results.append(('ERROR', 'parse: %s: %s' % (e, v[:200])))
            for ext in ('.v', '.vo', '.vok', '.vos', '.glob'):
                p = fn[:-2] + ext
                if os.path.exists(p):
                    os.remove(p)
            aux = os.path.join(os.path.dirname(fn), '.' + os.path.basename(fn)[:-2] + '.aux')
            if os.path.exists(aux):
                os.remove(aux)
        return results

    # ---- violations
    def violation(self, sig, detail, found_input=True):
        """Report a property violation. sig: short string identifying the failing case class
        (matched against known_findings.json). detail: JSON-able replay content."""
        for k in self.known:
            if k.get('status', 'open') == 'open' and k['property'] == self.prop and re.search(k['match'], sig):
                if k['id'] not in [h[0] for h in self.known_hits]:
                    self.known_hits.append((k['id'], k['what'], sig))
                return 'known'
        if found_input and re.search(r"AttributeError.{0,200}?has no attribute \W{0,3}_[A-Za-z]",
                                     json.dumps(detail, default=str)):
            # the run died on a missing PRIVATE attribute: most likely a private name that this harness itself calls
            # or wraps was renamed; that is a broken correspondence, not a failing input of the property
            found_input = False
            detail = {'note': 'run failed with AttributeError on a private name (harness hook or private helper renamed?): '
                              'correspondence broken, no failing input of the property established', 'detail': detail}
        h = hashlib.sha1((sig + json.dumps(detail, sort_keys=True, default=str)).encode()).hexdigest()[:10]
        path = os.path.join(REPLAYS, '%s_%s.json' % (self.prop, h))
        self.nviol = getattr(self, 'nviol', 0) + 1
        if self.nviol > 60:                 # at most 60 replay files per run (20 VIOLATION lines): disk is limited
            return 'new'
        with open(path, 'w') as f:
            json.dump({'property': self.prop, 'sig': sig, 'found_input': found_input, 'seed': self.seed,
                       'tier': self.tier, 'detail': detail}, f, indent=1, default=str)
        if len(self.violations) < 20 and path not in [v[1] for v in self.violations]:
            self.violations.append((sig, path, found_input))
        return 'new'

    def unproved(self, what, detail):
        """A proof obligation or correspondence broke and no failing input was found."""
        return self.violation('unproved:' + what, detail, found_input=False)

    # ---- finish
    def finish(self):
        wall = time.time() - self.t0
        undischarged = self.obligations - self.discharged
        if undischarged > 0 and not self.violations and not self.known_hits:
            # safety net: an obligation failed but the property module reported nothing
            self.unproved('undischarged-obligation', {'obligations': self.obligations, 'discharged': self.discharged,
                                                      'broken': self.broken[:5]})
        claimed = self.obligations
        if undischarged > 0 and not self.violations:
            # every failing obligation is accounted for by a listed known finding (printed below): those
            # obligations are not claimed; the evidence counts the obligations that were actually discharged
            claimed = self.discharged
        tb = list(self.trusted)
        for nm, a in self.theorems:
            tb.append('Print Assumptions %s: %s' % (nm, a))
        cov = {
            'obligations': claimed,
            'discharged': self.discharged,
            'obligations_failing_with_listed_known_finding': max(0, undischarged) if not self.violations else 0,
            'checker_cmd': getattr(self, 'checker_cmd', 'coqc'),
            'trusted_base': tb,
            'evaluations': self.evaluations,
            'distinct_nontrivial': len(self._distinct),
            'rule': self.rule,
            'samples': self.samples[:8] if self.samples else [t[0] for t in self.theorems[:5]],
            'explanation': self.explanation,
            'input_distribution': self.hist,
            'theorems': [t[0] for t in self.theorems],
            'known_findings_hit': [list(h) for h in self.known_hits],
            'notes': self.notes,
        }
        cov.update(self.extra)
        ev = {
            'property_id': self.prop, 'tier': self.tier, 'seed': self.seed, 'level': 'proof',
            'coverage': cov, 'assumptions': self.assumptions, 'wall_s': round(wall, 2),
            'violations': len(self.violations),
        }
        with open(os.path.join(EVID, self.prop + '.json'), 'w') as f:
            json.dump(ev, f, indent=1, default=str)
        for kid, what, sig in self.known_hits:
            print('KNOWN-FINDING: property=%s %s [%s]' % (self.prop, what, kid))
        for sig, path, found in self.violations[:5]:
            print('VIOLATION property=%s replay=%s%s' % (self.prop, path, '' if found else ' no-failing-input-found'))
        self.log('done: evaluations=%d distinct=%d obligations=%d/%d violations=%d known=%d wall=%.1fs' % (
            self.evaluations, len(self._distinct), self.discharged, self.obligations,
            len(self.violations), len(self.known_hits), wall))
        return 1 if self.violations else 0


def theory_closure(files, modules=()):
    """Names of theories/*.v transitively required by the given .v files / module names."""
    seen = set()
    todo = []
    for f in files:
        if os.path.exists(f):
            todo += re.findall(r'MPyC\.([A-Za-z0-9_]+)', open(f).read())
    todo += [m.split('.')[-1] for m in modules]
    while todo:
        m = todo.pop()
        if m in seen:
            continue
        seen.add(m)
        f = os.path.join(COQ, 'theories', m + '.v')
        if os.path.exists(f):
            todo += re.findall(r'MPyC\.([A-Za-z0-9_]+)', open(f).read())
    return seen


def strip_comments(src):
    out, depth, i = [], 0, 0
    while i < len(src):
        if src.startswith('(*', i):
            depth += 1
            i += 2
        elif src.startswith('*)', i) and depth:
            depth -= 1
            i += 2
        else:
            if not depth:
                out.append(src[i])
            i += 1
    return ''.join(out)


def load_known():
    """Known findings: /verif/known_findings/*.json (one file per property)."""
    out = []
    d = os.path.join(VERIF, 'known_findings')
    if os.path.isdir(d):
        for f in sorted(os.listdir(d)):
            if f.endswith('.json'):
                out.extend(json.load(open(os.path.join(d, f))).get('findings', []))
    return out


def impl_env(extra=None):
    env = dict(os.environ)
    env['PYTHONPATH'] = REPO
    env['PYTHONHASHSEED'] = '0'
    env['MPYC_VERIF'] = '1'
    if extra:
        env.update(extra)
    return env


def run_impl(script, payload, python=None, timeout=900, args=()):
    """Run harness/impl/<script> in a fresh interpreter against /repo; JSON in, JSON out."""
    python = python or PY
    path = os.path.join(VERIF, 'harness', 'impl', script)
    p = subprocess.run([python, path, *args], input=json.dumps(payload), text=True, env=impl_env(),
                       stdout=subprocess.PIPE, stderr=subprocess.PIPE, timeout=timeout)
    if p.returncode:
        raise RuntimeError('impl script %s failed rc=%d:\n%s' % (script, p.returncode, p.stderr[-3000:]))
    line = [l for l in p.stdout.split('\n') if l.startswith('RESULT ')]
    if not line:
        raise RuntimeError('impl script %s gave no RESULT:\n%s\n%s' % (script, p.stdout[-1000:], p.stderr[-2000:]))
    return json.loads(line[-1][7:])
