(** C32 — model of mpctools.reduce and mpctools.accumulate (Brent-Kung and Sklansky) over an
    abstract binary operation, as coded (pairing loop; recursive in-place array updates). *)
From Coq Require Import List Arith Lia Bool.
Import ListNotations.

Fixpoint upd {A} (i : nat) (v : A) (l : list A) : list A :=
  match l, i with
  | [], _ => []
  | _ :: l', O => v :: l'
  | a :: l', S i' => a :: upd i' v l'
  end.

Section Defs.
Context {A : Type}.
Variable f : A -> A -> A.

(** ** reduce

      x = list(x);  if initial given: x.insert(0, initial);  if not x: raise TypeError
      while len(x) > 1:
          x[len(x)%2:] = (f(x[i], x[i+1]) for i in range(len(x)%2, len(x), 2))
      return x[0]                                                                        *)

(** f(x[0],x[1]), f(x[2],x[3]), ... (the argument has even length where it is used) *)
Fixpoint pairs (x : list A) : list A :=
  match x with
  | a :: b :: r => f a b :: pairs r
  | _ => []
  end.

(** one iteration of the while loop: an odd-length list keeps x[0] and pairs the rest *)
Definition reduce_step (x : list A) : list A :=
  if Nat.odd (length x) then match x with a :: r => a :: pairs r | [] => [] end else pairs x.

Fixpoint reduce_loop (fuel : nat) (x : list A) : option A :=
  match x with
  | [] => None
  | [a] => Some a
  | _ => match fuel with O => None | S k => reduce_loop k (reduce_step x) end
  end.

(** [None] = TypeError (empty sequence, no initial value); fuel = length suffices (theorem) *)
Definition reduce (x : list A) (initial : option A) : option A :=
  let x' := match initial with Some a => a :: x | None => x end in
  reduce_loop (length x') x'.

(** functools.reduce *)
Definition py_reduce (x : list A) (initial : option A) : option A :=
  match (match initial with Some a => a :: x | None => x end) with
  | [] => None
  | a :: r => Some (fold_left f r a)
  end.

(** ** accumulate

    Brent-Kung:                              Sklansky:
      def acc(i, j):                           def acc(i, j):
          h = (i + j)//2                           h = (i + j)//2
          if i < h:                                if i < h:
              acc(i, h)                                acc(i, h)
              a = x[h-1]                               a = x[h-1]
              if i: x[h-1] = f(x[i-1], a)              acc(h, j)
              acc(h, j)                                x[h:j] = (f(a, b) for b in x[h:j])
              x[j-1] = f(a, x[j-1])
    acc(0, n); return iter(x)                                                             *)
Variable d : A.   (* default for out-of-range reads; never used for 0 <= i <= j <= len x *)

Fixpoint acc_bk (fuel i j : nat) (x : list A) : list A :=
  match fuel with
  | O => x
  | S k =>
    let h := (i + j) / 2 in
    if i <? h then
      let x1 := acc_bk k i h x in
      let a := nth (h - 1) x1 d in
      let x2 := if 0 <? i then upd (h - 1) (f (nth (i - 1) x1 d) a) x1 else x1 in
      let x3 := acc_bk k h j x2 in
      upd (j - 1) (f a (nth (j - 1) x3 d)) x3
    else x
  end.

Fixpoint acc_sk (fuel i j : nat) (x : list A) : list A :=
  match fuel with
  | O => x
  | S k =>
    let h := (i + j) / 2 in
    if i <? h then
      let x1 := acc_sk k i h x in
      let a := nth (h - 1) x1 d in
      let x2 := acc_sk k h j x1 in
      firstn h x2 ++ map (f a) (firstn (j - h) (skipn h x2)) ++ skipn j x2
    else x
  end.

(** method: true = 'Brent-Kung', false = 'Sklansky'; every call to acc(i,j) with j - i >= 2 splits
    into two strictly shorter segments, so fuel = n suffices (the theorems show it). *)
Definition accumulate (bk : bool) (x : list A) (initial : option A) : list A :=
  let x' := match initial with Some a => a :: x | None => x end in
  let n := length x' in
  if bk then acc_bk n 0 n x' else acc_sk n 0 n x'.

(** itertools.accumulate *)
Fixpoint scan_from (a : A) (l : list A) : list A :=
  a :: match l with [] => [] | b :: r => scan_from (f a b) r end.
Definition scan (x : list A) : list A := match x with [] => [] | a :: r => scan_from a r end.
Definition py_accumulate (x : list A) (initial : option A) : list A :=
  scan (match initial with Some a => a :: x | None => x end).

End Defs.

(** depth instrumentation: every element carries the depth of the f-tree that produced it *)
Definition fdepth {A} (f : A -> A -> A) (p q : A * nat) : A * nat :=
  (f (fst p) (fst q), S (Nat.max (snd p) (snd q))).
Definition leaves {A} (x : list A) : list (A * nat) := map (fun a => (a, O)) x.

(** default method choice: 'Brent-Kung' if runtime.options.no_prss and n >= 32 else 'Sklansky' *)
Definition default_method_bk (no_prss : bool) (n : nat) : bool := no_prss && (32 <=? n).

(* PROOFS BELOW *)

Lemma half_bounds : forall L, 2 * (L / 2) <= L < 2 * (L / 2) + 2.
Proof.
  intros L.
  pose proof (Nat.div_mod L 2 ltac:(lia)) as H1.
  pose proof (Nat.mod_upper_bound L 2 ltac:(lia)) as H2. lia.
Qed.

Lemma list_ind2 : forall {A} (P : list A -> Prop),
  P [] -> (forall a, P [a]) -> (forall a b r, P r -> P (a :: b :: r)) -> forall l, P l.
Proof.
  intros A P H0 H1 H2. fix IH 1.
  intros [|a [|b r]]; [exact H0|apply H1|apply H2, IH].
Qed.

Section ReduceProofs.
Context {A : Type}.
Variable f : A -> A -> A.

Lemma pairs_length : forall x : list A,
  2 * length (pairs f x) <= length x /\ length x <= 2 * length (pairs f x) + 1.
Proof.
  induction x as [| a | a b r IH] using list_ind2; simpl; lia.
Qed.

Lemma reduce_step_length : forall x : list A,
  2 * length (reduce_step f x) <= length x + 1 /\ length x <= 2 * length (reduce_step f x).
Proof.
  intros x. unfold reduce_step. destruct (Nat.odd (length x)) eqn:E.
  - destruct x as [|a r]; simpl in *; [discriminate|].
    pose proof (pairs_length r) as Hp.
    rewrite Nat.odd_succ in E.
    assert (Hev : length r <> 2 * length (pairs f r) + 1).
    { intros Hc. rewrite Hc in E. rewrite Nat.add_1_r, Nat.even_succ, Nat.odd_mul in E.
      simpl in E. discriminate. }
    lia.
  - pose proof (pairs_length x) as Hp.
    assert (Hev : length x <> 2 * length (pairs f x) + 1).
    { intros Hc. rewrite Hc in E. rewrite Nat.add_1_r, Nat.odd_succ, Nat.even_mul in E.
      simpl in E. discriminate. }
    lia.
Qed.

Definition rval (x : list A) : option A :=
  match x with [] => None | a :: r => Some (fold_left f r a) end.

Hypothesis f_assoc : forall a b c, f (f a b) c = f a (f b c).

Lemma pairs_fold : forall r : list A, Nat.even (length r) = true ->
  forall acc, fold_left f (pairs f r) acc = fold_left f r acc.
Proof.
  induction r as [| a | a b r IH] using list_ind2; intros Hev acc.
  - reflexivity.
  - simpl in Hev. discriminate.
  - simpl in Hev. simpl. rewrite <- f_assoc. apply IH, Hev.
Qed.

Lemma reduce_step_rval : forall x : list A, rval (reduce_step f x) = rval x.
Proof.
  intros x. unfold reduce_step. destruct (Nat.odd (length x)) eqn:E.
  - destruct x as [|a r]; [reflexivity|]. simpl. f_equal.
    apply pairs_fold. simpl length in E. rewrite Nat.odd_succ in E. exact E.
  - destruct x as [|a [|b r]]; [reflexivity| simpl in E; discriminate |].
    simpl. f_equal. apply pairs_fold.
    simpl length in E. rewrite Nat.odd_succ, Nat.even_succ in E.
    unfold Nat.odd in E. destruct (Nat.even (length r)); [reflexivity|discriminate].
Qed.

Lemma reduce_loop_rval : forall fuel (x : list A), length x <= S fuel ->
  reduce_loop f fuel x = rval x.
Proof.
  induction fuel as [|k IH]; intros x Hlen.
  - destruct x as [|a [|b r]]; simpl in *; try reflexivity; lia.
  - destruct x as [|a [|b r]]; try reflexivity.
    change (reduce_loop f (S k) (a :: b :: r)) with (reduce_loop f k (reduce_step f (a :: b :: r))).
    rewrite IH.
    + apply reduce_step_rval.
    + pose proof (reduce_step_length (a :: b :: r)) as Hs. simpl length in *. lia.
Qed.

End ReduceProofs.

Theorem reduce_eq_fold :
  forall {A} (f : A -> A -> A), (forall a b c, f (f a b) c = f a (f b c)) ->
  forall (x : list A) (initial : option A), reduce f x initial = py_reduce f x initial.
Proof.
  intros A f Hassoc x initial. unfold reduce, py_reduce.
  rewrite reduce_loop_rval; [reflexivity | exact Hassoc | lia].
Qed.

(** ** list helpers *)
Section ListHelpers.
Context {A : Type}.

Lemma firstn_app_exact : forall (l1 l2 : list A), firstn (length l1) (l1 ++ l2) = l1.
Proof. induction l1 as [|a l1 IH]; intros l2; simpl; [destruct l2; reflexivity | rewrite IH; reflexivity]. Qed.

Lemma skipn_app_exact : forall (l1 l2 : list A), skipn (length l1) (l1 ++ l2) = l2.
Proof. induction l1 as [|a l1 IH]; intros l2; simpl; [reflexivity | apply IH]. Qed.

Lemma nth_app_plus : forall (l1 l2 : list A) k d, nth (length l1 + k) (l1 ++ l2) d = nth k l2 d.
Proof. induction l1 as [|a l1 IH]; intros l2 k d; simpl; [reflexivity | apply IH]. Qed.

Lemma nth_last_ne : forall (l : list A) d, l <> [] -> nth (length l - 1) l d = last l d.
Proof.
  induction l as [|a l IH]; intros d Hne; [congruence|].
  destruct l as [|b l]; [reflexivity|].
  change (last (a :: b :: l) d) with (last (b :: l) d).
  rewrite <- IH by congruence. simpl. rewrite Nat.sub_0_r. reflexivity.
Qed.

Lemma nth_app_last : forall (l post : list A) d, l <> [] -> nth (length l - 1) (l ++ post) d = last l d.
Proof.
  intros l post d Hne. rewrite app_nth1.
  - apply nth_last_ne, Hne.
  - destruct l; [congruence | simpl; lia].
Qed.

Lemma nth_mid_last : forall (pre l post : list A) d, l <> [] ->
  nth (length pre + length l - 1) (pre ++ l ++ post) d = last l d.
Proof.
  intros pre l post d Hne.
  replace (length pre + length l - 1) with (length pre + (length l - 1))
    by (destruct l; [congruence | simpl; lia]).
  rewrite nth_app_plus. apply nth_app_last, Hne.
Qed.

Lemma upd_length : forall i (v : A) l, length (upd i v l) = length l.
Proof. induction i as [|i IH]; intros v [|a l]; simpl; try reflexivity. rewrite IH; reflexivity. Qed.

Lemma upd_app_plus : forall (pre l : list A) k v, upd (length pre + k) v (pre ++ l) = pre ++ upd k v l.
Proof. induction pre as [|a pre IH]; intros l k v; simpl; [reflexivity | rewrite IH; reflexivity]. Qed.

Definition setlast (l : list A) (v : A) : list A := removelast l ++ [v].

Lemma upd_app_last : forall (l post : list A) v, l <> [] ->
  upd (length l - 1) v (l ++ post) = setlast l v ++ post.
Proof.
  induction l as [|a l IH]; intros post v Hne; [congruence|].
  destruct l as [|b l]; [reflexivity|].
  specialize (IH post v ltac:(congruence)).
  unfold setlast in *.
  change (removelast (a :: b :: l)) with (a :: removelast (b :: l)).
  replace (length (a :: b :: l) - 1) with (S (length (b :: l) - 1)) by (simpl; lia).
  change ((a :: b :: l) ++ post) with (a :: ((b :: l) ++ post)).
  cbn [upd]. rewrite IH. reflexivity.
Qed.

Lemma upd_mid_last : forall (pre l post : list A) v, l <> [] ->
  upd (length pre + length l - 1) v (pre ++ l ++ post) = pre ++ setlast l v ++ post.
Proof.
  intros pre l post v Hne.
  replace (length pre + length l - 1) with (length pre + (length l - 1))
    by (destruct l; [congruence | simpl; lia]).
  rewrite upd_app_plus. f_equal. apply upd_app_last, Hne.
Qed.

Lemma setlast_length : forall (l : list A) v, l <> [] -> length (setlast l v) = length l.
Proof.
  intros l v Hne. unfold setlast. rewrite app_length. simpl.
  destruct (exists_last Hne) as [l' [a ->]]. rewrite removelast_last, app_length. simpl. lia.
Qed.

Lemma setlast_ne : forall (l : list A) v, setlast l v <> [].
Proof. intros l v. unfold setlast. destruct (removelast l); simpl; congruence. Qed.

Lemma last_setlast : forall (l : list A) v d, last (setlast l v) d = v.
Proof. intros. unfold setlast. apply last_last. Qed.

Lemma length_ne : forall (l : list A), 0 < length l -> l <> [].
Proof. intros [|a l] H; [simpl in H; lia | congruence]. Qed.

Lemma ne_length : forall (l : list A), l <> [] -> 0 < length l.
Proof. intros [|a l] H; [congruence | simpl; lia]. Qed.

Lemma split_half : forall (seg : list A), 0 < length seg / 2 ->
  let m := length seg / 2 in
  seg = firstn m seg ++ skipn m seg /\ length (firstn m seg) = m /\
  length (skipn m seg) = length seg - m /\ 0 < m < length seg.
Proof.
  intros seg Hm m. pose proof (half_bounds (length seg)) as Hb. fold m in Hb, Hm.
  repeat split; try lia.
  - symmetry; apply firstn_skipn.
  - apply firstn_length_le. lia.
  - apply skipn_length.
Qed.

End ListHelpers.

(** ** Sklansky: the in-place recursion is a pure function of the segment *)
Section SkProofs.
Context {A : Type}.
Variable f : A -> A -> A.
Variable d : A.

Fixpoint SK (fuel : nat) (seg : list A) : list A :=
  match fuel with
  | O => seg
  | S k =>
    let m := length seg / 2 in
    if 0 <? m then
      let r1 := SK k (firstn m seg) in
      let r2 := SK k (skipn m seg) in
      r1 ++ map (f (last r1 d)) r2
    else seg
  end.

Lemma SK_length : forall fuel seg, length (SK fuel seg) = length seg.
Proof.
  induction fuel as [|k IH]; intros seg; [reflexivity|].
  cbn [SK]. cbv zeta. destruct (Nat.ltb_spec 0 (length seg / 2)) as [Hm|Hm]; [|reflexivity].
  destruct (split_half seg Hm) as (_ & H1 & H2 & H3).
  rewrite app_length, map_length, !IH, H1, H2. lia.
Qed.

Lemma half_index : forall i L, (i + (i + L)) / 2 = i + L / 2.
Proof.
  intros i L. replace (i + (i + L)) with (L + i * 2) by lia.
  rewrite Nat.div_add by lia. lia.
Qed.

Lemma acc_sk_SK : forall fuel pre seg post,
  acc_sk f d fuel (length pre) (length pre + length seg) (pre ++ seg ++ post)
  = pre ++ SK fuel seg ++ post.
Proof.
  induction fuel as [|k IH]; intros pre seg post; [reflexivity|].
  cbn [acc_sk SK]. cbv zeta. rewrite half_index.
  assert (Hb : (length pre <? length pre + length seg / 2) = (0 <? length seg / 2)).
  { destruct (Nat.ltb_spec 0 (length seg / 2)); destruct (Nat.ltb_spec (length pre) (length pre + length seg / 2)); lia || reflexivity. }
  rewrite Hb. clear Hb.
  destruct (Nat.ltb_spec 0 (length seg / 2)) as [Hm|Hm]; [|reflexivity].
  destruct (split_half seg Hm) as (Hs & H1 & H2 & H3).
  remember (length seg / 2) as m eqn:Em.
  set (s1 := firstn m seg) in *. set (s2 := skipn m seg) in *.
  assert (HL : length seg = length s1 + length s2) by lia.
  rewrite HL. clearbody s1 s2. subst seg. clear HL.
  assert (X1 : acc_sk f d k (length pre) (length pre + m) (pre ++ (s1 ++ s2) ++ post)
               = pre ++ SK k s1 ++ (s2 ++ post)).
  { rewrite <- H1, <- app_assoc. apply IH. }
  rewrite X1.
  assert (Hr1 : SK k s1 <> []) by (apply length_ne; rewrite SK_length; lia).
  assert (Xa : nth (length pre + m - 1) (pre ++ SK k s1 ++ s2 ++ post) d = last (SK k s1) d).
  { rewrite <- H1, <- (SK_length k s1). apply nth_mid_last, Hr1. }
  rewrite Xa.
  assert (X2 : acc_sk f d k (length pre + m) (length pre + (length s1 + length s2))
                 (pre ++ SK k s1 ++ s2 ++ post)
               = (pre ++ SK k s1) ++ SK k s2 ++ post).
  { replace (length pre + m) with (length (pre ++ SK k s1))
      by (rewrite app_length, SK_length; lia).
    replace (length pre + (length s1 + length s2)) with (length (pre ++ SK k s1) + length s2)
      by (rewrite app_length, SK_length; lia).
    rewrite (app_assoc pre (SK k s1)). apply IH. }
  rewrite X2.
  replace (length pre + m) with (length (pre ++ SK k s1))
    by (rewrite app_length, SK_length; lia).
  rewrite firstn_app_exact, skipn_app_exact.
  replace (length pre + (length s1 + length s2) - length (pre ++ SK k s1)) with (length (SK k s2))
    by (rewrite app_length, !SK_length; lia).
  rewrite firstn_app_exact.
  replace (length pre + (length s1 + length s2)) with (length ((pre ++ SK k s1) ++ SK k s2))
    by (rewrite !app_length, !SK_length; lia).
  rewrite (app_assoc _ (SK k s2) post), skipn_app_exact.
  rewrite <- !app_assoc. reflexivity.
Qed.

(** scan algebra *)
Lemma scan_from_ne : forall a l, scan_from f a l <> [].
Proof. intros a l. destruct l; simpl; congruence. Qed.

Lemma scan_from_length : forall l a, length (scan_from f a l) = S (length l).
Proof. induction l as [|b l IH]; intros a; simpl; [reflexivity | rewrite IH; reflexivity]. Qed.

Lemma scan_length : forall l, length (scan f l) = length l.
Proof. intros [|a l]; [reflexivity | apply scan_from_length]. Qed.

Hypothesis f_assoc : forall a b c, f (f a b) c = f a (f b c).

Lemma scan_from_map : forall l a b, scan_from f (f a b) l = map (f a) (scan_from f b l).
Proof.
  induction l as [|c l IH]; intros a b; [reflexivity|].
  simpl. f_equal. rewrite f_assoc. apply IH.
Qed.

Lemma scan_from_app : forall l1 a b l2,
  scan_from f a (l1 ++ b :: l2)
  = scan_from f a l1 ++ map (f (last (scan_from f a l1) d)) (scan_from f b l2).
Proof.
  induction l1 as [|c l1 IH]; intros a b l2.
  - simpl. f_equal. apply scan_from_map.
  - change (scan_from f a ((c :: l1) ++ b :: l2)) with (a :: scan_from f (f a c) (l1 ++ b :: l2)).
    rewrite IH.
    change (scan_from f a (c :: l1)) with (a :: scan_from f (f a c) l1).
    assert (Hl : last (a :: scan_from f (f a c) l1) d = last (scan_from f (f a c) l1) d).
    { pose proof (scan_from_ne (f a c) l1) as Hne. destruct (scan_from f (f a c) l1); [congruence|reflexivity]. }
    rewrite Hl. reflexivity.
Qed.

Lemma scan_app : forall s1 s2, s1 <> [] ->
  scan f (s1 ++ s2) = scan f s1 ++ map (f (last (scan f s1) d)) (scan f s2).
Proof.
  intros [|a l1] s2 Hne; [congruence|]. destruct s2 as [|b l2].
  - rewrite app_nil_r. change (scan f []) with (@nil A). cbn [map]. rewrite app_nil_r. reflexivity.
  - simpl scan. simpl app. apply scan_from_app.
Qed.

Lemma SK_scan : forall fuel seg, length seg <= fuel -> SK fuel seg = scan f seg.
Proof.
  induction fuel as [|k IH]; intros seg Hlen.
  - destruct seg; [reflexivity | simpl in Hlen; lia].
  - cbn [SK]. cbv zeta.
    destruct (Nat.ltb_spec 0 (length seg / 2)) as [Hm|Hm].
    + destruct (split_half seg Hm) as (Hs & H1 & H2 & H3).
      rewrite !IH by lia.
      rewrite <- scan_app by (apply length_ne; lia).
      rewrite firstn_skipn. reflexivity.
    + pose proof (half_bounds (length seg)) as Hb.
      destruct seg as [|a [|b r]]; try reflexivity. simpl length in *. lia.
Qed.

End SkProofs.

Theorem accumulate_Sk_eq_scan :
  forall {A} (f : A -> A -> A) (d : A), (forall a b c, f (f a b) c = f a (f b c)) ->
  forall (x : list A) (initial : option A), accumulate f d false x initial = py_accumulate f x initial.
Proof.
  intros A f d Hassoc x initial. unfold accumulate, py_accumulate.
  set (x' := match initial with Some a => a :: x | None => x end).
  pose proof (acc_sk_SK f d (length x') [] x' []) as H.
  simpl in H. rewrite app_nil_r in H. rewrite H, app_nil_r.
  apply SK_scan; [exact Hassoc | lia].
Qed.

(** ** Brent-Kung: pure function of the segment and of the element just before it *)
Section BkProofs.
Context {A : Type}.
Variable f : A -> A -> A.
Variable d : A.

Fixpoint BK (fuel : nat) (P : option A) (seg : list A) : list A :=
  match fuel with
  | O => seg
  | S k =>
    let m := length seg / 2 in
    if 0 <? m then
      let r1 := BK k P (firstn m seg) in
      let a := last r1 d in
      let r1' := match P with Some p => setlast r1 (f p a) | None => r1 end in
      let r2 := BK k (Some (last r1' d)) (skipn m seg) in
      r1' ++ setlast r2 (f a (last r2 d))
    else seg
  end.

Definition lastopt (pre : list A) : option A :=
  match pre with [] => None | _ => Some (last pre d) end.

Lemma BK_length : forall fuel P seg, length (BK fuel P seg) = length seg.
Proof.
  induction fuel as [|k IH]; intros P seg; [reflexivity|].
  cbn [BK]. cbv zeta. destruct (Nat.ltb_spec 0 (length seg / 2)) as [Hm|Hm]; [|reflexivity].
  destruct (split_half seg Hm) as (_ & H1 & H2 & H3).
  rewrite app_length.
  rewrite setlast_length by (apply length_ne; rewrite IH; lia).
  rewrite IH, H2.
  destruct P as [p|].
  - rewrite setlast_length by (apply length_ne; rewrite IH; lia). rewrite IH, H1. lia.
  - rewrite IH, H1. lia.
Qed.

Lemma lastopt_app : forall pre l, l <> [] -> lastopt (pre ++ l) = Some (last l d).
Proof.
  intros pre l Hne. unfold lastopt.
  destruct (exists_last Hne) as [l' [a ->]].
  rewrite app_assoc, !last_last.
  destruct ((pre ++ l') ++ [a]) eqn:E; [|reflexivity].
  apply app_eq_nil in E. destruct E as [_ E]. discriminate.
Qed.

Lemma acc_bk_BK : forall fuel pre seg post,
  acc_bk f d fuel (length pre) (length pre + length seg) (pre ++ seg ++ post)
  = pre ++ BK fuel (lastopt pre) seg ++ post.
Proof.
  induction fuel as [|k IH]; intros pre seg post; [reflexivity|].
  cbn [acc_bk BK]. cbv zeta. rewrite half_index.
  assert (Hb : (length pre <? length pre + length seg / 2) = (0 <? length seg / 2)).
  { destruct (Nat.ltb_spec 0 (length seg / 2)); destruct (Nat.ltb_spec (length pre) (length pre + length seg / 2)); lia || reflexivity. }
  rewrite Hb. clear Hb.
  destruct (Nat.ltb_spec 0 (length seg / 2)) as [Hm|Hm]; [|reflexivity].
  destruct (split_half seg Hm) as (Hs & H1 & H2 & H3).
  remember (length seg / 2) as m eqn:Em.
  set (s1 := firstn m seg) in *. set (s2 := skipn m seg) in *.
  assert (HL : length seg = length s1 + length s2) by lia.
  rewrite HL. clearbody s1 s2. subst seg. clear HL.
  set (P := lastopt pre).
  assert (X1 : acc_bk f d k (length pre) (length pre + m) (pre ++ (s1 ++ s2) ++ post)
               = pre ++ BK k P s1 ++ (s2 ++ post)).
  { rewrite <- H1, <- app_assoc. apply IH. }
  rewrite X1. clear X1.
  set (r1 := BK k P s1).
  assert (Lr1 : length r1 = m) by (unfold r1; rewrite BK_length; exact H1).
  assert (Hr1 : r1 <> []) by (apply length_ne; lia).
  assert (Xa : nth (length pre + m - 1) (pre ++ r1 ++ s2 ++ post) d = last r1 d).
  { rewrite <- Lr1. apply nth_mid_last, Hr1. }
  rewrite Xa. clear Xa.
  set (a := last r1 d).
  set (r1' := match P with Some p => setlast r1 (f p a) | None => r1 end).
  assert (X2 : (if 0 <? length pre
                then upd (length pre + m - 1) (f (nth (length pre - 1) (pre ++ r1 ++ s2 ++ post) d) a)
                       (pre ++ r1 ++ s2 ++ post)
                else pre ++ r1 ++ s2 ++ post) = (pre ++ r1') ++ s2 ++ post).
  { unfold r1', P. destruct pre as [|p0 pre0].
    - reflexivity.
    - set (pre := p0 :: pre0).
      assert (Hpre : pre <> []) by (unfold pre; congruence).
      assert (Hlt : (0 <? length pre) = true) by (apply Nat.ltb_lt; unfold pre; simpl; lia).
      rewrite Hlt.
      assert (Hn : nth (length pre - 1) (pre ++ r1 ++ s2 ++ post) d = last pre d)
        by (apply nth_app_last, Hpre).
      rewrite Hn. rewrite <- Lr1. rewrite upd_mid_last by exact Hr1.
      unfold lastopt, pre. rewrite <- app_assoc. reflexivity. }
  rewrite X2. clear X2.
  assert (Lr1' : length r1' = m).
  { unfold r1'. destruct P; [rewrite setlast_length by exact Hr1|]; exact Lr1. }
  assert (Hr1' : r1' <> []) by (apply length_ne; lia).
  assert (X3 : acc_bk f d k (length pre + m) (length pre + (length s1 + length s2))
                 ((pre ++ r1') ++ s2 ++ post)
               = (pre ++ r1') ++ BK k (Some (last r1' d)) s2 ++ post).
  { replace (length pre + m) with (length (pre ++ r1')) by (rewrite app_length; lia).
    replace (length pre + (length s1 + length s2)) with (length (pre ++ r1') + length s2)
      by (rewrite app_length; lia).
    rewrite IH. rewrite lastopt_app by exact Hr1'. reflexivity. }
  rewrite X3. clear X3.
  set (r2 := BK k (Some (last r1' d)) s2).
  assert (Lr2 : length r2 = length s2) by (unfold r2; apply BK_length).
  assert (Hr2 : r2 <> []) by (apply length_ne; lia).
  replace (length pre + (length s1 + length s2) - 1) with (length (pre ++ r1') + length r2 - 1)
    by (rewrite app_length; lia).
  rewrite nth_mid_last by exact Hr2.
  rewrite upd_mid_last by exact Hr2.
  rewrite <- !app_assoc. reflexivity.
Qed.

Lemma map_removelast_last : forall (g : A -> A) l, l <> [] ->
  map g l = map g (removelast l) ++ [g (last l d)].
Proof.
  intros g l Hne. rewrite (app_removelast_last d Hne) at 1. rewrite map_app. reflexivity.
Qed.

Definition pf (P : option A) (v : A) : A := match P with Some p => f p v | None => v end.

Hypothesis f_assoc : forall a b c, f (f a b) c = f a (f b c).

Lemma BK_scan : forall fuel P seg, length seg <= fuel -> seg <> [] ->
  BK fuel P seg = map (pf P) (removelast (scan f seg)) ++ [last (scan f seg) d].
Proof.
  induction fuel as [|k IH]; intros P seg Hlen Hne.
  - destruct seg; [congruence | simpl in Hlen; lia].
  - cbn [BK]. cbv zeta.
    destruct (Nat.ltb_spec 0 (length seg / 2)) as [Hm|Hm].
    + destruct (split_half seg Hm) as (Hs & H1 & H2 & H3).
      set (s1 := firstn (length seg / 2) seg) in *. set (s2 := skipn (length seg / 2) seg) in *.
      assert (N1 : s1 <> []) by (apply length_ne; lia).
      assert (N2 : s2 <> []) by (apply length_ne; lia).
      rewrite (IH P s1) by (lia || exact N1).
      set (S1 := scan f s1). set (S2 := scan f s2).
      assert (NS1 : S1 <> []) by (apply length_ne; unfold S1; rewrite scan_length; lia).
      assert (NS2 : S2 <> []) by (apply length_ne; unfold S2; rewrite scan_length; lia).
      set (l1 := last S1 d).
      rewrite last_last.
      assert (R1' : match P with
                    | Some p => setlast (map (pf P) (removelast S1) ++ [l1]) (f p l1)
                    | None => map (pf P) (removelast S1) ++ [l1] end = map (pf P) S1).
      { rewrite (map_removelast_last (pf P) S1 NS1). fold l1.
        destruct P as [p|]; simpl.
        - unfold setlast. rewrite removelast_last. reflexivity.
        - reflexivity. }
      rewrite R1'. clear R1'.
      assert (L1' : last (map (pf P) S1) d = pf P l1).
      { rewrite (map_removelast_last (pf P) S1 NS1). fold l1. apply last_last. }
      rewrite L1'. clear L1'.
      rewrite (IH (Some (pf P l1)) s2) by (lia || exact N2). fold S2.
      rewrite last_last. unfold setlast. rewrite removelast_last.
      assert (ES : scan f seg = (S1 ++ map (f l1) (removelast S2)) ++ [f l1 (last S2 d)]).
      { transitivity (scan f (s1 ++ s2)); [f_equal; exact Hs|].
        rewrite (scan_app f d f_assoc s1 s2 N1). fold S1 S2 l1.
        rewrite (map_removelast_last (f l1) S2 NS2). rewrite app_assoc. reflexivity. }
      rewrite ES, removelast_last, last_last.
      rewrite map_app, map_map. rewrite <- app_assoc. f_equal. f_equal.
      apply map_ext. intros v. destruct P as [p|]; simpl; [|reflexivity].
      rewrite f_assoc. reflexivity.
    + pose proof (half_bounds (length seg)) as Hb.
      destruct seg as [|a0 [|b r]]; [congruence | reflexivity | simpl length in *; lia].
Qed.

End BkProofs.

Theorem accumulate_BK_eq_scan :
  forall {A} (f : A -> A -> A) (d : A), (forall a b c, f (f a b) c = f a (f b c)) ->
  forall (x : list A) (initial : option A), accumulate f d true x initial = py_accumulate f x initial.
Proof.
  intros A f d Hassoc x initial. unfold accumulate, py_accumulate.
  set (x' := match initial with Some a => a :: x | None => x end).
  pose proof (acc_bk_BK f d (length x') [] x' []) as H.
  simpl in H. rewrite app_nil_r in H. rewrite H, app_nil_r. clear H.
  destruct x' as [|a0 r] eqn:E; [reflexivity|]. rewrite <- E.
  assert (Hne : x' <> []) by (rewrite E; congruence).
  rewrite (BK_scan f d Hassoc) by (lia || exact Hne).
  assert (Hid : forall l : list A, map (pf f None) l = l).
  { intros l. rewrite <- (map_id l) at 2. apply map_ext. reflexivity. }
  rewrite Hid. symmetry. apply app_removelast_last.
  apply length_ne. rewrite scan_length. apply ne_length, Hne.
Qed.

(** ** depth bounds through the instrumented operation [fdepth f] *)
Section DepthProofs.
Context {A : Type}.
Variable f : A -> A -> A.
Variable dd : A * nat.

Definition dle (d0 : nat) (p : A * nat) : Prop := snd p <= d0.

Lemma dle_weaken : forall d0 d1 l, d0 <= d1 -> Forall (dle d0) l -> Forall (dle d1) l.
Proof.
  intros d0 d1 l Hle H. eapply Forall_impl; [|exact H]. unfold dle. intros p Hp. lia.
Qed.

Lemma Forall_last_ne : forall (P : A * nat -> Prop) l, Forall P l -> l <> [] -> P (last l dd).
Proof.
  intros P l H Hne. destruct (exists_last Hne) as [l' [a ->]].
  rewrite last_last. apply Forall_app in H. destruct H as [_ H]. inversion H; assumption.
Qed.

Lemma Forall_removelast : forall (P : A * nat -> Prop) l, Forall P l -> Forall P (removelast l).
Proof.
  intros P l H. destruct l as [|a0 l0]; [exact H|].
  assert (Hne : a0 :: l0 <> []) by congruence.
  destruct (exists_last Hne) as [l' [a E]]. rewrite E in *.
  rewrite removelast_last. apply Forall_app in H. tauto.
Qed.

Lemma Forall_setlast : forall (P : A * nat -> Prop) l v, Forall P l -> P v -> Forall P (setlast l v).
Proof.
  intros P l v H Hv. unfold setlast. apply Forall_app. split.
  - apply Forall_removelast, H.
  - constructor; [exact Hv | constructor].
Qed.

Lemma Forall_map_intro : forall (P : A * nat -> Prop) (g : A * nat -> A * nat) l,
  (forall p, In p l -> P (g p)) -> Forall P (map g l).
Proof.
  intros P g l H. apply Forall_forall. intros q Hq. apply in_map_iff in Hq.
  destruct Hq as [p [<- Hp]]. apply H, Hp.
Qed.

Lemma leaves_dle : forall x : list A, Forall (dle 0) (leaves x).
Proof.
  intros x. unfold leaves. apply Forall_forall. intros q Hq. apply in_map_iff in Hq.
  destruct Hq as [p [<- _]]. unfold dle. simpl. lia.
Qed.

Lemma leaves_length : forall x : list A, length (leaves x) = length x.
Proof. intros x. unfold leaves. apply map_length. Qed.

Lemma le_pow2_log2_up : forall n, n <= 2 ^ Nat.log2_up n.
Proof.
  intros n. destruct (Nat.lt_ge_cases 1 n) as [H|H].
  - apply Nat.log2_up_spec, H.
  - destruct n as [|[|n]]; [lia | cbn; lia | lia].
Qed.

Lemma fdepth_dle : forall d0 p q, dle d0 p -> dle d0 q -> dle (S d0) (fdepth f p q).
Proof. unfold dle, fdepth. intros d0 p q Hp Hq. simpl. lia. Qed.

(** reduce *)
Lemma pairs_depth : forall x d0, Forall (dle d0) x -> Forall (dle (S d0)) (pairs (fdepth f) x).
Proof.
  induction x as [| a | a b r IH] using list_ind2; intros d0 H; simpl; try constructor.
  - inversion H as [|? ? Ha H']; subst. inversion H' as [|? ? Hb H'']; subst.
    apply fdepth_dle; assumption.
  - inversion H as [|? ? Ha H']; subst. inversion H' as [|? ? Hb H'']; subst.
    apply IH; assumption.
Qed.

Lemma reduce_step_depth : forall x d0, Forall (dle d0) x ->
  Forall (dle (S d0)) (reduce_step (fdepth f) x).
Proof.
  intros x d0 H. unfold reduce_step. destruct (Nat.odd (length x)).
  - destruct x as [|a r]; [constructor|]. inversion H as [|? ? Ha H']; subst.
    constructor; [unfold dle in *; lia | apply pairs_depth; assumption].
  - apply pairs_depth, H.
Qed.

Lemma reduce_loop_depth : forall fuel x d0 k v dep,
  Forall (dle d0) x -> length x <= 2 ^ k ->
  reduce_loop (fdepth f) fuel x = Some (v, dep) -> dep <= d0 + k.
Proof.
  induction fuel as [|n IH]; intros x d0 k v dep HF Hlen Hr.
  - destruct x as [|a [|b r]]; simpl in Hr; try discriminate.
    injection Hr as ->. inversion HF as [|? ? Ha ?]; subst. unfold dle in Ha. simpl in Ha. lia.
  - destruct x as [|a [|b r]]; [discriminate | |].
    + simpl in Hr. injection Hr as ->. inversion HF as [|? ? Ha ?]; subst.
      unfold dle in Ha. simpl in Ha. lia.
    + change (reduce_loop (fdepth f) (S n) (a :: b :: r))
        with (reduce_loop (fdepth f) n (reduce_step (fdepth f) (a :: b :: r))) in Hr.
      destruct k as [|k'].
      * simpl in Hlen. lia.
      * assert (Hd : dep <= S d0 + k').
        { eapply IH; [apply reduce_step_depth, HF | | exact Hr].
          pose proof (reduce_step_length (fdepth f) (a :: b :: r)) as Hs.
          rewrite Nat.pow_succ_r' in Hlen. lia. }
        lia.
Qed.

(** Sklansky *)
Lemma SK_depth : forall fuel k seg d0, Forall (dle d0) seg -> length seg <= 2 ^ k ->
  Forall (dle (d0 + k)) (SK (fdepth f) dd fuel seg).
Proof.
  induction fuel as [|n IH]; intros k seg d0 HF Hlen.
  - simpl. eapply dle_weaken; [|exact HF]. lia.
  - cbn [SK]. cbv zeta.
    destruct (Nat.ltb_spec 0 (length seg / 2)) as [Hm|Hm];
      [| eapply dle_weaken; [|exact HF]; lia].
    destruct (split_half seg Hm) as (Hs & H1 & H2 & H3).
    set (s1 := firstn (length seg / 2) seg) in *. set (s2 := skipn (length seg / 2) seg) in *.
    pose proof (half_bounds (length seg)) as Hb.
    destruct k as [|k']; [simpl in Hlen; lia|].
    rewrite Nat.pow_succ_r' in Hlen.
    assert (HF12 : Forall (dle d0) s1 /\ Forall (dle d0) s2) by (apply Forall_app; rewrite <- Hs; exact HF).
    destruct HF12 as [HF1 HF2].
    assert (R1 : Forall (dle (d0 + k')) (SK (fdepth f) dd n s1)) by (apply IH; [exact HF1 | lia]).
    assert (R2 : Forall (dle (d0 + k')) (SK (fdepth f) dd n s2)) by (apply IH; [exact HF2 | lia]).
    assert (Ha : dle (d0 + k') (last (SK (fdepth f) dd n s1) dd)).
    { apply Forall_last_ne; [exact R1|]. apply length_ne. rewrite SK_length. lia. }
    apply Forall_app. split.
    + eapply dle_weaken; [|exact R1]. lia.
    + apply Forall_map_intro. intros p Hp.
      rewrite Forall_forall in R2. specialize (R2 p Hp).
      replace (d0 + S k') with (S (d0 + k')) by lia. apply fdepth_dle; assumption.
Qed.

(** Brent-Kung *)
Lemma BK_depth : forall fuel k P seg d0 dP,
  Forall (dle d0) seg -> (forall p, P = Some p -> dle dP p) -> length seg <= 2 ^ k -> seg <> [] ->
  dle (d0 + k) (last (BK (fdepth f) dd fuel P seg) dd) /\
  Forall (dle (Nat.max (dP + k) (d0 + 2 * k))) (BK (fdepth f) dd fuel P seg).
Proof.
  induction fuel as [|n IH]; intros k P seg d0 dP HF HP Hlen Hne.
  - simpl. split.
    + assert (H0 : dle d0 (last seg dd)) by (apply Forall_last_ne; assumption).
      unfold dle in *. lia.
    + eapply dle_weaken; [|exact HF]. lia.
  - cbn [BK]. cbv zeta.
    destruct (Nat.ltb_spec 0 (length seg / 2)) as [Hm|Hm].
    2:{ split.
        + assert (H0 : dle d0 (last seg dd)) by (apply Forall_last_ne; assumption).
          unfold dle in *. lia.
        + eapply dle_weaken; [|exact HF]. lia. }
    destruct (split_half seg Hm) as (Hs & H1 & H2 & H3).
    set (s1 := firstn (length seg / 2) seg) in *. set (s2 := skipn (length seg / 2) seg) in *.
    pose proof (half_bounds (length seg)) as Hb.
    destruct k as [|k']; [simpl in Hlen; lia|].
    rewrite Nat.pow_succ_r' in Hlen.
    assert (HF12 : Forall (dle d0) s1 /\ Forall (dle d0) s2) by (apply Forall_app; rewrite <- Hs; exact HF).
    destruct HF12 as [HF1 HF2].
    assert (N1 : s1 <> []) by (apply length_ne; lia).
    assert (N2 : s2 <> []) by (apply length_ne; lia).
    destruct (IH k' P s1 d0 dP HF1 HP ltac:(lia) N1) as [La R1].
    set (r1 := BK (fdepth f) dd n P s1) in *.
    assert (Hr1 : r1 <> []) by (apply length_ne; unfold r1; rewrite BK_length; lia).
    set (a := last r1 dd) in *.
    set (dP' := S (Nat.max dP (d0 + k'))).
    set (r1' := match P with Some p => setlast r1 (fdepth f p a) | None => r1 end).
    assert (Hr1' : r1' <> []).
    { unfold r1'. destruct P; [apply setlast_ne | exact Hr1]. }
    assert (Ll' : dle dP' (last r1' dd)).
    { unfold r1'. destruct P as [p|].
      - rewrite last_setlast. specialize (HP p eq_refl).
        unfold dle, dP', fdepth in *. simpl. lia.
      - fold a. unfold dle, dP' in *. lia. }
    assert (R1' : Forall (dle (Nat.max (dP + S k') (d0 + 2 * S k'))) r1').
    { unfold r1'. destruct P as [p|].
      - apply Forall_setlast.
        + eapply dle_weaken; [|exact R1]. lia.
        + specialize (HP p eq_refl). unfold dle, fdepth in *. simpl. lia.
      - eapply dle_weaken; [|exact R1]. lia. }
    destruct (IH k' (Some (last r1' dd)) s2 d0 dP' HF2) as [Lb R2];
      [intros p Hp; injection Hp as <-; exact Ll' | lia | exact N2 |].
    set (r2 := BK (fdepth f) dd n (Some (last r1' dd)) s2) in *.
    split.
    + unfold setlast. rewrite app_assoc, last_last.
      unfold dle, fdepth in *. simpl. lia.
    + apply Forall_app. split; [exact R1'|].
      apply Forall_setlast.
      * eapply dle_weaken; [|exact R2]. unfold dP'. lia.
      * unfold dle, fdepth in *. simpl. lia.
Qed.

End DepthProofs.

Theorem reduce_depth : forall {A} (f : A -> A -> A) (x : list A) v dep,
  reduce (fdepth f) (leaves x) None = Some (v, dep) -> dep <= Nat.log2_up (length x).
Proof.
  intros A f x v dep H. unfold reduce in H.
  change (dep <= 0 + Nat.log2_up (length x)).
  eapply reduce_loop_depth; [apply leaves_dle | | exact H].
  rewrite leaves_length. apply le_pow2_log2_up.
Qed.

Theorem accumulate_Sk_depth : forall {A} f (dd : A * nat) (x : list A),
  Forall (fun p => snd p <= Nat.log2_up (length x)) (accumulate (fdepth f) dd false (leaves x) None).
Proof.
  intros A f dd x. unfold accumulate.
  pose proof (acc_sk_SK (fdepth f) dd (length (leaves x)) [] (leaves x) []) as H.
  simpl in H. rewrite app_nil_r in H. rewrite H, app_nil_r. clear H.
  change (Forall (dle (0 + Nat.log2_up (length x))) (SK (fdepth f) dd (length (leaves x)) (leaves x))).
  apply SK_depth; [apply leaves_dle|]. rewrite leaves_length. apply le_pow2_log2_up.
Qed.

Theorem accumulate_BK_depth : forall {A} f (dd : A * nat) (x : list A),
  Forall (fun p => snd p <= 2 * Nat.log2_up (length x)) (accumulate (fdepth f) dd true (leaves x) None).
Proof.
  intros A f dd x. unfold accumulate.
  pose proof (acc_bk_BK (fdepth f) dd (length (leaves x)) [] (leaves x) []) as H.
  simpl in H. rewrite app_nil_r in H. rewrite H, app_nil_r. clear H.
  destruct x as [|a0 r] eqn:E; [constructor|]. rewrite <- E.
  assert (Hne : leaves x <> []) by (rewrite E; simpl; congruence).
  destruct (BK_depth f dd (length (leaves x)) (Nat.log2_up (length x)) None (leaves x) 0 0) as [_ HB].
  - apply leaves_dle.
  - intros p Hp; discriminate.
  - rewrite leaves_length. apply le_pow2_log2_up.
  - exact Hne.
  - change (Forall (dle (2 * Nat.log2_up (length x))) (BK (fdepth f) dd (length (leaves x)) None (leaves x))).
    eapply dle_weaken; [|exact HB]. lia.
Qed.

(** ** erasure: the instrumentation does not change the values *)
Section Erasure.
Context {A : Type}.
Variable f : A -> A -> A.
Variable dd : A * nat.

Lemma leaves_fst : forall x : list A, map fst (leaves x) = x.
Proof.
  intros x. unfold leaves. rewrite map_map. simpl. apply map_id.
Qed.

Lemma pairs_erase : forall y, map fst (pairs (fdepth f) y) = pairs f (map fst y).
Proof.
  induction y as [| a | a b r IH] using list_ind2; simpl; try reflexivity.
  rewrite IH. reflexivity.
Qed.

Lemma reduce_step_erase : forall y,
  map fst (reduce_step (fdepth f) y) = reduce_step f (map fst y).
Proof.
  intros y. unfold reduce_step. rewrite map_length. destruct (Nat.odd (length y)).
  - destruct y as [|a r]; [reflexivity|]. simpl. rewrite pairs_erase. reflexivity.
  - apply pairs_erase.
Qed.

Lemma reduce_loop_erase : forall fuel y,
  option_map fst (reduce_loop (fdepth f) fuel y) = reduce_loop f fuel (map fst y).
Proof.
  induction fuel as [|n IH]; intros y.
  - destruct y as [|a [|b r]]; reflexivity.
  - destruct y as [|a [|b r]]; try reflexivity.
    change (reduce_loop (fdepth f) (S n) (a :: b :: r))
      with (reduce_loop (fdepth f) n (reduce_step (fdepth f) (a :: b :: r))).
    rewrite IH, reduce_step_erase. reflexivity.
Qed.

Lemma upd_erase : forall i (v : A * nat) l, map fst (upd i v l) = upd i (fst v) (map fst l).
Proof.
  induction i as [|i IH]; intros v [|a l]; simpl; try reflexivity. rewrite IH. reflexivity.
Qed.

Lemma firstn_erase : forall n (l : list (A * nat)), firstn n (map fst l) = map fst (firstn n l).
Proof. induction n as [|n IH]; intros [|a l]; simpl; try reflexivity. rewrite IH; reflexivity. Qed.

Lemma skipn_erase : forall n (l : list (A * nat)), skipn n (map fst l) = map fst (skipn n l).
Proof. induction n as [|n IH]; intros [|a l]; simpl; try reflexivity. apply IH. Qed.

Lemma nth_erase : forall n (l : list (A * nat)), nth n (map fst l) (fst dd) = fst (nth n l dd).
Proof. intros n l. apply (map_nth fst). Qed.

Lemma acc_sk_erase : forall fuel i j y,
  map fst (acc_sk (fdepth f) dd fuel i j y) = acc_sk f (fst dd) fuel i j (map fst y).
Proof.
  induction fuel as [|n IH]; intros i j y; [reflexivity|].
  cbn [acc_sk]. cbv zeta. destruct (i <? (i + j) / 2); [|reflexivity].
  rewrite <- !IH. rewrite nth_erase, !firstn_erase, !skipn_erase, firstn_erase.
  rewrite !map_app, !map_map. reflexivity.
Qed.

Lemma acc_bk_erase : forall fuel i j y,
  map fst (acc_bk (fdepth f) dd fuel i j y) = acc_bk f (fst dd) fuel i j (map fst y).
Proof.
  induction fuel as [|n IH]; intros i j y; [reflexivity|].
  cbn [acc_bk]. cbv zeta. destruct (i <? (i + j) / 2); [|reflexivity].
  set (h := (i + j) / 2).
  set (x1 := acc_bk (fdepth f) dd n i h y).
  assert (E1 : acc_bk f (fst dd) n i h (map fst y) = map fst x1) by (symmetry; apply IH).
  rewrite E1. rewrite !nth_erase.
  set (a := nth (h - 1) x1 dd).
  set (x2 := if 0 <? i then upd (h - 1) (fdepth f (nth (i - 1) x1 dd) a) x1 else x1).
  assert (E2 : (if 0 <? i then upd (h - 1) (f (fst (nth (i - 1) x1 dd)) (fst a)) (map fst x1)
                else map fst x1) = map fst x2).
  { unfold x2. destruct (0 <? i); [rewrite upd_erase|]; reflexivity. }
  rewrite E2. rewrite <- IH. rewrite nth_erase, upd_erase. reflexivity.
Qed.

End Erasure.

Theorem fdepth_erasure_reduce : forall {A} (f : A -> A -> A) (y : list (A * nat)) (initial : option (A * nat)),
  option_map fst (reduce (fdepth f) y initial) = reduce f (map fst y) (option_map fst initial).
Proof.
  intros A f y initial. unfold reduce. rewrite reduce_loop_erase.
  destruct initial as [a|]; simpl; rewrite map_length; reflexivity.
Qed.

Theorem fdepth_erasure_accumulate :
  forall {A} (f : A -> A -> A) (dd : A * nat) (bk : bool) (y : list (A * nat)) (initial : option (A * nat)),
  map fst (accumulate (fdepth f) dd bk y initial)
  = accumulate f (fst dd) bk (map fst y) (option_map fst initial).
Proof.
  intros A f dd bk y initial. unfold accumulate.
  destruct bk; [rewrite acc_bk_erase | rewrite acc_sk_erase];
    destruct initial as [a|]; simpl; rewrite map_length; reflexivity.
Qed.

Corollary fdepth_erasure_reduce_leaves : forall {A} (f : A -> A -> A) (x : list A),
  option_map fst (reduce (fdepth f) (leaves x) None) = reduce f x None.
Proof. intros A f x. rewrite fdepth_erasure_reduce, leaves_fst. reflexivity. Qed.

Corollary fdepth_erasure_accumulate_leaves : forall {A} (f : A -> A -> A) (dd : A * nat) (bk : bool) (x : list A),
  map fst (accumulate (fdepth f) dd bk (leaves x) None) = accumulate f (fst dd) bk x None.
Proof. intros A f dd bk x. rewrite fdepth_erasure_accumulate, leaves_fst. reflexivity. Qed.
