"""C17 — the PRF is deterministic and its outputs lie in range; n values / a shape consistent with the scalar.

Proof: coq/props/C17.v over coq/theories/PRFModel.v (byte_length, little-endian slicing, mod bound; SHAKE-128 is an
oracle with the XOF prefix law as the only assumption).  Tie: real thresha.PRF run on keys x bounds x inputs x n;
the digest bytes are computed independently with hashlib and fed, as data, to the Coq definition `prf_data`, whose
result (byte_length and all outputs) is compared exactly with the implementation's.
"""
import hashlib
from lib.core import zlit, zlist, natlit

MANIFEST = {
    'text': 'Coq theorems (all digests, slice widths, bounds >= 1, counts): every PRF output is in [0,bound); exactly n '
            'outputs (none for n=0); prod(shape) outputs for a shape; with the XOF prefix law, element i is independent of '
            'the requested count, so PRF(s) = PRF(s,n)[0] for all n>=1; bound=1 gives byte_length 0 and zeros without using '
            'the digest; 256^byte_length >= bound, no extra bytes exactly for powers of two (bound&(bound-1) test proved '
            'correct), len(key) extra bytes otherwise; little-endian decode/encode inverse. Determinism is definitional '
            '(the model is a function of key, s, bound, n only: C17_prf_history_independent), so any dependence of the '
            'implementation on the call history is a correspondence break; the check runs stateful call histories on '
            'long-lived PRF objects against fresh objects, the prefix-family property and the model. The model is compared '
            'with thresha.PRF on every run with the real SHAKE-128 digest supplied as data.',
    'note': 'Trusted: Coq kernel+vm_compute; hashlib.shake_128 is an oracle (not modelled) whose prefix law '
            'digest(b)[:a] == digest(a) is assumed in the scalar/list consistency theorems and tested on hashlib each run; '
            'np.fromiter/reshape (shape requests) are NumPy and only tested (shape, C-order flattening); key+s concatenation '
            'is outside the model (the oracle is indexed by the fixed pair). bound <= 0 and negative n are outside the '
            'property (bound=0 raises ZeroDivisionError).',
    'technique': 'Coq proof over an executable model with SHAKE as oracle + vm_compute correspondence on real digests',
}


def ref_byte_length(bound, keylen):
    """Independent of the implementation's formula: least l with 256^l >= bound, + keylen unless one bit set."""
    l = 0
    while 256 ** l < bound:
        l += 1
    if bin(bound).count('1') != 1:
        l += keylen
    return l


def ref_prf(key, bound, s, n_):
    l = ref_byte_length(bound, len(key))
    if n_ == 0:
        return l, b'', []
    if l == 0:
        return l, b'', [0] * n_
    dk = hashlib.shake_128(key + s).digest(n_ * l)
    out = []
    for j in range(n_):
        chunk = dk[j * l:(j + 1) * l]
        v = sum(b << (8 * k) for k, b in enumerate(chunk))
        out.append(v % bound)
    return l, dk, out


def run(ctx):
    from mpyc import thresha
    ok = ctx.build() and ctx.check_props()
    rng = ctx.rng
    try:
        from mpyc.numpy import np
    except Exception:  # pragma: no cover
        np = None
    have_np = bool(np)
    ctx.rule = ('case = (key, bound, input s, n); keys of length 0/1/16/32, bounds: boundary list x all keys x all inputs x '
                'all n (n = 50 and shapes on a sub-grid), plus the sweep 1..%d with rotating key/input/n; non-trivial when bound >= 2 and n != 0 '
                '(the digest is actually used); plus stateful call histories (growing/shrinking/equal n, None/()/int/shape, '
                'interleaved inputs) on one long-lived PRF object per (key, bound), each call compared with a fresh object' % ctx.n(1030, 5000))
    ctx.explanation = ('range/length/scalar-consistency/prefix theorems in Coq for all inputs; executable model evaluated on '
                       'the real digest bytes and compared exactly with thresha.PRF')
    keys = [b'', b'\x00', bytes(rng.randrange(256) for _ in range(16)), bytes(rng.randrange(256) for _ in range(32))]
    inputs = [b'', b'\x00', b'abc', bytes(rng.randrange(256) for _ in range(100)), bytes(rng.randrange(256) for _ in range(200))]
    special = [1, 2, 3, 100, 255, 256, 257, 2**16, 2**16 + 1, 2**61 - 1, 2**64, 2**64 + 13, 2**64 - 1, 2**127, 2**128 + 51]
    ns = [None, 0, 1, 2, 7, 50]
    shapes = [(2, 3), (0,), (1, 1, 4), (), (3, 0, 2)] if have_np else []
    cases = []
    # (literal size matters: ~0.2 ms of coqc per digest byte, so n = 50 and shapes get a sub-grid)
    for bound in special:
        for ki, key in enumerate(keys):
            for si, s in enumerate(inputs[:ctx.n(3, 5)] if ki else inputs):
                for n in ns[:-1]:
                    cases.append((key, bound, s, n))
                if si == 0 and ki in (0, 2) or ctx.tier == 'thorough':
                    cases.append((key, bound, s, 50))
                if si == 2:
                    for sh in shapes:
                        cases.append((key, bound, s, sh))
    top = ctx.n(1030, 5000)
    for bound in range(1, top + 1):
        key = keys[bound % len(keys)]
        s = inputs[(bound // 4) % len(inputs)]
        cases.append((key, bound, s, [None, 2, 7, 1][bound % 4]))
        if bound % 2 or ctx.tier == 'thorough':
            cases.append((keys[(bound + 1) % len(keys)], bound, s, [3, None, 0, 5][bound % 4]))
        if have_np and bound % 16 == 5:
            cases.append((key, bound, s, (2, 2)))
    # random larger bounds
    for _ in range(ctx.n(200, 2000)):
        bits = rng.randrange(1, 200)
        bound = rng.choice([1 << bits, (1 << bits) + 1, (1 << bits) - 1, rng.randrange(1, 1 << bits) + 1])
        bound = max(bound, 1)
        cases.append((rng.choice(keys), bound, rng.choice(inputs), rng.choice(ns[:-1] * 3 + shapes * 2 + [50])))

    def viol(sig, key, bound, s, n, **kw):
        d = {'key_hex': key.hex(), 'bound': bound, 's_hex': s.hex(), 'n': n}
        d.update(kw)
        ctx.violation(sig, d)

    exprs, meta = [], []
    for (key, bound, s, n) in cases:
        desc = {'key_hex': key.hex(), 'bound': bound, 's_hex': s.hex()[:40], 'n': n}
        try:
            F = thresha.PRF(key, bound)
            out = F(s, n)
            out_again = F(s, n)
            out_other = thresha.PRF(bytes(bytearray(key)), bound)(bytes(bytearray(s)), n)
        except Exception as e:  # the call is total on this domain
            viol('prf-raises %s' % type(e).__name__, key, bound, s, n, error=repr(e))
            continue
        is_shape = isinstance(n, tuple)
        n_ = 1 if n is None else n
        if is_shape:
            n_ = 1
            for d in n:
                n_ *= d
            # shape consistency
            if not (hasattr(out, 'shape') and tuple(out.shape) == tuple(n)):
                viol('prf-shape-wrong', key, bound, s, n, got_shape=str(getattr(out, 'shape', None)))
                continue
            flat = [int(v) for v in out.reshape(-1).tolist()] if n_ else []
            flat_again = [int(v) for v in out_again.reshape(-1).tolist()] if n_ else []
            flat_other = [int(v) for v in out_other.reshape(-1).tolist()] if n_ else []
            as_list = F(s, n_)
            if flat != [int(v) for v in as_list]:
                viol('prf-shape-not-reshape-of-list', key, bound, s, n, array=flat, lst=as_list)
        elif n is None:
            if not isinstance(out, int):
                viol('prf-scalar-type', key, bound, s, n, got=repr(out))
                continue
            flat, flat_again, flat_other = [out], [out_again], [out_other]
        else:
            if not isinstance(out, list) or len(out) != n:
                viol('prf-length-wrong', key, bound, s, n, got_len=(len(out) if hasattr(out, '__len__') else None))
                continue
            flat, flat_again, flat_other = list(out), list(out_again), list(out_other)
        # determinism
        if flat != flat_again or flat != flat_other:
            viol('prf-nondeterministic', key, bound, s, n, a=flat, b=flat_again, c=flat_other)
        # count and range
        if len(flat) != n_:
            viol('prf-length-wrong', key, bound, s, n, got_len=len(flat))
        if any((not isinstance(v, int)) or not (0 <= v < bound) for v in flat):
            viol('prf-out-of-range', key, bound, s, n, got=flat)
        # consistency with the scalar output
        if n_ >= 1:
            sc = F(s)
            if not (sc == flat[0] == F(s, 1)[0] == F(s, 7)[0]):
                viol('prf-scalar-inconsistent', key, bound, s, n, scalar=sc, first=flat[0], one=F(s, 1), seven=F(s, 7))
        # independent reference (full functional behaviour) and Coq model on the real digest
        l_ref, dk, want = ref_prf(key, bound, s, n_)
        if flat != want or F.byte_length != l_ref:
            ctx.broken.append({'kind': 'reference', 'what': 'PRF differs from the independent reference', 'case': desc,
                               'impl_byte_length': F.byte_length, 'ref_byte_length': l_ref,
                               'impl': str(flat)[:200], 'ref': str(want)[:200]})
        ctx.case(desc, nontrivial=(bound >= 2 and n_ >= 1),
                 kind=('shape' if is_shape else 'scalar' if n is None else 'list') + (' pow2' if bound & (bound - 1) == 0 else ' nonpow2'))
        ctx.extra['digest_bytes_fed_to_model'] = ctx.extra.get('digest_bytes_fed_to_model', 0) + len(dk)
        exprs.append('prf_data %s %s %s %s' % (zlist(list(dk)), zlit(len(key)), zlit(bound), natlit(n_)))
        meta.append((desc, F.byte_length, flat))

    # ---- stateful histories on ONE long-lived PRF object (as kept by Runtime.prfs): every result must equal that of a
    # fresh PRF(key, bound) on the same call, agree with the stateless model, and all results for one input must be
    # prefixes of one another (F(s, n)[:k] == F(s, k)), whatever was asked before.
    def flat_of(out, n):
        """canonical (kind, flat int list) of a result for request n; kind None if malformed"""
        if n is None:
            return ('scalar', [out]) if isinstance(out, int) else (None, repr(out))
        if isinstance(n, tuple):
            if not (hasattr(out, 'shape') and tuple(out.shape) == tuple(n)):
                return (None, 'shape %s' % (getattr(out, 'shape', None),))
            return ('shape', [int(v) for v in out.reshape(-1).tolist()])
        return ('list', list(out)) if isinstance(out, list) else (None, repr(out))

    def count_of(n):
        if n is None:
            return 1
        if isinstance(n, tuple):
            k = 1
            for d in n:
                k *= d
            return k
        return n

    hist_bounds = [2, 3, 100, 255, 256, 257, 2**15, 2**16, 2**16 + 1, 2**23, 2**61 - 1, 2**64, 2**64 + 13, 1]
    hist_bounds += [rng.randrange(2, 1 << rng.randrange(2, 90)) for _ in range(ctx.n(6, 40))]
    shp = [(), (3,), (2, 3), (1, 1, 4), (0,), (2, 0)] if have_np else []
    patterns = [
        [None, 1, 2, 3, 5, 7, 12],                    # growing
        [12, 7, 5, 3, 2, 1, None],                    # shrinking
        [2, 3], [1, 2], [None, 5], [None, 2, None],   # the smallest growing pairs
        [3, 3, 3, None, None, 0, 3],                  # equal / zero in between
        [0, 1, 0, 2, 0, 4],
    ]
    if have_np:
        patterns += [[(), None, (3,), 3, (2, 3), 6, (1, 1, 4), 4, 7, (2, 3)], [(2, 3), (3,), (), 12], [None, (), 1, (2, 0), (2, 3)]]
    nhist = 0
    for hb in hist_bounds:
        for key in (keys if hb in (100, 257, 2**64 + 13) else [keys[rng.randrange(len(keys))]]):
            F = thresha.PRF(key, hb)
            seqs = []
            for pat in patterns:                       # one input, pattern of n
                seqs.append([(inputs[rng.randrange(3)], n) for n in pat])
            for _ in range(ctx.n(2, 8)):               # interleaved inputs, random n
                pool_s = [inputs[i] for i in rng.sample(range(len(inputs)), 3)]
                seqs.append([(rng.choice(pool_s), rng.choice([None, 0, 1, 2, 3, 5, 7, 12] + shp)) for _ in range(12)])
            seen = {}                                  # input -> longest flat list obtained so far on this object
            step = 0
            for seq in seqs:
                for (s, n) in seq:
                    step += 1
                    nhist += 1
                    desc = {'history': True, 'key_hex': key.hex(), 'bound': hb, 's_hex': s.hex()[:40], 'n': n, 'step': step}
                    try:
                        kind, flat = flat_of(F(s, n), n)
                        fkind, fresh = flat_of(thresha.PRF(key, hb)(s, n), n)
                    except Exception as e:
                        viol('prf-raises-in-history %s' % type(e).__name__, key, hb, s, n, step=step, error=repr(e))
                        continue
                    if kind is None or fkind is None:
                        viol('prf-history-malformed-result', key, hb, s, n, step=step, got=str(flat)[:200], fresh=str(fresh)[:200])
                        continue
                    n_ = count_of(n)
                    if flat != fresh or kind != fkind:
                        viol('prf-history-dependent', key, hb, s, n, step=step, got=flat, fresh=fresh,
                             calls_before=[[a.hex()[:16], b] for a, b in seq[:seq.index((s, n)) + 1]][-6:])
                    if len(flat) != n_ or any((not isinstance(v, int)) or not (0 <= v < hb) for v in flat):
                        viol('prf-history-length-or-range', key, hb, s, n, step=step, got=flat)
                    prev = seen.get(s, [])
                    k = min(len(prev), len(flat))
                    if prev[:k] != flat[:k]:
                        viol('prf-history-not-prefix-consistent', key, hb, s, n, step=step, got=flat, earlier=prev)
                    if len(flat) > len(prev):
                        seen[s] = flat
                    ctx.case(desc, nontrivial=(hb >= 2 and n_ >= 1 and step > 1), kind='history ' + kind)
                    l_ref, dk, want = ref_prf(key, hb, s, n_)
                    if flat != want:
                        ctx.broken.append({'kind': 'reference', 'what': 'PRF (long-lived object) differs from the reference',
                                           'case': desc, 'impl': str(flat)[:200], 'ref': str(want)[:200]})
                    if step % 3 == 0 or n_ >= 5:       # stateless Coq model on a share of the history calls
                        ctx.extra['digest_bytes_fed_to_model'] = ctx.extra.get('digest_bytes_fed_to_model', 0) + len(dk)
                        exprs.append('prf_data %s %s %s %s' % (zlist(list(dk)), zlit(len(key)), zlit(hb), natlit(n_)))
                        meta.append((desc, F.byte_length, flat))
    ctx.extra['history_calls_on_long_lived_objects'] = nhist

    # the prefix law, on hashlib itself (rate of SHAKE-128 is 168 bytes: cross block boundaries)
    lens = [0, 1, 2, 16, 17, 41, 167, 168, 169, 335, 336, 337, 1000, 2050]
    npref = 0
    for key in keys:
        for s in inputs[:4]:
            full = hashlib.shake_128(key + s).digest(lens[-1])
            for a in lens:
                npref += 1
                if hashlib.shake_128(key + s).digest(a) != full[:a]:
                    ctx.broken.append({'kind': 'oracle-law', 'what': 'shake_128 prefix law fails', 'a': a,
                                       'key_hex': key.hex(), 's_hex': s.hex()})
    ctx.extra['prefix_law_checks_on_hashlib'] = npref
    ctx.log('%d implementation cases (numpy shapes: %s); %d prefix-law checks; evaluating %d model expressions in Coq'
            % (len(meta), have_np, npref, len(exprs)))
    if ok:
        # many cases per Eval and few files: per-file library loading dominates coqc time
        per = 25
        batched = ['[%s]' % '; '.join(exprs[i:i + per]) for i in range(0, len(exprs), per)]
        bres = ctx.coq_eval(['MPyC.PRFModel'], batched, chunk=12)
        res = []
        for i, r in enumerate(bres):
            k = len(exprs[i * per:(i + 1) * per])
            res.extend(r if isinstance(r, list) and len(r) == k else [('ERROR', str(r)[:300])] * k)
        mism = 0
        for r, (desc, l_impl, flat) in zip(res, meta):
            if isinstance(r, tuple) and r and r[0] == 'ERROR':
                mism += 1
                ctx.broken.append({'kind': 'correspondence', 'what': 'coq evaluation failed', 'case': desc, 'detail': r[1]})
                continue
            l_model, outs = r
            if l_model != l_impl or outs != flat:
                mism += 1
                ctx.broken.append({'kind': 'correspondence', 'what': 'prf_data', 'case': desc,
                                   'model': [l_model, str(outs)[:200]], 'impl': [l_impl, str(flat)[:200]]})
        ctx.extra['traces_validated_against_impl'] = len(exprs) - mism
        ctx.log('model/implementation disagreements: %d' % mism)
    ctx.notes.append('numpy shape requests compared: %s' % have_np)
    if ctx.broken and not ctx.violations:
        ctx.unproved('C17 model/proof/correspondence', {'broken': ctx.broken[:5]})
