(** C12 — Shamir split and recombine are inverse for all fields and thresholds.
    Only statements; proofs are in theories/. *)
Require Import MPyC.Field MPyC.Poly MPyC.Lagrange MPyC.Shamir MPyC.Zp.
From Coq Require Import Znumtheory.
Local Open Scope nat_scope.

(** Any more-than-t distinct shares recombine, at ANY field point x, to the value of the sharing
    polynomial  s + c[t-1] X + ... + c[0] X^t  (c = the t drawn coefficients, |c| = t < |I|). *)
Theorem C12_recombine_any_subset_any_point :
  forall (K : FieldT) (inj : nat -> K) (m : nat),
    (forall i j, i <= m -> j <= m -> inj i = inj j -> i = j) ->
    forall (c : list K) (s : K) (I : list nat) (x : K),
      NoDup I -> (forall i, In i I -> i <= m) -> length c < length I ->
      recombine_at (map inj I) (map (share_at inj c s) I) x = eval (s :: rev c) x.
Proof. exact recombine_split_at. Qed.
Print Assumptions C12_recombine_any_subset_any_point.

(** ... in particular at 0 they recombine to the secret. *)
Theorem C12_recombine_secret :
  forall (K : FieldT) (inj : nat -> K) (m : nat),
    (forall i j, i <= m -> j <= m -> inj i = inj j -> i = j) -> inj O = f0 K ->
    forall (c : list K) (s : K) (I : list nat),
      NoDup I -> (forall i, In i I -> i <= m) -> length c < length I ->
      recombine_at (map inj I) (map (share_at inj c s) I) (inj O) = s.
Proof. exact recombine_split_secret. Qed.
Print Assumptions C12_recombine_secret.

(** Entry (i, h) of random_split's matrix is the share of secret h for party i under the
    h-th block of t tape values; so each column is a degree-<=t sharing of its secret. *)
Theorem C12_random_split_is_sharing :
  forall (K : FieldT) (inj : nat -> K) (m : nat) (tape ss : list K) (t h : nat),
    h < length ss ->
    Sharing inj m t (map (fun row => nth h row (f0 K)) (random_split inj tape ss t m)) (nth h ss (f0 K)).
Proof. exact random_split_sharing. Qed.
Print Assumptions C12_random_split_is_sharing.

(** The array variant equals the list variant on a permuted coefficient tape. *)
Theorem C12_np_split_agrees :
  forall (K : FieldT) (inj : nat -> K) (m : nat) (tape ss : list K) (t i h : nat),
    i < m -> h < length ss ->
    nth h (nth i (np_random_split inj tape ss t m) []) (f0 K)
    = share_at inj (rev (np_col tape (length ss) t h)) (nth h ss (f0 K)) (S i).
Proof. exact np_split_eq_split. Qed.
Print Assumptions C12_np_split_agrees.

Theorem C12_np_recombine_agrees :
  forall (K : FieldT) (inj : nat -> K) (points : list (nat * list K)) (xr : K),
    np_recombine inj points xr = recombine inj points xr.
Proof. exact np_recombine_eq. Qed.
Print Assumptions C12_np_recombine_agrees.

(** Instance: the executable model over integers modulo a prime p, m < p. *)
Theorem C12_Zp :
  forall (p : Z) (Hp : prime p) (m : nat), (Z.of_nat m < p)%Z ->
    forall (c : list (Zp p)) (s : Zp p) (I : list nat),
      NoDup I -> (forall i, In i I -> i <= m) -> length c < length I ->
      @recombine_at (ZpOps p) (map (zp_of_nat p) I) (map (@share_at (ZpOps p) (zp_of_nat p) c s) I)
                    (zp_of_nat p O) = s.
Proof.
  intros p Hp m Hm c s I Hnd Hr Hlen.
  apply (recombine_split_secret (ZpField p Hp) (zp_of_nat p) m); auto.
  intros i j Hi Hj. apply zp_of_nat_inj; lia.
Qed.
Print Assumptions C12_Zp.

(** Non-vacuity: GF(11), m = 5, t = 2, parties {1,3,4} (x = 2,4,5), secret 7, coefficients [3;9]. *)
Example C12_nonvacuous :
  prime 11 /\
  let p := 11%Z in
  let c := [mkZp p 3; mkZp p 9] in
  let s := mkZp p 7 in
  let I := [2; 4; 5] in
  map zval (map (@share_at (ZpOps p) (zp_of_nat p) c s) I) = [4; 3; 6]%Z /\
  zval (@recombine_at (ZpOps p) (map (zp_of_nat p) I) (map (@share_at (ZpOps p) (zp_of_nat p) c s) I)
                      (zp_of_nat p O)) = 7%Z.
Proof. split; [apply is_prime_small_correct; reflexivity|]. vm_compute. auto. Qed.
