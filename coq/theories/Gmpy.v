(** Executable model of the pure-Python gmpy2 stubs in /repo/mpyc/gmpy.py (the stubs are the
    active code: gmpy2 is not installed), followed by their specifications.

    Conventions.  Python [//] and [%] are floor division: exactly Coq's [Z.div]/[Z.modulo].
    Python exceptions are the constructors [EValue] (ValueError), [EZeroDiv] (ZeroDivisionError),
    [EAssert] (AssertionError); [EFuel] is the model running out of fuel (theorems show it does not
    happen where fuel is computed by the model; search loops for primes take explicit fuel).
    [random.randint(lo, hi)] is an explicit tape: the next tape value [t] yields
    [lo + t mod (hi - lo + 1)] (a tape is a stream with a draw counter; a finite list is padded with 0); the harness patches
    [random.randint] in the same way.  Built-ins [pow(x, y, m)], [math.isqrt], [math.gcd],
    [int.bit_length], [&], [|], [>>] are modelled by [pow3], [Z.sqrt], [Z.gcd], [bit_length],
    [Z.land], [Z.lor], [Z.shiftr]. *)
From Coq Require Import ZArith Znumtheory Lia List Bool Permutation Zpow_facts.
Import ListNotations.
Local Open Scope Z_scope.

Inductive res (A : Type) : Type :=
| Ok (a : A) | EValue | EZeroDiv | EAssert | EFuel.
Arguments Ok {A} a.
Arguments EValue {A}.
Arguments EZeroDiv {A}.
Arguments EAssert {A}.
Arguments EFuel {A}.

(** the random tape: a stream of values and the number of values drawn so far *)
Definition tape : Type := (Z -> Z) * Z.
Definition of_list (l : list Z) : tape := (fun i => nth (Z.to_nat i) l 0, 0).

(** ---- built-ins ---- *)
Definition bit_length (x : Z) : Z := if x =? 0 then 0 else Z.log2 (Z.abs x) + 1.

(** (y & -y).bit_length() - 1 *)
Definition val2 (y : Z) : Z := bit_length (Z.land y (- y)) - 1.

Definition randint (lo hi : Z) (tp : tape) : Z * tape :=
  (lo + (fst tp (snd tp)) mod (hi - lo + 1), (fst tp, snd tp + 1)).

(** number of Euclid steps allowed for divisor f: |f| < 2^k with k = log2_up|f| + 1, fuel 2k+1 *)
Definition euclid_fuel (f : Z) : nat := (2 * Z.to_nat (Z.log2_up (Z.abs f)) + 3)%nat.

(** ---- invert ---- *)
Fixpoint invert_loop (fuel : nat) (a b s s1 : Z) {struct fuel} : option (Z * Z) :=
  if b =? 0 then Some (a, s) else
  match fuel with
  | O => None
  | S k => let q := a / b in invert_loop k b (a mod b) s1 (s - q * s1)
  end.

Definition invert (x m : Z) : res Z :=
  if m =? 0 then EZeroDiv else
  let m := Z.abs m in
  if m =? 1 then Ok 0 else
  match invert_loop (euclid_fuel m) x m 1 0 with
  | None => EFuel
  | Some (a, s) => if negb (a =? 1) then EZeroDiv else Ok (if s <? 0 then s + m else s)
  end.

(** ---- powmod = built-in pow(x, y, m) ---- *)
Fixpoint powmod_pos (x : Z) (e : positive) (m : Z) : Z :=
  match e with
  | xH => x mod m
  | xO e' => let h := powmod_pos x e' m in (h * h) mod m
  | xI e' => let h := powmod_pos x e' m in (((h * h) mod m) * x) mod m
  end.

Definition pow3 (x y m : Z) : res Z :=
  if m =? 0 then EValue else
  match y with
  | Z0 => Ok (1 mod m)
  | Zpos e => Ok (powmod_pos x e m)
  | Zneg e => match invert x m with
              | Ok i => Ok (powmod_pos i e m)
              | _ => EValue
              end
  end.

Definition powmod := pow3.

(** value of pow(x, y, m) where no exception is possible (y >= 0, m <> 0) *)
Definition powZ (x y m : Z) : Z := match pow3 x y m with Ok v => v | _ => 0 end.

(** ---- is_prime ---- *)
Definition small_primes : list Z := [3; 5; 7; 11; 13; 17; 19; 23; 29; 31; 37; 41; 43; 47; 53].

Fixpoint trial (ps : list Z) (x : Z) : option bool :=
  match ps with
  | [] => None
  | p :: ps' => if x mod p =? 0 then Some (x =? p) else trial ps' x
  end.

(** while s%2 == 0: r += 1; s //= 2   (s > 0) *)
Fixpoint twos (s : positive) : Z * Z :=
  match s with
  | xO s' => let '(r, q) := twos s' in (r + 1, q)
  | _ => (0, Zpos s)
  end.

(** for _ in range(k): b = b*b % x; if b == x-1: break;  else: return False *)
Fixpoint mr_inner (k : nat) (b x : Z) : bool :=
  match k with
  | O => false
  | S k' => let b' := (b * b) mod x in if b' =? x - 1 then true else mr_inner k' b' x
  end.

Definition mr_round (x r s a : Z) : bool :=
  let b := powZ a s x in
  if (b =? 1) || (b =? x - 1) then true else mr_inner (Z.to_nat (r - 1)) b x.

Fixpoint mr_loop (n : nat) (x r s : Z) (tp : tape) : bool * tape :=
  match n with
  | O => (true, tp)
  | S n' => let '(a, tp') := randint 2 (x - 2) tp in
            if mr_round x r s a then mr_loop n' x r s tp' else (false, tp')
  end.

Definition is_prime_n (n : nat) (tp : tape) (x : Z) : bool * tape :=
  if (x <=? 2) || (x mod 2 =? 0) then (x =? 2, tp) else
  match trial small_primes x with
  | Some b => (b, tp)
  | None => match x - 1 with
            | Zpos sp => let '(r, s) := twos sp in mr_loop n x r s tp
            | _ => (false, tp)
            end
  end.

Definition is_prime : tape -> Z -> bool * tape := is_prime_n 25.

(** ---- next_prime / prev_prime, generic in the primality oracle ---- *)
Section PrimeSearch.
  Variable isp : tape -> Z -> bool * tape.

  Fixpoint search_loop (step : Z) (fuel : nat) (tp : tape) (x : Z) : res Z * tape :=
    match fuel with
    | O => (EFuel, tp)
    | S f => let '(b, tp') := isp tp x in
             if b then (Ok x, tp') else search_loop step f tp' (x + step)
    end.

  Definition next_prime_gen (fuel : nat) (tp : tape) (x : Z) : res Z * tape :=
    if x <=? 1 then (Ok 2, tp) else search_loop 2 fuel tp (x + (1 + x mod 2)).

  Definition prev_prime_gen (fuel : nat) (tp : tape) (x : Z) : res Z * tape :=
    if x <? 3 then (EValue, tp) else
    if x =? 3 then (Ok 2, tp) else search_loop (-2) fuel tp (x - (1 + x mod 2)).
End PrimeSearch.

Definition next_prime := next_prime_gen is_prime.
Definition prev_prime := prev_prime_gen is_prime.

(** ---- gcdext ---- *)
Fixpoint gcdext_loop (fuel : nat) (g f s s1 t t1 : Z) {struct fuel} : option (Z * Z * Z) :=
  if f =? 0 then Some (g, s, t) else
  match fuel with
  | O => None
  | S k => let q := g / f in
           gcdext_loop k f (g mod f) s1 (s - q * s1) t1 (t - q * t1)
  end.

Definition gcdext_fix (a b : Z) (gst : Z * Z * Z) : Z * Z * Z :=
  let '(g, s, t) := gst in
  let '(g, s, t) := if g <? 0 then (- g, - s, - t) else if g =? 0 then (g, 0, t) else (g, s, t) in
  if ((a <? 0) && (0 <? b) || (b <? 0) && (0 <? a)) && (Z.abs b =? 2 * g)
  then (g, - s, t - s * (Z.abs a / g)) else (g, s, t).

Definition gcdext (a b : Z) : res (Z * Z * Z) :=
  match gcdext_loop (euclid_fuel b) a b 1 0 0 1 with
  | None => EFuel
  | Some gst => Ok (gcdext_fix a b gst)
  end.

(** ---- jacobi / legendre / kronecker ---- *)
Definition flip8 (x : Z) : bool := (Z.land x 7 =? 3) || (Z.land x 7 =? 5).

Fixpoint jacobi_loop (fuel : nat) (x y j : Z) : option (Z * Z) :=
  match fuel with
  | O => None
  | S k =>
      let x' := y in
      let y' := x mod y in
      if y' =? 0 then Some (x', j) else
      let t := val2 y' in
      let j1 := if negb (Z.land t 1 =? 0) && flip8 x' then - j else j in
      let y2 := Z.shiftr y' t in
      let j2 := if negb (Z.land y2 3 =? 1) && negb (Z.land x' 3 =? 1) then - j1 else j1 in
      jacobi_loop k x' y2 j2
  end.

Definition jacobi (x y : Z) : res Z :=
  if negb ((0 <? y) && negb (Z.land y 1 =? 0)) then EValue else
  match jacobi_loop (euclid_fuel y) x y 1 with
  | None => EFuel
  | Some (x', j) => Ok (if negb (x' =? 1) then 0 else j)
  end.

Definition legendre := jacobi.

Definition kronecker (x y : Z) : res Z :=
  let k := 1 in
  let '(k, y) := if y =? 0 then ((if negb (Z.abs x =? 1) then 0 else k), 1) else (k, y) in
  let '(k, y) := if y <? 0 then ((if x <? 0 then - k else k), - y) else (k, y) in
  let '(k, y) :=
    if Z.land y 1 =? 0 then
      let t := val2 y in
      let k' := if Z.land x 1 =? 0 then 0
                else if negb (Z.land t 1 =? 0) && flip8 x then - k else k in
      (k', Z.shiftr y t)
    else (k, y) in
  match jacobi x y with
  | Ok j => Ok (k * j)
  | e => e
  end.

(** ---- isqrt / is_square / iroot ---- *)
Definition isqrt (x : Z) : res Z := if x <? 0 then EValue else Ok (Z.sqrt x).

Definition is_square (x : Z) : res bool :=
  let r := Z.land x 15 in
  if negb ((r =? 0) || (r =? 1) || (r =? 4) || (r =? 9)) then Ok false else
  match isqrt x with
  | Ok y => Ok (x =? y ^ 2)
  | EValue => EValue | EZeroDiv => EZeroDiv | EAssert => EAssert | EFuel => EFuel
  end.

(** for i in range(k-1, -1, -1): z = y | 1<<i; if z**n <= x: y = z *)
Fixpoint iroot_loop (x n : Z) (i : nat) (y : Z) : Z :=
  match i with
  | O => y
  | S i' => let z := Z.lor y (Z.shiftl 1 (Z.of_nat i')) in
            iroot_loop x n i' (if z ^ n <=? x then z else y)
  end.

Definition iroot (x n : Z) : res (Z * bool) :=
  if x <? 0 then EValue (* raise ValueError('iroot() of negative number') *) else
  if x =? 0 then Ok (x, true) else
  if n =? 0 then EZeroDiv else
  let k := (bit_length x - 1) / n in
  if k <? 0 then EValue (* 1 << k: negative shift count *) else
  if n <? 0 then (* k = 0, empty loop; x == 1**n compares with the float 1.0 *) Ok (1, x =? 1) else
  let y := iroot_loop x n (Z.to_nat k) (Z.shiftl 1 k) in
  Ok (y, x =? y ^ n).

(** ---- factor_prime_power ---- *)
(** d = 0; while x > 1: x, r = divmod(x, p); if r == 0: d += 1 else: raise ValueError *)
Fixpoint divout (fuel : nat) (x p d : Z) {struct fuel} : res (Z * Z) :=
  if negb (1 <? x) then Ok (p, d) else
  match fuel with
  | O => EFuel
  | S f => if x mod p =? 0 then divout f (x / p) p (d + 1) else EValue
  end.

Definition log_fuel (x : Z) : nat := (Z.to_nat (Z.log2_up (Z.abs x)) + 2)%nat.

Section FPP.
  Variable isp : tape -> Z -> bool * tape.
  Variable npf : nat.   (* fuel of each next_prime search *)

  (** p = 2; while p < 1<<k: if x % p == 0: ...return; p = next_prime(p) *)
  Fixpoint fpp_small (fuel : nat) (tp : tape) (x p : Z) : option (res (Z * Z)) * tape :=
    match fuel with
    | O => (Some EFuel, tp)
    | S f =>
        if p <? Z.shiftl 1 10 then
          if x mod p =? 0 then (Some (divout (log_fuel x) x p 0), tp)
          else match next_prime_gen isp npf tp p with
               | (Ok p', tp') => fpp_small f tp' x p'
               | (_, tp') => (Some EFuel, tp')
               end
        else (None, tp)
    end.

  (** while is_square(p): p, d = isqrt(p), 2*d     (p >= 2 here) *)
  Fixpoint fpp_sq (fuel : nat) (p d : Z) : res (Z * Z) :=
    match fuel with
    | O => EFuel
    | S f => match is_square p with
             | Ok true => fpp_sq f (Z.sqrt p) (2 * d)
             | Ok false => Ok (p, d)
             | _ => EValue
             end
    end.

  (** e = 3; while k * e <= p.bit_length(): w, b = iroot(p, e); if b: p, d = w, e*d else: e = next_prime(e) *)
  Fixpoint fpp_roots (fuel : nat) (tp : tape) (p d e : Z) : res (Z * Z) * tape :=
    match fuel with
    | O => (EFuel, tp)
    | S f =>
        if 10 * e <=? bit_length p then
          match iroot p e with
          | Ok (w, true) => fpp_roots f tp w (e * d) e
          | Ok (w, false) => match next_prime_gen isp npf tp e with
                             | (Ok e', tp') => fpp_roots f tp' p d e'
                             | (_, tp') => (EFuel, tp')
                             end
          | _ => (EValue, tp)
          end
        else (Ok (p, d), tp)
    end.

  Definition factor_prime_power_gen (tp : tape) (x : Z) : res (Z * Z) * tape :=
    if x <=? 1 then (EValue, tp) else
    match fpp_small 1100 tp x 2 with
    | (Some r, tp1) => (r, tp1)
    | (None, tp1) =>
        match fpp_sq (log_fuel x) x 1 with
        | Ok (p, d) =>
            match fpp_roots (log_fuel x) tp1 p d 3 with
            | (Ok (p, d), tp2) => let '(b, tp3) := isp tp2 p in
                                  if b then (Ok (p, d), tp3) else (EValue, tp3)
            | (EValue, tp2) => (EValue, tp2) | (EZeroDiv, tp2) => (EZeroDiv, tp2)
            | (EAssert, tp2) => (EAssert, tp2) | (EFuel, tp2) => (EFuel, tp2)
            end
        | EValue => (EValue, tp1) | EZeroDiv => (EZeroDiv, tp1)
        | EAssert => (EAssert, tp1) | EFuel => (EFuel, tp1)
        end
    end.
End FPP.

Definition factor_prime_power (npf : nat) := factor_prime_power_gen is_prime npf.

(** ---- ratrec ---- *)
(** while n > N: n0, (q, n) = n, divmod(n0, n); d0, d = d, d0 - q*d *)
Fixpoint ratrec_loop (fuel : nat) (N n0 n d0 d : Z) {struct fuel} : option (Z * Z) :=
  if negb (N <? n) then Some (n, d) else
  match fuel with
  | O => None
  | S k => let q := n0 / n in ratrec_loop k N n (n0 mod n) d (d0 - q * d)
  end.

Definition ratrec_core (x y N D : Z) : res (Z * Z) :=
  if (N <? 0) || (D <=? 0) || (y <=? 2 * N * D) then EValue else
  match ratrec_loop (euclid_fuel y) N x y 1 0 with
  | None => EFuel
  | Some (n, d) =>
      let '(n, d) := if d <? 0 then (- n, - d) else (n, d) in
      if (d <=? D) && (Z.gcd n d =? 1) then Ok (n, d) else EValue
  end.

Definition ratrec (x y : Z) (N D : option Z) : res (Z * Z) :=
  match N, D with
  | None, None =>
      match isqrt ((y - 1) / 2) with
      | Ok r => let D := Z.max 1 r in ratrec_core x y ((y - 1) / (2 * D)) D
      | _ => EValue
      end
  | None, Some D => if 2 * D =? 0 then EZeroDiv else ratrec_core x y ((y - 1) / (2 * D)) D
  | Some N, None => ratrec_core x y N (if negb (N =? 0) then (y - 1) / (2 * N) else 1)
  | Some N, Some D => ratrec_core x y N D
  end.

(** boolean primality by trial division (same definitions as in Zp.v, repeated here so that this
    file does not depend on the field library), used to discharge [prime p] for small concrete p *)
Fixpoint no_divisor (fuel : nat) (d p : Z) : bool :=
  match fuel with
  | O => true
  | S f => if p mod d =? 0 then false else no_divisor f (d + 1) p
  end.
Definition is_prime_small (p : Z) : bool := (2 <=? p) && no_divisor (Z.to_nat (p - 2)) 2 p.

Lemma no_divisor_spec fuel : forall d p, 0 < d -> no_divisor fuel d p = true ->
  forall x, d <= x < d + Z.of_nat fuel -> p mod x <> 0.
Proof.
  induction fuel as [|f IH]; intros d p Hd H x Hx; [lia|].
  simpl in H. destruct (p mod d =? 0) eqn:E; [discriminate|]. apply Z.eqb_neq in E.
  destruct (Z.eq_dec x d); [subst; exact E|].
  apply (IH (d + 1) p); auto; lia.
Qed.

Lemma is_prime_small_correct p : is_prime_small p = true -> prime p.
Proof.
  unfold is_prime_small. intros H. apply andb_true_iff in H. destruct H as [H2 Hn].
  apply Z.leb_le in H2.
  apply prime_intro; [lia|]. intros n Hn1.
  apply Zgcd_1_rel_prime.
  pose proof (Z.gcd_divide_l n p) as Hdn. pose proof (Z.gcd_divide_r n p) as Hdp.
  pose proof (Z.gcd_nonneg n p) as Hnn.
  remember (Z.gcd n p) as g eqn:Eg.
  assert (Hg0 : g <> 0).
  { intros E. subst g. apply Z.gcd_eq_0_r in E. lia. }
  assert (Hgn : g <= n) by (apply Z.divide_pos_le; [lia|exact Hdn]).
  destruct (Z.eq_dec g 1) as [E1|E1]; [exact E1|].
  exfalso. apply (no_divisor_spec _ 2 p ltac:(lia) Hn g); [lia|].
  apply Zdivide_mod. exact Hdp.
Qed.

(** ---- helpers for the correspondence runs ---- *)
Definition zrange (lo : Z) (n : nat) : list Z := map (fun i => lo + Z.of_nat i) (seq 0 n).
Definition grid {A} (f : Z -> Z -> A) (lo : Z) (n : nat) (lo2 : Z) (n2 : nat) : list (list A) :=
  map (fun a => map (f a) (zrange lo2 n2)) (zrange lo n).
Definition used {A} (r : A * tape) : A * Z := (fst r, snd (snd r)).

(** pseudo-random tape computed identically by the harness (so that long tapes need no literals) *)
Definition M521 : Z := Eval vm_compute in 2 ^ 521 - 1.
Definition gen_tape (M seed x : Z) : tape :=
  (fun i => let b := (seed + x) * (2 * i + 1) * 2654435761 + i in
            Z.land (Z.shiftr (b * b + x * i) 7) M, 0).
Definition run_is_prime (M seed x : Z) := used (is_prime (gen_tape M seed x) x).
Definition run_next_prime (fuel : nat) (M seed x : Z) := used (next_prime fuel (gen_tape M seed x) x).
Definition run_prev_prime (fuel : nat) (M seed x : Z) := used (prev_prime fuel (gen_tape M seed x) x).
Definition run_fpp (npf : nat) (M seed x : Z) := used (factor_prime_power npf (gen_tape M seed x) x).


(** ======================= specifications and proofs ======================= *)

Module PA.
Local Open Scope Z_scope.

(** ---- termination of the Euclid loops ---- *)

Lemma mod_half_pos : forall f r, 0 < r < f -> 0 <= f mod r /\ 2 * (f mod r) < f.
Proof.
  intros f r H.
  pose proof (Z.mod_pos_bound f r ltac:(lia)) as Hb.
  pose proof (Z.div_mod f r ltac:(lia)) as Hd.
  assert (1 <= f / r) as Hq by (apply Z.div_le_lower_bound; lia).
  split; [lia | nia].
Qed.

Lemma mod_half : forall g f, f <> 0 -> g mod f <> 0 ->
  2 * Z.abs (f mod (g mod f)) < Z.abs f.
Proof.
  intros g f Hf Hr.
  destruct (Z.lt_trichotomy f 0) as [Hneg | [Hz | Hpos]]; [ | lia | ].
  - pose proof (Z.mod_neg_bound g f Hneg) as Hb.
    set (r := g mod f) in *.
    assert (f mod r = - ((- f) mod (- r))) as E.
    { rewrite <- Z.mod_opp_opp by lia. rewrite !Z.opp_involutive. reflexivity. }
    pose proof (mod_half_pos (- f) (- r) ltac:(lia)) as H.
    rewrite E. lia.
  - pose proof (Z.mod_pos_bound g f Hpos) as Hb.
    set (r := g mod f) in *.
    pose proof (mod_half_pos f r ltac:(lia)) as H.
    lia.
Qed.

Lemma gcdext_loop_term : forall k fuel g f s s1 t t1,
  Z.abs f < 2 ^ Z.of_nat k -> (2 * k + 1 <= fuel)%nat ->
  gcdext_loop fuel g f s s1 t t1 <> None.
Proof.
  induction k as [|k IH]; intros fuel g f s s1 t t1 Hf Hfuel.
  - assert (f = 0) as -> by (simpl in Hf; lia).
    destruct fuel; cbn [gcdext_loop]; rewrite Z.eqb_refl; discriminate.
  - destruct fuel as [|fuel]; [lia|].
    cbn [gcdext_loop]. destruct (Z.eqb_spec f 0) as [->|Hf0]; [discriminate|].
    destruct fuel as [|fuel]; [lia|].
    cbn [gcdext_loop]. destruct (Z.eqb_spec (g mod f) 0) as [|Hr0]; [discriminate|].
    apply IH; [|lia].
    pose proof (mod_half g f Hf0 Hr0) as Hh.
    rewrite Nat2Z.inj_succ, Z.pow_succ_r in Hf by lia. lia.
Qed.

Lemma euclid_fuel_ok : forall f,
  exists k, Z.abs f < 2 ^ Z.of_nat k /\ (2 * k + 1 <= euclid_fuel f)%nat.
Proof.
  intros f. exists (S (Z.to_nat (Z.log2_up (Z.abs f)))). split.
  - pose proof (Z.log2_up_nonneg (Z.abs f)) as Hn.
    rewrite Nat2Z.inj_succ, Z2Nat.id by assumption.
    rewrite Z.pow_succ_r by assumption.
    destruct (Z.eq_dec (Z.abs f) 0) as [E | NE].
    + rewrite E. cbn. lia.
    + pose proof (Z.log2_up_spec (Z.abs f)) as Hs.
      destruct (Z.eq_dec (Z.abs f) 1) as [E1 | NE1].
      * rewrite E1. cbn. lia.
      * specialize (Hs ltac:(lia)). lia.
  - unfold euclid_fuel. lia.
Qed.

Lemma gcdext_loop_total : forall g f s s1 t t1,
  gcdext_loop (euclid_fuel f) g f s s1 t t1 <> None.
Proof.
  intros. destruct (euclid_fuel_ok f) as (k & H1 & H2).
  eapply gcdext_loop_term; eauto.
Qed.

(** invert_loop is the projection of gcdext_loop *)
Lemma invert_loop_proj : forall fuel a b s s1 t t1,
  invert_loop fuel a b s s1 =
  match gcdext_loop fuel a b s s1 t t1 with
  | Some (g, s', _) => Some (g, s')
  | None => None
  end.
Proof.
  induction fuel as [|fuel IH]; intros a b s s1 t t1; cbn [invert_loop gcdext_loop];
    destruct (b =? 0); try reflexivity.
  apply IH.
Qed.

(** ---- gcd and Bezout invariants ---- *)
Lemma gcdext_loop_inv : forall a b fuel g f s s1 t t1 g' s' t',
  g = a * s + b * t -> f = a * s1 + b * t1 ->
  gcdext_loop fuel g f s s1 t t1 = Some (g', s', t') ->
  g' = a * s' + b * t' /\ Z.abs g' = Z.gcd g f.
Proof.
  intros a b. induction fuel as [|fuel IH]; intros g f s s1 t t1 g' s' t' Hg Hf;
    cbn [gcdext_loop]; destruct (Z.eqb_spec f 0) as [Hf0|Hf0]; intros H; try discriminate.
  - injection H as <- <- <-. split; [assumption|]. rewrite Hf0, Z.gcd_0_r. reflexivity.
  - injection H as <- <- <-. split; [assumption|]. rewrite Hf0, Z.gcd_0_r. reflexivity.
  - apply IH in H; [ | assumption | ].
    + destruct H as [H1 H2]. split; [assumption|].
      rewrite H2. rewrite Z.gcd_comm. rewrite Z.gcd_mod by assumption. apply Z.gcd_comm.
    + rewrite Z.mod_eq by assumption.
      remember (g / f) as q eqn:Eq. clear Eq. subst g f. ring.
Qed.

(** ---- gcdext ---- *)
Theorem gcdext_total : forall a b, exists g s t, gcdext a b = Ok (g, s, t).
Proof.
  intros a b. unfold gcdext.
  destruct (gcdext_loop (euclid_fuel b) a b 1 0 0 1) as [gst|] eqn:E.
  - destruct (gcdext_fix a b gst) as [[g s] t]. eauto.
  - exfalso. eapply gcdext_loop_total; eauto.
Qed.

Lemma fix_adjust : forall a b g s t,
  0 < g -> (g | a) -> Z.abs b = 2 * g ->
  (a < 0 /\ 0 < b \/ b < 0 /\ 0 < a) ->
  a * s + b * t = g ->
  a * (- s) + b * (t - s * (Z.abs a / g)) = g.
Proof.
  intros a b g s t Hg [k Hk] Hb Hsgn HB.
  assert (Z.abs a / g = Z.abs k) as E.
  { rewrite Hk, Z.abs_mul, (Z.abs_eq g) by lia. apply Z.div_mul. lia. }
  rewrite E. clear E.
  destruct Hsgn as [[Ha Hb'] | [Hb' Ha]].
  - assert (k < 0) by nia. assert (b = 2 * g) as Eb by lia.
    replace (Z.abs k) with (- k) by lia.
    subst a. rewrite Eb in *. ring_simplify. ring_simplify in HB. lia.
  - assert (0 < k) by nia. assert (b = - (2 * g)) as Eb by lia.
    replace (Z.abs k) with k by lia.
    subst a. rewrite Eb in *. ring_simplify. ring_simplify in HB. lia.
Qed.

Theorem gcdext_spec : forall a b g s t,
  gcdext a b = Ok (g, s, t) -> g = Z.gcd a b /\ a * s + b * t = g.
Proof.
  intros a b g s t. unfold gcdext.
  destruct (gcdext_loop (euclid_fuel b) a b 1 0 0 1) as [[[g0 s0] t0]|] eqn:E; [|discriminate].
  apply (gcdext_loop_inv a b) in E; [ | ring | ring ].
  destruct E as [HB HG].
  pose proof (Z.gcd_nonneg a b) as Hnn.
  pose proof (Z.gcd_divide_l a b) as Hdiv.
  set (G := Z.gcd a b) in *.
  intros H. injection H as H. unfold gcdext_fix in H.
  assert (forall g1 s1 t1, g1 = G -> a * s1 + b * t1 = g1 ->
    (if ((a <? 0) && (0 <? b) || (b <? 0) && (0 <? a)) && (Z.abs b =? 2 * g1)
     then (g1, - s1, t1 - s1 * (Z.abs a / g1)) else (g1, s1, t1)) = (g, s, t) ->
    g = G /\ a * s + b * t = g) as K.
  { intros g1 s1 t1 Hg1 HB1.
    destruct (((a <? 0) && (0 <? b) || (b <? 0) && (0 <? a)) && (Z.abs b =? 2 * g1)) eqn:C;
      intros H1; injection H1 as <- <- <-.
    - split; [assumption|].
      apply andb_true_iff in C. destruct C as [C1 C2].
      apply Z.eqb_eq in C2.
      assert (a < 0 /\ 0 < b \/ b < 0 /\ 0 < a) as Hs.
      { apply orb_true_iff in C1. destruct C1 as [C1|C1]; apply andb_true_iff in C1;
          destruct C1 as [C3 C4]; apply Z.ltb_lt in C3; apply Z.ltb_lt in C4; lia. }
      apply fix_adjust; try assumption; try lia.
      rewrite Hg1. assumption.
    - split; assumption. }
  destruct (Z.ltb_spec g0 0) as [Hlt|Hge].
  - apply K in H; [assumption | lia | ]. rewrite HB. ring.
  - destruct (Z.eqb_spec g0 0) as [Hz|Hnz].
    + apply K in H; [assumption | lia | ].
      assert (G = 0) as HG0 by lia.
      apply Z.gcd_eq_0 in HG0. destruct HG0 as [-> ->]. lia.
    + apply K in H; [assumption | lia | lia ].
Qed.

(** ---- invert ---- *)
Lemma invert_loop_bound : forall M fuel a b s s1 a' s',
  0 <= b < a -> s * s1 <= 0 -> s1 <> 0 ->
  a * Z.abs s1 + b * Z.abs s = M -> Z.abs s < M ->
  invert_loop fuel a b s s1 = Some (a', s') -> 0 < a' /\ Z.abs s' < M.
Proof.
  intros M. induction fuel as [|fuel IH]; intros a b s s1 a' s' Hab Hss Hs1 HM Hs;
    cbn [invert_loop]; destruct (Z.eqb_spec b 0) as [Hb0|Hb0]; intros H; try discriminate.
  - injection H as <- <-. split; lia.
  - injection H as <- <-. split; lia.
  - assert (0 < b) as Hbpos by lia.
    pose proof (Z.mod_pos_bound a b Hbpos) as Hmb.
    pose proof (Z.mod_eq a b Hb0) as Hme.
    assert (1 <= a / b) as Hq by (apply Z.div_le_lower_bound; lia).
    remember (a / b) as q eqn:Eq. clear Eq.
    remember (a mod b) as r eqn:Er. clear Er.
    apply IH in H; try assumption.
    + nia.
    + nia.
    + destruct (Z.lt_trichotomy s1 0) as [Hn | [Hz | Hp]]; [ | contradiction | ].
      * assert (0 <= s) as Hs0 by nia.
        assert (0 <= s - q * s1) by nia.
        rewrite (Z.abs_eq (s - q * s1)) by assumption.
        rewrite (Z.abs_neq s1) in * by lia.
        rewrite (Z.abs_eq s) in * by lia.
        subst r. rewrite <- HM. ring.
      * assert (s <= 0) as Hs0 by nia.
        assert (s - q * s1 <= 0) by nia.
        rewrite (Z.abs_neq (s - q * s1)) by assumption.
        rewrite (Z.abs_eq s1) in * by lia.
        rewrite (Z.abs_neq s) in * by lia.
        subst r. rewrite <- HM. ring.
    + assert (0 <= b * Z.abs s) by (apply Z.mul_nonneg_nonneg; lia).
      assert (1 <= Z.abs s1) by lia.
      nia.
Qed.

Theorem invert_spec : forall x m,
  (m = 0 \/ Z.gcd x m <> 1) /\ invert x m = EZeroDiv
  \/ m <> 0 /\ Z.gcd x m = 1 /\ exists y, invert x m = Ok y /\ 0 <= y < Z.abs m
       /\ (x * y) mod (Z.abs m) = 1 mod (Z.abs m) /\ (1 < Z.abs m -> 0 < y).
Proof.
  intros x m. unfold invert.
  destruct (Z.eqb_spec m 0) as [Hm0|Hm0]; [left; split; [left; assumption | reflexivity]|].
  rewrite <- (Z.gcd_abs_r x m).
  assert (0 < Z.abs m) as HMpos by lia.
  remember (Z.abs m) as M eqn:EM. clear EM.
  destruct (Z.eqb_spec M 1) as [HM1|HM1].
  - right. split; [assumption|]. subst M. split; [apply Z.gcd_1_r|].
    exists 0. split; [reflexivity|]. split; [lia|]. split; [|lia].
    rewrite Z.mul_0_r. reflexivity.
  - assert (1 < M) as HM by lia.
    destruct (invert_loop (euclid_fuel M) x M 1 0) as [[a s]|] eqn:E.
    2:{ exfalso. rewrite (invert_loop_proj _ _ _ _ _ 0 1) in E.
        pose proof (gcdext_loop_total x M 1 0 0 1) as T.
        destruct (gcdext_loop (euclid_fuel M) x M 1 0 0 1) as [[[g0 s0] t0]|];
          [discriminate | congruence]. }
    (* Bezout + gcd via the projection *)
    assert (exists t, a = x * s + M * t /\ Z.abs a = Z.gcd x M) as [t [HB HG]].
    { rewrite (invert_loop_proj _ _ _ _ _ 0 1) in E.
      destruct (gcdext_loop (euclid_fuel M) x M 1 0 0 1) as [[[g0 s0] t0]|] eqn:E2;
        [|discriminate].
      injection E as <- <-.
      apply (gcdext_loop_inv x M) in E2; [ | ring | ring ].
      exists t0. exact E2. }
    (* sign of a, bound on s via the refined invariant *)
    assert (0 < a /\ Z.abs s < M) as [Ha Hs].
    { assert (exists n, euclid_fuel M = S n) as [n En] by (unfold euclid_fuel; exists (2 * Z.to_nat (Z.log2_up (Z.abs M)) + 2)%nat; lia).
      rewrite En in E. cbn [invert_loop] in E.
      destruct (Z.eqb_spec M 0) as [|_]; [lia|].
      rewrite Z.mul_0_r, Z.sub_0_r in E.
      pose proof (Z.mod_pos_bound x M HMpos) as Hmb.
      apply (invert_loop_bound M) in E; try assumption; try lia. }
    assert (a = Z.gcd x M) as Ha' by lia.
    rewrite <- Ha'.
    destruct (Z.eqb_spec a 1) as [Ha1|Ha1]; cbn [negb].
    + right. split; [assumption|]. split; [assumption|].
      eexists. split; [reflexivity|].
      assert (0 <= (if s <? 0 then s + M else s) < M) as Hy
        by (destruct (Z.ltb_spec s 0); lia).
      assert ((x * (if s <? 0 then s + M else s)) mod M = 1 mod M) as Hmod.
      { destruct (Z.ltb_spec s 0).
        - replace (x * (s + M)) with (1 + (x - t) * M) by (rewrite <- Ha1, HB; ring).
          apply Z_mod_plus_full.
        - replace (x * s) with (1 + (- t) * M) by (rewrite <- Ha1, HB; ring).
          apply Z_mod_plus_full. }
      split; [exact Hy|]. split; [exact Hmod|].
      intros _.
      destruct (Z.eq_dec (if s <? 0 then s + M else s) 0) as [Ey|Ny]; [|lia].
      exfalso. rewrite Ey, Z.mul_0_r, Z.mod_0_l, Z.mod_1_l in Hmod by lia. discriminate.
    + left. split; [right; assumption | reflexivity].
Qed.


End PA.

Definition gcdext_total := PA.gcdext_total.
Definition gcdext_spec := PA.gcdext_spec.
Definition invert_spec := PA.invert_spec.
Definition gcdext_loop_total := PA.gcdext_loop_total.
Definition euclid_fuel_ok := PA.euclid_fuel_ok.

Module PB.
Local Open Scope Z_scope.

(** ---- powmod ---- *)
Lemma powmod_pos_spec : forall x e m, m <> 0 -> powmod_pos x e m = x ^ Zpos e mod m.
Proof.
  intros x e m Hm. induction e as [e IH | e IH | ]; cbn [powmod_pos].
  - rewrite IH. rewrite <- Z.mul_mod by exact Hm.
    rewrite Z.mul_mod_idemp_l by exact Hm.
    f_equal. rewrite Pos2Z.inj_xI.
    rewrite Z.pow_add_r by lia. rewrite Z.pow_twice_r, Z.pow_1_r. reflexivity.
  - rewrite IH. rewrite <- Z.mul_mod by exact Hm.
    f_equal. rewrite Pos2Z.inj_xO. rewrite Z.pow_twice_r. reflexivity.
  - rewrite Z.pow_1_r. reflexivity.
Qed.

Theorem powmod_spec : forall x y m, m <> 0 -> 0 <= y -> powmod x y m = Ok (x ^ y mod m).
Proof.
  intros x y m Hm Hy. unfold powmod, pow3.
  destruct (m =? 0) eqn:E; [apply Z.eqb_eq in E; contradiction|].
  destruct y as [|e|e].
  - rewrite Z.pow_0_r. reflexivity.
  - rewrite powmod_pos_spec by exact Hm. reflexivity.
  - lia.
Qed.

(** ---- isqrt ---- *)
Theorem isqrt_spec : forall x,
  (x < 0 /\ isqrt x = EValue) \/
  (0 <= x /\ exists r, isqrt x = Ok r /\ 0 <= r /\ r * r <= x < (r + 1) * (r + 1)).
Proof.
  intros x. unfold isqrt. destruct (x <? 0) eqn:E.
  - apply Z.ltb_lt in E. left. split; [exact E|reflexivity].
  - apply Z.ltb_ge in E. right. split; [exact E|].
    exists (Z.sqrt x). split; [reflexivity|]. split; [apply Z.sqrt_nonneg|].
    pose proof (Z.sqrt_spec x E) as H. cbv zeta in H.
    replace (Z.sqrt x + 1) with (Z.succ (Z.sqrt x)) by lia. exact H.
Qed.

(** ---- is_square ---- *)
Lemma land15_mod16 : forall x, Z.land x 15 = x mod 16.
Proof.
  intros x. change 15 with (Z.ones 4). rewrite Z.land_ones by lia. reflexivity.
Qed.

Lemma square_mod16 : forall r,
  (r * r) mod 16 = 0 \/ (r * r) mod 16 = 1 \/ (r * r) mod 16 = 4 \/ (r * r) mod 16 = 9.
Proof.
  intros r. rewrite Z.mul_mod by lia.
  pose proof (Z.mod_pos_bound r 16 ltac:(lia)) as Hb.
  remember (r mod 16) as c eqn:Hc. clear Hc.
  assert (Hcases : c = 0 \/ c = 1 \/ c = 2 \/ c = 3 \/ c = 4 \/ c = 5 \/ c = 6 \/ c = 7 \/
                   c = 8 \/ c = 9 \/ c = 10 \/ c = 11 \/ c = 12 \/ c = 13 \/ c = 14 \/ c = 15)
    by lia.
  repeat (destruct Hcases as [Hcases | Hcases]; [subst c; vm_compute; tauto|]).
  subst c; vm_compute; tauto.
Qed.

Lemma is_square_filter_false : forall x,
  negb ((Z.land x 15 =? 0) || (Z.land x 15 =? 1) || (Z.land x 15 =? 4) || (Z.land x 15 =? 9)) = true ->
  forall r, x <> r * r.
Proof.
  intros x Hf r Hx. subst x. rewrite land15_mod16 in Hf.
  apply negb_true_iff in Hf.
  destruct (square_mod16 r) as [H | [H | [H | H]]]; rewrite H in Hf; discriminate Hf.
Qed.

Theorem is_square_spec : forall x, 0 <= x ->
  exists b, is_square x = Ok b /\ (b = true <-> exists r, x = r * r).
Proof.
  intros x Hx. unfold is_square. cbv zeta.
  destruct (negb ((Z.land x 15 =? 0) || (Z.land x 15 =? 1) || (Z.land x 15 =? 4) || (Z.land x 15 =? 9))) eqn:Hf.
  - exists false. split; [reflexivity|]. split; [discriminate|].
    intros [r Hr]. exfalso. exact (is_square_filter_false x Hf r Hr).
  - unfold isqrt. destruct (x <? 0) eqn:E; [apply Z.ltb_lt in E; lia|].
    exists (x =? Z.sqrt x ^ 2). split; [reflexivity|].
    rewrite Z.eqb_eq. split.
    + intros H. exists (Z.sqrt x). rewrite <- Z.pow_2_r. exact H.
    + intros [r Hr]. subst x. rewrite <- (Z.abs_square r).
      rewrite Z.sqrt_square by apply Z.abs_nonneg. rewrite Z.pow_2_r. reflexivity.
Qed.

Theorem is_square_neg : forall x, x < 0 -> is_square x = Ok false \/ is_square x = EValue.
Proof.
  intros x Hx. unfold is_square. cbv zeta.
  destruct (negb ((Z.land x 15 =? 0) || (Z.land x 15 =? 1) || (Z.land x 15 =? 4) || (Z.land x 15 =? 9))).
  - left. reflexivity.
  - right. unfold isqrt. destruct (x <? 0) eqn:E; [reflexivity|]. apply Z.ltb_ge in E. lia.
Qed.

(** ---- iroot ---- *)
Lemma lor_add_pow2 : forall c i, 0 <= i ->
  Z.lor (c * 2 ^ (i + 1)) (2 ^ i) = c * 2 ^ (i + 1) + 2 ^ i.
Proof.
  intros c i Hi.
  assert (Hl : Z.land (c * 2 ^ (i + 1)) (2 ^ i) = 0).
  { apply Z.bits_inj'. intros m Hm.
    rewrite Z.land_spec, Z.bits_0.
    rewrite <- Z.shiftl_mul_pow2 by lia.
    rewrite Z.shiftl_spec by exact Hm.
    rewrite Z.pow2_bits_eqb by exact Hi.
    destruct (i =? m) eqn:E.
    - apply Z.eqb_eq in E. subst m.
      rewrite Z.testbit_neg_r by lia. reflexivity.
    - apply andb_false_r. }
  rewrite <- (Z.lxor_lor _ _ Hl). symmetry. apply Z.add_nocarry_lxor. exact Hl.
Qed.

Lemma iroot_loop_inv : forall x n, 0 < n -> forall i y c,
  0 < y -> y = c * 2 ^ (Z.of_nat i) ->
  y ^ n <= x < (y + 2 ^ (Z.of_nat i)) ^ n ->
  0 < iroot_loop x n i y /\
  (iroot_loop x n i y) ^ n <= x < (iroot_loop x n i y + 1) ^ n.
Proof.
  intros x n Hn. induction i as [|i IH]; intros y c Hy Hc Hinv.
  - cbn [iroot_loop]. change (Z.of_nat 0) with 0 in Hinv. rewrite Z.pow_0_r in Hinv.
    split; [exact Hy|exact Hinv].
  - cbn [iroot_loop]. cbv zeta.
    assert (Hi : 0 <= Z.of_nat i) by lia.
    rewrite Nat2Z.inj_succ in Hc, Hinv.
    replace (Z.succ (Z.of_nat i)) with (Z.of_nat i + 1) in Hc, Hinv by lia.
    rewrite Z.shiftl_1_l.
    assert (Hz : Z.lor y (2 ^ Z.of_nat i) = y + 2 ^ Z.of_nat i).
    { rewrite Hc. apply lor_add_pow2. exact Hi. }
    rewrite Hz.
    assert (Hp : 0 < 2 ^ Z.of_nat i) by (apply Z.pow_pos_nonneg; lia).
    assert (Hs : 2 ^ (Z.of_nat i + 1) = 2 * 2 ^ Z.of_nat i)
      by (rewrite Z.pow_add_r by lia; rewrite Z.pow_1_r; ring).
    destruct ((y + 2 ^ Z.of_nat i) ^ n <=? x) eqn:E.
    + apply Z.leb_le in E.
      apply (IH (y + 2 ^ Z.of_nat i) (2 * c + 1)).
      * lia.
      * rewrite Hc, Hs. ring.
      * split; [exact E|].
        replace (y + 2 ^ Z.of_nat i + 2 ^ Z.of_nat i) with (y + 2 ^ (Z.of_nat i + 1))
          by (rewrite Hs; ring).
        apply Hinv.
    + apply Z.leb_gt in E.
      apply (IH y (2 * c)).
      * exact Hy.
      * rewrite Hc, Hs. ring.
      * split; [apply Hinv|exact E].
Qed.

Theorem iroot_spec : forall x n, 0 < x -> 0 < n ->
  exists y, iroot x n = Ok (y, x =? y ^ n) /\ 0 < y /\ y ^ n <= x < (y + 1) ^ n.
Proof.
  intros x n Hx Hn. unfold iroot. cbv zeta.
  destruct (x <? 0) eqn:Exn; [apply Z.ltb_lt in Exn; lia|].
  destruct (x =? 0) eqn:Ex; [apply Z.eqb_eq in Ex; lia|].
  destruct (n =? 0) eqn:En; [apply Z.eqb_eq in En; lia|].
  assert (Hbl : bit_length x - 1 = Z.log2 x).
  { unfold bit_length. rewrite Ex. rewrite Z.abs_eq by lia. lia. }
  rewrite Hbl.
  pose proof (Z.log2_nonneg x) as Hl0.
  set (k := Z.log2 x / n).
  assert (Hk : 0 <= k) by (apply Z.div_pos; lia).
  destruct (k <? 0) eqn:Ek; [apply Z.ltb_lt in Ek; lia|].
  destruct (n <? 0) eqn:En'; [apply Z.ltb_lt in En'; lia|].
  rewrite Z.shiftl_1_l.
  exists (iroot_loop x n (Z.to_nat k) (2 ^ k)). split; [reflexivity|].
  assert (Hp : 0 < 2 ^ k) by (apply Z.pow_pos_nonneg; lia).
  apply (iroot_loop_inv x n Hn (Z.to_nat k) (2 ^ k) 1).
  - exact Hp.
  - rewrite Z2Nat.id by exact Hk. ring.
  - rewrite Z2Nat.id by exact Hk.
    destruct (Z.log2_spec x Hx) as [Hlo Hhi].
    assert (Hkn : k * n <= Z.log2 x).
    { unfold k. rewrite Z.mul_comm. apply Z.mul_div_le. exact Hn. }
    assert (Hkn' : Z.log2 x + 1 <= (k + 1) * n).
    { unfold k. pose proof (Z.mul_succ_div_gt (Z.log2 x) n Hn) as H.
      unfold Z.succ in H. lia. }
    split.
    + rewrite <- Z.pow_mul_r by lia.
      apply Z.le_trans with (2 ^ Z.log2 x); [|exact Hlo].
      apply Z.pow_le_mono_r; lia.
    + replace (2 ^ k + 2 ^ k) with (2 ^ (k + 1))
        by (rewrite Z.pow_add_r by lia; rewrite Z.pow_1_r; ring).
      rewrite <- Z.pow_mul_r by lia.
      apply Z.lt_le_trans with (2 ^ Z.succ (Z.log2 x)); [exact Hhi|].
      apply Z.pow_le_mono_r; lia.
Qed.

Theorem iroot_zero : forall n, iroot 0 n = Ok (0, true).
Proof. intros n. reflexivity. Qed.

Theorem iroot_domain : forall x n, x < 0 -> iroot x n = EValue.
Proof.
  intros x n Hx. unfold iroot. destruct (x <? 0) eqn:E; [reflexivity|].
  apply Z.ltb_ge in E. lia.
Qed.


End PB.

Definition powmod_spec := PB.powmod_spec.
Definition powmod_pos_spec := PB.powmod_pos_spec.
Definition isqrt_spec := PB.isqrt_spec.
Definition is_square_spec := PB.is_square_spec.
Definition is_square_neg := PB.is_square_neg.
Definition iroot_spec := PB.iroot_spec.
Definition iroot_zero := PB.iroot_zero.
Definition iroot_domain := PB.iroot_domain.

Module PC.
Local Open Scope Z_scope.

(** ---- parity ---- *)
Lemma land1_mod2 : forall y, Z.land y 1 = y mod 2.
Proof.
  intros y. change 1 with (Z.ones 1) at 1. rewrite Z.land_ones by lia. reflexivity.
Qed.

Lemma land1_eqb : forall y, (Z.land y 1 =? 0) = negb (Z.odd y).
Proof.
  intros y. rewrite land1_mod2, Zmod_odd. destruct (Z.odd y); reflexivity.
Qed.

(** ---- val2 ---- *)
Fixpoint tz (p : positive) : Z :=
  match p with xO p' => 1 + tz p' | _ => 0 end.
Fixpoint oddpart (p : positive) : positive :=
  match p with xO p' => oddpart p' | _ => p end.

Lemma tz_nonneg : forall p, 0 <= tz p.
Proof. induction p; cbn [tz]; lia. Qed.

Lemma oddpart_odd : forall p, Z.odd (Zpos (oddpart p)) = true.
Proof. induction p; simpl; auto. Qed.

Lemma oddpart_decomp : forall p, Zpos p = Zpos (oddpart p) * 2 ^ tz p.
Proof.
  induction p; cbn [oddpart]; cbn [tz]; try (rewrite Z.pow_0_r; lia).
  pose proof (tz_nonneg p) as Ht.
  rewrite Z.pow_add_r by lia. change (2 ^ 1) with 2.
  rewrite Pos2Z.inj_xO. rewrite IHp at 1. ring.
Qed.

Lemma land_double : forall a b, Z.land (2 * a) (2 * b) = 2 * Z.land a b.
Proof.
  intros a b.
  rewrite <- !(Z.mul_comm _ 2).
  change 2 with (2 ^ 1).
  rewrite <- !Z.shiftl_mul_pow2 by lia.
  symmetry. apply Z.shiftl_land.
Qed.

Lemma land_odd_lnot : forall a, Z.land (2 * a + 1) (2 * (Z.lnot a) + 1) = 1.
Proof.
  intros a. apply Z.bits_inj'. intros n Hn.
  rewrite Z.land_spec.
  destruct (Z.eq_dec n 0) as [->|Hn0].
  - rewrite !Z.testbit_odd_0. reflexivity.
  - replace n with (Z.succ (n - 1)) by lia.
    rewrite !Z.testbit_odd_succ by lia.
    rewrite <- Z.land_spec, Z.land_lnot_diag.
    change 1 with (2 * 0 + 1). rewrite Z.testbit_odd_succ by lia.
    reflexivity.
Qed.

Lemma land_neg : forall p, Z.land (Zpos p) (Zneg p) = 2 ^ tz p.
Proof.
  induction p.
  - cbn [tz]. rewrite Z.pow_0_r.
    replace (Zpos p~1) with (2 * Zpos p + 1) by lia.
    replace (Zneg p~1) with (2 * Z.lnot (Zpos p) + 1) by (unfold Z.lnot; lia).
    apply land_odd_lnot.
  - cbn [tz]. pose proof (tz_nonneg p).
    rewrite Z.pow_add_r by lia. change (2 ^ 1) with 2.
    replace (Zpos p~0) with (2 * Zpos p) by lia.
    replace (Zneg p~0) with (2 * Zneg p) by lia.
    rewrite land_double, IHp. reflexivity.
  - reflexivity.
Qed.

Lemma val2_pos : forall p, val2 (Zpos p) = tz p.
Proof.
  intros p. unfold val2, bit_length.
  change (- Zpos p) with (Zneg p). rewrite land_neg.
  pose proof (tz_nonneg p) as Ht.
  assert (0 < 2 ^ tz p) by (apply Z.pow_pos_nonneg; lia).
  destruct (Z.eqb_spec (2 ^ tz p) 0); [lia|].
  rewrite Z.abs_eq by lia. rewrite Z.log2_pow2 by lia. lia.
Qed.

Lemma val2_spec : forall y, 0 < y ->
  exists m, 0 <= val2 y /\ Z.shiftr y (val2 y) = m /\ 0 < m /\ Z.odd m = true /\ y = m * 2 ^ val2 y.
Proof.
  intros y Hy. destruct y as [|p|p]; try lia.
  exists (Zpos (oddpart p)). rewrite val2_pos.
  pose proof (tz_nonneg p) as Ht.
  assert (0 < 2 ^ tz p) by (apply Z.pow_pos_nonneg; lia).
  repeat split; try lia.
  - rewrite Z.shiftr_div_pow2 by lia. rewrite (oddpart_decomp p) at 1.
    apply Z.div_mul. lia.
  - apply oddpart_odd.
  - apply oddpart_decomp.
Qed.

(** ---- gcd facts ---- *)
Lemma gcd_coprime_mul : forall a b c, Z.gcd a c = 1 -> Z.gcd a (b * c) = Z.gcd a b.
Proof.
  intros a b c H.
  apply Z.gcd_unique.
  - apply Z.gcd_nonneg.
  - apply Z.gcd_divide_l.
  - apply Z.divide_mul_l, Z.gcd_divide_r.
  - intros q Hqa Hqbc. apply Z.gcd_greatest; [assumption|].
    apply Z.gauss with (m := c).
    + rewrite Z.mul_comm. assumption.
    + apply Z.divide_antisym_nonneg; try lia.
      * apply Z.gcd_nonneg.
      * rewrite <- H. apply Z.gcd_greatest.
        -- eapply Z.divide_trans; [apply Z.gcd_divide_l|assumption].
        -- apply Z.gcd_divide_r.
      * apply Z.divide_1_l.
Qed.

Lemma odd_gcd_2 : forall y, Z.odd y = true -> Z.gcd y 2 = 1.
Proof.
  intros y Hy.
  pose proof (Z.gcd_nonneg y 2) as Hn.
  pose proof (Z.gcd_divide_r y 2) as Hr.
  pose proof (Z.gcd_divide_l y 2) as Hl.
  assert (Hle : Z.gcd y 2 <= 2) by (apply Z.divide_pos_le; [lia|assumption]).
  assert (Hc : Z.gcd y 2 = 0 \/ Z.gcd y 2 = 1 \/ Z.gcd y 2 = 2) by lia.
  destruct Hc as [Hc|[Hc|Hc]]; [|assumption|].
  - rewrite Hc in Hr. destruct Hr as [z Hz]. lia.
  - rewrite Hc in Hl. destruct Hl as [z Hz]. subst y.
    rewrite Z.mul_comm, Z.odd_mul in Hy. discriminate.
Qed.

Lemma odd_gcd_pow2 : forall y t, Z.odd y = true -> 0 <= t -> Z.gcd y (2 ^ t) = 1.
Proof.
  intros y t Hy Ht. apply Zgcd_1_rel_prime. apply rel_prime_Zpower_r; [assumption|].
  apply Zgcd_1_rel_prime. apply odd_gcd_2; assumption.
Qed.

(** ---- one iteration ---- *)
Lemma loop_S : forall k x y j, jacobi_loop (S k) x y j =
  (if x mod y =? 0 then Some (y, j) else
   let t := val2 (x mod y) in
   let j1 := if negb (Z.land t 1 =? 0) && flip8 y then - j else j in
   let y2 := Z.shiftr (x mod y) t in
   let j2 := if negb (Z.land y2 3 =? 1) && negb (Z.land y 3 =? 1) then - j1 else j1 in
   jacobi_loop k y y2 j2).
Proof. reflexivity. Qed.

Lemma loop_step : forall x y j, 0 < y -> Z.odd y = true ->
  (x mod y = 0 /\ forall n, jacobi_loop (S n) x y j = Some (y, j)) \/
  (exists y2 j2, 0 < y2 <= x mod y /\ Z.odd y2 = true /\ Z.gcd y y2 = Z.gcd x y /\
     (j2 = j \/ j2 = - j) /\ forall n, jacobi_loop (S n) x y j = jacobi_loop n y y2 j2).
Proof.
  intros x y j Hy Hodd.
  destruct (Z.eqb_spec (x mod y) 0) as [E|E].
  - left. split; [assumption|]. intros n. rewrite loop_S.
    rewrite E. reflexivity.
  - right.
    assert (Hr : 0 < x mod y) by (pose proof (Z.mod_pos_bound x y Hy); lia).
    destruct (val2_spec _ Hr) as (m & Ht & Hs & Hm & Hmo & Hd).
    set (t := val2 (x mod y)) in *.
    exists m.
    eexists. split; [|split; [|split; [|split]]].
    5:{ intros n. rewrite loop_S. destruct (Z.eqb_spec (x mod y) 0) as [E'|_]; [contradiction|].
        cbv zeta. fold t. rewrite Hs. reflexivity. }
    + assert (1 <= 2 ^ t) by (assert (0 < 2 ^ t) by (apply Z.pow_pos_nonneg; lia); lia).
      split; [lia|]. nia.
    + assumption.
    + rewrite (Z.gcd_comm x y). rewrite <- (Z.gcd_mod x y) by lia. rewrite (Z.gcd_comm (x mod y) y).
      rewrite Hd. symmetry. apply gcd_coprime_mul. apply odd_gcd_pow2; assumption.
    + destruct (negb (Z.land m 3 =? 1) && negb (Z.land y 3 =? 1));
      destruct (negb (Z.land t 1 =? 0) && flip8 y); lia.
Qed.

Lemma half_mod : forall y y2, 0 < y2 < y -> 2 * (y mod y2) < y.
Proof.
  intros y y2 H.
  pose proof (Z.mod_pos_bound y y2 ltac:(lia)) as Hb.
  pose proof (Z.div_mod y y2 ltac:(lia)) as Hd.
  assert (1 <= y / y2) by (apply Z.div_le_lower_bound; lia).
  nia.
Qed.

Lemma loop_terminates : forall k x y j, 0 < y < 2 ^ Z.of_nat k -> Z.odd y = true ->
  (j = 1 \/ j = -1) ->
  exists j', jacobi_loop (S (2 * k)) x y j = Some (Z.gcd x y, j') /\ (j' = 1 \/ j' = -1).
Proof.
  induction k as [|k IH]; intros x y j Hy Hodd Hj.
  - simpl in Hy. lia.
  - replace (S (2 * S k))%nat with (S (S (S (2 * k)))) by lia.
    destruct (loop_step x y j (proj1 Hy) Hodd) as [[E Hl]|(y2 & j2 & Hy2 & Hodd2 & Hg & Hj2 & Hl)].
    + exists j. rewrite Hl. split; [|assumption]. f_equal. f_equal.
      symmetry. rewrite Z.gcd_comm. apply Z.divide_gcd_iff; [lia|].
      apply Z.mod_divide; [lia|assumption].
    + rewrite Hl. rewrite <- Hg.
      assert (Hlt : y2 < y) by (pose proof (Z.mod_pos_bound x y (proj1 Hy)); lia).
      destruct (loop_step y y2 j2 (proj1 Hy2) Hodd2) as [[E Hl2]|(y3 & j3 & Hy3 & Hodd3 & Hg3 & Hj3 & Hl2)].
      * exists j2. rewrite Hl2. split; [|lia]. f_equal. f_equal.
        symmetry. rewrite Z.gcd_comm. apply Z.divide_gcd_iff; [lia|].
        apply Z.mod_divide; [lia|assumption].
      * rewrite Hl2. rewrite <- Hg3. apply IH; try assumption; try lia.
        pose proof (half_mod y y2 ltac:(lia)).
        rewrite Nat2Z.inj_succ, Z.pow_succ_r in Hy by lia. lia.
Qed.

Lemma euclid_fuel_bound : forall y, 0 < y ->
  exists k, euclid_fuel y = S (2 * k) /\ y < 2 ^ Z.of_nat k.
Proof.
  intros y Hy. exists (S (Z.to_nat (Z.log2_up (Z.abs y)))).
  split; [unfold euclid_fuel; lia|].
  rewrite Z.abs_eq by lia.
  pose proof (Z.log2_up_nonneg y) as Hn.
  rewrite Nat2Z.inj_succ, Z2Nat.id by lia.
  rewrite Z.pow_succ_r by lia.
  assert (y <= 2 ^ Z.log2_up y).
  { destruct (Z.eq_dec y 1) as [->|]; [simpl; lia|]. apply Z.log2_up_spec. lia. }
  lia.
Qed.

(** ---- theorems ---- *)
Theorem jacobi_domain : forall x y, ~ (0 < y /\ Z.odd y = true) -> jacobi x y = EValue.
Proof.
  intros x y H. unfold jacobi. rewrite land1_eqb, negb_involutive.
  destruct (Z.ltb_spec 0 y) as [Hy|Hy]; [|reflexivity].
  destruct (Z.odd y) eqn:Ho; [|reflexivity].
  exfalso. apply H. split; [assumption|reflexivity].
Qed.

Lemma jacobi_unfold : forall x y, 0 < y -> Z.odd y = true ->
  jacobi x y = match jacobi_loop (euclid_fuel y) x y 1 with
               | None => EFuel
               | Some (x', j) => Ok (if negb (x' =? 1) then 0 else j)
               end.
Proof.
  intros x y Hy Ho. unfold jacobi. rewrite land1_eqb, Ho.
  destruct (Z.ltb_spec 0 y); [reflexivity|lia].
Qed.

Theorem jacobi_spec : forall x y, 0 < y -> Z.odd y = true ->
  exists j, jacobi x y = Ok j /\ (j = -1 \/ j = 0 \/ j = 1) /\ (j = 0 <-> Z.gcd x y <> 1).
Proof.
  intros x y Hy Ho. rewrite jacobi_unfold by assumption.
  destruct (euclid_fuel_bound y Hy) as (k & -> & Hk).
  destruct (loop_terminates k x y 1 (conj Hy Hk) Ho (or_introl eq_refl)) as (j' & -> & Hj').
  eexists. split; [reflexivity|].
  destruct (Z.eqb_spec (Z.gcd x y) 1) as [E|E]; simpl; split; try lia.
Qed.

Lemma jacobi_loop_mod : forall n x y j, y <> 0 ->
  jacobi_loop n (x mod y) y j = jacobi_loop n x y j.
Proof.
  intros n x y j Hy. destruct n; [reflexivity|].
  rewrite !loop_S. rewrite Z.mod_mod by assumption. reflexivity.
Qed.

Theorem jacobi_mod : forall x y, 0 < y -> jacobi (x mod y) y = jacobi x y.
Proof.
  intros x y Hy. destruct (Z.odd y) eqn:Ho.
  - rewrite !jacobi_unfold by assumption. rewrite jacobi_loop_mod by lia. reflexivity.
  - rewrite !jacobi_domain; [reflexivity| |]; intros [_ H]; congruence.
Qed.

Theorem kronecker_odd : forall x y, 0 < y -> Z.odd y = true -> kronecker x y = jacobi x y.
Proof.
  intros x y Hy Ho. unfold kronecker. cbv zeta.
  destruct (Z.eqb_spec y 0) as [E|_]; [lia|]. cbv iota beta.
  destruct (Z.ltb_spec y 0) as [E|_]; [lia|]. cbv iota beta.
  rewrite land1_eqb, Ho. cbv iota beta. simpl negb. cbv iota beta.
  destruct (jacobi x y); try reflexivity.
  f_equal. apply Z.mul_1_l.
Qed.

(** ---- Euler's criterion, bounded ---- *)
Definition euler (x p : Z) : Z := let e := x ^ ((p - 1) / 2) mod p in if e =? p - 1 then -1 else e.

Lemma euler_mod : forall x p, 0 < p -> euler (x mod p) p = euler x p.
Proof.
  intros x p Hp. unfold euler. rewrite <- (Zpower_mod x) by assumption. reflexivity.
Qed.

Lemma in_zrange : forall v lo n, In v (zrange lo n) <-> lo <= v < lo + Z.of_nat n.
Proof.
  intros v lo n. unfold zrange. rewrite in_map_iff. split.
  - intros (i & <- & Hi). apply in_seq in Hi. lia.
  - intros H. exists (Z.to_nat (v - lo)). split; [lia|]. apply in_seq. lia.
Qed.

Definition nodiv (p : Z) : bool :=
  forallb (fun d => negb (p mod d =? 0)) (zrange 2 (Z.to_nat (p - 2))).

Lemma prime_nodiv : forall p, prime p -> nodiv p = true.
Proof.
  intros p Hp. unfold nodiv. apply forallb_forall. intros d Hd.
  apply in_zrange in Hd.
  assert (Hp1 : 1 < p) by (destruct Hp; assumption).
  destruct (Z.eqb_spec (p mod d) 0) as [E|E]; [|reflexivity].
  exfalso. apply Z.mod_divide in E; [|lia].
  apply (prime_divisors p Hp) in E. lia.
Qed.

Lemma powmod_pos_spec : forall x e m, m <> 0 -> powmod_pos x e m = x ^ Zpos e mod m.
Proof.
  intros x e m Hm. induction e as [e IH|e IH|]; cbn [powmod_pos].
  - rewrite IH. rewrite Pos2Z.inj_xI.
    rewrite Z.pow_add_r, Z.pow_1_r by lia.
    replace (2 * Z.pos e) with (Z.pos e + Z.pos e) by lia.
    rewrite Z.pow_add_r by lia.
    rewrite <- Z.mul_mod by assumption.
    rewrite Z.mul_mod_idemp_l by assumption. reflexivity.
  - rewrite IH. rewrite Pos2Z.inj_xO.
    replace (2 * Z.pos e) with (Z.pos e + Z.pos e) by lia.
    rewrite Z.pow_add_r by lia.
    rewrite <- Z.mul_mod by assumption. reflexivity.
  - rewrite Z.pow_1_r. reflexivity.
Qed.

Definition euler' (x p : Z) : Z :=
  let e := match (p - 1) / 2 with
           | Zpos q => powmod_pos x q p
           | q => x ^ q mod p
           end in
  if e =? p - 1 then -1 else e.

Lemma euler'_eq : forall x p, p <> 0 -> euler' x p = euler x p.
Proof.
  intros x p Hp. unfold euler', euler.
  destruct ((p - 1) / 2) as [|q|q]; try reflexivity.
  rewrite powmod_pos_spec by assumption. reflexivity.
Qed.

Definition jac_ok (p x : Z) : bool :=
  match jacobi x p with Ok j => j =? euler' x p | _ => false end.

Definition euler_chk (p : Z) : bool :=
  negb (nodiv p) || forallb (jac_ok p) (zrange 0 (Z.to_nat p)).

Lemma euler_chk_all : forallb euler_chk (zrange 3 397) = true.
Proof. vm_compute. reflexivity. Qed.

Theorem jacobi_euler_bounded : forall p x, 2 < p < 400 -> prime p -> jacobi x p = Ok (euler x p).
Proof.
  intros p x Hb Hp.
  rewrite <- jacobi_mod, <- euler_mod by lia.
  pose proof euler_chk_all as H. rewrite forallb_forall in H.
  specialize (H p). rewrite in_zrange in H. specialize (H ltac:(lia)).
  unfold euler_chk in H. rewrite (prime_nodiv p Hp) in H. simpl in H.
  rewrite forallb_forall in H. specialize (H (x mod p)).
  rewrite in_zrange in H.
  pose proof (Z.mod_pos_bound x p ltac:(lia)) as Hm.
  specialize (H ltac:(lia)). unfold jac_ok in H.
  destruct (jacobi (x mod p) p); try discriminate.
  apply Z.eqb_eq in H. rewrite euler'_eq in H by lia. congruence.
Qed.


End PC.

Definition jacobi_domain := PC.jacobi_domain.
Definition jacobi_spec := PC.jacobi_spec.
Definition jacobi_mod := PC.jacobi_mod.
Definition kronecker_odd := PC.kronecker_odd.
Definition euler := PC.euler.
Definition jacobi_euler_bounded := PC.jacobi_euler_bounded.

Module PD.
Local Open Scope Z_scope.

(* ================================================================== *)
(* Part 0: Fermat's little theorem and square roots of 1 (copied from *)
(* Fermat.v, axiom-free)                                              *)
(* ================================================================== *)
(* ------------------------------------------------------------------ *)
(* Products of lists of integers                                       *)
(* ------------------------------------------------------------------ *)

Definition zprod (l : list Z) : Z := fold_right Z.mul 1 l.

Lemma zprod_perm : forall l l', Permutation l l' -> zprod l = zprod l'.
Proof.
  intros l l' H; induction H; simpl in *.
  - reflexivity.
  - rewrite IHPermutation; reflexivity.
  - ring.
  - congruence.
Qed.

Lemma zprod_map_mulmod : forall a p l, 0 < p ->
  zprod (map (fun i => (a * i) mod p) l) mod p
  = (a ^ Z.of_nat (length l) * zprod l) mod p.
Proof.
  intros a p l Hp; induction l as [|x l IH]; simpl zprod; simpl length.
  - reflexivity.
  - simpl map. simpl fold_right.
    fold (zprod (map (fun i => (a * i) mod p) l)).
    fold (zprod l).
    rewrite Zmult_mod_idemp_l.
    rewrite <- Zmult_mod_idemp_r.
    rewrite IH.
    rewrite Zmult_mod_idemp_r.
    f_equal.
    rewrite Nat2Z.inj_succ, Z.pow_succ_r by lia.
    ring.
Qed.

Lemma zprod_not_div : forall p l, prime p ->
  (forall x, In x l -> ~ (p | x)) -> ~ (p | zprod l).
Proof.
  intros p l Hpr; induction l as [|x l IH]; intros Hall Hd; simpl in Hd.
  - pose proof (prime_ge_2 p Hpr) as Hp2.
    apply Z.divide_pos_le in Hd; lia.
  - fold (zprod l) in Hd.
    apply prime_mult in Hd; [|assumption].
    destruct Hd as [Hd|Hd].
    + apply (Hall x); [left; reflexivity | assumption].
    + apply IH; [|assumption].
      intros y Hy; apply Hall; right; assumption.
Qed.

Lemma NoDup_map_inj_in : forall (A B : Type) (f : A -> B) (l : list A),
  (forall x y, In x l -> In y l -> f x = f y -> x = y) ->
  NoDup l -> NoDup (map f l).
Proof.
  intros A B f l; induction l as [|x l IH]; intros Hinj Hnd; simpl.
  - constructor.
  - inversion Hnd as [|x' l' Hnotin Hnd']; subst.
    constructor.
    + intro Hin. apply in_map_iff in Hin.
      destruct Hin as [y [Hfy Hy]].
      assert (y = x) as Heq.
      { apply Hinj; [right; assumption | left; reflexivity | assumption]. }
      subst y. contradiction.
    + apply IH; [|assumption].
      intros a b Ha Hb; apply Hinj; right; assumption.
Qed.

(* ------------------------------------------------------------------ *)
(* The list 1 .. p-1                                                   *)
(* ------------------------------------------------------------------ *)

Definition range1 (p : Z) : list Z := map Z.of_nat (seq 1 (Z.to_nat (p - 1))).

Lemma range1_In : forall p x, 1 <= p -> (In x (range1 p) <-> 1 <= x < p).
Proof.
  intros p x Hp; unfold range1; rewrite in_map_iff; split.
  - intros [k [Hk Hin]]. apply in_seq in Hin. lia.
  - intros Hx. exists (Z.to_nat x). split; [lia|].
    apply in_seq. lia.
Qed.

Lemma range1_NoDup : forall p, NoDup (range1 p).
Proof.
  intros p; unfold range1.
  apply NoDup_map_inj_in.
  - intros x y _ _ H. apply Nat2Z.inj; assumption.
  - apply seq_NoDup.
Qed.

Lemma range1_length : forall p, 1 <= p -> Z.of_nat (length (range1 p)) = p - 1.
Proof.
  intros p Hp; unfold range1. rewrite map_length, seq_length. lia.
Qed.

(* ------------------------------------------------------------------ *)
(* Small divisibility facts                                            *)
(* ------------------------------------------------------------------ *)

Lemma small_not_div : forall p x, 1 <= x < p -> ~ (p | x).
Proof.
  intros p x Hx Hd. apply Z.divide_pos_le in Hd; lia.
Qed.

Lemma small_div_zero : forall p d, 0 < p -> - p < d < p -> (p | d) -> d = 0.
Proof.
  intros p d Hp Hd [k Hk].
  assert (k = 0) as Hk0.
  { destruct (Z_lt_le_dec k 0) as [Hneg|Hnn].
    - assert (k * p <= -1 * p) by (apply Z.mul_le_mono_nonneg_r; lia). lia.
    - destruct (Z_lt_le_dec 0 k) as [Hpos|Hz]; [|lia].
      assert (1 * p <= k * p) by (apply Z.mul_le_mono_nonneg_r; lia). lia. }
  subst k. lia.
Qed.

Lemma mod_eq_divide_sub : forall p x y, 0 < p -> x mod p = y mod p -> (p | x - y).
Proof.
  intros p x y Hp H.
  apply Zmod_divide; [lia|].
  rewrite Zminus_mod, H, Z.sub_diag. apply Zmod_0_l.
Qed.

(* ------------------------------------------------------------------ *)
(* Fermat's little theorem                                             *)
(* ------------------------------------------------------------------ *)

Theorem fermat_little : forall p a : Z,
  prime p -> ~ (p | a) -> a ^ (p - 1) mod p = 1.
Proof.
  intros p a Hpr Hna.
  pose proof (prime_ge_2 p Hpr) as Hp2.
  set (L := range1 p).
  set (f := fun i => (a * i) mod p).
  (* f maps L into L *)
  assert (Hincl : incl (map f L) L).
  { intros y Hy. apply in_map_iff in Hy. destruct Hy as [i [Hfi Hi]].
    apply range1_In in Hi; [|lia].
    apply range1_In; [lia|].
    subst y; unfold f.
    pose proof (Z.mod_pos_bound (a * i) p ltac:(lia)) as Hb.
    assert ((a * i) mod p <> 0) as Hnz.
    { intro H0. apply Zmod_divide in H0; [|lia].
      apply prime_mult in H0; [|assumption].
      destruct H0 as [H0|H0]; [contradiction|].
      revert H0. apply small_not_div; lia. }
    lia. }
  (* f is injective on L *)
  assert (Hnd : NoDup (map f L)).
  { apply NoDup_map_inj_in; [|apply range1_NoDup].
    intros i j Hi Hj Hij.
    apply range1_In in Hi; [|lia].
    apply range1_In in Hj; [|lia].
    unfold f in Hij.
    apply mod_eq_divide_sub in Hij; [|lia].
    replace (a * i - a * j) with (a * (i - j)) in Hij by ring.
    apply prime_mult in Hij; [|assumption].
    destruct Hij as [Hij|Hij]; [contradiction|].
    apply small_div_zero in Hij; lia. }
  assert (Hperm : Permutation (map f L) L).
  { apply NoDup_Permutation_bis.
    - assumption.
    - rewrite map_length. apply Nat.le_refl.
    - assumption. }
  apply zprod_perm in Hperm.
  pose proof (zprod_map_mulmod a p L ltac:(lia)) as Hmul.
  fold f in Hmul.
  rewrite Hperm in Hmul.
  unfold L in Hmul at 2. rewrite range1_length in Hmul by lia.
  fold L in Hmul.
  (* p | (a^(p-1) - 1) * prod L *)
  symmetry in Hmul.
  apply mod_eq_divide_sub in Hmul; [|lia].
  replace (a ^ (p - 1) * zprod L - zprod L)
    with ((a ^ (p - 1) - 1) * zprod L) in Hmul by ring.
  apply prime_mult in Hmul; [|assumption].
  destruct Hmul as [Hd|Hd].
  - apply Zdivide_mod_minus; [lia | assumption].
  - exfalso. revert Hd. apply zprod_not_div; [assumption|].
    intros x Hx. apply range1_In in Hx; [|lia].
    apply small_not_div; assumption.
Qed.

(* ------------------------------------------------------------------ *)
(* Square roots of 1 modulo a prime                                    *)
(* ------------------------------------------------------------------ *)

Theorem sqrt1_mod_prime : forall p b : Z,
  prime p -> (b * b) mod p = 1 -> b mod p = 1 \/ b mod p = p - 1.
Proof.
  intros p b Hpr Hsq.
  pose proof (prime_ge_2 p Hpr) as Hp2.
  apply Zmod_divide_minus in Hsq; [|lia].
  replace (b * b - 1) with ((b - 1) * (b + 1)) in Hsq by ring.
  apply prime_mult in Hsq; [|assumption].
  destruct Hsq as [Hd|Hd].
  - left. apply Zdivide_mod_minus; [lia | assumption].
  - right. apply Zdivide_mod_minus; [lia|].
    replace (b - (p - 1)) with ((b + 1) - p) by ring.
    apply Z.divide_sub_r; [assumption | apply Z.divide_refl].
Qed.

(* ================================================================== *)
(* Part 1: Miller-Rabin never rejects a prime                          *)
(* ================================================================== *)

Lemma powmod_pos_spec : forall x e m, m <> 0 -> powmod_pos x e m = x ^ Zpos e mod m.
Proof.
  intros x e m Hm. induction e as [e IH | e IH | ]; cbn [powmod_pos].
  - rewrite IH. rewrite <- Z.mul_mod by exact Hm.
    rewrite Z.mul_mod_idemp_l by exact Hm.
    f_equal. rewrite Pos2Z.inj_xI.
    rewrite Z.pow_add_r by lia. rewrite Z.pow_twice_r, Z.pow_1_r. reflexivity.
  - rewrite IH. rewrite <- Z.mul_mod by exact Hm.
    f_equal. rewrite Pos2Z.inj_xO. rewrite Z.pow_twice_r. reflexivity.
  - rewrite Z.pow_1_r. reflexivity.
Qed.

Lemma powZ_spec : forall a s x, 0 < s -> x <> 0 -> powZ a s x = a ^ s mod x.
Proof.
  intros a s x Hs Hx. unfold powZ, pow3.
  destruct (x =? 0) eqn:E; [apply Z.eqb_eq in E; contradiction|].
  destruct s as [|e|e]; try lia.
  apply powmod_pos_spec; exact Hx.
Qed.

Lemma twos_spec : forall sp r s, twos sp = (r, s) -> 0 <= r /\ 0 < s /\ Zpos sp = s * 2 ^ r.
Proof.
  induction sp as [sp IH | sp IH | ]; intros r s H; cbn [twos] in H.
  - inversion H; subst. rewrite Z.pow_0_r. lia.
  - destruct (twos sp) as [r' q] eqn:E. inversion H; subst.
    destruct (IH r' s eq_refl) as [Hr [Hs Heq]].
    split; [lia|]. split; [exact Hs|].
    rewrite Pos2Z.inj_xO, Heq. rewrite Z.pow_add_r by lia. rewrite Z.pow_1_r. ring.
  - inversion H; subst. rewrite Z.pow_0_r. lia.
Qed.

Lemma prime_div_eq : forall x p, prime x -> 1 < p -> (p | x) -> p = x.
Proof.
  intros x p Hx Hp Hd.
  pose proof (prime_ge_2 x Hx) as Hx2.
  destruct (prime_divisors x Hx p Hd) as [H | [H | [H | H]]]; lia.
Qed.

Lemma trial_prime : forall ps x, (forall p, In p ps -> 1 < p) -> prime x ->
  forall b, trial ps x = Some b -> b = true.
Proof.
  induction ps as [|p ps IH]; intros x Hps Hx b H; cbn [trial] in H.
  - discriminate.
  - destruct (x mod p =? 0) eqn:E.
    + apply Z.eqb_eq in E.
      assert (Hp : 1 < p) by (apply Hps; left; reflexivity).
      apply Zmod_divide in E; [|lia].
      pose proof (prime_div_eq x p Hx Hp E) as Heq.
      inversion H; subst. apply Z.eqb_refl.
    + apply (IH x); [|exact Hx|exact H].
      intros q Hq. apply Hps. right. exact Hq.
Qed.

Lemma small_primes_gt1 : forall p, In p small_primes -> 1 < p.
Proof.
  intros p H. unfold small_primes in H. simpl in H.
  repeat (destruct H as [H | H]; [lia|]). contradiction.
Qed.

Lemma pow2_succ : forall k, 0 <= k -> 2 ^ (k + 1) = 2 * 2 ^ k.
Proof. intros k Hk. rewrite Z.pow_add_r by lia. rewrite Z.pow_1_r. ring. Qed.

Lemma mr_inner_prime : forall x, prime x -> forall k b,
  0 <= b < x -> b ^ (2 ^ (Z.of_nat k + 1)) mod x = 1 -> b <> 1 -> b <> x - 1 ->
  mr_inner k b x = true.
Proof.
  intros x Hx. pose proof (prime_ge_2 x Hx) as Hx2.
  induction k as [|k IH]; intros b Hb Hpow Hb1 Hbm.
  - exfalso. change (Z.of_nat 0 + 1) with 1 in Hpow. rewrite Z.pow_1_r in Hpow.
    rewrite Z.pow_2_r in Hpow.
    destruct (sqrt1_mod_prime x b Hx Hpow) as [H | H];
      rewrite Z.mod_small in H by exact Hb; contradiction.
  - cbn [mr_inner]. cbv zeta.
    destruct ((b * b) mod x =? x - 1) eqn:E; [reflexivity|].
    apply Z.eqb_neq in E.
    apply IH.
    + apply Z.mod_pos_bound. lia.
    + rewrite <- Zpower_mod by lia.
      rewrite <- Z.pow_2_r. rewrite <- Z.pow_mul_r by (try apply Z.pow_nonneg; lia).
      rewrite <- pow2_succ by lia.
      rewrite Nat2Z.inj_succ in Hpow.
      replace (Z.succ (Z.of_nat k) + 1) with (Z.of_nat k + 1 + 1) in Hpow by lia.
      exact Hpow.
    + intro H1.
      destruct (sqrt1_mod_prime x b Hx H1) as [H | H];
        rewrite Z.mod_small in H by exact Hb; contradiction.
    + exact E.
Qed.

Lemma mr_round_prime : forall x r s a, prime x -> 0 <= r -> 0 < s -> x - 1 = s * 2 ^ r ->
  2 <= a <= x - 2 -> mr_round x r s a = true.
Proof.
  intros x r s a Hx Hr Hs Heq Ha.
  pose proof (prime_ge_2 x Hx) as Hx2.
  unfold mr_round. cbv zeta.
  rewrite powZ_spec by lia.
  set (b := a ^ s mod x).
  assert (Hb : 0 <= b < x) by (apply Z.mod_pos_bound; lia).
  assert (Hpow : b ^ (2 ^ r) mod x = 1).
  { unfold b. rewrite <- Zpower_mod by lia.
    rewrite <- Z.pow_mul_r by (try apply Z.pow_nonneg; lia).
    rewrite <- Heq. apply fermat_little; [exact Hx|].
    apply small_not_div. lia. }
  destruct (b =? 1) eqn:E1; [reflexivity|].
  destruct (b =? x - 1) eqn:E2; [reflexivity|].
  apply Z.eqb_neq in E1. apply Z.eqb_neq in E2. cbn [orb].
  assert (Hr1 : 1 <= r).
  { destruct (Z.eq_dec r 0) as [H0 | H0]; [|lia].
    exfalso. subst r. rewrite Z.pow_0_r, Z.pow_1_r in Hpow.
    rewrite Z.mod_small in Hpow by exact Hb. contradiction. }
  apply mr_inner_prime; try assumption.
  replace (Z.of_nat (Z.to_nat (r - 1)) + 1) with r by lia.
  exact Hpow.
Qed.

Lemma mr_loop_prime : forall x r s, prime x -> 5 <= x -> 0 <= r -> 0 < s -> x - 1 = s * 2 ^ r ->
  forall n tp, fst (mr_loop n x r s tp) = true.
Proof.
  intros x r s Hx Hx5 Hr Hs Heq. induction n as [|n IH]; intros tp; cbn [mr_loop].
  - reflexivity.
  - unfold randint.
    set (a := 2 + fst tp (snd tp) mod (x - 2 - 2 + 1)).
    assert (Ha : 2 <= a <= x - 2).
    { unfold a. pose proof (Z.mod_pos_bound (fst tp (snd tp)) (x - 2 - 2 + 1) ltac:(lia)). lia. }
    rewrite (mr_round_prime x r s a Hx Hr Hs Heq Ha).
    apply IH.
Qed.

Theorem is_prime_complete : forall n tp x, prime x -> fst (is_prime_n n tp x) = true.
Proof.
  intros n tp x Hx. pose proof (prime_ge_2 x Hx) as Hx2.
  unfold is_prime_n.
  destruct ((x <=? 2) || (x mod 2 =? 0)) eqn:E.
  - cbn [fst]. apply Z.eqb_eq.
    apply orb_true_iff in E. destruct E as [E | E].
    + apply Z.leb_le in E. lia.
    + apply Z.eqb_eq in E. apply Zmod_divide in E; [|lia].
      symmetry. apply prime_div_eq; [exact Hx|lia|exact E].
  - apply orb_false_iff in E. destruct E as [E1 E2].
    apply Z.leb_gt in E1. apply Z.eqb_neq in E2.
    destruct (trial small_primes x) as [b|] eqn:Et.
    + cbn [fst]. apply (trial_prime small_primes x small_primes_gt1 Hx b Et).
    + assert (H3 : x mod 3 <> 0).
      { unfold small_primes in Et. cbn [trial] in Et.
        destruct (x mod 3 =? 0) eqn:E3; [discriminate|]. apply Z.eqb_neq. exact E3. }
      assert (Hx5 : 5 <= x).
      { assert (x <> 3) by (intro; subst x; apply H3; reflexivity).
        assert (x <> 4) by (intro; subst x; apply E2; reflexivity). lia. }
      destruct (x - 1) as [|sp|sp] eqn:Ex1; try lia.
      destruct (twos sp) as [r s] eqn:Etw.
      destruct (twos_spec sp r s Etw) as [Hr [Hs Heq]].
      apply mr_loop_prime; try assumption. lia.
Qed.

Corollary is_prime_false_composite : forall n tp x, fst (is_prime_n n tp x) = false -> ~ prime x.
Proof.
  intros n tp x H Hx. rewrite (is_prime_complete n tp x Hx) in H. discriminate.
Qed.

Corollary is_prime_complete_25 : forall tp x, prime x -> fst (is_prime tp x) = true.
Proof. intros tp x. apply is_prime_complete. Qed.


(* ================================================================== *)
(* Part 2: the search loop, next_prime, prev_prime                     *)
(* ================================================================== *)

Theorem search_loop_spec : forall (isp : tape -> Z -> bool * tape) step fuel tp c p tp',
  search_loop isp step fuel tp c = (Ok p, tp') ->
  exists k, 0 <= k /\ p = c + step * k /\ (exists t, isp t p = (true, tp')) /\
            forall i, 0 <= i < k -> exists t, fst (isp t (c + step * i)) = false.
Proof.
  intros isp step. induction fuel as [|f IH]; intros tp c p tp' H; cbn [search_loop] in H.
  - discriminate.
  - destruct (isp tp c) as [b t1] eqn:E. destruct b.
    + inversion H; subst. exists 0. split; [lia|]. split; [lia|].
      split; [exists tp; exact E|]. intros i Hi. lia.
    + destruct (IH t1 (c + step) p tp' H) as [k [Hk [Hp [Hacc Hrej]]]].
      exists (k + 1). split; [lia|]. split; [rewrite Hp; ring|].
      split; [exact Hacc|].
      intros i Hi. destruct (Z.eq_dec i 0) as [Hi0 | Hi0].
      * subst i. exists tp. replace (c + step * 0) with c by ring. rewrite E. reflexivity.
      * destruct (Hrej (i - 1) ltac:(lia)) as [t Ht]. exists t.
        replace (c + step * i) with (c + step + step * (i - 1)) by ring. exact Ht.
Qed.

Lemma even_not_prime : forall q, 2 < q -> q mod 2 = 0 -> ~ prime q.
Proof.
  intros q Hq Hm Hp. apply Zmod_divide in Hm; [|lia].
  pose proof (prime_div_eq q 2 Hp ltac:(lia) Hm). lia.
Qed.

Theorem next_prime_spec : forall (isp : tape -> Z -> bool * tape),
  (forall tp z, fst (isp tp z) = true <-> prime z) ->
  forall fuel tp x p tp', next_prime_gen isp fuel tp x = (Ok p, tp') ->
    prime p /\ x < p /\ forall q, x < q < p -> ~ prime q.
Proof.
  intros isp Hor fuel tp x p tp' H. unfold next_prime_gen in H.
  destruct (x <=? 1) eqn:E.
  - apply Z.leb_le in E. inversion H; subst.
    split; [exact prime_2|]. split; [lia|].
    intros q Hq Hp. pose proof (prime_ge_2 q Hp). lia.
  - apply Z.leb_gt in E.
    destruct (search_loop_spec isp 2 fuel tp _ p tp' H) as [k [Hk [Hp [[t Hacc] Hrej]]]].
    pose proof (Z.mod_pos_bound x 2 ltac:(lia)) as Hm.
    set (c0 := x + (1 + x mod 2)) in *.
    assert (Hpp : prime p).
    { apply (Hor t p). rewrite Hacc. reflexivity. }
    split; [exact Hpp|]. split; [unfold c0 in Hp; lia|].
    intros q Hq Hqp.
    pose proof (Z.mod_pos_bound q 2 ltac:(lia)) as Hqm.
    destruct (Z.eq_dec (q mod 2) 0) as [Hq0 | Hq0].
    + apply (even_not_prime q); [lia|exact Hq0|exact Hqp].
    + set (i := (q - c0) / 2).
      assert (Hi : q = c0 + 2 * i /\ 0 <= i < k).
      { unfold i, c0 in *. clear Hrej Hacc H Hpp Hqp. Z.div_mod_to_equations. lia. }
      destruct Hi as [Hqi Hik].
      destruct (Hrej i Hik) as [t2 Ht2]. rewrite <- Hqi in Ht2.
      apply (Hor t2 q) in Hqp. rewrite Hqp in Ht2. discriminate.
Qed.

Theorem prev_prime_spec : forall (isp : tape -> Z -> bool * tape),
  (forall tp z, fst (isp tp z) = true <-> prime z) ->
  forall fuel tp x p tp', prev_prime_gen isp fuel tp x = (Ok p, tp') ->
    prime p /\ p < x /\ forall q, p < q < x -> ~ prime q.
Proof.
  intros isp Hor fuel tp x p tp' H. unfold prev_prime_gen in H.
  destruct (x <? 3) eqn:E; [discriminate|].
  apply Z.ltb_ge in E.
  destruct (x =? 3) eqn:E3.
  - apply Z.eqb_eq in E3. inversion H; subst.
    split; [exact prime_2|]. split; [lia|]. intros q Hq. lia.
  - apply Z.eqb_neq in E3.
    destruct (search_loop_spec isp (-2) fuel tp _ p tp' H) as [k [Hk [Hp [[t Hacc] Hrej]]]].
    pose proof (Z.mod_pos_bound x 2 ltac:(lia)) as Hm.
    set (c0 := x - (1 + x mod 2)) in *.
    assert (Hpp : prime p).
    { apply (Hor t p). rewrite Hacc. reflexivity. }
    pose proof (prime_ge_2 p Hpp) as Hp2.
    split; [exact Hpp|]. split; [unfold c0 in Hp; lia|].
    intros q Hq Hqp.
    pose proof (Z.mod_pos_bound q 2 ltac:(lia)) as Hqm.
    destruct (Z.eq_dec (q mod 2) 0) as [Hq0 | Hq0].
    + apply (even_not_prime q); [lia|exact Hq0|exact Hqp].
    + set (i := (c0 - q) / 2).
      assert (Hi : q = c0 + -2 * i /\ 0 <= i < k).
      { unfold i, c0 in *. clear Hrej Hacc H Hpp Hqp. Z.div_mod_to_equations. lia. }
      destruct Hi as [Hqi Hik].
      destruct (Hrej i Hik) as [t2 Ht2]. rewrite <- Hqi in Ht2.
      apply (Hor t2 q) in Hqp. rewrite Hqp in Ht2. discriminate.
Qed.

Theorem prev_prime_domain : forall isp fuel tp x, x < 3 -> fst (prev_prime_gen isp fuel tp x) = EValue.
Proof.
  intros isp fuel tp x Hx. unfold prev_prime_gen.
  destruct (x <? 3) eqn:E; [reflexivity|]. apply Z.ltb_ge in E. lia.
Qed.


(* ================================================================== *)
(* Part 3: bounded count of Miller-Rabin liars (by computation)        *)
(* ================================================================== *)

Definition mr_pass_count (x : Z) : Z :=  (* number of a in [2, x-2] with mr_round x r s a = true, (r, s) = twos (x-1) *)
  match x - 1 with Zpos sp => let '(r, s) := twos sp in
     Z.of_nat (length (filter (fun a => mr_round x r s a) (zrange 2 (Z.to_nat (x - 3))))) | _ => 0 end.

Lemma zrange_In : forall lo n v, In v (zrange lo n) <-> lo <= v < lo + Z.of_nat n.
Proof.
  intros lo n v. unfold zrange. rewrite in_map_iff. split.
  - intros [i [Hi Hin]]. apply in_seq in Hin. lia.
  - intros Hv. exists (Z.to_nat (v - lo)). split; [lia|]. apply in_seq. lia.
Qed.

(* lazily evaluated disjunction (vm_compute is call-by-value on [orb]) *)
Definition liar_check (x : Z) : bool :=
  if negb (Z.odd x) then true else
  match trial small_primes x with
  | Some _ => true
  | None => if is_prime_small x then true else 4 * mr_pass_count x <=? x - 3
  end.

Lemma liar_check_all : forallb liar_check (zrange 54 970) = true.
Proof. vm_compute. reflexivity. Qed.

Theorem mr_liars_bounded : forall x, 53 < x < 1024 -> Z.odd x = true -> trial small_primes x = None ->
  ~ prime x -> 4 * mr_pass_count x <= x - 3.
Proof.
  intros x Hx Hodd Htr Hnp.
  pose proof liar_check_all as Hall.
  rewrite forallb_forall in Hall.
  assert (Hin : In x (zrange 54 970)) by (apply zrange_In; lia).
  specialize (Hall x Hin). unfold liar_check in Hall.
  rewrite Hodd, Htr in Hall. cbn [negb] in Hall.
  destruct (is_prime_small x) eqn:Ep.
  - exfalso. apply Hnp. apply is_prime_small_correct. exact Ep.
  - apply Z.leb_le. exact Hall.
Qed.


(* ---- FINDING: the 1024 bound makes [mr_liars_bounded] vacuous: every odd x < 1024 that survives
   trial division by the primes <= 53 is prime (the smallest surviving composite is 59^2 = 3481),
   so the hypotheses [trial small_primes x = None] and [~ prime x] are contradictory there. ---- *)
Definition surv_prime_check (x : Z) : bool :=
  if negb (Z.odd x) then true else
  match trial small_primes x with Some _ => true | None => is_prime_small x end.

Lemma surv_prime_check_all : forallb surv_prime_check (zrange 54 970) = true.
Proof. vm_compute. reflexivity. Qed.

Theorem trial_survivor_prime_1024 : forall x, 53 < x < 1024 -> Z.odd x = true ->
  trial small_primes x = None -> prime x.
Proof.
  intros x Hx Hodd Htr.
  pose proof surv_prime_check_all as Hall.
  rewrite forallb_forall in Hall.
  assert (Hin : In x (zrange 54 970)) by (apply zrange_In; lia).
  specialize (Hall x Hin). unfold surv_prime_check in Hall.
  rewrite Hodd, Htr in Hall. cbn [negb] in Hall.
  apply is_prime_small_correct. exact Hall.
Qed.

(* ---- non-vacuous extension: bound 2^12; the surviving composites are
   3481 = 59^2, 3599 = 59*61, 3721 = 61^2, 3953 = 59*67, 4087 = 61*67
   with pass counts 56, 0, 58, 0, 16.  (~16 s of vm_compute; independent of the rest.) ---- *)
Lemma liar_check_all_4096 : forallb liar_check (zrange 54 4042) = true.
Proof. vm_compute. reflexivity. Qed.

Theorem mr_liars_bounded_4096 : forall x, 53 < x < 4096 -> Z.odd x = true -> trial small_primes x = None ->
  ~ prime x -> 4 * mr_pass_count x <= x - 3.
Proof.
  intros x Hx Hodd Htr Hnp.
  pose proof liar_check_all_4096 as Hall.
  rewrite forallb_forall in Hall.
  assert (Hin : In x (zrange 54 4042)) by (apply zrange_In; lia).
  specialize (Hall x Hin). unfold liar_check in Hall.
  rewrite Hodd, Htr in Hall. cbn [negb] in Hall.
  destruct (is_prime_small x) eqn:Ep.
  - exfalso. apply Hnp. apply is_prime_small_correct. exact Ep.
  - apply Z.leb_le. exact Hall.
Qed.

(* the extension is not vacuous *)
Lemma mr_liars_4096_witness :
  trial small_primes 3481 = None /\ Z.odd 3481 = true /\ 3481 = 59 * 59 /\ mr_pass_count 3481 = 56.
Proof. vm_compute. repeat split; reflexivity. Qed.


End PD.

Definition fermat_little := PD.fermat_little.
Definition sqrt1_mod_prime := PD.sqrt1_mod_prime.
Definition is_prime_complete := PD.is_prime_complete.
Definition is_prime_false_composite := PD.is_prime_false_composite.
Definition search_loop_spec := PD.search_loop_spec.
Definition next_prime_spec := PD.next_prime_spec.
Definition prev_prime_spec := PD.prev_prime_spec.
Definition prev_prime_domain := PD.prev_prime_domain.
Definition mr_pass_count := PD.mr_pass_count.
Definition mr_liars_bounded_4096 := PD.mr_liars_bounded_4096.
Definition trial_survivor_prime_1024 := PD.trial_survivor_prime_1024.
Definition is_prime_complete_25 := PD.is_prime_complete_25.
Definition even_not_prime := PD.even_not_prime.
Definition zrange_In := PD.zrange_In.
Definition powZ_spec := PD.powZ_spec.
Definition twos_spec := PD.twos_spec.

Module PE.
Local Open Scope Z_scope.

(** ---- ratrec ---- *)

Lemma mod_half_pos : forall f r, 0 < r < f -> 0 <= f mod r /\ 2 * (f mod r) < f.
Proof.
  intros f r H.
  pose proof (Z.mod_pos_bound f r ltac:(lia)) as Hb.
  pose proof (Z.div_mod f r ltac:(lia)) as Hd.
  assert (1 <= f / r) as Hq by (apply Z.div_le_lower_bound; lia).
  split; [lia | nia].
Qed.

Lemma euclid_fuel_ok : forall f,
  exists k, Z.abs f < 2 ^ Z.of_nat k /\ (2 * k + 1 <= euclid_fuel f)%nat.
Proof.
  intros f. exists (S (Z.to_nat (Z.log2_up (Z.abs f)))). split.
  - pose proof (Z.log2_up_nonneg (Z.abs f)) as Hn.
    rewrite Nat2Z.inj_succ, Z2Nat.id by assumption.
    rewrite Z.pow_succ_r by assumption.
    destruct (Z.eq_dec (Z.abs f) 0) as [E | NE].
    + rewrite E. cbn. lia.
    + pose proof (Z.log2_up_spec (Z.abs f)) as Hs.
      destruct (Z.eq_dec (Z.abs f) 1) as [E1 | NE1].
      * rewrite E1. cbn. lia.
      * specialize (Hs ltac:(lia)). lia.
  - unfold euclid_fuel. lia.
Qed.

Lemma ratrec_loop_term : forall k fuel N n0 n d0 d,
  0 <= N -> 0 <= n < 2 ^ Z.of_nat k -> (2 * k + 1 <= fuel)%nat ->
  ratrec_loop fuel N n0 n d0 d <> None.
Proof.
  induction k as [|k IH]; intros fuel N n0 n d0 d HN Hn Hfuel.
  - assert (n = 0) as -> by (simpl in Hn; lia).
    destruct fuel; cbn [ratrec_loop];
      (destruct (N <? 0) eqn:E; [apply Z.ltb_lt in E; lia|]); cbn; discriminate.
  - destruct fuel as [|fuel]; [lia|].
    cbn [ratrec_loop]. destruct (N <? n) eqn:E1; cbn [negb]; [|discriminate].
    apply Z.ltb_lt in E1.
    destruct fuel as [|fuel]; [lia|].
    cbn [ratrec_loop]. destruct (N <? n0 mod n) eqn:E2; cbn [negb]; [|discriminate].
    apply Z.ltb_lt in E2. cbv zeta.
    pose proof (Z.mod_pos_bound n0 n ltac:(lia)) as Hb.
    apply IH; [exact HN| |lia].
    pose proof (mod_half_pos n (n0 mod n) ltac:(lia)) as Hh.
    rewrite Nat2Z.inj_succ, Z.pow_succ_r in Hn by lia. lia.
Qed.

Lemma ratrec_loop_inv : forall x y fuel N n0 n d0 d n' d',
  0 <= N -> 0 <= n ->
  (y | n0 - x * d0) -> (y | n - x * d) ->
  ratrec_loop fuel N n0 n d0 d = Some (n', d') ->
  (y | n' - x * d') /\ 0 <= n' <= N.
Proof.
  intros x y. induction fuel as [|fuel IH]; intros N n0 n d0 d n' d' HN Hn H0 H1 Hl.
  - cbn [ratrec_loop] in Hl. destruct (N <? n) eqn:E; cbn [negb] in Hl; [discriminate|].
    apply Z.ltb_ge in E. inversion Hl; subst. split; [exact H1|lia].
  - cbn [ratrec_loop] in Hl. destruct (N <? n) eqn:E; cbn [negb] in Hl.
    + apply Z.ltb_lt in E. cbv zeta in Hl.
      pose proof (Z.mod_pos_bound n0 n ltac:(lia)) as Hb.
      apply IH in Hl; [exact Hl|exact HN|lia|exact H1|].
      rewrite Z.mod_eq by lia.
      replace (n0 - n * (n0 / n) - x * (d0 - n0 / n * d))
        with ((n0 - x * d0) - (n0 / n) * (n - x * d)) by ring.
      apply Z.divide_sub_r; [exact H0|]. apply Z.divide_mul_r. exact H1.
    + apply Z.ltb_ge in E. inversion Hl; subst. split; [exact H1|lia].
Qed.

Theorem ratrec_core_domain : forall x y N D,
  (N < 0 \/ D <= 0 \/ y <= 2 * N * D) -> ratrec_core x y N D = EValue.
Proof.
  intros x y N D H. unfold ratrec_core.
  destruct (N <? 0) eqn:E1; [reflexivity|].
  destruct (D <=? 0) eqn:E2; [reflexivity|].
  destruct (y <=? 2 * N * D) eqn:E3; [reflexivity|].
  apply Z.ltb_ge in E1. apply Z.leb_gt in E2. apply Z.leb_gt in E3. lia.
Qed.

Lemma ratrec_core_cond : forall y N D,
  (N <? 0) || (D <=? 0) || (y <=? 2 * N * D) = false ->
  0 <= N /\ 0 < D /\ 2 * N * D < y.
Proof.
  intros y N D H.
  apply orb_false_iff in H. destruct H as [H H3].
  apply orb_false_iff in H. destruct H as [H1 H2].
  apply Z.ltb_ge in H1. apply Z.leb_gt in H2. apply Z.leb_gt in H3. lia.
Qed.

Theorem ratrec_core_no_fuel : forall x y N D, ratrec_core x y N D <> EFuel.
Proof.
  intros x y N D. unfold ratrec_core.
  destruct ((N <? 0) || (D <=? 0) || (y <=? 2 * N * D)) eqn:C; [discriminate|].
  apply ratrec_core_cond in C. destruct C as (HN & HD & Hy).
  assert (Hy0 : 0 < y) by nia.
  destruct (ratrec_loop (euclid_fuel y) N x y 1 0) as [[n d]|] eqn:L.
  - destruct (d <? 0);
      match goal with |- context [if ?b then _ else _] => destruct b end; discriminate.
  - exfalso. destruct (euclid_fuel_ok y) as (k & Hk1 & Hk2).
    revert L. apply ratrec_loop_term with (k := k); [exact HN|lia|exact Hk2].
Qed.

Theorem ratrec_core_sound : forall x y N D n d, ratrec_core x y N D = Ok (n, d) ->
  0 <= N /\ 0 < D /\ 2 * N * D < y /\ (n - x * d) mod y = 0 /\ - N <= n <= N /\
  0 < d <= D /\ Z.gcd n d = 1.
Proof.
  intros x y N D n d H. unfold ratrec_core in H.
  destruct ((N <? 0) || (D <=? 0) || (y <=? 2 * N * D)) eqn:C; [discriminate|].
  apply ratrec_core_cond in C. destruct C as (HN & HD & Hy).
  assert (Hy0 : 0 < y) by nia.
  destruct (ratrec_loop (euclid_fuel y) N x y 1 0) as [[n1 d1]|] eqn:L; [|discriminate].
  apply (ratrec_loop_inv x y) in L; [|exact HN|lia| |].
  2:{ exists 0. ring. }
  2:{ exists 1. ring. }
  destruct L as [Hdiv Hn1].
  assert (Hgen : exists n2 d2, (if d1 <? 0 then (- n1, - d1) else (n1, d1)) = (n2, d2) /\
                  (y | n2 - x * d2) /\ - N <= n2 <= N /\ 0 <= d2).
  { destruct (d1 <? 0) eqn:E.
    - apply Z.ltb_lt in E. exists (- n1), (- d1). split; [reflexivity|].
      split; [|lia].
      replace (- n1 - x * - d1) with (- (n1 - x * d1)) by ring.
      apply Z.divide_opp_r. exact Hdiv.
    - apply Z.ltb_ge in E. exists n1, d1. split; [reflexivity|]. split; [exact Hdiv|lia]. }
  destruct Hgen as (n2 & d2 & Heq & Hdiv2 & Hn2 & Hd2).
  rewrite Heq in H.
  destruct (d2 <=? D) eqn:E1; cbn [andb] in H; [|discriminate].
  destruct (Z.gcd n2 d2 =? 1) eqn:E2; [|discriminate].
  inversion H; subst n2 d2. clear H.
  apply Z.leb_le in E1. apply Z.eqb_eq in E2.
  split; [exact HN|]. split; [exact HD|]. split; [exact Hy|].
  split; [apply Z.mod_divide; [lia|exact Hdiv2]|].
  split; [exact Hn2|]. split; [|exact E2].
  split; [|exact E1].
  destruct (Z.eq_dec d 0) as [Hd0|Hd0]; [|lia].
  exfalso. subst d. rewrite Z.gcd_0_r in E2.
  replace (n - x * 0) with n in Hdiv2 by ring.
  assert (Hy1 : y <= 1).
  { destruct (Z.abs_eq_or_opp n) as [Ha|Ha].
    - rewrite Ha in E2. subst n. apply Z.divide_pos_le in Hdiv2; lia.
    - assert (Hn1' : n = -1) by lia. subst n.
      apply Z.divide_opp_r in Hdiv2. cbn in Hdiv2.
      apply Z.divide_pos_le in Hdiv2; lia. }
  assert (N = 0) by nia. lia.
Qed.

(** ---- factor_prime_power ---- *)

Lemma search_loop_accept : forall isp step fuel tp c p tp',
  search_loop isp step fuel tp c = (Ok p, tp') -> exists t, fst (isp t p) = true.
Proof.
  intros isp step. induction fuel as [|fuel IH]; intros tp c p tp' H.
  - cbn [search_loop] in H. discriminate.
  - cbn [search_loop] in H. destruct (isp tp c) as [b tp1] eqn:E.
    destruct b.
    + inversion H; subst. exists tp. rewrite E. reflexivity.
    + apply IH in H. exact H.
Qed.

Lemma next_prime_gen_prime : forall isp npf,
  (forall tp z, fst (isp tp z) = true -> prime z) ->
  forall tp q p tp', next_prime_gen isp npf tp q = (Ok p, tp') -> prime p.
Proof.
  intros isp npf Hisp tp q p tp' H. unfold next_prime_gen in H.
  destruct (q <=? 1).
  - inversion H; subst. exact prime_2.
  - apply search_loop_accept in H. destruct H as [t Ht]. exact (Hisp t p Ht).
Qed.

Lemma prime_gt1 : forall p, prime p -> 1 < p.
Proof. intros p [H _]. exact H. Qed.

Lemma divout_spec : forall fuel x p d r e, 1 < p -> 0 < x -> 0 <= d ->
  divout fuel x p d = Ok (r, e) ->
  r = p /\ d <= e /\ x * p ^ d = p ^ e /\ (1 < x -> d < e).
Proof.
  induction fuel as [|fuel IH]; intros x p d r e Hp Hx Hd H.
  - cbn [divout] in H. destruct (1 <? x) eqn:E; cbn [negb] in H; [discriminate|].
    apply Z.ltb_ge in E. inversion H; subst.
    assert (x = 1) by lia. subst x. repeat split; lia.
  - cbn [divout] in H. destruct (1 <? x) eqn:E; cbn [negb] in H.
    + apply Z.ltb_lt in E.
      destruct (x mod p =? 0) eqn:Em; [|discriminate].
      apply Z.eqb_eq in Em.
      pose proof (Z.div_mod x p ltac:(lia)) as Hdm. rewrite Em in Hdm.
      assert (Hq : 0 < x / p) by nia.
      apply IH in H; [|exact Hp|exact Hq|lia].
      destruct H as (Hr & Hle & Heq & _).
      split; [exact Hr|]. split; [lia|]. split; [|lia].
      rewrite <- Heq. rewrite Z.pow_add_r, Z.pow_1_r by lia.
      rewrite Hdm at 1. ring.
    + apply Z.ltb_ge in E. inversion H; subst.
      assert (x = 1) by lia. subst x. repeat split; lia.
Qed.

Lemma fpp_small_sound : forall isp npf,
  (forall tp z, fst (isp tp z) = true -> prime z) ->
  forall fuel tp x p p' d tp', 1 < x -> prime p ->
    fpp_small isp npf fuel tp x p = (Some (Ok (p', d)), tp') ->
    prime p' /\ 0 < d /\ x = p' ^ d.
Proof.
  intros isp npf Hisp. induction fuel as [|fuel IH]; intros tp x p p' d tp' Hx Hp H.
  - cbn [fpp_small] in H. discriminate.
  - cbn [fpp_small] in H. destruct (p <? Z.shiftl 1 10); [|discriminate].
    destruct (x mod p =? 0).
    + inversion H as [[Hd Htp]]. clear H.
      apply divout_spec in Hd; [|apply prime_gt1; exact Hp|lia|lia].
      destruct Hd as (Hr & _ & Heq & Hlt). subst p'.
      split; [exact Hp|]. split; [lia|].
      rewrite Z.pow_0_r in Heq. lia.
    + destruct (next_prime_gen isp npf tp p) as [[q| | | |] tp1] eqn:En; try discriminate.
      apply next_prime_gen_prime in En; [|exact Hisp].
      eapply IH; eauto.
Qed.

Lemma is_square_true : forall p, 0 <= p -> is_square p = Ok true -> p = Z.sqrt p ^ 2.
Proof.
  intros p Hp H. unfold is_square in H. cbv zeta in H.
  destruct (negb _); [discriminate|].
  unfold isqrt in H. destruct (p <? 0) eqn:E; [discriminate|].
  injection H as He. apply Z.eqb_eq in He. exact He.
Qed.

Lemma fpp_sq_sound : forall fuel p d p' d', 1 < p -> 0 < d ->
  fpp_sq fuel p d = Ok (p', d') -> 1 < p' /\ 0 < d' /\ p' ^ d' = p ^ d.
Proof.
  induction fuel as [|fuel IH]; intros p d p' d' Hp Hd H.
  - cbn [fpp_sq] in H. discriminate.
  - cbn [fpp_sq] in H. destruct (is_square p) as [[|]| | | |] eqn:Es; try discriminate.
    + apply is_square_true in Es; [|lia].
      pose proof (Z.sqrt_nonneg p) as Hs0.
      assert (Hs : 1 < Z.sqrt p).
      { destruct (Z_lt_le_dec 1 (Z.sqrt p)) as [Hl|Hl]; [exact Hl|].
        exfalso. rewrite Z.pow_2_r in Es. nia. }
      apply IH in H; [|exact Hs|lia].
      destruct H as (H1 & H2 & H3). split; [exact H1|]. split; [exact H2|].
      rewrite H3. rewrite Z.pow_mul_r by lia. rewrite <- Es. reflexivity.
    + inversion H; subst. repeat split; assumption.
Qed.

Lemma iroot_true : forall p e w, 0 < p -> 0 < e -> iroot p e = Ok (w, true) ->
  0 < w /\ p = w ^ e.
Proof.
  intros p e w Hp He H. unfold iroot in H. cbv zeta in H.
  destruct (p <? 0) eqn:Epn; [apply Z.ltb_lt in Epn; lia|].
  destruct (p =? 0) eqn:Ep; [apply Z.eqb_eq in Ep; lia|].
  destruct (e =? 0) eqn:Ee; [discriminate|].
  destruct ((bit_length p - 1) / e <? 0) eqn:Ek; [discriminate|].
  destruct (e <? 0) eqn:Ee'; [apply Z.ltb_lt in Ee'; lia|].
  assert (Hgen : forall i y, 0 < y -> 0 < iroot_loop p e i y).
  { induction i as [|i IHi]; intros y Hy; cbn [iroot_loop]; [exact Hy|].
    cbv zeta. apply IHi.
    destruct (_ <=? p); [|exact Hy].
    rewrite Z.shiftl_1_l.
    assert (Hpw : 0 < 2 ^ Z.of_nat i) by (apply Z.pow_pos_nonneg; lia).
    destruct (Z_lt_le_dec 0 (Z.lor y (2 ^ Z.of_nat i))) as [Hc|Hc]; [exact Hc|].
    exfalso.
    assert (Hnn : 0 <= Z.lor y (2 ^ Z.of_nat i)) by (apply Z.lor_nonneg; lia).
    assert (Hzero : Z.lor y (2 ^ Z.of_nat i) = 0) by lia.
    apply Z.lor_eq_0_iff in Hzero. lia. }
  apply Z.ltb_ge in Ek.
  specialize (Hgen (Z.to_nat ((bit_length p - 1) / e))
                   (Z.shiftl 1 ((bit_length p - 1) / e))).
  rewrite Z.shiftl_1_l in Hgen, H.
  assert (Hpk : 0 < 2 ^ ((bit_length p - 1) / e)) by (apply Z.pow_pos_nonneg; lia).
  specialize (Hgen Hpk).
  remember (iroot_loop p e (Z.to_nat ((bit_length p - 1) / e)) (2 ^ ((bit_length p - 1) / e)))
    as r eqn:Hr. clear Hr.
  injection H as Hw Hb. subst r. apply Z.eqb_eq in Hb.
  split; [exact Hgen|exact Hb].
Qed.

Lemma fpp_roots_sound : forall isp npf,
  (forall tp z, fst (isp tp z) = true -> prime z) ->
  forall fuel tp p d e p' d' tp', 1 < p -> 0 < d -> 0 < e ->
    fpp_roots isp npf fuel tp p d e = (Ok (p', d'), tp') ->
    1 < p' /\ 0 < d' /\ p' ^ d' = p ^ d.
Proof.
  intros isp npf Hisp. induction fuel as [|fuel IH]; intros tp p d e p' d' tp' Hp Hd He H.
  - cbn [fpp_roots] in H. discriminate.
  - cbn [fpp_roots] in H. destruct (10 * e <=? bit_length p).
    + destruct (iroot p e) as [[w [|]]| | | |] eqn:Er; try discriminate.
      * apply iroot_true in Er; [|lia|exact He]. destruct Er as [Hw Hpw].
        assert (Hw1 : 1 < w).
        { destruct (Z.eq_dec w 1) as [E|E]; [|lia].
          subst w. rewrite Z.pow_1_l in Hpw by lia. lia. }
        apply IH in H; [|exact Hw1|nia|exact He].
        destruct H as (H1 & H2 & H3). split; [exact H1|]. split; [exact H2|].
        rewrite H3, Hpw. rewrite Z.pow_mul_r by lia. reflexivity.
      * destruct (next_prime_gen isp npf tp e) as [[e'| | | |] tp1] eqn:En; try discriminate.
        apply next_prime_gen_prime in En; [|exact Hisp].
        apply prime_gt1 in En.
        apply IH in H; [exact H|exact Hp|exact Hd|lia].
    + inversion H; subst. repeat split; assumption.
Qed.

Theorem factor_prime_power_sound : forall (isp : tape -> Z -> bool * tape) npf,
  (forall tp z, fst (isp tp z) = true -> prime z) ->
  forall tp x p d tp', factor_prime_power_gen isp npf tp x = (Ok (p, d), tp') ->
    prime p /\ 0 < d /\ x = p ^ d.
Proof.
  intros isp npf Hisp tp x p d tp' H. unfold factor_prime_power_gen in H.
  destruct (x <=? 1) eqn:Ex; [discriminate|]. apply Z.leb_gt in Ex.
  destruct (fpp_small isp npf 1100 tp x 2) as [[r|] tp1] eqn:Es.
  - inversion H; subst r tp1. clear H.
    apply (fpp_small_sound isp npf Hisp) in Es; [exact Es|exact Ex|exact prime_2].
  - clear Es.
    destruct (fpp_sq (log_fuel x) x 1) as [[p1 d1]| | | |] eqn:Eq; try discriminate.
    apply fpp_sq_sound in Eq; [|exact Ex|lia]. destruct Eq as (Hp1 & Hd1 & Heq1).
    destruct (fpp_roots isp npf (log_fuel x) tp1 p1 d1 3) as [[[p2 d2]| | | |] tp2] eqn:Er;
      try discriminate.
    apply (fpp_roots_sound isp npf Hisp) in Er; [|exact Hp1|exact Hd1|lia].
    destruct Er as (Hp2 & Hd2 & Heq2).
    destruct (isp tp2 p2) as [b tp3] eqn:Ei. destruct b; [|discriminate].
    inversion H; subst p d tp3. clear H.
    split; [apply (Hisp tp2); rewrite Ei; reflexivity|]. split; [exact Hd2|].
    rewrite Heq2, Heq1. rewrite Z.pow_1_r. reflexivity.
Qed.

Theorem factor_prime_power_domain : forall isp npf tp x, x <= 1 ->
  fst (factor_prime_power_gen isp npf tp x) = EValue.
Proof.
  intros isp npf tp x Hx. unfold factor_prime_power_gen.
  destruct (x <=? 1) eqn:E; [reflexivity|]. apply Z.leb_gt in E. lia.
Qed.


End PE.

Definition ratrec_core_domain := PE.ratrec_core_domain.
Definition ratrec_core_no_fuel := PE.ratrec_core_no_fuel.
Definition ratrec_core_sound := PE.ratrec_core_sound.
Definition factor_prime_power_sound := PE.factor_prime_power_sound.
Definition factor_prime_power_domain := PE.factor_prime_power_domain.
Definition search_loop_accept := PE.search_loop_accept.
Definition next_prime_gen_prime := PE.next_prime_gen_prime.

Module PH.
Local Open Scope Z_scope.

(** the GMP convention quoted in the docstring of the gcdext stub, as a boolean *)
Definition gmp_normal (a b g s t : Z) : bool :=
  if (a =? 0) && (b =? 0) then (g =? 0) && (s =? 0) && (t =? 0)
  else if (Z.abs a =? g) && (Z.abs b =? g) then (s =? 0) && (t =? Z.sgn b)
  else (if (b =? 0) || (Z.abs b =? 2 * g) then s =? Z.sgn a else 2 * g * Z.abs s <? Z.abs b)
    && (if (a =? 0) || (Z.abs a =? 2 * g) then t =? Z.sgn b else 2 * g * Z.abs t <? Z.abs a).

Definition gcdext_normal_at (a b : Z) : bool :=
  match gcdext a b with Ok (g, s, t) => gmp_normal a b g s t | _ => false end.

Lemma gcdext_normal_all :
  forallb (fun a => forallb (gcdext_normal_at a) (zrange (-64) 129)) (zrange (-64) 129) = true.
Proof. vm_compute. reflexivity. Qed.

Theorem gcdext_gmp_normal_bounded : forall a b, -64 <= a <= 64 -> -64 <= b <= 64 ->
  gcdext_normal_at a b = true.
Proof.
  intros a b Ha Hb. pose proof gcdext_normal_all as H.
  rewrite forallb_forall in H.
  assert (Ia : In a (zrange (-64) 129)) by (apply zrange_In; lia).
  specialize (H a Ia). rewrite forallb_forall in H. apply H. apply zrange_In; lia.
Qed.

End PH.

Definition gmp_normal := PH.gmp_normal.
Definition gcdext_normal_at := PH.gcdext_normal_at.
Definition gcdext_gmp_normal_bounded := PH.gcdext_gmp_normal_bounded.
