"""C14 — sharings dealt during protocols have full threshold degree.

Proof: coq/props/C14.v (no_cleartext, mask+secret, bijection of messages to t parties) and the
REGENERATED obligation coq/gen/DealSites.v: every call of thresha.random_split / np_random_split in
the protocol modules passes an expression that denotes the runtime threshold (ast translator
harness/gen_deal_sites.py, fail-closed), and the set of functions that call _send_message is the
expected one.  Tie: simulator runs with t >= 1 where every dealing is intercepted from outside:
degree argument == threshold, m == #parties, exactly t*len(s) coefficients drawn; dealing messages
on the wire change with the dealer tape and differ from the dealt plaintext.
"""
import os, random
from lib.core import COQ, COQFLAGS, sh, REPO, BuildLock

MANIFEST = {
    'text': 'Theorems in Coq (abstract field): with t >= 1 coefficients the message to any party can be any field value for '
            'every dealt secret (no cleartext), a message is a secret-independent mask plus the secret, and the messages to any t '
            'parties are in bijection with the t coefficients (uniform, independent of the secret). Regenerated from the source '
            'on every run: the table of all dealing sites with the obligation that each passes the runtime threshold as degree, '
            'and the list of functions sending messages. Simulator runs intercept every dealing (degree, #coefficients drawn) and '
            'check the wire. The coefficient vectors of random_split and (under NumPy) np_random_split are enumerated exhaustively '
            'over every answer sequence of the randomness oracle for GF(3), GF(5), GF(2^2), GF(2^3), GF(3^2), t = 1, 2, one and two '
            'secrets per call: every coefficient vector over the WHOLE field must occur with the same exact probability.',
    'note': 'Trusted: Coq kernel; the ast translator gen_deal_sites.py (fail-closed: unrecognised degree expression => obligation '
            'fails); random_split model tied by C12/C11; uniformity/freshness of secrets.randbelow is an oracle assumption; '
            '"degree exactly t" holds when the first drawn coefficient is nonzero (probability 1 - 1/|F|), stated as the polynomial '
            'identity share = eval (s :: rev c).',
    'technique': 'Coq theorems + source-regenerated dealing-site table with vm_compute obligation + intercepted dealings in the multi-party simulator',
}

EXPECTED_SENDERS = {'transfer', '_distribute', 'output', '_reshare', '_send_message'}


def send_sites(repo):
    import ast
    out = []
    for mod in ['runtime', 'sectypes', 'secgroups', 'seclists', 'random', 'statistics', 'mpctools', 'secpols']:
        path = os.path.join(repo, 'mpyc', mod + '.py')
        tree = ast.parse(open(path).read())
        for fn in ast.walk(tree):
            if isinstance(fn, (ast.FunctionDef, ast.AsyncFunctionDef)):
                for node in ast.walk(fn):
                    if isinstance(node, ast.Call) and isinstance(node.func, ast.Attribute) and node.func.attr in ('_send_message', 'send'):
                        if node.func.attr == 'send' and not (isinstance(node.func.value, ast.Attribute) and node.func.value.attr == 'protocol'):
                            continue
                        out.append((mod, fn.name, node.lineno))
    return sorted(set(out))


def to_int(a):
    """Unsigned integer code of a dealt value: field element, plain int, or raw gfpx polynomial."""
    if isinstance(a, int):
        return a
    if hasattr(a, 'field') or type(a).__name__.endswith('FieldElement') or hasattr(type(a), 'modulus'):
        v = a.value
        return v if isinstance(v, int) else int(v)
    return int(a)


def run(ctx):
    import gen_deal_sites
    from lib.sim import Sim, Fifo
    ok = ctx.build() and ctx.check_props()
    rng = ctx.rng
    ctx.rule = ('case = (m, t>=1, prss, program, seed) run twice with different tapes; every dealing intercepted; '
                'non-trivial: all (t >= 1)')
    ctx.explanation = 'theorems + regenerated dealing-site obligation + intercepted dealings and wire comparison in the simulator'
    # ---- regenerated table
    sites = gen_deal_sites.analyse(REPO)
    gen = os.path.join(COQ, 'gen', 'DealSites.v')
    os.makedirs(os.path.dirname(gen), exist_ok=True)
    gen_deal_sites.emit(sites, gen)
    ctx.obligations += 2
    with BuildLock():
        rc, out = sh(['coqc', *COQFLAGS, 'gen/DealSites.v'], cwd=COQ, timeout=300)
    ctx.extra['deal_sites'] = [list(s) for s in sites]
    if rc == 0:
        ctx.discharged += 2
        ctx.theorems.append(('all_deal_sites_use_threshold', 'regenerated table: %d sites' % len(sites)))
    else:
        bad = [s for s in sites if not s[4]]
        ctx.log('DealSites obligation FAILED: %s' % bad)
        ctx.broken.append({'kind': 'generated-obligation', 'what': 'all_deal_sites_use_threshold', 'sites': [list(s) for s in bad] or out[-500:]})
    senders = send_sites(REPO)
    ctx.extra['send_sites'] = [list(s) for s in senders]
    unexpected = [s for s in senders if s[1] not in EXPECTED_SENDERS]
    if unexpected:
        ctx.broken.append({'kind': 'generated-obligation', 'what': 'message-sending functions', 'unexpected': [list(s) for s in unexpected]})
    # ---- simulator
    configs = [(3, 1), (4, 1), (5, 2)] + ([(5, 1), (7, 3), (6, 2)] if ctx.tier == 'thorough' else [])
    ndeal = 0
    for (m, t) in configs:
        for no_prss in (False, True):
            for rep in range(ctx.n(1, 3)):
                inputs = [rng.choice([0, 1, -3, 7, 100]) for _ in range(m)]
                runs = []
                for seed in (rng.randrange(10**6), rng.randrange(10**6)):
                    sim = Sim(m, t, no_prss=no_prss, seed=seed)
                    deals = []
                    try:
                        for i in range(m):
                            th = sim.mods[i]['mpyc.thresha']
                            for fname in ('random_split', 'np_random_split'):
                                orig = getattr(th, fname)

                                def wrapped(field, s, tt, mm, _o=orig, _i=i, _f=fname):
                                    sec = sim.secrets[_i]
                                    n0 = len(sec.log)
                                    pc = sim.mpcs[_i]._program_counter[0]
                                    vals = [to_int(a) for a in s]
                                    r = _o(field, s, tt, mm)
                                    deals.append({'party': _i, 'pc': pc, 'vals': vals, 't': tt, 'm': mm,
                                                  'drawn': len(sec.log) - n0, 'n': len(s), 'field': field,
                                                  'threshold': sim.mpcs[_i].threshold, 'nparties': len(sim.mpcs[_i].parties)})
                                    return r
                                setattr(th, fname, wrapped)
                        sim.start()

                        async def prog(mpc, mods, pid):
                            secint = mpc.SecInt(32)
                            secfxp = mpc.SecFxp(32, 16)
                            a = mpc.input(secint(inputs[pid]))
                            b = a[0] * a[1] + a[2] * a[2]
                            r = mpc._random(secint)
                            rb = mpc.random_bits(secint, 3)
                            c = mpc.convert(a[1], secfxp)
                            lt = a[0] < a[1]
                            x = mpc.input(secfxp(inputs[pid] / 4 + 0.3), senders=[0, m - 1])   # never a whole number (see F-C03)
                            y = x[0] * x[1]
                            f3 = mpc.SecFld(3)        # lifted to an extension field when m >= 3 (dealing points must be nonzero)
                            z = mpc.input(f3(inputs[pid] % 3))
                            zz = z[0] * z[1] + z[m - 1]
                            await mpc.output(zz)
                            outs = await mpc.output([b, lt] + rb)
                            o2 = await mpc.output([c, y])
                            await mpc.output(r)
                            return [int(v) for v in outs] + [float(v) for v in o2]
                        res = sim.run(prog, Fifo(), idle_limit=400)
                        frames = {}
                        for s_ in range(m):
                            for d_ in range(m):
                                if s_ != d_:
                                    fr, _rest = sim.frames(s_, d_)
                                    for pc, payload in fr:
                                        frames.setdefault((s_, d_, pc), []).append(payload)
                        runs.append((seed, res, deals, frames))
                    finally:
                        sim.close()
                key = {'m': m, 't': t, 'no_prss': no_prss, 'inputs': inputs, 'seeds': [r[0] for r in runs]}
                ctx.case(key, kind='m=%d t=%d prss=%s' % (m, t, not no_prss))
                for seed, res, deals, frames in runs:
                    if any(not isinstance(r, list) for r in res) or len({str(r) for r in res}) != 1:
                        ctx.violation('program-failed-or-parties-disagree m=%d t=%d' % (m, t), {**key, 'result': str(res)[:400]})
                    for d in deals:
                        ndeal += 1
                        if d['m'] >= d['field'].order:
                            ctx.violation('dealing-field-not-larger-than-parties m=%d t=%d' % (m, t),
                                          {**key, 'party': d['party'], 'pc': d['pc'], 'field_order': d['field'].order, 'parties': d['m']})
                        if d['t'] != d['threshold'] or d['m'] != d['nparties'] or d['drawn'] != d['t'] * d['n']:
                            ctx.violation('dealing-degree-not-threshold m=%d t=%d' % (m, t),
                                          {**key, 'party': d['party'], 'pc': d['pc'], 'degree_arg': d['t'], 'threshold': d['threshold'],
                                           'coefficients_drawn': d['drawn'], 'secrets': d['n']})
                        # plaintext on the wire?
                        plain = bytes(d['field'].to_bytes(d['vals']))
                        for q in range(m):
                            if q != d['party']:
                                for payload in frames.get((d['party'], q, d['pc']), []):
                                    if bytes(payload) == plain and d['field'].order > 2**30:
                                        ctx.violation('dealt-value-sent-in-clear m=%d t=%d' % (m, t),
                                                      {**key, 'dealer': d['party'], 'to': q, 'pc': d['pc'], 'values': d['vals']})
                # same inputs, different tapes: every dealing message must change
                (s1, r1, d1, f1), (s2, r2, d2, f2) = runs
                pcs1 = {(d['party'], d['pc']) for d in d1}
                for (src, dst, pc), payloads in f1.items():
                    if (src, pc) in pcs1 and (src, dst, pc) in f2:
                        if payloads == f2[(src, dst, pc)] and len(payloads[0]) >= 6:
                            ctx.violation('dealing-message-independent-of-tape m=%d t=%d' % (m, t),
                                          {**key, 'src': src, 'dst': dst, 'pc': pc, 'payload': payloads[0].hex()})
    # ---- threshold changed programmatically after start-up (degree must follow the threshold in force)
    for (m, t0, t1) in [(3, 0, 1), (5, 1, 2), (5, 2, 1)]:
        sim = Sim(m, t0, no_prss=True, seed=rng.randrange(10**6))
        deals = []
        try:
            for i in range(m):
                th = sim.mods[i]['mpyc.thresha']
                orig = th.random_split

                def wrapped2(field, s, tt, mm, _o=orig, _i=i):
                    deals.append({'party': _i, 't': tt, 'threshold': sim.mpcs[_i].threshold, 'n': len(s)})
                    return _o(field, s, tt, mm)
                th.random_split = wrapped2
            sim.start()

            async def prog2(mpc, mods, pid):
                mpc.threshold = t1
                secint = mpc.SecInt(16)
                a = mpc.input(secint(pid + 2))
                b = a[0] * a[1]
                return int(await mpc.output(b))
            res = sim.run(prog2, Fifo(), idle_limit=400)
            key = {'m': m, 'threshold_at_start': t0, 'threshold_set_by_program': t1}
            ctx.case(key, kind='threshold changed at run time')
            if res != [6] * m:
                ctx.violation('threshold-change-run-wrong m=%d' % m, {**key, 'result': str(res)})
            for d in deals:
                ndeal += 1
                if d['t'] != d['threshold']:
                    ctx.violation('dealing-degree-not-threshold-in-force m=%d t=%d' % (m, t1), {**key, **d})
        finally:
            sim.close()
    # ---- coefficients of the dealt polynomials are uniform over the WHOLE field and independent per secret:
    # exhaustive enumeration of every answer sequence of the randomness oracle through the real dealing functions
    # (list and, under NumPy, array variant) for small prime and extension fields; the coefficient vectors are
    # recovered from the dealt shares by interpolation in the field.
    from fractions import Fraction
    from mpyc import thresha, finfields
    import secrets as _secrets
    import itertools as _it

    class _NeedMore(Exception):
        pass

    class _Oracle:
        def __init__(self, prefix):
            self.prefix, self.pos, self.prob, self.args = prefix, 0, Fraction(1), []

        def _next(self, n):
            if self.pos >= len(self.prefix):
                e = _NeedMore()
                e.n = n
                raise e
            v = self.prefix[self.pos]
            self.pos += 1
            self.prob /= n
            self.args.append(n)
            return v

        def randbelow(self, n):
            return self._next(n)

        def randbits(self, k):
            return self._next(1 << k)

        def choice(self, seq):
            return seq[self._next(len(seq))]

    def _all_runs(fn):
        stack = [()]
        while stack:
            prefix = stack.pop()
            orc = _Oracle(prefix)
            thresha.secrets = orc
            try:
                r = fn()
            except _NeedMore as e:
                if e.n > 4096:
                    raise RuntimeError('oracle outcome space too large')
                stack.extend(prefix + (v,) for v in range(e.n))
                continue
            yield r, orc

    def _coeffs(F, ys, t):
        """coefficients c_1..c_t of the degree <= t polynomial through (i+1, ys[i]), i = 0..t (Newton interpolation in F)"""
        xs = [F(i + 1) if not isinstance(F.modulus, int) else F(i + 1) for i in range(t + 1)]
        coef = [ys[0]]
        basis = [F(1)]                      # polynomial prod (X - x_j), coefficient list
        poly = [ys[0]]
        for k in range(1, t + 1):
            basis = [F(0)] + basis          # multiply by X
            for j in range(len(basis) - 1):
                basis[j] = basis[j] - xs[k - 1] * basis[j + 1]
            val = F(0)
            for c in reversed(poly):
                val = val * xs[k] + c
            bval = F(0)
            for c in reversed(basis):
                bval = bval * xs[k] + c
            a = (ys[k] - val) / bval
            poly = [(poly[j] if j < len(poly) else F(0)) + a * basis[j] for j in range(len(basis))]
        return tuple(str(c) for c in poly[1:t + 1])

    try:
        import numpy as _np
    except ImportError:
        _np = None
    variants = [('random_split', lambda F, ss, t, m: thresha.random_split(F, [F(x) for x in ss], t, m))]
    if _np is not None and hasattr(thresha, 'np_random_split'):
        variants.append(('np_random_split',
                         lambda F, ss, t, m: [list(r) for r in thresha.np_random_split(F, F.array([F(x).value for x in ss], check=False), t, m)]))
    else:
        ctx.notes.append('NumPy not importable: np_random_split coefficients not enumerated in this run')
    fields = [('GF(3)', finfields.GF(3), 3), ('GF(5)', finfields.GF(5), 5),
              ('GF(2^2)', finfields.GF(finfields.find_irreducible(2, 2)), 4),
              ('GF(2^3)', finfields.GF(finfields.find_irreducible(2, 3)), 8),
              ('GF(3^2)', finfields.GF(finfields.find_irreducible(3, 2)), 9)]
    nco = 0
    try:
        for vname, split in variants:
            for fname, F, q in fields:
                for t in (1, 2):
                    m = t + 1 if q > t + 1 else None
                    if m is None or m >= q:
                        continue
                    for batch in (1, 2):
                        if q ** (t * batch) > ctx.n(5000, 70000):
                            continue
                        ss = tuple((h + 1) % q for h in range(batch))
                        hist, total, argsets = {}, Fraction(0), set()
                        for shr, orc in _all_runs(lambda: split(F, ss, t, m)):
                            vec = tuple(_coeffs(F, [F(shr[i][h]) if not isinstance(shr[i][h], F) else shr[i][h] for i in range(t + 1)], t)
                                        for h in range(batch))
                            hist[vec] = hist.get(vec, 0) + orc.prob
                            total += orc.prob
                            argsets.add(tuple(orc.args))
                        nco += 1
                        key = {'variant': vname, 'field': fname, 't': t, 'm': m, 'batch': batch}
                        ctx.case(key, kind='coefficient distribution ' + vname)
                        want = Fraction(1, q ** (t * batch))
                        if total != 1 or len(hist) != q ** (t * batch) or set(hist.values()) != {want}:
                            worst = sorted(hist.items(), key=lambda kv: kv[1])
                            ctx.violation('coefficients-not-uniform %s %s t=%d batch=%d' % (vname, fname, t, batch),
                                          {**key, 'distinct_coefficient_vectors': len(hist), 'expected': q ** (t * batch),
                                           'least_likely': [str(worst[0][0]), str(worst[0][1])],
                                           'most_likely': [str(worst[-1][0]), str(worst[-1][1])],
                                           'oracle_arguments_seen': sorted(argsets)[:3]})
    finally:
        thresha.secrets = _secrets
    ctx.extra['coefficient_distributions_enumerated'] = nco
    ctx.log('coefficient distributions enumerated exhaustively: %d (variants: %s)' % (nco, [v[0] for v in variants]))
    ctx.extra['dealings_intercepted'] = ndeal
    ctx.log('%d dealings intercepted; %d dealing sites, %d send sites in source' % (ndeal, len(sites), len(senders)))
    if ndeal == 0:
        ctx.broken.append({'kind': 'harness', 'what': 'no dealing intercepted'})
    if ctx.broken and not ctx.violations:
        ctx.unproved('C14 dealing-site obligation / interception', {'broken': ctx.broken[:5]})
