"""C29 — secure sorting and selection are correct for every input order.

Proof: coq/props/C29.v (theories SortNet.v, Tournament.v).  Tie: (a) the comparator sequence of the
REAL runtime._sort is extracted for every n <= 64 by running it on a list that records its index
accesses, and compared with the Coq `merge_exchange_opt n`; (b) all 2^n 0/1 inputs go through the real
_sort / the extracted comparator list; (c) secure end-to-end runs (m=1) of sorted / seclist.sort /
min / max / min_max / argmin / argmax are compared with Python oracles and with the Coq models.
"""
import os, sys, json, subprocess, itertools
from lib.core import zlist, natlit, zlit, blit, impl_env, PYNP

MANIFEST = {
    'text': 'Coq: every comparator list permutes its input (all n); 0-1 principle (fully proved, monotone threshold maps); '
            'a bit-parallel truth-table certificate with a proved soundness lemma (N.land/N.lor projections) shows that the '
            'merge-exchange comparator list of _sort sorts every input of length n <= 16 (n <= 20 in the thorough tier), also '
            'with key= (only < on keys) and reverse=; comparators are in range for all n; tournament min/max return an '
            'element with extreme key, = fold Z.min / Z.max, min_max (keyed pre-pass + halves, middle element) returns elements '
            'with minimal resp. maximal key for every key (min_max_key_spec), argmin/argmax return the FIRST extreme index with its value -- all for every length by strong '
            'induction on the halving. The comparator list of the real _sort is extracted for every n <= 64 on every run '
            'and compared with the Coq list; secure runs are compared with the models and with Python oracles.',
    'note': 'PARTIAL: sortedness of merge exchange is proved only for n <= 16 (20 thorough), the bound is in the theorem; '
            'for 17..64 the network is identical to the model and is tested (all 0/1 inputs up to n = 16/22 on the extracted '
            'list, random inputs above). Trusted: Coq kernel + vm_compute; the value-level model of if_swap/if_else/< '
            '(secure arithmetic itself is covered by other properties); np_sort is tied only when the NumPy venv is present '
            '(index sets of each round compared with the same comparator list). Former finding F-C29-1 (min_max ignored key= in '
            'its pre-pass) is repaired in /repo by commit fb1729f; model and theorem follow the repaired code and keyed '
            'min_max (numbers and list elements) is an ordinary case against oracle and model. min() returns the last minimal element on key ties, max() the '
            'first (allowed by the property; modelled exactly).',
    'technique': 'Coq proof (0-1 principle + verified truth-table certificate, strong induction for tournaments) + comparator-sequence extraction from the real code',
}


class Rec(list):
    """list that records index reads/writes (no change to /repo; _sort only indexes its argument)"""

    def __init__(self, *a):
        super().__init__(*a)
        self.log = []

    def __getitem__(self, i):
        self.log.append(('g', i))
        return super().__getitem__(i)

    def __setitem__(self, i, v):
        self.log.append(('s', i))
        super().__setitem__(i, v)


def extract_net(mpc, n):
    """comparator sequence (i, j) of the real _sort for length n >= 2; None if the access pattern is unexpected"""
    x = Rec(range(n))
    mpc._sort(x, lambda a: a)
    log = x.log
    if len(log) % 4:
        return None
    net = []
    for k in range(0, len(log), 4):
        (g1, i), (g2, j), (s1, i2), (s2, j2) = log[k:k + 4]
        if (g1, g2, s1, s2) != ('g', 'g', 's', 's') or i != i2 or j != j2:
            return None
        net.append((i, j))
    return net


def run_net_bits(net, n):
    """all 2^n 0/1 inputs at once (Python ints as bit vectors); returns True iff every output is sorted"""
    N = 1 << n
    full = (1 << N) - 1
    ws = []
    for i in range(n):
        # bit k of ws[i] = bit i of k
        blk = ((1 << (1 << i)) - 1) << (1 << i)       # 2^i zeros then 2^i ones
        per = 1 << (i + 1)
        w = 0
        reps = N // per
        # build by doubling
        w = blk
        size = per
        while size < N:
            w |= w << size
            size <<= 1
        ws.append(w & full)
    for (i, j) in net:
        a, b = ws[i], ws[j]
        ws[i], ws[j] = a & b, a | b
    return all(ws[i] & ~ws[i + 1] & full == 0 for i in range(n - 1))


def coq_pairs(ps):
    return '[' + '; '.join('(%s, %s)' % (zlit(a), zlit(b)) for a, b in ps) + ']'


NP_SCRIPT = r'''
import sys, json
sys.argv = ['x', '--no-log']
from mpyc.runtime import mpc
import numpy as np
req = json.loads(sys.stdin.read())
mpc.run(mpc.start())
secint = mpc.SecInt(32)
out = {'nets': {}, 'sorts': []}
orig = mpc.np_update
rounds = []
def rec(a, key, value):
    rounds[-1].append([int(v) for v in key[-1]])
    return orig(a, key, value)
mpc.np_update = rec
for n in req['ns']:
    rounds.append([])
    a = secint.array(np.arange(n))
    mpc.np_sort(a)
    calls = rounds[-1]
    out['nets'][str(n)] = [[calls[k], calls[k + 1]] for k in range(0, len(calls), 2)]
mpc.np_update = orig
for xs in req['lists']:
    a = secint.array(np.array(xs))
    out['sorts'].append([int(v) for v in mpc.run(mpc.output(mpc.np_sort(a)))])
mpc.run(mpc.shutdown())
print('RESULT ' + json.dumps(out))
'''


def run(ctx):
    if not any(a == '--no-log' for a in sys.argv):
        sys.argv = [sys.argv[0], '--no-log']
    from mpyc.runtime import mpc
    from mpyc.seclists import seclist
    ok = ctx.build() and ctx.check_props()
    rng = ctx.rng
    ctx.rule = ('networks: every n in 0..64 (comparator list extracted from the real _sort, distinct per n); 0/1 inputs: all '
                '2^n per n; value cases: (function, list, key, reverse), non-trivial when the list has >= 2 elements and '
                'is not already in output order; selection: every length 1..17 with forced ties')
    ctx.explanation = ('the real loop nest is compared comparator by comparator with the Coq model for each n; the Coq '
                       'certificate covers all inputs for n <= 16; implementation-level oracles cover larger n')
    if ctx.tier == 'thorough' and ok:
        # certificate for 17..20 in a generated props file
        gen = os.path.join(os.path.dirname(os.path.dirname(os.path.dirname(os.path.abspath(__file__)))), 'coq', 'props', 'C29_thorough.v')
        with open(gen, 'w') as f:
            f.write('Require Import MPyC.SortNet.\nFrom Coq Require Import List ZArith Arith Bool Lia Permutation Sorting.Sorted.\n'
                    'Import ListNotations.\nLocal Open Scope nat_scope.\n'
                    'Lemma me_check_le_20 : forallb me_check (seq 0 21) = true.\nProof. vm_compute. reflexivity. Qed.\n'
                    'Theorem C29_sort_correct_le_20_partial : forall n, n <= 20 -> forall xs : list Z, length xs = n ->\n'
                    '  Sorted Z.le (apply_net (merge_exchange n) xs) /\\ Permutation (apply_net (merge_exchange n) xs) xs.\n'
                    'Proof. intros n Hn. apply tt_check_sorts. pose proof me_check_le_20 as H. rewrite forallb_forall in H.\n'
                    '  apply H. apply in_seq. lia. Qed.\nPrint Assumptions C29_sort_correct_le_20_partial.\n')
        ok = ctx.check_props('C29_thorough.v') and ok
        for ext in ('.v', '.vo', '.vok', '.vos', '.glob'):
            p = gen[:-2] + ext
            if os.path.exists(p):
                os.remove(p)
        aux = os.path.join(os.path.dirname(gen), '.C29_thorough.aux')
        if os.path.exists(aux):
            os.remove(aux)

    # ------------------------------------------------------------------ (a) comparator sequences
    NMAX = 64
    nets = {}
    for n in range(2, NMAX + 1):
        net = extract_net(mpc, n)
        if net is None:
            ctx.broken.append({'kind': 'correspondence', 'what': 'unexpected access pattern of _sort', 'n': n})
            net = []
        nets[n] = net
    # n < 2: sorted() must not call _sort
    calls = []
    orig_sort = mpc._sort
    mpc._sort = lambda x, key: calls.append(len(x)) or orig_sort(x, key)
    try:
        r0, r1 = mpc.sorted([]), mpc.sorted([7])
        r2 = mpc.sorted([2, 1])
    finally:
        del mpc._sort
    if r0 != [] or r1 != [7] or r2 != [1, 2] or calls != [2]:
        ctx.violation('sorted-short-lists', {'sorted([])': r0, 'sorted([7])': r1, 'sorted([2,1])': r2, '_sort calls': calls})
    nets[0], nets[1] = [], []
    # the comparison is done inside Coq (printing 15000 pairs through Coq's pretty-printer is slow):
    # comparator (i, j) is passed as the number 64*i + j  (i, j < 64... NMAX = 64 so j <= 63)
    preamble = ('Definition eqnet (a : option (list (nat * nat))) (b : list N) : bool := match a with '
                '| Some l => if list_eq_dec N.eq_dec (map (fun c => (N.of_nat (fst c) * 64 + N.of_nat (snd c))%N) l) b '
                'then true else false | None => false end.\n')
    exprs, meta = [], []
    for n in range(0, NMAX + 1):
        assert all(0 <= i < 64 and 0 <= j < 64 for i, j in nets[n])
        exprs.append('eqnet (merge_exchange_opt %s) [%s]%%N' % (natlit(n), '; '.join(str(i * 64 + j) for i, j in nets[n])))
        meta.append(('net', n))

    # ------------------------------------------------------------------ (b) 0/1 inputs
    # real _sort on every 0/1 vector (plain ints: `<` gives a bool, if_swap is arithmetic)
    n01 = ctx.n(10, 13)
    cnt01 = 0
    for n in range(2, n01 + 1):
        for bits in itertools.product((0, 1), repeat=n):
            x = list(bits)
            mpc._sort(x, lambda a: a)
            cnt01 += 1
            if any(x[i] > x[i + 1] for i in range(n - 1)) or sum(x) != sum(bits):
                ctx.violation('sort-01-wrong n=%d' % n, {'n': n, 'input': list(bits), 'got': x})
                break
        ctx.case({'all01_real_sort': n}, nontrivial=True, kind='all 0/1 inputs through real _sort')
    nbits = ctx.n(16, 22)
    for n in range(2, nbits + 1):
        if not run_net_bits(nets[n], n):
            # find a witness
            wit = None
            if n <= 20:
                for k in range(1 << n):
                    x = [(k >> i) & 1 for i in range(n)]
                    y = list(x)
                    mpc._sort(y, lambda a: a)
                    if any(y[i] > y[i + 1] for i in range(n - 1)):
                        wit = x
                        break
            ctx.violation('sort-01-wrong n=%d' % n, {'n': n, 'input': wit, 'net': nets[n]})
        ctx.case({'all01_extracted_net': n}, nontrivial=True, kind='all 0/1 inputs through extracted comparator list')
    ctx.extra['zero_one_inputs_real_sort'] = cnt01
    ctx.extra['zero_one_inputs_bitparallel'] = sum(1 << n for n in range(2, nbits + 1))
    ctx.extra['exhaustive'] = True
    # random inputs with many duplicates, all n up to 64 and a few larger, through the real _sort (plain ints)
    sort_cases = []
    for n in list(range(2, NMAX + 1)) + [65, 100, 127, 128, 129, 200]:
        for rep in range(ctx.n(3, 10)):
            span = rng.choice([1, 2, 3, n, 10 * n])
            xs = [rng.randint(-span, span) for _ in range(n)]
            if rep == 0:
                xs = sorted(xs, reverse=True)
            ys = list(xs)
            mpc._sort(ys, lambda a: a)
            if ys != sorted(xs):
                ctx.violation('sort-wrong n=%d' % n, {'n': n, 'input': xs, 'got': ys})
            ctx.case({'sort_plain': xs}, nontrivial=ys != xs, kind='real _sort on plain ints, n<=64' if n <= 64 else 'real _sort on plain ints, n>64')
            if n <= 40 and rep < 2:
                sort_cases.append((xs, ys))
    for xs, ys in sort_cases:
        exprs.append('apply_net (merge_exchange %s) %s' % (natlit(len(xs)), zlist(xs)))
        meta.append(('apply', xs, ys))

    # ------------------------------------------------------------------ (c) secure end-to-end
    mpc.run(mpc.start())
    secint = mpc.SecInt(32)
    secfxp = mpc.SecFxp(32, 8)

    def out(v):
        return mpc.run(mpc.output(v))

    def canon_int(v):
        return int(v)

    def canon_fxp(v):
        return int(round(float(v) * 256))

    def excname(e):
        return 'Value' if isinstance(e, ValueError) else 'Type' if isinstance(e, TypeError) else 'Index' if isinstance(e, IndexError) else 'Other'

    lens = [0, 1, 2, 3, 4, 5, 6, 7, 8, 9, 11, 13, 16, 17] if ctx.tier == 'quick' else list(range(0, 26)) + [31, 32, 33]
    for n in lens:
        for rep in range(ctx.n(2, 4)):
            span = rng.choice([1, 2, max(1, n // 2), 50])
            xs = [rng.randint(-span, span) for _ in range(n)]
            reverse = bool((n + rep) % 2)
            kind = ['secint', 'secfxp', 'secint-key-neg', 'seclist', 'pairs-key-second'][(n + 2 * rep) % 5] if n else ['secint', 'seclist'][rep % 2]
            key = {'n': n, 'xs': xs, 'reverse': reverse, 'kind': kind}
            try:
                if kind == 'secint':
                    got = [canon_int(v) for v in out(mpc.sorted([secint(a) for a in xs], reverse=reverse))] if n else mpc.sorted([], reverse=reverse)
                    want = sorted(xs, reverse=reverse)
                    model = 'sorted_model %s %s' % (zlist(xs), blit(reverse))
                elif kind == 'secfxp':
                    got = [canon_fxp(v) for v in out(mpc.sorted([secfxp(a / 8) for a in xs], reverse=reverse))]
                    want = sorted([a * 32 for a in xs], reverse=reverse)
                    model = 'sorted_model %s %s' % (zlist([a * 32 for a in xs]), blit(reverse))
                elif kind == 'secint-key-neg':
                    got = [canon_int(v) for v in out(mpc.sorted([secint(a) for a in xs], key=lambda a: -a, reverse=reverse))]
                    want = sorted(xs, key=lambda a: -a, reverse=reverse)
                    model = 'sorted_key_model Z.opp 0%%Z %s %s' % (zlist(xs), blit(reverse))
                elif kind == 'seclist':
                    s = seclist([secint(a) for a in xs], secint)
                    s.sort(reverse=reverse)
                    got = [canon_int(v) for v in out(list(s))] if n else list(s)
                    want = sorted(xs, reverse=reverse)
                    model = 'sorted_model %s %s' % (zlist(xs), blit(reverse))
                else:   # lists of two numbers, sorted by the second: element order on ties is the network's
                    ps = [(i, a) for i, a in enumerate(xs)]
                    res = mpc.sorted([[secint(i), secint(a)] for i, a in ps], key=lambda e: e[1], reverse=reverse)
                    got = [tuple(canon_int(v) for v in out(e)) for e in res]
                    want = None
                    if sorted(got) != sorted(ps) or [g[1] for g in got] != sorted(xs, reverse=reverse):
                        ctx.violation('sorted-key-wrong kind=%s n=%d' % (kind, n), dict(key, got=got))
                    model = 'sorted_key_model snd (0,0)%%Z %s %s' % (coq_pairs(ps), blit(reverse))
            except Exception as e:   # noqa
                ctx.violation('sorted-raises kind=%s n=%d' % (kind, n), dict(key, exc=repr(e)))
                continue
            if want is not None and got != want:
                ctx.violation('sorted-wrong kind=%s n=%d' % (kind, n), dict(key, got=got, want=want))
            ctx.case(key, nontrivial=n >= 2 and got != (xs if kind != 'pairs-key-second' else None), kind='secure sorted/' + kind)
            exprs.append(model)
            meta.append(('sorted', key, [list(g) if isinstance(g, tuple) else g for g in got]))

    # selection: lengths 1..17 (and 0 -> ValueError), ties forced
    fnames = ['min', 'max', 'min_max', 'argmin', 'argmax']
    sel_lens = list(range(0, 18)) if ctx.tier == 'quick' else list(range(0, 34))
    for n in sel_lens:
        for rep in range(ctx.n(4, 6)):
            span = [1, max(1, n // 3), 20, 2][rep % 4]
            xs = [rng.randint(-span, span) for _ in range(n)]
            if n >= 3 and rep == 1:   # extremes at both ends and in the middle
                lo, hi = min(xs), max(xs)
                xs[0], xs[-1], xs[n // 2] = hi, lo, rng.choice([lo, hi])
            if n >= 2 and rep == 2:   # the middle element x[n//2] is the unique minimum
                xs[n // 2] = min(xs) - 1
            if n >= 2 and rep == 3:   # ... the unique maximum; the unique minimum sits just before it
                xs[n // 2] = max(xs) + 1
                xs[(n - 1) // 2 if n % 2 == 0 else n // 2 - 1] = min(xs) - 1
            for fn in fnames:
                for usekey in ([False, True] if (n + rep) % 2 == 0 or n <= 3 else [False]):
                    keyf = (lambda a: -a) if usekey else None
                    pk = (lambda a: -a) if usekey else (lambda a: a)
                    key = {'fn': fn, 'xs': xs, 'key': 'neg' if usekey else None}
                    sx = [secint(a) for a in xs]
                    try:
                        r = getattr(mpc, fn)(sx, key=keyf) if usekey else getattr(mpc, fn)(sx)
                        if fn in ('min', 'max'):
                            got = canon_int(out(r))
                        else:
                            got = tuple(canon_int(out(v)) for v in r)
                    except Exception as e:   # noqa
                        got = 'ERR:' + excname(e)
                    # oracle
                    if n == 0:
                        want = 'ERR:Value'
                    elif fn == 'min':
                        want = min(xs, key=pk)
                    elif fn == 'max':
                        want = max(xs, key=pk)
                    elif fn == 'min_max':
                        want = (min(xs, key=pk), max(xs, key=pk))
                    elif fn == 'argmin':
                        m = min(xs, key=pk)
                        want = (xs.index(m), m)
                    else:
                        m = max(xs, key=pk)
                        want = (xs.index(m), m)
                    if got != want:
                        ctx.violation('%s-wrong n=%d key=%s' % (fn, n, key['key']), dict(key, got=got, want=want))
                    ctx.case(key, nontrivial=n >= 2 and len(set(xs)) < n, kind='secure ' + fn + ('/key' if usekey else ''))
                    kf = 'Z.opp' if usekey else 'zid'
                    exprs.append('%s_model %s %s%s' % (fn, kf, '0%Z ' if fn == 'min_max' else '', zlist(xs)))
                    meta.append(('sel', key, got))
    # selection on lists of numbers with key (which element wins on key ties)
    for n in ([1, 2, 3, 5, 8] if ctx.tier == 'quick' else range(1, 14)):
        ks = [rng.randint(0, 2) for _ in range(n)]
        ps = [(i, k) for i, k in enumerate(ks)]
        for fn in ('min', 'max', 'min_max', 'argmin', 'argmax'):
            sx = [[secint(i), secint(k)] for i, k in ps]
            try:
                r = getattr(mpc, fn)(sx, key=lambda e: e[1])
            except Exception as e:   # noqa
                ctx.violation('%s-raises pairs n=%d' % (fn, n), {'fn': fn, 'pairs': ps, 'exc': repr(e)})
                continue
            if fn in ('min', 'max'):
                got = tuple(canon_int(v) for v in out(r))
                good = got in ps and got[1] == (min(ks) if fn == 'min' else max(ks))
            elif fn == 'min_max':
                got = tuple(tuple(canon_int(v) for v in out(e)) for e in r)
                good = got[0] in ps and got[1] in ps and got[0][1] == min(ks) and got[1][1] == max(ks)
            else:
                got = (canon_int(out(r[0])), tuple(canon_int(v) for v in out(r[1])))
                ext = min(ks) if fn == 'argmin' else max(ks)
                good = got == (ks.index(ext), ps[ks.index(ext)])
            key = {'fn': fn, 'pairs': ps, 'key': 'second'}
            if not good:
                ctx.violation('%s-wrong pairs n=%d' % (fn, n), dict(key, got=got))
            ctx.case(key, nontrivial=n >= 2, kind='secure ' + fn + '/pairs')
            exprs.append('%s_model snd %s%s' % (fn, '(0, 0)%Z ' if fn == 'min_max' else '', coq_pairs(ps)))
            meta.append(('selp', key, got))
    mpc.run(mpc.shutdown())

    # ------------------------------------------------------------------ np_sort (separate interpreter with NumPy)
    np_done = False
    if os.path.exists(PYNP):
        try:
            ns = list(range(2, 34)) + [47, 64]
            lists = [[rng.randint(-3, 3) for _ in range(n)] for n in (2, 3, 5, 8, 13, 16, 17)]
            p = subprocess.run([PYNP, '-c', NP_SCRIPT], input=json.dumps({'ns': ns, 'lists': lists}), text=True,
                               env=impl_env(), stdout=subprocess.PIPE, stderr=subprocess.PIPE, timeout=600)
            line = [l for l in p.stdout.split('\n') if l.startswith('RESULT ')]
            if p.returncode or not line:
                ctx.notes.append('np_sort run failed: ' + p.stderr[-300:])
            else:
                res = json.loads(line[-1][7:])
                for n in ns:
                    flat = []
                    disjoint = True
                    for I, J in res['nets'][str(n)]:
                        if len(set(I) | set(J)) != 2 * len(I):
                            disjoint = False
                        flat += list(zip(I, J))
                    if not disjoint:
                        ctx.violation('np_sort-round-not-disjoint n=%d' % n, {'n': n, 'rounds': res['nets'][str(n)]})
                    if [list(c) for c in flat] != [list(c) for c in nets[n]]:
                        ctx.broken.append({'kind': 'correspondence', 'what': 'np_sort index sets differ from _sort comparators', 'n': n})
                    ctx.case({'np_sort_net': n}, nontrivial=True, kind='np_sort index sets')
                for xs, got in zip(lists, res['sorts']):
                    if got != sorted(xs):
                        ctx.violation('np_sort-wrong n=%d' % len(xs), {'xs': xs, 'got': got})
                    ctx.case({'np_sort': xs}, nontrivial=True, kind='secure np_sort')
                np_done = True
        except Exception as e:   # noqa
            ctx.notes.append('np_sort run failed: %r' % (e,))
    ctx.notes.append('np_sort tied in the NumPy interpreter: %s' % np_done)

    # ------------------------------------------------------------------ Coq model on the same inputs
    ctx.log('%d cases on the implementation; evaluating %d model expressions in Coq' % (ctx.evaluations, len(exprs)))
    if ok:
        res = ctx.coq_eval(['MPyC.SortNet', 'MPyC.Tournament'], exprs, preamble=preamble, chunk=40)
        mism = 0

        def opt(v):   # Some x -> x ; None -> 'ERR:Value'
            if v is None:
                return 'ERR:Value'
            if isinstance(v, tuple) and v and v[0] == 'Some':
                return v[1]
            return v

        for r, mt in zip(res, meta):
            if isinstance(r, tuple) and r and r[0] == 'ERROR':
                mism += 1
                ctx.broken.append({'kind': 'correspondence', 'what': 'coq evaluation failed', 'case': str(mt)[:300], 'detail': r[1]})
                continue
            if mt[0] == 'net':
                n = mt[1]
                if r is not True:
                    mism += 1
                    ctx.broken.append({'kind': 'correspondence', 'what': 'comparator sequence of _sort differs from merge_exchange_opt',
                                       'n': n, 'impl': str(nets[n])[:400]})
                ctx.case({'net': n}, nontrivial=n >= 2, kind='comparator sequence vs Coq')
            elif mt[0] == 'apply':
                if r != mt[2]:
                    mism += 1
                    ctx.broken.append({'kind': 'correspondence', 'what': 'apply_net', 'input': mt[1], 'model': r, 'impl': mt[2]})
            elif mt[0] == 'sorted':
                rr = [list(e) if isinstance(e, tuple) else e for e in r]
                if rr != mt[2]:
                    mism += 1
                    ctx.broken.append({'kind': 'correspondence', 'what': 'sorted', 'case': mt[1], 'model': rr, 'impl': mt[2]})
            elif mt[0] == 'sel':
                fn = mt[1]['fn']
                if fn == 'min_max':
                    a, b = r
                    m = 'ERR:Value' if a is None or b is None else (opt(a), opt(b))
                else:
                    m = opt(r)
                if m != mt[2]:
                    mism += 1
                    ctx.broken.append({'kind': 'correspondence', 'what': fn, 'case': mt[1], 'model': str(m), 'impl': str(mt[2])})
            elif mt[0] == 'selp':
                m = (opt(r[0]), opt(r[1])) if mt[1]['fn'] == 'min_max' else opt(r)
                if m != mt[2]:
                    mism += 1
                    ctx.broken.append({'kind': 'correspondence', 'what': mt[1]['fn'] + ' on pairs', 'case': mt[1], 'model': str(m), 'impl': str(mt[2])})
        ctx.extra['traces_validated_against_impl'] = len(exprs) - mism
        ctx.log('model/implementation disagreements: %d' % mism)
    if ctx.broken and not ctx.violations:
        ctx.unproved('C29 model/proof', {'broken': ctx.broken[:5]})
