(** C21 — field square roots and quadratic-residue tests are correct.
    Statements over the prime-field model coq/theories/Sqrt.v of PrimeFieldElement._sqrt / _is_sqr
    (gmpy stubs jacobi / powmod / invert underneath). *)
Require Import MPyC.Field MPyC.Zp MPyC.FinField MPyC.Sqrt.
From Coq Require Import ZArith Znumtheory List.
Import ListNotations.
Local Open Scope nat_scope.

(** Fermat's little theorem, proved (no hypothesis): in any field with its nonzero elements enumerated ... *)
Theorem C21_fermat_abstract : forall (K : FieldT) (units : list K),
  NoDup units -> (forall x, In x units <-> x <> f0 K) ->
  forall a, a <> f0 K -> fpow a (length units) = f1 K.
Proof. exact fermat_abstract. Qed.
Print Assumptions C21_fermat_abstract.

(** ... and for the integers modulo any prime *)
Theorem C21_fermat : forall p a, prime p -> (a mod p <> 0)%Z -> (a ^ (p - 1) mod p = 1)%Z.
Proof. exact fermat. Qed.
Print Assumptions C21_fermat.

(** Euler's criterion, direction "square => a^((p-1)/2) = 1" (every odd prime).
    PARTIAL: the converse (a^((p-1)/2) = 1 => a is a square; root-counting argument) is not proved here. *)
Theorem C21_euler_square_partial : forall p a b, prime p -> p <> 2%Z ->
  ((b * b) mod p = a mod p)%Z -> (a mod p <> 0)%Z -> (a ^ ((p - 1) / 2) mod p = 1)%Z.
Proof. exact euler_square. Qed.
Print Assumptions C21_euler_square_partial.

(** every prime p = 3 (mod 4), every nonzero square a: sqrt(a) is reduced and sqrt(a)^2 = a *)
Theorem C21_sqrt_p3mod4 : forall p, prime p -> (p mod 4 = 3)%Z -> forall a, (0 < a < p)%Z ->
  (exists b, (b * b) mod p = a)%Z ->
  exists r, sqrt p a false = Ok r /\ (0 <= r < p)%Z /\ mul p r (El r) = a.
Proof. exact sqrt_p3mod4. Qed.
Print Assumptions C21_sqrt_p3mod4.

(** ... and sqrt(a, INV=True) (exponent (3p-5)/4) is the inverse of sqrt(a), for every nonzero a *)
Theorem C21_sqrt_inv_p3mod4 : forall p, prime p -> (p mod 4 = 3)%Z -> forall a, (0 < a < p)%Z ->
  exists r ri, sqrt p a false = Ok r /\ sqrt p a true = Ok ri /\ (0 <= ri < p)%Z /\ mul p ri (El r) = 1%Z.
Proof. exact sqrt_inv_p3mod4. Qed.
Print Assumptions C21_sqrt_inv_p3mod4.

(** zero, every modulus: sqrt(0) = 0, sqrt(0, INV=True) raises ZeroDivisionError *)
Theorem C21_sqrt_zero : forall p, sqrt p 0 false = Ok (0 mod p)%Z /\ sqrt p 0 true = Err ZeroDiv.
Proof. exact sqrt_zero. Qed.
Print Assumptions C21_sqrt_zero.

Theorem C21_sqrt_p2 : forall a, (0 <= a < 2)%Z -> exists r, sqrt 2 a false = Ok r /\ mul 2 r (El r) = a.
Proof. exact sqrt_p2. Qed.
Print Assumptions C21_sqrt_p2.

(** BOUNDED (the bound is the explicit list primes200 = the 46 primes below 200; all elements a):
    the whole of _is_sqr / _sqrt including the Cipolla-Lehmer branch (p = 1 mod 4), the search for b and the
    jacobi loop: is_sqr(a) <-> a is a square; for squares sqrt(a)^2 = a; for nonzero squares sqrt(a, INV) is the
    inverse of sqrt(a); sqrt(0, INV) raises ZeroDivisionError.  Decided by vm_compute. *)
Theorem C21_sqrt_is_sqr_bounded : forall p a, In p primes200 -> (0 <= a < p)%Z ->
  (exists s, is_sqr p a = Ok s /\ (s = true <-> exists b, (b * b) mod p = a)%Z) /\
  ((exists b, (b * b) mod p = a)%Z ->
     (exists r, sqrt p a false = Ok r /\ (0 <= r < p)%Z /\ ((r * r) mod p = a)%Z /\
        (a <> 0%Z -> exists ri, sqrt p a true = Ok ri /\ (0 <= ri < p)%Z /\ ((ri * r) mod p = 1)%Z)) /\
     (a = 0%Z -> sqrt p a true = Err ZeroDiv)).
Proof. exact sqrt_is_sqr_bounded. Qed.
Print Assumptions C21_sqrt_is_sqr_bounded.

Theorem C21_primes200_are_prime : forall p, In p primes200 -> prime p.
Proof. exact primes200_prime. Qed.
Print Assumptions C21_primes200_are_prime.

(** Non-vacuity: GF(11) (3 mod 4): 5 = 4^2, sqrt 5 = 4, INV 3 = 1/4; GF(13) (1 mod 4, Cipolla): 10 = 6^2, sqrt 10 = 7. *)
Example C21_nonvacuous :
  prime 11 /\ (11 mod 4 = 3)%Z /\ ((4 * 4) mod 11 = 5)%Z /\ sqrt 11 5 false = Ok 4%Z /\ sqrt 11 5 true = Ok 3%Z /\
  mul 11 3 (El 4) = 1%Z /\ In 13%Z primes200 /\ ((6 * 6) mod 13 = 10)%Z /\ sqrt 13 10 false = Ok 7%Z /\
  ((7 * 7) mod 13 = 10)%Z /\ is_sqr 13 10 = Ok true /\ is_sqr 13 2 = Ok false.
Proof. split; [apply is_prime_small_correct; reflexivity|]. vm_compute. repeat split; auto 20. Qed.
