"""C35 — barriers and shutdown wait for all started MPyC coroutines.

Proof: coq/props/C35.v over coq/theories/Barrier.v (pc_level counter model, barrier loop, shutdown machine).
Tie (a): gen_coro_table.py extracts the `_pc_level += 1 / -= 1` sites of asyncoro.py with their try/except structure
(exit paths of typed_asyncoro, `_reconcile`) and the statement order of Runtime.shutdown; generated obligations
`all_balanced` and `shutdown_order_ok` (gen/CoroBalanced.v) are compiled on every run.
Tie (b): simulator (barriers enabled): programs start coroutines without awaiting them (also ones that exit in their
first segment by exception / StopIteration), then `await mpc.barrier()`: every MPyC coroutine task started earlier by
that party must be done; every assignment to `_pc_level` is logged and the sequence replayed through the Coq counter
model; at each `close` the closing party has no unfinished coroutine and has received everything its peers ever sent
(incl. their shutdown message); shutdown completes on all parties, every connection is closed exactly once by its
lower-numbered end.
"""
import collections, time

from lib.core import zlit
from props import c08 as base

MANIFEST = {
    'text': 'Coq (Barrier.v): pc_level_counts (invariant over all event sequences in which each started coroutine exits at '
            'most once: _pc_level = number of started-and-unfinished coroutines), barrier_top_level / barrier_at_depth '
            '(when `_pc_level > depth` is false no - resp. at most depth - started coroutine is unfinished), shutdown '
            'machine in the statement order of Runtime.shutdown: shutdown_closes_after_quiescence (no connection is '
            'closed by p before a poll saw p\'s _pc_level <= depth and p received every other party\'s shutdown message), '
            'quiesced_was_polled, every_connection_has_a_closer. Tied to the source by generated obligations all_balanced '
            '(each of the five exit paths of typed_asyncoro/_reconcile decrements exactly once; the increment is the first statement for all three declaration forms, the task tail is straight-line with the decrement only in the done-callback _reconcile - its first statement, also for exceptions and for coroutines without return value -, and _ProgramCounterWrapper restores the counter in a finally) and shutdown_order_ok (statement '
            'order of shutdown; unset_protocol resolves the awaited future iff ALL peers other than self are deregistered), and '
            'to runs by the simulator: task completion at barrier return and at every close, full _pc_level assignment '
            'log replayed through the Coq counter model, shutdown completion, all connections of a party closed at the instant '
            'its shutdown returns, no exception inside connection callbacks, also with closes of lower-numbered peers arriving late; user coroutines of every declaration form (returnType(type), returnType(None), annotation, -> None) and one raising after its first await, pending behind a lagging party at barrier()/shutdown(); at every statement boundary of the main program depth = 0 and _pc_level = tasks created - tasks completed.',
    'note': 'Safety only: shutdown_terminates (liveness under fair delivery) is NOT proved, termination of shutdown is '
            'checked on the explored schedules. BaseException subclasses escaping a first segment (CancelledError, '
            'KeyboardInterrupt) are outside the model (the handlers are `except Exception`). Barriers inside coroutines '
            '(depth>0) are covered by the theorem but exercised only at top level. Shutdown is also exercised with --no-barrier (barriers disabled must not weaken shutdown) and a lagging party; the barrier statements themselves are checked with barriers enabled only. '
            'Trusted: Coq kernel + vm_compute, ast extraction of the +=/-= sites, lib.sim.',
    'technique': 'Coq invariant proofs (counter + shutdown machine) + generated balance obligation + simulator event replay',
}


class LevelLog:
    """Logs every assignment to runtime._pc_level (property on the per-party Runtime class copy)."""

    def __init__(self, sess):
        self.vals = [[] for _ in range(sess.m)]
        for i, mpc in enumerate(sess.sim.mpcs):
            cls = type(mpc)
            cur = mpc.__dict__.pop('_pc_level', 0)
            mpc.__dict__['_lvl'] = cur
            log = self.vals[i]

            def get(self_):
                return self_.__dict__['_lvl']

            def set_(self_, v, _log=log):
                _log.append(v)
                self_.__dict__['_lvl'] = v
            cls._pc_level = property(get, set_)


PRESTART_SCRIPT = r"""
import sys, json
sys.argv = [sys.argv[0]]
cfg = json.loads(sys.stdin.read())
from mpyc.runtime import mpc
from mpyc import asyncoro
mpc.options.no_async = False
mpc.options.no_barrier = False
started = []
_T = asyncoro.Task
class RT(_T):
    def __init__(self, coro, *, loop=None):
        super().__init__(coro, loop=loop)
        started.append(self)
asyncoro.Task = RT
secint = mpc.SecInt(32)
out = []
def mark(label):
    out.append([label, len(started), sum(1 for t in started if not t.done()), mpc._pc_level])
def work(k, v):
    x = secint(v)
    for _ in range(k):
        x = x * x + 1
    return x
vals = []
for (pre, post) in cfg['cycles']:
    r1 = work(pre, 2)                 # issued BEFORE start()
    mpc.run(mpc.start())
    mpc.run(mpc.barrier('b1'))
    mark('barrier-after-start pre=%d' % pre)
    r2 = work(post, 3)
    mpc.run(mpc.barrier('b2'))
    mark('barrier post=%d' % post)
    r3 = work(post, 1)                # left running: shutdown has to wait for it
    mpc.run(mpc.shutdown())
    mark('shutdown')
    vals.append([int(mpc.run(mpc.output(r))) for r in (r1, r2, r3)])
print('RESULT ' + json.dumps({'marks': out, 'vals': vals}))
"""


def prestart_stream(ctx, stats):
    """Work issued before mpc.start(), top-level barriers, work left running at shutdown, several start()/shutdown() cycles
    (single party, asynchronous evaluation): at every barrier return and shutdown return no started MPyC coroutine task is
    pending and the pending-level counter is 0 (= Barrier model: started - finished), and the values are right."""
    import subprocess, json, os
    from lib.core import PY
    repo = os.environ.get('MPYC_REPO', '/repo')
    env = dict(os.environ, PYTHONPATH=repo, PYTHONHASHSEED='0')
    for _ in range(ctx.n(3, 8)):
        cycles = [[ctx.rng.randrange(0, 4), ctx.rng.randrange(0, 4)] for _ in range(ctx.rng.choice([1, 2, 3]))]
        key = {'prestart_cycles': cycles, 'm': 1, 'async': True}
        p = subprocess.run([PY, '-c', PRESTART_SCRIPT], input=json.dumps({'cycles': cycles}), text=True, env=env,
                           stdout=subprocess.PIPE, stderr=subprocess.PIPE, timeout=300)
        line = [l for l in p.stdout.split('\n') if l.startswith('RESULT ')]
        ctx.case(key, nontrivial=any(c[0] for c in cycles), kind='work before start()')
        stats['prestart_runs'] += 1
        if p.returncode or not line:
            ctx.violation('program with work issued before start() did not complete (single party, async)',
                          {'case': key, 'rc': p.returncode, 'stderr': p.stderr[-600:]})
            continue
        r = json.loads(line[-1][7:])

        def f(k, v):
            for _ in range(k):
                v = v * v + 1
            return v
        want = [[f(a, 2), f(b, 3), f(b, 1)] for a, b in cycles]
        bad = [mk for mk in r['marks'] if mk[2] != 0 or mk[3] != 0]
        if bad:
            ctx.violation('coroutine tasks pending (or pending-level counter not 0) when %s returned' % bad[0][0].split(' ')[0].split('-')[0],
                          {'case': key, 'marks [label, started, pending, _pc_level]': r['marks']})
        elif r['vals'] != want:
            ctx.violation('wrong values in start()/shutdown() cycles', {'case': key, 'got': r['vals'], 'want': want})


def to_events(vals, start=0):
    """Level sequence -> model events: +1 = Start of a fresh id, -1 = Exit of the most recently started live id."""
    evs, live, nxt, prev = [], [], 0, start
    for v in vals:
        if v == prev + 1:
            evs.append('Start %d' % nxt)
            live.append(nxt)
            nxt += 1
        elif v == prev - 1 and live:
            evs.append('Exit %d ExTask' % live.pop())
        else:
            return None
        prev = v
    return evs


def run(ctx):
    ok = ctx.build() and ctx.check_props()
    ctx.rule = ('case = (program with un-awaited coroutines, first-segment exits and top-level barriers, configuration, '
                'schedule); non-trivial when >= 1 coroutine task is still pending when the barrier is reached')
    ctx.explanation = ('counter/shutdown theorems for all event sequences; balance of the exit paths regenerated from '
                       'asyncoro.py; simulator checks at barrier return and at every close')
    rng = ctx.rng
    info, table_ok = base.regenerate(ctx, extra=('CoroBalanced.v',))
    ctx.obligations += 2
    bal_ok = table_ok and info['compiled']['CoroBalanced.v'][0]
    ctx.extra['pc_level_paths'] = info['pc_level_paths']
    ctx.extra['shutdown_order'] = info['shutdown_order']
    ctx.extra['unset_condition'] = info['unset_condition']
    ctx.extra['completion_shape'] = info['completion_shape']
    if bal_ok:
        ctx.discharged += 2
        ctx.theorems.append(('all_balanced, shutdown_order_ok (gen/CoroBalanced.v)',
                             'Closed under the global context (vm_compute over the regenerated tables)'))
    else:
        ctx.log('generated obligation FAILED:\n%s' % info['compiled'].get('CoroBalanced.v', ('', 'table did not compile'))[1][-600:])
        ctx.broken.append({'kind': 'proof', 'file': 'gen/CoroBalanced.v', 'paths': info['pc_level_paths'],
                           'shutdown_order': info['shutdown_order'], 'unset_condition': info['unset_condition'], 'completion_shape': info['completion_shape'],
                           'detail': info['compiled'].get('CoroBalanced.v', ('', ''))[1][-600:]})
    ctx.log('pc_level exit paths: %s; shutdown order: %s; obligations %s' % (
        [(p[0], p[1], p[2]) for p in info['pc_level_paths']], info['shutdown_order'] + [info['unset_condition']] + info['completion_shape'], 'hold' if bal_ok else 'FAIL'))

    stats = collections.Counter()
    exprs, meta = [], []
    t0 = time.time()
    budget = ctx.n(70, 900)
    for ci, (m, t) in enumerate(base.CONFIGS):
        progs = [base.gen_spec(rng, m, ctx.n(26, 40), with_barrier=True, with_exc=True) for _ in range(ctx.n(3, 6))]
        # the last program of a session leaves coroutines running (results never awaited): shutdown has to wait for them
        base.add_unawaited_chain(progs[-1][0])
        # shutdown scenarios with barriers DISABLED (programs without barrier statements) and one lagging party
        nb_progs = [base.gen_spec(rng, m, ctx.n(20, 36), with_exc=True) for _ in range(2)]
        base.add_unawaited_chain(nb_progs[-1][0])
        pols = [(pn, pf, ()) for pn, pf in base.policies(rng, m, nhold=ctx.n(2, m * (m - 1)), nrand=ctx.n(2, 4))]
        lag = rng.randrange(m)
        pols += [('fifo', pols[0][1], ('--no-barrier',)), ('lag:%d:25' % lag, base.lagging(m, lag, 25), ('--no-barrier',)),
                 ('lag:%d:25' % ((lag + 1) % m), base.lagging(m, (lag + 1) % m, 25), ())]
        if m in (3, 4):
            # closes of lower-numbered peers arrive late (short sessions: one program, then shutdown)
            late = base.late_closes(m)
            if ctx.tier != 'thorough':
                late = [x for x in late if x[0].startswith('hold:')] + rng.sample([x for x in late if not x[0].startswith('hold:')], 2)
            pols += [(pn, pf, ('late',)) for pn, pf in late]
        # user coroutines of every declaration form (incl. no return value) and one that raises after its first await,
        # left pending behind a lagging party when barrier() / shutdown() is reached
        uc_progs = [base.gen_spec(rng, m, ctx.n(24, 36), with_barrier=True, with_ucoro=True) for _ in range(2)]
        for sp, _ in uc_progs:
            n0 = base.nvars(sp)
            tail = [['ucoro', 'none', 0], ['ucoro', 'annot_none', 1 % m], ['ucoro', 'raise', 0], ['ucoro', 'type', 0], ['barrier'],
                    ['ucoro', 'none', n0], ['add', n0, 0], ['barrier']]
            sp['ops'][-1:-1] = tail            # before the final output_all
        for sp, wn in uc_progs:
            wn[-1] = list(wn[-1]) + [wn[-1][0] ** 2, wn[-1][0] ** 2 + wn[-1][0]]
        base.add_unawaited_chain(uc_progs[-1][0])
        uc_progs[-1][0]['ops'] += [['ucoro', 'none', 0], ['ucoro', 'raise', 1 % m], ['ucoro', 'annot_none', 0]]
        for lagp in sorted({0, m - 1, rng.randrange(m)}):
            pols.append(('lag:%d:25' % lagp, base.lagging(m, lagp, 25), ('ucoro',)))
        pols.append(('fifo', pols[0][1], ('ucoro',)))
        pols.append(('random:%d' % ci, pols[1][1], ('ucoro',)))
        all_progs = progs
        for pn, pf, extra in pols:
            if time.time() - t0 > budget * (ci + 1) / len(base.CONFIGS) and not extra:
                ctx.notes.append('time budget: skipped %s for (%d,%d)' % (pn, m, t))
                continue
            progs = all_progs[-1:] if extra == ('late',) else uc_progs if extra == ('ucoro',) else (nb_progs if extra else all_progs)
            if extra == ('late',):
                extra = ()
                stats['late_close_sessions'] += 1
            if extra == ('ucoro',):
                extra = ()
                stats['user_coroutine_sessions'] += 1
            sess = base.Session(m, t, ctx.seed + 7, extra=extra, start_policy=pf())
            try:
                ll = LevelLog(sess)
                sim = sess.sim
                key0 = {'m': m, 't': t, 'schedule': pn, 'options': list(extra)}
                failed = False
                for pi, (spec, want) in enumerate(progs):
                    blog = [[] for _ in range(m)]
                    lv0 = [len(v) for v in ll.vals]
                    lstart = [sim.mpcs[i]._pc_level for i in range(m)]
                    res, _ = sess.run(spec, pf, barrier_log=blog)
                    key = dict(key0, program=spec['ops'])
                    nb = sum(1 for o in spec['ops'] if o[0] == 'barrier')
                    stats['programs'] += 1
                    stats['barriers'] += nb * m
                    if base.is_bad(res) or any(r != want for r in res):
                        ctx.violation('program with barriers did not complete correctly under %s (m=%d,t=%d)' % (pn.split(':')[0], m, t),
                                      {'case': key, 'results': res, 'want': want, 'pc_level': [mp._pc_level for mp in sim.mpcs],
                                       'pending_tasks': [sess.mon.pending_tasks(i) for i in range(m)]})
                        failed = True
                        break
                    for i in range(m):
                        if sess.mon.stmt_bad[i]:
                            ctx.violation('at a statement boundary of the main program the program counter is not the base '
                                          'counter at depth 0, or _pc_level differs from the number of unfinished coroutine tasks',
                                          {'case': key, 'party': i, 'first': sess.mon.stmt_bad[i][:3]})
                            del sess.mon.stmt_bad[i][:]
                    nraise = sum(1 for o in spec['ops'] if o[:2] == ['ucoro', 'raise'])
                    stats['raising_coroutines'] += nraise * m
                    for i in range(m):
                        for pre, pend in blog[i]:
                            stats['barriers_with_pending_tasks'] += 1 if pre else 0
                            if pend:
                                ctx.violation('barrier returned while earlier started coroutines are unfinished',
                                              {'case': key, 'party': i, 'pending': pend[:8]})
                        if len(blog[i]) != nb:
                            ctx.violation('barrier count mismatch', {'case': key, 'party': i})
                        # level log -> Coq counter model
                        vals = ll.vals[i][lv0[i]:]
                        evs = to_events(vals, lstart[i])
                        if evs is None:
                            ctx.violation('_pc_level changed by a step other than +1/-1, or dropped below its start value',
                                          {'case': key, 'party': i, 'levels': vals[:40]})
                        elif i == 0 and len(exprs) < ctx.n(24, 120) and len(vals) < 3000:
                            exprs.append('clevels cinit [%s]' % '; '.join(evs))
                            meta.append((dict(key0, program=pi, party=i), [v - lstart[i] for v in vals]))
                    # a pending coroutine at the moment the barrier was reached makes the case non-trivial: approximated
                    # by "the program has a barrier directly after un-awaited secure operations"
                    ctx.case(key, nontrivial=any(pre for i in range(m) for pre, _ in blog[i]) or bool(extra), kind='(%d,%d) %s%s' % (m, t, pn.split(':')[0], ' no-barrier' if extra else ''))
                if failed:
                    continue
                # ---- shutdown
                final_len = None
                stats['sessions_with_tasks_pending_at_shutdown'] += 1 if any(sess.mon.pending_tasks(i) for i in range(m)) else 0
                sd = sess.shutdown(pf)
                if any(r is not True for r in sd):
                    ctx.violation('shutdown did not complete on all parties under %s (m=%d,t=%d)' % (pn.split(':')[0], m, t),
                                  {'case': key0, 'shutdown': sd, 'closed': sim.net.closed, 'exceptions': sess.callback_exceptions()[:4]})
                    sess.check_shutdown_state(ctx, key0)
                    continue
                sess.check_shutdown_state(ctx, key0)
                final_len = {k: len(v) for k, v in sim.net.stream.items()}
                want_closed = sorted((i, j) for i in range(m) for j in range(i + 1, m))
                if sorted(sim.net.closed) != want_closed:
                    ctx.violation('set of closed connections differs from {(i,j): i<j}', {'case': key0, 'closed': sim.net.closed})
                if sim.net.protos:
                    ctx.violation('connection ends still registered after shutdown', {'case': key0, 'left': [list(k) for k in sim.net.protos]})
                for i, mp in enumerate(sim.mpcs):
                    if any(p.protocol is not None for p in mp.parties if p.pid != i):
                        ctx.violation('peer protocol not unset after shutdown', {'case': key0, 'party': i})
                for (src, dst, pend, delivered) in sess.close_snap:
                    stats['closes'] += 1
                    if pend:
                        ctx.violation('connection closed while a started coroutine of the closing party is unfinished',
                                      {'case': key0, 'close': [src, dst], 'pending': pend[:8]})
                    for q in range(m):
                        if q != src and delivered.get((q, src), 0) != final_len.get((q, src), 0):
                            ctx.violation('connection closed before the closing party received all messages of a peer '
                                          '(incl. its shutdown message)',
                                          {'case': key0, 'close': [src, dst], 'peer': q,
                                           'delivered_at_close': delivered.get((q, src), 0), 'sent_in_total': final_len.get((q, src), 0)})
                nr = sum(1 for sp, _ in progs for o in sp['ops'] if o[:2] == ['ucoro', 'raise'])
                for i in range(m):
                    if sess.mon.pending_tasks(i):
                        ctx.violation('coroutine tasks pending after shutdown', {'case': key0, 'party': i})
                    if sess.mon.expected_failures(i) != nr:
                        ctx.violation('a coroutine that raises after its first await did not end with that exception',
                                      {'case': key0, 'party': i, 'failed_tasks': sess.mon.expected_failures(i), 'raising_calls': nr})
                    if sim.mpcs[i]._pc_level != 0 or sim.mpcs[i]._program_counter[1] != 0:
                        ctx.violation('_pc_level / depth not 0 after shutdown', {'case': key0, 'party': i,
                                      'level': sim.mpcs[i]._pc_level, 'depth': sim.mpcs[i]._program_counter[1]})
                stats['statement_boundaries_checked'] = sess.mon.stmt_checked + stats.get('statement_boundaries_checked', 0)
                stats['sessions'] += 1
            finally:
                sess.close()
    prestart_stream(ctx, stats)
    ctx.log('simulator: %s; evaluating %d level logs in Coq' % (dict(stats), len(exprs)))
    if ok and exprs:
        res = ctx.coq_eval(['MPyC.Barrier'], exprs, chunk=6, timeout=600)
        good = 0
        for r, (key, vals) in zip(res, meta):
            if isinstance(r, tuple) and r and r[0] == 'ERROR':
                ctx.broken.append({'kind': 'correspondence', 'what': 'coq evaluation failed', 'detail': r[1][:300]})
                continue
            model = [a for a, b in r]
            if model != vals or any(a != b for a, b in r):
                ctx.broken.append({'kind': 'correspondence', 'what': 'Barrier.clevels vs logged _pc_level', 'case': key,
                                   'model': str(model[:20]), 'impl': str(vals[:20])})
            else:
                good += 1
        ctx.extra['traces_validated_against_impl'] = good
        ctx.log('counter model: %d/%d level logs reproduced' % (good, len(exprs)))
    ctx.extra['simulator'] = dict(stats)
    if ctx.broken and not ctx.violations:
        ctx.unproved('C35 model/proof/correspondence', {'broken': ctx.broken[:5]})
