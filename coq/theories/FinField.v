(** C20 — model of the scalar prime-field element class of mpyc/finfields.py
    (FiniteFieldElement / PrimeFieldElement) with the pure-Python gmpy stubs of mpyc/gmpy.py
    underneath (invert = iterative extended Euclid, powmod = builtin pow).

    An element of GF(p) is its reduced representative [value : Z] (class invariant
    "value is reduced w.r.t. modulus").  Every operator method is modelled as coded:
    the constructor reduces ([value.__mod__(modulus)]), in-place forms do [value op= x; value %= p].
    Python exceptions are an explicit [result] type. *)
Require Import MPyC.Field MPyC.Zp.
From Coq Require Import ZArith Znumtheory Lia Bool List.
Import ListNotations.
Local Open Scope Z_scope.

Inductive error := ZeroDiv | ValueE | TypeE | Fuel.
Inductive result (A : Type) := Ok (a : A) | Err (e : error).
Arguments Ok {A} a.
Arguments Err {A} e.
Definition bind {A B} (r : result A) (f : A -> result B) : result B :=
  match r with Ok a => f a | Err e => Err e end.

(** ** gmpy.py stubs *)

(** invert(x, m):  a, b = x, m; s, s1 = 1, 0
                   while b: a, (q, b) = b, divmod(a, b); s, s1 = s1, s - q*s1
    returns the final (a, s); [None] = fuel exhausted (excluded by [inv_loop_gcd]). *)
Fixpoint inv_loop (fuel : nat) (a b s s1 : Z) : option (Z * Z) :=
  match fuel with
  | O => None
  | S f => if b =? 0 then Some (a, s) else inv_loop f b (a mod b) s1 (s - (a / b) * s1)
  end.

Definition inv_fuel (m : Z) : nat := (2 * Z.to_nat (Z.log2_up m) + 4)%nat.

Definition invert (x m : Z) : result Z :=
  if m =? 0 then Err ZeroDiv else
  let m := Z.abs m in
  if m =? 1 then Ok 0 else
  match inv_loop (inv_fuel m) x m 1 0 with
  | None => Err Fuel
  | Some (a, s) => if a =? 1 then Ok (if s <? 0 then s + m else s) else Err ZeroDiv
  end.

(** powmod(x, y, m) = pow(x, y, m): left-to-right square-and-multiply on the binary exponent;
    a negative exponent inverts the base first (CPython raises ValueError when there is no inverse;
    gmpy2 proper would raise ZeroDivisionError). *)
Fixpoint pow_pos (m x : Z) (e : positive) : Z :=
  match e with
  | xH => x mod m
  | xO e' => let r := pow_pos m x e' in (r * r) mod m
  | xI e' => let r := pow_pos m x e' in ((r * r) mod m * x) mod m
  end.

Definition powmod (x y m : Z) : result Z :=
  match y with
  | Z0 => Ok (1 mod m)
  | Zpos e => Ok (pow_pos m x e)
  | Zneg e => match invert x m with
              | Ok xi => Ok (pow_pos m xi e)
              | Err ZeroDiv => Err ValueE
              | Err e' => Err e'
              end
  end.

(** Python's  v << n  on ints *)
Definition shl (v n : Z) : result Z := if n <? 0 then Err ValueE else Ok (Z.shiftl v n).

(** ** the element class *)
(** right operand: an element of the same field (its reduced value) or a Python int *)
Inductive operand := El (b : Z) | Int (n : Z).
Definition raw (o : operand) : Z := match o with El b => b | Int n => n end.

Section Elem.
Variable p : Z.

Definition mk (v : Z) : Z := v mod p.                       (* PrimeFieldElement.__init__ *)

Definition add (a : Z) (o : operand) : Z := mk (a + raw o).
Definition radd (a n : Z) : Z := mk (a + n).
Definition iadd (a : Z) (o : operand) : Z := (a + raw o) mod p.
Definition sub (a : Z) (o : operand) : Z := mk (a - raw o).
Definition rsub (a n : Z) : Z := mk (n - a).
Definition isub (a : Z) (o : operand) : Z := (a - raw o) mod p.
Definition neg (a : Z) : Z := mk (- a).
Definition pos (a : Z) : Z := mk a.
Definition mul (a : Z) (o : operand) : Z := mk (a * raw o).
Definition rmul (a n : Z) : Z := mk (a * n).
Definition imul (a : Z) (o : operand) : Z := (a * raw o) mod p.

Definition reciprocal_ (x : Z) : result Z := invert x p.     (* classmethod _reciprocal on raw values *)
Definition reciprocal (a : Z) : result Z := bind (reciprocal_ a) (fun r => Ok (mk r)).
Definition truediv (a : Z) (o : operand) : result Z :=
  bind (reciprocal_ (raw o)) (fun r => Ok (mul a (Int r))).   (* self * _reciprocal(other) *)
Definition rtruediv (a n : Z) : result Z :=
  bind (reciprocal a) (fun r => Ok (mul r (Int n))).          (* self.reciprocal() * other *)
Definition itruediv (a : Z) (o : operand) : result Z :=
  bind (reciprocal_ (raw o)) (fun r => Ok ((a * r) mod p)).

Definition pow (a n : Z) : result Z := bind (powmod a n p) (fun r => Ok (mk r)).

Definition lshift (a n : Z) : result Z := bind (shl a n) (fun v => Ok (mk v)).
Definition ilshift (a n : Z) : result Z := bind (shl a n) (fun v => Ok (v mod p)).
Definition reciprocal2 (n : Z) : result Z := bind (shl 1 n) reciprocal_.
Definition rshift (a n : Z) : result Z := bind (reciprocal2 n) (fun r => Ok (mk (a * r))).
Definition irshift (a n : Z) : result Z := bind (reciprocal2 n) (fun r => Ok ((a * r) mod p)).

Definition eq (a : Z) (o : operand) : bool :=
  match o with El b => a =? b | Int n => a =? n mod p end.
Definition truth (a : Z) : bool := negb (a =? 0).

(** reference notions used in the statements *)
Fixpoint pow_iter (a : Z) (n : nat) : Z :=                   (* 1 * a * a * ... * a, through [mul] *)
  match n with O => mk 1 | S n' => mul (pow_iter a n') (El a) end.
End Elem.

(** ** entry points for the correspondence run (no proofs below depend on these) *)
Inductive opc := OAdd | ORAdd | OIAdd | OSub | ORSub | OISub | OMul | ORMul | OIMul
               | ODiv | ORDiv | OIDiv | OPow | OLsh | OILsh | ORsh | OIRsh | OEq | ONeg | OPos
               | ORecip | OBool.
Inductive arg := AEl (b : Z) | AInt (n : Z) | ABad | ANone.

Definition b2z (b : bool) : Z := if b then 1 else 0.
Definition with_operand (x : arg) (f : operand -> result Z) : result Z :=
  match x with AEl b => f (El b) | AInt n => f (Int n) | _ => Err TypeE end.
Definition with_int (x : arg) (f : Z -> result Z) : result Z :=
  match x with AInt n => f n | _ => Err TypeE end.

Definition run (p : Z) (op : opc) (a : Z) (x : arg) : result Z :=
  match op with
  | OAdd => with_operand x (fun o => Ok (add p a o))
  | ORAdd => with_int x (fun n => Ok (radd p a n))
  | OIAdd => with_operand x (fun o => Ok (iadd p a o))
  | OSub => with_operand x (fun o => Ok (sub p a o))
  | ORSub => with_int x (fun n => Ok (rsub p a n))
  | OISub => with_operand x (fun o => Ok (isub p a o))
  | OMul => with_operand x (fun o => Ok (mul p a o))
  | ORMul => with_int x (fun n => Ok (rmul p a n))
  | OIMul => with_operand x (fun o => Ok (imul p a o))
  | ODiv => with_operand x (truediv p a)
  | ORDiv => with_int x (rtruediv p a)
  | OIDiv => with_operand x (itruediv p a)
  | OPow => with_int x (pow p a)
  | OLsh => with_int x (lshift p a)
  | OILsh => with_int x (ilshift p a)
  | ORsh => with_int x (rshift p a)
  | OIRsh => with_int x (irshift p a)
  | OEq => match x with AEl b => Ok (b2z (eq p a (El b))) | AInt n => Ok (b2z (eq p a (Int n)))
                      | _ => Ok 0 end
  | ONeg => Ok (neg p a)
  | OPos => Ok (pos p a)
  | ORecip => reciprocal p a
  | OBool => Ok (b2z (truth a))
  end.

(** results as integers: value, or -1 ZeroDivisionError, -2 ValueError, -3 TypeError, -4 fuel *)
Definition code (r : result Z) : Z :=
  match r with Ok v => v | Err ZeroDiv => -1 | Err ValueE => -2 | Err TypeE => -3 | Err Fuel => -4 end.

Definition zrange (n : Z) : list Z := map Z.of_nat (seq 0 (Z.to_nat n)).   (* harness tables only *)
Definition table_el (p : Z) (op : opc) : list (list Z) :=
  map (fun a => map (fun b => code (run p op a (AEl b))) (zrange p)) (zrange p).
Definition table_int (p : Z) (op : opc) (ns : list Z) : list (list Z) :=
  map (fun a => map (fun n => code (run p op a (AInt n))) ns) (zrange p).
Definition row (p : Z) (op : opc) (cases : list (Z * arg)) : list Z :=
  map (fun c => code (run p op (fst c) (snd c))) cases.

(** ** Proofs *)

(** *** invert: Bezout invariant, termination with logarithmic fuel, gcd *)
Lemma inv_loop_bezout x m : forall fuel a b s s1 g s',
  inv_loop fuel a b s s1 = Some (g, s') ->
  (exists k, s * x + k * m = a) -> (exists k, s1 * x + k * m = b) ->
  exists k, s' * x + k * m = g.
Proof.
  induction fuel as [|f IH]; intros a b s s1 g s' E [ka Ha] [kb Hb]; simpl in E; [discriminate|].
  destruct (b =? 0) eqn:Eb.
  - inversion E; subst. exists ka. reflexivity.
  - apply Z.eqb_neq in Eb. eapply IH; [exact E|exists kb; exact Hb|].
    exists (ka - (a / b) * kb). rewrite (Z.mod_eq a b Eb). rewrite <- Ha at 1. rewrite <- Hb at 2.
    rewrite <- Hb at 3. ring_simplify. rewrite <- Ha, <- Hb. ring.
Qed.

Lemma inv_loop_S f a b s s1 :
  inv_loop (S f) a b s s1 = if b =? 0 then Some (a, s) else inv_loop f b (a mod b) s1 (s - (a / b) * s1).
Proof. reflexivity. Qed.

Lemma inv_loop_gcd : forall (k : nat) fuel a b s s1,
  0 <= b < a -> a < 2 ^ Z.of_nat k -> (2 * k + 1 <= fuel)%nat ->
  exists s', inv_loop fuel a b s s1 = Some (Z.gcd a b, s').
Proof.
  induction k as [|k IH]; intros fuel a b s s1 Hab Ha Hf.
  - simpl in Ha. lia.
  - destruct fuel as [|[|fuel]]; try lia.
    destruct (Z.eq_dec b 0) as [E|E].
    { subst b. exists s. rewrite inv_loop_S, Z.eqb_refl, Z.gcd_0_r, Z.abs_eq by lia. reflexivity. }
    rewrite inv_loop_S. rewrite (proj2 (Z.eqb_neq b 0) E). rewrite inv_loop_S.
    assert (Hr1 : 0 <= a mod b < b) by (apply Z.mod_pos_bound; lia).
    assert (G1 : Z.gcd a b = Z.gcd b (a mod b)).
    { rewrite (Z.gcd_comm a b), (Z.gcd_comm b (a mod b)). symmetry. apply Z.gcd_mod. exact E. }
    destruct (Z.eq_dec (a mod b) 0) as [E1|E1].
    { rewrite E1. rewrite Z.eqb_refl. rewrite G1, E1, Z.gcd_0_r, Z.abs_eq by lia. eauto. }
    rewrite (proj2 (Z.eqb_neq (a mod b) 0) E1).
    assert (G2 : Z.gcd b (a mod b) = Z.gcd (a mod b) (b mod (a mod b))).
    { rewrite (Z.gcd_comm b), (Z.gcd_comm (a mod b) (b mod _)). symmetry. apply Z.gcd_mod. exact E1. }
    rewrite G1, G2. apply IH.
    + apply Z.mod_pos_bound; lia.
    + assert (2 * (a mod b) < a).
      { destruct (Z_le_gt_dec (2 * b) a).
        - lia.
        - assert (a / b = 1). { symmetry. apply Z.div_unique with (a - b); lia. }
          pose proof (Z.div_mod a b E). lia. }
      rewrite Nat2Z.inj_succ, Z.pow_succ_r in Ha by lia. lia.
    + lia.
Qed.

Lemma invert_run p x : 2 <= p ->
  exists s', inv_loop (inv_fuel p) x p 1 0 = Some (Z.gcd p (x mod p), s')
             /\ exists k, s' * x + k * p = Z.gcd p (x mod p).
Proof.
  intros Hp2.
  assert (Hr : 0 <= x mod p < p) by (apply Z.mod_pos_bound; lia).
  set (L := Z.to_nat (Z.log2_up p)).
  assert (HL : p < 2 ^ Z.of_nat (S L)).
  { unfold L. rewrite Nat2Z.inj_succ, Z.pow_succ_r by lia.
    rewrite Z2Nat.id by apply Z.log2_up_nonneg.
    pose proof (Z.log2_up_spec p ltac:(lia)). lia. }
  destruct (inv_loop_gcd (S L) (2 * L + 3)%nat p (x mod p) 0 (1 - x / p * 0) Hr HL ltac:(lia))
    as [s' Hs'].
  exists s'. assert (E : inv_loop (inv_fuel p) x p 1 0 = Some (Z.gcd p (x mod p), s')).
  { unfold inv_fuel. fold L. replace (2 * L + 4)%nat with (S (2 * L + 3)) by lia.
    rewrite inv_loop_S. rewrite (proj2 (Z.eqb_neq p 0)) by lia. exact Hs'. }
  split; [exact E|].
  eapply (inv_loop_bezout x p); [exact E| |].
  - exists 0. ring.
  - exists 1. ring.
Qed.

Lemma gcd_prime_mod p x : prime p -> Z.gcd p (x mod p) = if x mod p =? 0 then p else 1.
Proof.
  intros Hp. pose proof (prime_ge_2 p Hp).
  destruct (x mod p =? 0) eqn:E.
  - apply Z.eqb_eq in E. rewrite E, Z.gcd_0_r. lia.
  - apply Z.eqb_neq in E. apply Zgcd_1_rel_prime. apply prime_rel_prime; auto.
    intros Hd. apply E. apply Zdivide_mod in Hd. rewrite Z.mod_mod in Hd by lia. exact Hd.
Qed.

(** nonzero residues have an inverse, and the loop finds it *)
Lemma invert_ok p x : prime p -> x mod p <> 0 ->
  exists y, invert x p = Ok y /\ (x * y) mod p = 1.
Proof.
  intros Hp Hx. pose proof (prime_ge_2 p Hp) as Hp2.
  destruct (invert_run p x Hp2) as [s' [E [k Hk]]].
  rewrite gcd_prime_mod in E, Hk by exact Hp.
  rewrite (proj2 (Z.eqb_neq _ _) Hx) in E, Hk.
  unfold invert. rewrite (proj2 (Z.eqb_neq p 0)) by lia. rewrite Z.abs_eq by lia.
  rewrite (proj2 (Z.eqb_neq p 1)) by lia. rewrite E. cbn [Z.eqb Pos.eqb].
  eexists; split; [reflexivity|].
  assert (H1 : (x * s') mod p = 1).
  { replace (x * s') with (1 + (- k) * p) by lia. rewrite Z.mod_add by lia. apply Z.mod_1_l. lia. }
  destruct (s' <? 0); [|exact H1].
  replace (x * (s' + p)) with (x * s' + x * p) by ring. rewrite Z.mod_add by lia. exact H1.
Qed.

(** zero (any multiple of p) has none: ZeroDivisionError *)
Lemma invert_zero p x : prime p -> x mod p = 0 -> invert x p = Err ZeroDiv.
Proof.
  intros Hp Hx. pose proof (prime_ge_2 p Hp) as Hp2.
  destruct (invert_run p x Hp2) as [s' [E _]].
  rewrite gcd_prime_mod in E by exact Hp. rewrite Hx in E. cbn [Z.eqb] in E.
  unfold invert. rewrite (proj2 (Z.eqb_neq p 0)) by lia. rewrite Z.abs_eq by lia.
  rewrite (proj2 (Z.eqb_neq p 1)) by lia. rewrite E.
  rewrite (proj2 (Z.eqb_neq p 1)) by lia. reflexivity.
Qed.


From Coq Require Import Zpow_facts.
(** *** powmod *)
Lemma pow_pos_spec m x e : m <> 0 -> pow_pos m x e = (x ^ Zpos e) mod m.
Proof.
  intros Hm. induction e as [e IH|e IH|]; cbn [pow_pos].
  - rewrite IH. rewrite Pos2Z.inj_xI.
    replace (2 * Z.pos e + 1) with (Z.pos e + Z.pos e + 1) by lia.
    rewrite !Z.pow_add_r, Z.pow_1_r by lia.
    rewrite <- (Z.mul_mod_idemp_l (x ^ Z.pos e * x ^ Z.pos e)) by exact Hm.
    rewrite (Z.mul_mod (x ^ Z.pos e) (x ^ Z.pos e)) by exact Hm. reflexivity.
  - rewrite IH. rewrite Pos2Z.inj_xO.
    replace (2 * Z.pos e) with (Z.pos e + Z.pos e) by lia.
    rewrite Z.pow_add_r by lia. rewrite <- Z.mul_mod by exact Hm. reflexivity.
  - rewrite Z.pow_1_r. reflexivity.
Qed.

Section Laws.
Variable p : Z.
Hypothesis Hp : prime p.
Let Hp2 := prime_ge_2 p Hp.
Let Hn0 : p <> 0. Proof. lia. Qed.

Definition red (a : Z) : Prop := 0 <= a < p.

Lemma mk_red v : red (mk p v).
Proof. unfold red, mk. apply Z.mod_pos_bound. lia. Qed.
Lemma mk_id a : red a -> mk p a = a.
Proof. unfold red, mk. intros H. apply Z.mod_small. exact H. Qed.
Lemma mk_mk v : mk p (mk p v) = mk p v.
Proof. apply mk_id, mk_red. Qed.

(** values stay reduced: every operator result is in [0, p) *)
Definition red_res (r : result Z) : Prop := match r with Ok v => red v | Err _ => True end.

Lemma bind_red (r : result Z) f : (forall v, red (f v)) -> red_res (bind r (fun v => Ok (f v))).
Proof. intros H. destruct r; simpl; auto. Qed.

Theorem ops_reduced a o n :
  red (add p a o) /\ red (radd p a n) /\ red (iadd p a o) /\
  red (sub p a o) /\ red (rsub p a n) /\ red (isub p a o) /\
  red (mul p a o) /\ red (rmul p a n) /\ red (imul p a o) /\
  red (neg p a) /\ red (pos p a) /\
  red_res (truediv p a o) /\ red_res (rtruediv p a n) /\ red_res (itruediv p a o) /\
  red_res (reciprocal p a) /\ red_res (pow p a n) /\
  red_res (lshift p a n) /\ red_res (ilshift p a n) /\ red_res (rshift p a n) /\ red_res (irshift p a n).
Proof.
  repeat split; try apply mk_red; try (apply Z.mod_pos_bound; lia);
    unfold truediv, rtruediv, itruediv, reciprocal, pow, lshift, ilshift, rshift, irshift;
    try (apply bind_red; intros; try apply mk_red; apply Z.mod_pos_bound; lia).
Qed.

(** in-place forms compute the same value as the binary forms *)
Theorem inplace_eq_binary a o n :
  iadd p a o = add p a o /\ isub p a o = sub p a o /\ imul p a o = mul p a o /\
  itruediv p a o = truediv p a o /\ ilshift p a n = lshift p a n /\ irshift p a n = rshift p a n.
Proof. repeat split. Qed.

(** reflected forms (int on the left) equal the binary form on the converted int, operands swapped *)
Theorem reflected_eq a n : red a ->
  radd p a n = add p (mk p n) (El a) /\
  rsub p a n = sub p (mk p n) (El a) /\
  rmul p a n = mul p (mk p n) (El a) /\
  rtruediv p a n = truediv p (mk p n) (El a).
Proof.
  intros Ha. unfold radd, add, rsub, sub, rmul, mul, rtruediv, truediv, reciprocal, mk; cbn [raw].
  repeat split.
  - rewrite Z.add_mod_idemp_l by lia. f_equal. ring.
  - rewrite Zminus_mod_idemp_l. reflexivity.
  - rewrite Z.mul_mod_idemp_l by lia. f_equal. ring.
  - unfold reciprocal_. destruct (invert a p) as [r|e]; cbn [bind]; [|reflexivity].
    f_equal. unfold mul, mk; cbn [raw]. rewrite Z.mul_mod_idemp_l by lia.
    rewrite Z.mul_mod_idemp_l by lia. f_equal. ring.
Qed.

(** mixing in an int equals converting it first *)
Theorem mix_int_eq_convert_first a n :
  add p a (Int n) = add p a (El (mk p n)) /\
  sub p a (Int n) = sub p a (El (mk p n)) /\
  mul p a (Int n) = mul p a (El (mk p n)) /\
  eq p a (Int n) = eq p a (El (mk p n)).
Proof.
  unfold add, sub, mul, eq, mk; cbn [raw]. repeat split.
  - rewrite Z.add_mod_idemp_r by lia. reflexivity.
  - rewrite Zminus_mod_idemp_r. reflexivity.
  - rewrite Z.mul_mod_idemp_r by lia. reflexivity.
Qed.

(** ... also for division, where the conversion matters to the Euclid loop's input *)
Lemma invert_mod_res x :
  match invert x p, invert (x mod p) p with
  | Ok y, Ok y' => y mod p = y' mod p
  | Err ZeroDiv, Err ZeroDiv => True
  | _, _ => False
  end.
Proof.
  destruct (Z.eq_dec (x mod p) 0) as [E|E].
  - rewrite (invert_zero p x Hp E). rewrite (invert_zero p (x mod p) Hp); [exact I|].
    rewrite Z.mod_mod by lia. exact E.
  - destruct (invert_ok p x Hp E) as [y [Ey Hy]].
    assert (E' : (x mod p) mod p <> 0) by (rewrite Z.mod_mod by lia; exact E).
    destruct (invert_ok p (x mod p) Hp E') as [y' [Ey' Hy']].
    rewrite Ey, Ey'.
    rewrite Z.mul_mod_idemp_l in Hy' by lia.
    transitivity ((y * (x * y')) mod p).
    + rewrite <- Z.mul_mod_idemp_r by lia. rewrite Hy'. rewrite Z.mul_1_r. reflexivity.
    + replace (y * (x * y')) with ((x * y) * y') by ring.
      rewrite <- Z.mul_mod_idemp_l by lia. rewrite Hy. rewrite Z.mul_1_l. reflexivity.
Qed.

Theorem mix_int_div_eq_convert_first a n :
  truediv p a (Int n) = truediv p a (El (mk p n)).
Proof.
  unfold truediv, reciprocal_, mk; cbn [raw].
  pose proof (invert_mod_res n) as H.
  destruct (invert n p) as [y|[]], (invert (n mod p) p) as [y'|[]]; try contradiction; cbn [bind]; try reflexivity.
  f_equal. unfold mul, mk; cbn [raw].
  rewrite <- (Z.mul_mod_idemp_r a y), H, Z.mul_mod_idemp_r by lia. reflexivity.
Qed.

(** only zero has no inverse; a * reciprocal a = 1 *)
Theorem only_zero_noninvertible a : red a ->
  (a = 0 -> reciprocal p a = Err ZeroDiv) /\
  (a <> 0 -> exists r, reciprocal p a = Ok r /\ red r /\ mul p a (El r) = 1).
Proof.
  intros Ha. split.
  - intros ->. unfold reciprocal, reciprocal_. rewrite (invert_zero p 0 Hp); [reflexivity|].
    apply Z.mod_0_l; lia.
  - intros Hne. assert (E : a mod p <> 0) by (rewrite Z.mod_small by exact Ha; exact Hne).
    destruct (invert_ok p a Hp E) as [y [Ey Hy]].
    exists (mk p y). unfold reciprocal, reciprocal_. rewrite Ey. cbn [bind]. split; [reflexivity|].
    split; [apply mk_red|]. unfold mul, mk; cbn [raw]. rewrite Z.mul_mod_idemp_r by lia. exact Hy.
Qed.

(** division is multiplication by the reciprocal and inverts multiplication *)
Theorem div_spec a b : red a -> red b ->
  (b = 0 -> truediv p a (El b) = Err ZeroDiv) /\
  (b <> 0 -> exists c r, truediv p a (El b) = Ok c /\ reciprocal p b = Ok r /\
                         c = mul p a (El r) /\ mul p c (El b) = a).
Proof.
  intros Ha Hb. split.
  - intros ->. unfold truediv, reciprocal_; cbn [raw]. rewrite (invert_zero p 0 Hp); [reflexivity|].
    apply Z.mod_0_l; lia.
  - intros Hne. assert (E : b mod p <> 0) by (rewrite Z.mod_small by exact Hb; exact Hne).
    destruct (invert_ok p b Hp E) as [y [Ey Hy]].
    exists (mul p a (Int y)), (mk p y). unfold truediv, reciprocal, reciprocal_; cbn [raw]. rewrite Ey. cbn [bind].
    repeat split.
    + unfold mul, mk; cbn [raw]. rewrite Z.mul_mod_idemp_r by lia. reflexivity.
    + unfold mul, mk; cbn [raw]. rewrite Z.mul_mod_idemp_l by lia.
      replace (a * y * b) with (a * (b * y)) by ring.
      rewrite <- Z.mul_mod_idemp_r, Hy, Z.mul_1_r by lia. apply Z.mod_small. exact Ha.
Qed.

(** exponentiation: square-and-multiply = iterated product; negative exponents via the inverse *)
Lemma pow_iter_spec a n : pow_iter p a n = (a ^ Z.of_nat n) mod p.
Proof.
  induction n as [|n IH].
  - reflexivity.
  - cbn [pow_iter]. rewrite IH. unfold mul, mk; cbn [raw].
    rewrite Z.mul_mod_idemp_l by lia. rewrite Nat2Z.inj_succ, Z.pow_succ_r by lia.
    f_equal. ring.
Qed.

Theorem pow_eq_repeat a (n : nat) : pow p a (Z.of_nat n) = Ok (pow_iter p a n).
Proof.
  rewrite pow_iter_spec. unfold pow, powmod. destruct n as [|n].
  - cbn [Z.of_nat bind]. unfold mk. rewrite Z.mod_mod by lia. reflexivity.
  - change (Z.of_nat (S n)) with (Z.pos (Pos.of_succ_nat n)). cbn [bind].
    rewrite pow_pos_spec by lia. unfold mk. rewrite Z.mod_mod by lia. reflexivity.
Qed.

Theorem pow_negative a (n : nat) : red a -> n <> O ->
  (a = 0 -> pow p a (- Z.of_nat n) = Err ValueE) /\
  (a <> 0 -> exists r, reciprocal p a = Ok r /\ pow p a (- Z.of_nat n) = Ok (pow_iter p r n)).
Proof.
  intros Ha Hn. destruct n as [|n]; [contradiction|].
  change (- Z.of_nat (S n)) with (Z.neg (Pos.of_succ_nat n)).
  split.
  - intros ->. unfold pow, powmod. rewrite (invert_zero p 0 Hp); [reflexivity|]. apply Z.mod_0_l; lia.
  - intros Hne. assert (E : a mod p <> 0) by (rewrite Z.mod_small by exact Ha; exact Hne).
    destruct (invert_ok p a Hp E) as [y [Ey Hy]].
    exists (mk p y). unfold reciprocal, reciprocal_, pow, powmod. rewrite Ey. cbn [bind]. split; [reflexivity|].
    rewrite pow_iter_spec, pow_pos_spec by lia. unfold mk. rewrite Z.mod_mod by lia.
    change (Z.pos (Pos.of_succ_nat n)) with (Z.of_nat (S n)).
    f_equal. rewrite <- Zpower_mod by lia. reflexivity.
Qed.

(** shifts: multiplication / division by 2^n *)
Theorem shift_eq_mul_div_pow2 a n : 0 <= n ->
  lshift p a n = Ok (mul p a (Int (2 ^ n))) /\
  rshift p a n = truediv p a (Int (2 ^ n)).
Proof.
  intros Hn. unfold lshift, rshift, reciprocal2, truediv, shl.
  rewrite (proj2 (Z.ltb_ge n 0) Hn). cbn [bind raw]. rewrite !Z.shiftl_mul_pow2 by exact Hn.
  rewrite Z.mul_1_l. split; reflexivity.
Qed.

Theorem shift_negative a n : n < 0 -> lshift p a n = Err ValueE /\ rshift p a n = Err ValueE.
Proof.
  intros Hn. unfold lshift, rshift, reciprocal2, shl. rewrite (proj2 (Z.ltb_lt n 0) Hn). split; reflexivity.
Qed.

(** for odd p shifting right undoes shifting left *)
Theorem rshift_lshift a n : red a -> 0 <= n -> p <> 2 ->
  exists b, lshift p a n = Ok b /\ rshift p b n = Ok a.
Proof.
  intros Ha Hn H2. destruct (shift_eq_mul_div_pow2 a n Hn) as [E1 _].
  eexists; split; [exact E1|].
  destruct (shift_eq_mul_div_pow2 (mul p a (Int (2 ^ n))) n Hn) as [_ E2]. rewrite E2.
  assert (E : (2 ^ n) mod p <> 0).
  { intros Hd. apply Zmod_divide in Hd; [|lia].
    assert (Hd2 : (p | 2)).
    { revert Hd. pattern n. apply natlike_ind; [| |exact Hn].
      - rewrite Z.pow_0_r. intros Hd. apply Z.divide_1_r_nonneg in Hd; lia.
      - intros k Hk IH Hd. rewrite Z.pow_succ_r in Hd by exact Hk.
        apply prime_mult in Hd; [|exact Hp]. destruct Hd as [Hd|Hd]; [exact Hd|apply IH, Hd]. }
    apply Z.divide_pos_le in Hd2; lia. }
  destruct (invert_ok p (2 ^ n) Hp E) as [y [Ey Hy]].
  unfold truediv, reciprocal_; cbn [raw]. rewrite Ey. cbn [bind]. f_equal.
  unfold mul, mk; cbn [raw]. rewrite Z.mul_mod_idemp_l by lia.
  replace (a * 2 ^ n * y) with (a * (2 ^ n * y)) by ring.
  rewrite <- Z.mul_mod_idemp_r, Hy, Z.mul_1_r by lia. apply Z.mod_small. exact Ha.
Qed.

(** equality and truth value *)
Theorem eq_spec a b n : red a -> red b ->
  (eq p a (El b) = true <-> a = b) /\ (eq p a (Int n) = true <-> (a - n) mod p = 0) /\
  (truth a = true <-> a <> 0).
Proof.
  intros Ha Hb. unfold eq, truth. repeat split.
  - apply Z.eqb_eq.
  - apply Z.eqb_eq.
  - intros E. apply Z.eqb_eq in E. rewrite E. rewrite Zminus_mod_idemp_l, Z.sub_diag. apply Z.mod_0_l; lia.
  - intros E. apply Z.eqb_eq. unfold red in Ha.
    assert (Hm : 0 <= n mod p < p) by (apply Z.mod_pos_bound; lia).
    rewrite Zminus_mod in E. rewrite (Z.mod_small a) in E by lia.
    assert (Hs : - p < a - n mod p < p) by lia.
    destruct (Z.eq_dec (a - n mod p) 0) as [Z0|NZ]; [lia|exfalso].
    destruct (Z_lt_le_dec (a - n mod p) 0).
    + rewrite <- (Z.mod_add _ 1) in E by lia. rewrite Z.mod_small in E by lia. lia.
    + rewrite Z.mod_small in E by lia. lia.
  - intros E Hz. subst a. discriminate.
  - intros E. destruct (a =? 0) eqn:Ez; [apply Z.eqb_eq in Ez; contradiction|reflexivity].
Qed.

(** *** the field laws, on reduced representatives *)
Theorem field_laws a b c : red a -> red b -> red c ->
  add p a (El b) = add p b (El a) /\
  add p (add p a (El b)) (El c) = add p a (El (add p b (El c))) /\
  add p a (El 0) = a /\
  add p a (El (neg p a)) = 0 /\
  sub p a (El b) = add p a (El (neg p b)) /\
  mul p a (El b) = mul p b (El a) /\
  mul p (mul p a (El b)) (El c) = mul p a (El (mul p b (El c))) /\
  mul p a (El 1) = a /\
  mul p a (El (add p b (El c))) = add p (mul p a (El b)) (El (mul p a (El c))) /\
  1 mod p <> 0 mod p.
Proof.
  intros Ha Hb Hc. unfold add, sub, mul, neg, mk; cbn [raw]. unfold red in *.
  repeat split.
  - f_equal; ring.
  - rewrite Z.add_mod_idemp_l, Z.add_mod_idemp_r by lia. f_equal; ring.
  - rewrite Z.add_0_r. apply Z.mod_small; lia.
  - rewrite Z.add_mod_idemp_r by lia. rewrite Z.add_opp_diag_r. apply Z.mod_0_l; lia.
  - rewrite Z.add_mod_idemp_r by lia. f_equal; ring.
  - f_equal; ring.
  - rewrite Z.mul_mod_idemp_l, Z.mul_mod_idemp_r by lia. f_equal; ring.
  - rewrite Z.mul_1_r. apply Z.mod_small; lia.
  - rewrite Z.mul_mod_idemp_r by lia. rewrite <- Z.add_mod by lia. f_equal; ring.
  - rewrite Z.mod_1_l, Z.mod_0_l by lia. lia.
Qed.

End Laws.

(** *** the model operators as a [field_theory] on the carrier [Zp p] *)
Definition unres (r : result Z) : Z := match r with Ok v => v | Err _ => 0 end.

Definition FFOps (p : Z) : Ops :=
  {| car := Zp p;
     f0 := mkZp p 0; f1 := mkZp p 1;
     fadd := fun a b => mkZp p (add p (zval a) (El (zval b)));
     fmul := fun a b => mkZp p (mul p (zval a) (El (zval b)));
     fsub := fun a b => mkZp p (sub p (zval a) (El (zval b)));
     fopp := fun a => mkZp p (neg p (zval a));
     fdiv := fun a b => mkZp p (unres (truediv p (zval a) (El (zval b))));
     finv := fun a => mkZp p (unres (reciprocal p (zval a))) |}.

Lemma zval_redp p (a : Zp p) : prime p -> red p (zval a).
Proof.
  intros Hp. pose proof (prime_ge_2 p Hp). unfold red. rewrite <- (zval_red p a). apply Z.mod_pos_bound. lia.
Qed.

Theorem FF_field_theory p : prime p ->
  field_theory (f0 (FFOps p)) (f1 (FFOps p)) (fadd (FFOps p)) (fmul (FFOps p)) (fsub (FFOps p))
               (fopp (FFOps p)) (fdiv (FFOps p)) (finv (FFOps p)) (@Logic.eq (Zp p)).
Proof.
  intros Hp. pose proof (prime_ge_2 p Hp) as Hp2.
  assert (R : forall a : Zp p, red p (zval a)) by (intros; apply zval_redp; exact Hp).
  assert (Z0 : zval (mkZp p 0) = 0) by (rewrite zval_mkZp; apply Z.mod_0_l; lia).
  assert (Z1 : zval (mkZp p 1) = 1) by (rewrite zval_mkZp; apply Z.mod_1_l; lia).
  constructor; [constructor| | |]; cbn [FFOps f0 f1 fadd fmul fsub fopp fdiv finv car]; intros.
  1-9: apply Zp_eq; rewrite !zval_mkZp; unfold add, mul, sub, neg, mk; cbn [raw]; rewrite ?Z.mod_mod by lia.
  - apply zval_red.
  - f_equal; ring.
  - rewrite Z.add_mod_idemp_l, Z.add_mod_idemp_r by lia. f_equal; ring.
  - rewrite Z.mod_1_l, Z.mul_1_l by lia. apply zval_red.
  - f_equal; ring.
  - rewrite Z.mul_mod_idemp_l, Z.mul_mod_idemp_r by lia. f_equal; ring.
  - rewrite Z.mul_mod_idemp_l by lia. rewrite <- Z.add_mod by lia. f_equal; ring.
  - rewrite Z.add_mod_idemp_r by lia. f_equal; ring.
  - rewrite Z.add_mod_idemp_r by lia. f_equal; ring.
  - intros E. apply (f_equal zval) in E. rewrite Z0, Z1 in E. lia.
  - apply Zp_eq. rewrite !zval_mkZp. f_equal.
    fold (mk p (unres (reciprocal p (zval q)))).
    unfold truediv, reciprocal, reciprocal_; cbn [raw].
    destruct (invert (zval q) p) as [y|e]; cbn [bind unres].
    + rewrite mk_mk by exact Hp. unfold mul, mk; cbn [raw]. rewrite Z.mul_mod_idemp_r by lia. reflexivity.
    + unfold mul, mk; cbn [raw]. rewrite Z.mod_0_l, Z.mul_0_r, Z.mod_0_l by lia. reflexivity.
  - apply Zp_eq. rewrite zval_mkZp, Z1.
    assert (Hne : zval p0 <> 0).
    { intros E. apply H. apply Zp_eq. rewrite Z0. exact E. }
    destruct (only_zero_noninvertible p Hp (zval p0) (R p0)) as [_ Hi].
    destruct (Hi Hne) as [r [Er [Rr Hm]]]. rewrite Er. cbn [unres].
    rewrite zval_mkZp. rewrite (Z.mod_small r p) by exact Rr.
    destruct (field_laws p Hp r (zval p0) (zval p0)) as (_ & _ & _ & _ & _ & C & _); auto.
    rewrite C, Hm. apply Z.mod_1_l. lia.
Qed.

Definition FFField (p : Z) (Hp : prime p) : FieldT :=
  {| fops := FFOps p; fth := FF_field_theory p Hp; feq_dec := Zp_dec p |}.
