"""C23 — polynomials over GF(p) form a ring with a correct division algorithm.

Proof: coq/props/C23.v over the executable models coq/theories/Gfpx.v (generic coefficient-list
class) and Gf2x.v (binary int-bitmask class).  Tie: every public operator of gfpx.Polynomial /
BinaryPolynomial is run on the same inputs as the Coq model (vm_compute) and compared exactly
(printed results for the small/random streams, per-row 61-bit rolling hashes of all results for the
large exhaustive pair tables).  Property oracle: an independent schoolbook reference in this file.
"""
import itertools
from lib.core import zlit

MANIFEST = {
    'text': 'Coq theorems (36, all closed under the global context) over the faithful list model of gfpx.Polynomial, for every '
            'prime p and all normal-form coefficient lists of unbounded degree: add/sub/neg/mul, the divmod remainder and the '
            'gcdext outputs are normal forms; coefficient semantics of add/sub/neg; (GF(p)[X],+) is a commutative group (comm, '
            'assoc, zero, inverse, sub = add neg); mul is the convolution reduced mod p (mul_coef + mulz_is_convolution), '
            'commutative, associative, distributive over add, with unit and zero, and _sq = _mul; divmod_spec: divmod(a,b) = '
            '(q,r) implies a = q*b + r and len r < len b, _mod is its second component, division by zero raises; gcdext: Bezout '
            'identity s*a + t*b = g through the Euclid loop, g monic or zero, loop never exhausts its fuel; invert: r = invert(a,b) satisfies r*a + t*b = 1 for some t (Bezout through the shared Euclid loop, scaled by the inverse of the constant gcd), never exhausts its fuel; powmod with a negative exponent is the positive power of that genuine inverse (powmod_neg_correct); powmod with exponent '
            '>= 1 and nonzero modulus returns a reduced normal form and raises for a zero modulus; the binary class '
            'refines the list class at p = 2 for addition/subtraction (xor). The models (incl. gcd, invert, powmod, shifts, '
            'monic, deriv, int conversion, comparisons, evaluation, for both classes) are tied to /repo on every run: all '
            'operators incl. reflected and int-mixed forms on all pairs of degree <= 3 over p in {2,3}, <= 2 over {5,7} '
            '(thorough: <= 3 over 5), binary class to degree 6, and random pairs up to degree 12 over p in {2,3,11,101,2^31-1}, '
            'and powmod for every exponent in -40..40 plus random |n| < 2^64 (invertible and non-invertible bases, all classes, '
            'p up to 2^31-1), compared exactly with vm_compute of the model; an independent schoolbook oracle checks every '
            'implementation result (negative powers: powmod(a,-n,b) = powmod(invert(a,b), n, b) by an independent extended Euclid '
            'and right-to-left square-and-multiply).',
    'note': 'Findings: F-C23-1 (powmod(a, 1, b) unreduced) is repaired in /repo by a226feb (base reduced first) and the models '
            'follow the repaired code; powmod(a, 0, b) = 1 for every b is the package convention (pinned by its own tests) and '
            'is the specified behaviour here. F-C23-2 (BinaryPolynomial.__call__ returns 0 at every even x instead of the '
            'constant coefficient) stays open: tests/test_gfpx.py::test_mod2 asserts poly(7)(0) == 0, so it cannot be '
            'repaired without editing the existing test suite. Trusted: Coq kernel + vm_compute; hand-written models Gfpx.v/Gf2x.v (accumulate loops of _mul/_sq modelled as '
            'row-by-row structural recursion; the `if a_i:` zero-skip is unobservable) tied by exact comparison; large '
            'exhaustive tables compared through per-row 61-bit rolling hashes (collision ~2^-61) rather than printed '
            'values; in the quick tier the model is evaluated on a deterministic sample of table rows for p in {5,7} and the '
            'degree<=6 binary table (all rows in the thorough tier) while implementation+oracle cover every pair. gmpy2.invert modulo p is modelled by Zp.inv_raw (unique inverse for prime p). NOT proved in Coq '
            '(covered only by the implementation-level oracle and the correspondence): gcd is the greatest common divisor '
            '(divides both / universal; only Bezout + monic is proved), finfields ExtensionFieldElement.__pow__ is left to C20, quotient q has no trailing zero (only range proved), wf of lshift/rshift/monic/deriv/from_int, invert raises exactly when gcd(a,b) is non-constant (only the success direction and totality are proved), powmod = repeated multiplication, to_int/from_int order isomorphism, '
            'deriv/reverse/truncate semantics, and the refinement binary-class mul/divmod = list mul/divmod at p = 2 '
            '(only add/sub refinement is proved). _reverse/_truncate/_from_terms/_to_terms are not modelled.',
    'technique': 'Coq proof over executable model (integer-polynomial evaluation semantics + canonical forms) + '
                 'vm_compute differential correspondence + independent reference oracle',
}

# ------------------------------------------------------------------------------------------------
# independent reference arithmetic on coefficient lists (low -> high), plain schoolbook


def r_norm(a):
    a = list(a)
    while a and a[-1] == 0:
        a.pop()
    return a


def r_from_int(p, n):
    neg = n < 0
    n = abs(n)
    c = []
    while n:
        c.append(n % p)
        n //= p
    if neg:
        c = [(-x) % p for x in c]
    return r_norm(c)


def r_to_int(p, a):
    return sum(c * p ** i for i, c in enumerate(a))


def r_add(p, a, b):
    n = max(len(a), len(b))
    return r_norm([((a[i] if i < len(a) else 0) + (b[i] if i < len(b) else 0)) % p for i in range(n)])


def r_neg(p, a):
    return r_norm([(-x) % p for x in a])


def r_sub(p, a, b):
    return r_add(p, a, r_neg(p, b))


def r_mul(p, a, b):
    if not a or not b:
        return []
    c = [0] * (len(a) + len(b) - 1)
    for k in range(len(c)):
        c[k] = sum(a[i] * b[k - i] for i in range(max(0, k - len(b) + 1), min(k, len(a) - 1) + 1)) % p
    return r_norm(c)


def r_divmod(p, a, b):
    assert b
    inv = pow(b[-1], -1, p)
    r = list(a)
    q = [0] * max(0, len(a) - len(b) + 1)
    while len(r) >= len(b):
        d = len(r) - len(b)
        c = r[-1] * inv % p
        q[d] = c
        r = r_norm(r_sub(p, r, [0] * d + [c * x % p for x in b]))
        assert len(r) < d + len(b) or not r
    return r_norm(q), r


def r_monic(p, a):
    if not a:
        return []
    inv = pow(a[-1], -1, p)
    return [x * inv % p for x in a]


def r_gcd(p, a, b):
    a, b = list(a), list(b)
    while b:
        a, b = b, r_divmod(p, a, b)[1]
    return r_monic(p, a)


def r_pow_rep(p, a, n, b):
    """a^n mod b by n-fold repeated multiplication (n >= 0, b != 0)."""
    r = r_divmod(p, [1], b)[1]
    for _ in range(n):
        r = r_divmod(p, r_mul(p, r, a), b)[1]
    return r


def r_invert(p, a, b):
    """inverse of a modulo b (b != 0) by an independent extended Euclid; None if gcd(a, b) != 1."""
    r0, r1 = list(b), r_divmod(p, a, b)[1]
    s0, s1 = [], [1]                       # s_i * a = r_i  (mod b)
    while r1:
        q, r2 = r_divmod(p, r0, r1)
        r0, r1 = r1, r2
        s0, s1 = s1, r_sub(p, s0, r_mul(p, q, s1))
    if len(r0) != 1:
        return None
    c = pow(r0[0], -1, p)
    return r_divmod(p, [x * c % p for x in s0], b)[1]


def r_powmod_sm(p, a, n, b):
    """a^n mod b, n >= 0, right-to-left square-and-multiply (independent of the left-to-right loop in gfpx)."""
    r, base = r_divmod(p, [1], b)[1], r_divmod(p, a, b)[1]
    while n:
        if n & 1:
            r = r_divmod(p, r_mul(p, r, base), b)[1]
        base = r_divmod(p, r_mul(p, base, base), b)[1]
        n >>= 1
    return r


# ------------------------------------------------------------------------------------------------
# canonical encodings

ZERODIV, VALUE, TYPE, OTHER = -1, -2, -4, -9


def guard(f):
    try:
        return f()
    except ZeroDivisionError:
        return ZERODIV
    except ValueError:
        return VALUE
    except TypeError:
        return TYPE
    except Exception:  # noqa
        return OTHER


class Impl:
    """One polynomial class of the implementation with canonical encoders."""

    def __init__(self, gfpx, p, generic=False):
        self.p = p
        if generic and p == 2:
            self.P = type('GF(2)[x]generic', (gfpx.Polynomial,), {'__slots__': (), 'p': 2})
        else:
            self.P = gfpx.GFpX(p)
        self.binary = issubclass(self.P, gfpx.BinaryPolynomial)
        self.name = ('bin' if self.binary else 'gen') + str(p)

    def coef(self, v):
        """internal value -> coefficient list"""
        if self.binary:
            return [(v >> i) & 1 for i in range(v.bit_length())]
        return list(v)

    def enc(self, x):
        """encoding compared with the Coq model: list of ints"""
        if isinstance(x, int) and not isinstance(x, bool) and x < 0:
            return [x]                        # error code
        if isinstance(x, self.P):
            return [x.value] if self.binary else list(x.value)
        raise TypeError('enc: %r' % (x,))

    def uni(self, x):
        """class-independent form: coefficient list or error code"""
        if isinstance(x, self.P):
            return self.coef(x.value)
        return x


def core_items(I, A, B):
    """results of the binary operators on polynomial objects A, B (public API only)."""
    P = I.P
    out = [A + B, A - B, A * B]
    dm = guard(lambda: divmod(A, B))
    out += list(dm) if isinstance(dm, tuple) else [dm, dm]
    out.append(guard(lambda: A % B))
    out.append(guard(lambda: A // B))
    out.append(guard(lambda: P.gcd(A, B)))
    ge = guard(lambda: P.gcdext(A, B))
    out += list(ge) if isinstance(ge, tuple) else [ge] * 3
    out.append(guard(lambda: P.invert(A, B)))
    return out


def cmp_item(A, B):
    return [int(bool(A < B)), int(bool(B < A)), int(bool(A == B))]


SHIFTS_L = (0, 1, 2, -1)
SHIFTS_R = (0, 1, 2, 3, -1, -2)
POWS = (0, 1, 2, 3, 4, -1)
DERIVS = (0, 1, 2, 3)
PWN = (-2, -1, 0, 1, 2, 3, 5)


def call_points(p):
    return sorted({0, 1, 2, p - 1, p + 3})


def unary_items(I, A, ia):
    P = I.P
    out = [-A, +A]
    m, pinv = A.monic(lc_pinv=True)
    out += [m, A.monic()]
    ints = [pinv, int(A), A.degree() + 1, int(bool(A))]
    out += [A.deriv(m) for m in DERIVS]
    out += [guard(lambda n=n: A << n) for n in SHIFTS_L]
    out += [guard(lambda n=n: A >> n) for n in SHIFTS_R]
    out.append(A * A)                                    # same object: the _sq path
    out += [guard(lambda n=n: A ** n) for n in POWS]
    out.append(P(-ia))                                   # negative int coercion
    ints += [A(x) for x in call_points(I.p)]
    return out, ints


def pw_items(I, A, B):
    P = I.P
    return [guard(lambda n=n: P.powmod(A, n, B)) for n in PWN + (I.p,)]


# ---- Coq side -------------------------------------------------------------------------------------

PRE = r'''
Open Scope list_scope.
Open Scope Z_scope.
Definition er (r : res (list Z)) := match r with Ok x => [x] | ZeroDiv => [[-1]] | ValueErr => [[-2]] | NoFuel => [[-3]] end.
Definition er2 (r : res (list Z * list Z)) := match r with Ok (x,y) => [x;y] | ZeroDiv => [[-1];[-1]] | ValueErr => [[-2];[-2]] | NoFuel => [[-3];[-3]] end.
Definition er3 (r : res (list Z * list Z * list Z)) := match r with Ok (x,y,z) => [x;y;z] | ZeroDiv => [[-1];[-1];[-1]] | ValueErr => [[-2];[-2];[-2]] | NoFuel => [[-3];[-3];[-3]] end.
Definition ez (r : res Z) := match r with Ok x => [[x]] | ZeroDiv => [[-1]] | ValueErr => [[-2]] | NoFuel => [[-3]] end.
Definition ez2 (r : res (Z * Z)) := match r with Ok (x,y) => [[x];[y]] | ZeroDiv => [[-1];[-1]] | ValueErr => [[-2];[-2]] | NoFuel => [[-3];[-3]] end.
Definition ez3 (r : res (Z * Z * Z)) := match r with Ok (x,y,z) => [[x];[y];[z]] | ZeroDiv => [[-1];[-1];[-1]] | ValueErr => [[-2];[-2];[-2]] | NoFuel => [[-3];[-3];[-3]] end.
Definition bz (b : bool) : Z := if b then 1 else 0.
Definition leqb (a b : list Z) : bool := (List.length a =? List.length b)%nat && forallb (fun xy => fst xy =? snd xy) (combine a b).
Definition core (p ia ib : Z) : list (list Z) :=
  let a := from_int p ia in let b := from_int p ib in
  [add p a b; sub p a b; mul p a b] ++ er2 (divmod p a b) ++ er (pmod p a b) ++ er (floordiv p a b)
  ++ er (gcd p a b) ++ er3 (gcdext p a b) ++ er (invert p a b).
Definition cmpi (p ia ib : Z) : list Z :=
  let a := from_int p ia in let b := from_int p ib in [bz (lt a b); bz (lt b a); bz (leqb a b)].
Definition unary (p ia : Z) (xs : list Z) : list (list Z) :=
  let a := from_int p ia in
  [neg p a; a; fst (monic_pinv p a); monic p a]
  ++ map (fun m => deriv p a m) [0;1;2;3]%nat
  ++ map (fun n => lshift a n) [0;1;2;-1]
  ++ map (fun n => rshift a n) [0;1;2;3;-1;-2]
  ++ [sq p a]
  ++ flat_map (fun n => er (powmod p a n None)) [0;1;2;3;4;-1]
  ++ [from_int p (- ia)]
  ++ [[snd (monic_pinv p a); to_int p a; Z.of_nat (List.length a); bz (negb (leqb a []))] ++ map (fun x => call p a x) xs].
Definition pw (p ia ib : Z) : list (list Z) :=
  let a := from_int p ia in let b := from_int p ib in
  flat_map (fun n => er (powmod p a n (Some b))) [-2;-1;0;1;2;3;5;p].
(* binary class *)
Definition core2 (a b : Z) : list (list Z) :=
  [[add2 a b]; [add2 a b]; [mul2 a b]] ++ ez2 (divmod2 a b) ++ ez (mod2 a b)
  ++ ez (bind (divmod2 a b) (fun qr => Ok (fst qr)))
  ++ ez (gcd2 a b) ++ ez3 (gcdext2 a b) ++ ez (invert2 a b).
Definition cmpi2 (a b : Z) : list Z := [bz (lt2 a b); bz (lt2 b a); bz (a =? b)].
Definition unary2 (a : Z) (xs : list Z) : list (list Z) :=
  [[a]; [a]; [fst (monic_pinv2 a)]; [a]]
  ++ map (fun m => [deriv2 a m]) [0;1;2;3]%nat
  ++ flat_map (fun n => ez (lshift2 a n)) [0;1;2;-1]
  ++ flat_map (fun n => ez (rshift2 a n)) [0;1;2;3;-1;-2]
  ++ [[mul2 a a]]
  ++ flat_map (fun n => ez (powmod2 a n None)) [0;1;2;3;4;-1]
  ++ [[from_int2 (- a)]]
  ++ [[snd (monic_pinv2 a); a; blen a; bz (negb (a =? 0))] ++ map (fun x => call2 a x) xs].
Definition pw2 (a b : Z) : list (list Z) :=
  flat_map (fun n => ez (powmod2 a n (Some b))) [-2;-1;0;1;2;3;5;2].
Definition pwd (p ia ib : Z) (ns : list Z) : list (list Z) :=
  let a := from_int p ia in let b := from_int p ib in flat_map (fun n => er (powmod p a n (Some b))) ns.
Definition pwd0 (p ia : Z) (ns : list Z) : list (list Z) :=
  let a := from_int p ia in flat_map (fun n => er (powmod p a n None)) ns.
Definition pwd2 (a b : Z) (ns : list Z) : list (list Z) := flat_map (fun n => ez (powmod2 a n (Some b))) ns.
Definition pwd20 (a : Z) (ns : list Z) : list (list Z) := flat_map (fun n => ez (powmod2 a n None)) ns.
(* rolling hash of result tables *)
Definition HQ := 2305843009213693951.
Definition hz (h x : Z) := (h * 1000003 + x + 7) mod HQ.
Definition hl (h : Z) (l : list Z) := hz (fold_left hz l h) (-5).
Definition hll (h : Z) (l : list (list Z)) := fold_left hl l h.
Fixpoint rowh (f : Z -> list (list Z)) (n : nat) (ib h : Z) : Z :=
  match n with O => h | S n' => rowh f n' (ib + 1) (hll h (f ib)) end.
Definition rowhash (p ia : Z) (n : nat) : Z := rowh (fun ib => core p ia ib ++ [cmpi p ia ib]) n 0 1.
Definition rowhash2 (ia : Z) (n : nat) : Z := rowh (fun ib => core2 ia ib ++ [cmpi2 ia ib]) n 0 1.
'''

HQ = 2305843009213693951


def hll(h, ll):
    for l in ll:
        for x in l:
            h = (h * 1000003 + x + 7) % HQ
        h = (h * 1000003 + 2) % HQ
    return h


def zl(xs):
    return '[' + '; '.join('(%d)' % x for x in xs) + ']'


# ---- the property oracle on implementation results ------------------------------------------------

def oracle_pair(ctx, I, ia, ib, items, cmpv):
    """check ring/division/gcd laws for one pair against the independent reference."""
    p = I.p
    a, b = r_from_int(p, ia), r_from_int(p, ib)
    u = [I.uni(x) for x in items]
    s, d, m, q, r, md, fd, g, ge_g, ge_s, ge_t, inv = u

    def bad(what, got, want):
        ctx.violation('%s %s' % (what, I.name), {'class': I.name, 'p': p, 'a': ia, 'b': ib, 'a_coef': a, 'b_coef': b,
                                                'got': got, 'want': want})

    if s != r_add(p, a, b):
        bad('add-wrong', s, r_add(p, a, b))
    if d != r_sub(p, a, b):
        bad('sub-wrong', d, r_sub(p, a, b))
    if m != r_mul(p, a, b):
        bad('mul-wrong', m, r_mul(p, a, b))
    if not b:
        for nm, v in (('divmod', q), ('divmod', r), ('mod', md), ('floordiv', fd), ('invert', inv)):
            if v != ZERODIV:
                bad('%s-by-zero-no-ZeroDivisionError' % nm, v, 'ZeroDivisionError')
    else:
        if not (isinstance(q, list) and isinstance(r, list)):
            bad('divmod-raised', [q, r], 'quotient, remainder')
        else:
            if r_add(p, r_mul(p, q, b), r) != a or not len(r) < len(b) or r_norm(q) != q or r_norm(r) != r:
                bad('divmod-spec', [q, r], list(r_divmod(p, a, b)))
            if md != r or fd != q:
                bad('mod-floordiv-inconsistent', [fd, md], [q, r])
    # gcd: monic, divides both, Bezout (so every common divisor divides it)
    rg = r_gcd(p, a, b)
    if g != rg:
        bad('gcd-wrong', g, rg)
    if isinstance(g, list) and g:
        if g[-1] != 1 or (a and r_divmod(p, a, g)[1]) or (b and r_divmod(p, b, g)[1]):
            bad('gcd-not-monic-common-divisor', g, rg)
    if not (isinstance(ge_g, list) and isinstance(ge_s, list) and isinstance(ge_t, list)):
        bad('gcdext-raised', [ge_g, ge_s, ge_t], 'triple')
    else:
        if ge_g != rg or r_add(p, r_mul(p, ge_s, a), r_mul(p, ge_t, b)) != ge_g:
            bad('gcdext-bezout', [ge_g, ge_s, ge_t], rg)
        if r_norm(ge_s) != ge_s or r_norm(ge_t) != ge_t:
            bad('gcdext-not-normal-form', [ge_s, ge_t], None)
    if b:
        if len(rg) == 1:
            one = r_divmod(p, [1], b)[1]
            if not isinstance(inv, list) or r_divmod(p, r_mul(p, inv, a), b)[1] != one or not (len(inv) < len(b) or not inv):
                bad('invert-wrong', inv, 'x with x*a = 1 mod b, deg x < deg b')
        elif inv != ZERODIV:
            bad('invert-of-non-unit', inv, 'ZeroDivisionError')
    want = [int(r_to_int(p, a) < r_to_int(p, b)), int(r_to_int(p, b) < r_to_int(p, a)), int(a == b)]
    if cmpv != want:
        bad('compare-wrong', cmpv, want)


def oracle_unary(ctx, I, ia, items, ints):
    p = I.p
    a = r_from_int(p, ia)
    u = [I.uni(x) for x in items]

    def bad(what, got, want):
        ctx.violation('%s %s' % (what, I.name), {'class': I.name, 'p': p, 'a': ia, 'a_coef': a, 'got': got, 'want': want})

    k = 0
    ng, ps, mo, mo2 = u[0:4]
    k = 4
    if ng != r_neg(p, a) or ps != a:
        bad('neg-pos-wrong', [ng, ps], [r_neg(p, a), a])
    if mo != r_monic(p, a) or mo2 != mo:
        bad('monic-wrong', mo, r_monic(p, a))
    if ints[0] != (pow(a[-1], -1, p) if a else 0):
        bad('monic-pinv-wrong', ints[0], None)
    for m_ in DERIVS:
        want = list(a)
        for _ in range(m_):
            want = r_norm([(i * c) % p for i, c in enumerate(want)][1:])
        if u[k] != want:
            bad('deriv-wrong m=%d' % m_, u[k], want)
        k += 1
    for n in SHIFTS_L:
        if n >= 0 and u[k] != r_mul(p, a, [0] * n + [1]):
            bad('lshift-wrong', u[k], None)
        k += 1
    for n in SHIFTS_R:
        if n >= 0 and u[k] != a[n:]:
            bad('rshift-wrong', u[k], a[n:])
        k += 1
    if u[k] != r_mul(p, a, a):
        bad('square-wrong', u[k], r_mul(p, a, a))
    k += 1
    for n in POWS:
        if n >= 0:
            want = [1]
            for _ in range(n):
                want = r_mul(p, want, a)
            if u[k] != want:
                bad('pow-wrong n=%d' % n, u[k], want)
        elif u[k] != VALUE:
            bad('negative-pow-without-modulus', u[k], 'ValueError')
        k += 1
    if u[k] != r_neg(p, a):
        bad('from-negative-int-wrong', u[k], r_neg(p, a))
    if ints[1] != ia or ints[2] != len(a) or ints[3] != int(bool(a)):
        bad('int-degree-bool-wrong', ints[1:4], [ia, len(a), int(bool(a))])
    for x, got in zip(call_points(p), ints[4:]):
        want = sum(c * x ** i for i, c in enumerate(a)) % p
        if got != want:
            if I.binary and x % 2 == 0:
                bad('binary-call-even-x', {'x': x, 'got': got}, want)
            else:
                bad('call-wrong', {'x': x, 'got': got}, want)


def oracle_pw(ctx, I, ia, ib, items):
    """powmod(a, n, b): n = 0 -> 1 (the package's convention, whatever b); n >= 1 -> n-fold repeated multiplication
    modulo b, ZeroDivisionError for b = 0; n < 0 -> the inverse of a^(-n) modulo b (ZeroDivisionError if none)."""
    p = I.p
    a, b = r_from_int(p, ia), r_from_int(p, ib)
    u = [I.uni(x) for x in items]
    for n, got in zip(PWN + (p,), u):
        if n == 0:
            want = [1]
        elif not b:
            want = ZERODIV
        elif p > 50 and n == p:
            # repeated multiplication p times is too long; use square-and-multiply on the reference
            want, base, e = r_divmod(p, [1], b)[1], r_divmod(p, a, b)[1], n
            while e:
                if e & 1:
                    want = r_divmod(p, r_mul(p, want, base), b)[1]
                base = r_divmod(p, r_mul(p, base, base), b)[1]
                e >>= 1
        elif n >= 0:
            want = r_pow_rep(p, a, n, b)
        else:
            if len(r_gcd(p, a, b)) != 1:
                want = ZERODIV
            else:
                want = None
                if isinstance(got, list):
                    one = r_divmod(p, [1], b)[1]
                    chk = r_divmod(p, r_mul(p, got, r_pow_rep(p, a, -n, b)), b)[1]
                    if chk == one and (len(got) < len(b) or not got):
                        want = got
                if want is None:
                    want = 'inverse power'
        if got != want:
            ctx.violation('powmod-wrong n=%d %s' % (n, I.name), {'class': I.name, 'p': p, 'a': ia, 'b': ib, 'n': n, 'a_coef': a,
                                                                  'b_coef': b, 'got': got, 'want': want})


def ring_laws(ctx, I, A, B, C, key):
    P = I.P
    Z, ONE = P(0), P(1)

    def bad(what):
        ctx.violation('ring-law %s %s' % (what, I.name), {'class': I.name, 'p': I.p, 'abc': key})

    if (A + B) + C != A + (B + C):
        bad('add-assoc')
    if A + B != B + A:
        bad('add-comm')
    if A + Z != A or Z + A != A:
        bad('add-zero')
    if A + (-A) != Z or A - A != Z:
        bad('add-inverse')
    if A - B != A + (-B):
        bad('sub-is-add-neg')
    if (A * B) * C != A * (B * C):
        bad('mul-assoc')
    if A * B != B * A:
        bad('mul-comm')
    if A * ONE != A or ONE * A != A:
        bad('mul-one')
    if A * (B + C) != A * B + A * C or (A + B) * C != A * C + B * C:
        bad('distrib')
    if bool(A * B) != (bool(A) and bool(B)):
        bad('zero-divisor')
    if A and B and (A * B).degree() != A.degree() + B.degree():
        bad('degree-of-product')


def mixing(ctx, I, A, B, ia, ib):
    """reflected forms and int mixing must agree with the polynomial-only forms."""
    P = I.P

    def g(f):
        r = guard(f)
        if isinstance(r, tuple):
            return tuple(I.uni(x) for x in r)
        return I.uni(r)

    forms = [
        ('radd', lambda: ia + B, lambda: A + B), ('add-int', lambda: A + ib, lambda: A + B),
        ('rsub', lambda: ia - B, lambda: A - B), ('sub-int', lambda: A - ib, lambda: A - B),
        ('rmul', lambda: ia * B, lambda: A * B), ('mul-int', lambda: A * ib, lambda: A * B),
        ('rfloordiv', lambda: ia // B, lambda: A // B), ('floordiv-int', lambda: A // ib, lambda: A // B),
        ('rmod', lambda: ia % B, lambda: A % B), ('mod-int', lambda: A % ib, lambda: A % B),
        ('rdivmod', lambda: divmod(ia, B), lambda: divmod(A, B)), ('divmod-int', lambda: divmod(A, ib), lambda: divmod(A, B)),
        ('classmethod-add', lambda: P.add(ia, ib), lambda: A + B), ('classmethod-sub', lambda: P.sub(A, ib), lambda: A - B),
        ('classmethod-mul', lambda: P.mul(ia, B), lambda: A * B), ('classmethod-mod', lambda: P.mod(ia, ib), lambda: A % B),
        ('classmethod-divmod', lambda: P.divmod(ia, ib), lambda: divmod(A, B)),
        ('classmethod-gcd', lambda: P.gcd(ia, ib), lambda: P.gcd(A, B)),
        ('neg-int', lambda: (-ia) + B, lambda: (-A) + B),
        ('list-coerce', lambda: P(I.coef(A.value)) + B if not I.binary else A + B, lambda: A + B),
        ('le', lambda: P(int(bool(A <= B))), lambda: P(int(not bool(B < A)))),
        ('ge', lambda: P(int(bool(A >= B))), lambda: P(int(not bool(A < B)))),
        ('gt', lambda: P(int(bool(A > B))), lambda: P(int(bool(B < A)))),
        ('ne', lambda: P(int(bool(A != B))), lambda: P(int(not bool(A == B)))),
        ('eq-int', lambda: P(int(bool(A == ib))), lambda: P(int(bool(A == B)))),
        ('lt-int', lambda: P(int(bool(A < ib))), lambda: P(int(bool(A < B)))),
    ]
    for nm, f1, f2 in forms:
        x, y = g(f1), g(f2)
        if x != y:
            ctx.violation('mixing %s %s' % (nm, I.name), {'class': I.name, 'p': I.p, 'a': ia, 'b': ib, 'got': x, 'want': y})


def error_stream(ctx, gfpx, I):
    P = I.P
    A = P(I.p + 1)
    other = gfpx.GFpX(13)
    exp = [
        ('add-float', lambda: A + 1.5, TYPE), ('radd-float', lambda: 1.5 + A, TYPE), ('mul-none', lambda: A * None, TYPE),
        ('lshift-float', lambda: A << 1.0, TYPE), ('rlshift', lambda: 1 << A, TYPE), ('rrshift', lambda: 1 >> A, TYPE),
        ('other-field', lambda: A + other(1), TYPE), ('lt-float', lambda: A < 1.5, TYPE),
        ('intern-float', lambda: P(1.5), TYPE),
        ('div-zero', lambda: A // 0, ZERODIV), ('mod-zero', lambda: A % P(0), ZERODIV), ('divmod-zero', lambda: divmod(A, 0), ZERODIV),
        ('invert-zero', lambda: P.invert(A, 0), ZERODIV), ('rmod-zero', lambda: 5 % P(0), ZERODIV),
        ('neg-pow', lambda: A ** -2, VALUE), ('nonprime', lambda: gfpx.GFpX(4), VALUE), ('nonprime1', lambda: gfpx.GFpX(1), VALUE),
    ]
    if not I.binary:
        exp += [('coef-range', lambda: P([0, I.p]), VALUE), ('coef-neg', lambda: P([-1]), VALUE), ('coef-type', lambda: P([0.5]), VALUE)]
    for nm, f, want in exp:
        got = guard(f)
        ctx.case({'err': nm, 'class': I.name}, nontrivial=True, kind='error-stream')
        if got != want:
            ctx.violation('error-stream %s %s' % (nm, I.name), {'class': I.name, 'case': nm, 'got': str(got), 'want': want})
    if A == object() or not (A != object()):
        ctx.violation('error-stream eq-foreign-object %s' % I.name, {'class': I.name})


# ------------------------------------------------------------------------------------------------

def run(ctx):
    from mpyc import gfpx
    ok = ctx.build(['MPyC.Gfpx', 'MPyC.Gf2x']) and ctx.check_props()
    # at most 5 replay files per failing class (a broken operator fails on most of a table)
    _viol, _seen = ctx.violation, {}

    def limited(sig, detail, found_input=True):
        import re as _re
        k = _re.sub(r'\d+', 'N', sig)
        _seen[k] = _seen.get(k, 0) + 1
        if _seen[k] <= 5:
            return _viol(sig, detail, found_input)
        return 'suppressed'
    ctx.violation = limited
    rng = ctx.rng
    ctx.rule = ('case = (class, p, int(a), int(b)); exhaustive pairs: degree<=3 over p in {2,3,5}, <=2 over 7 (both classes '
                'for p=2, binary also to degree<=6); random pairs to degree 12 over p in {2,3,11,101,2^31-1}; non-trivial when '
                'a != b and both nonzero; every public operator incl. reflected/int-mixed forms, error stream separate')
    ctx.explanation = ('Coq theorems over the list model for all primes and all normal forms; model vs implementation '
                       'compared exactly on the streams above; independent schoolbook oracle on every implementation result')
    thorough = ctx.tier == 'thorough'
    impls = {}

    def impl(p, generic=False):
        k = (p, generic and p == 2)
        if k not in impls:
            impls[k] = Impl(gfpx, p, generic)
        return impls[k]

    exprs, expect, meta = [], [], []

    def full_case(I, ia, ib, kind):
        """everything on one pair, exact comparison with the model"""
        P = I.P
        A, B = P(ia), P(ib)
        c = core_items(I, A, B)
        cv = cmp_item(A, B)
        un, ints = unary_items(I, A, ia)
        pwv = pw_items(I, A, B)
        oracle_pair(ctx, I, ia, ib, c, cv)
        oracle_unary(ctx, I, ia, un, ints)
        oracle_pw(ctx, I, ia, ib, pwv)
        mixing(ctx, I, A, B, ia, ib)
        want = [I.enc(x) for x in c] + [cv] + [I.enc(x) for x in un] + [ints] + [I.enc(x) for x in pwv]
        xs = zl(call_points(I.p))
        if I.binary:
            e = 'core2 %d %d ++ [cmpi2 %d %d] ++ unary2 %d %s ++ pw2 %d %d' % (ia, ib, ia, ib, ia, xs, ia, ib)
        else:
            e = 'core %d %d %d ++ [cmpi %d %d %d] ++ unary %d %d %s ++ pw %d %d %d' % (
                I.p, ia, ib, I.p, ia, ib, I.p, ia, xs, I.p, ia, ib)
        exprs.append(e)
        expect.append(want)
        key = {'class': I.name, 'p': I.p, 'a': ia, 'b': ib}
        meta.append(key)
        ctx.case(key, nontrivial=bool(ia and ib and ia != ib), kind=kind)
        return c, cv, un, ints, pwv

    # ---- stream 1: small exhaustive, everything, exact; binary vs generic cross-comparison for p = 2
    for p, deg in ((2, 3), (3, 2), (5, 1)):
        n = p ** (deg + 1)
        for ia in range(n):
            for ib in range(n):
                res = {}
                for gen in ((False, True) if p == 2 else (False,)):
                    I = impl(p, gen)
                    res[gen] = (I, full_case(I, ia, ib, 'exhaustive-full %s' % I.name))
                if p == 2:
                    (Ib, rb), (Ig, rg_) = res[False], res[True]
                    fb = [Ib.uni(x) for x in rb[0] + rb[2] + rb[4]] + [rb[1], rb[3]]
                    fg = [Ig.uni(x) for x in rg_[0] + rg_[2] + rg_[4]] + [rg_[1], rg_[3]]
                    for i_, (x, y) in enumerate(zip(fb, fg)):
                        if x != y:
                            neg_shift = x == VALUE and isinstance(y, list)      # binary int shift rejects n < 0
                            if neg_shift:
                                continue
                            if i_ == len(fb) - 1:
                                # int items: only the evaluation at even x is known to differ
                                sig = 'binary-call-even-x vs generic'
                            else:
                                sig = 'binary-vs-generic item %d' % i_
                            ctx.violation(sig, {'p': 2, 'a': ia, 'b': ib, 'binary': x, 'generic': y, 'item': i_})
    # ---- stream 2: random pairs to degree 12
    bigp = [2, 3, 11, 101, 2 ** 31 - 1]
    for p in bigp:
        for rep in range(ctx.n(24, 400)):
            da, db = rng.randint(0, 12), rng.randint(0, 12)
            if rep % 5 == 0:
                db = min(db, 3)

            def rnd(d):
                cs = [rng.choice([0, 0, 1, p - 1, rng.randrange(p)]) for _ in range(d)] + [rng.randrange(1, p)]
                return r_to_int(p, cs)
            ia, ib = rnd(da), rnd(db)
            if rep % 11 == 0:
                ib = r_to_int(p, r_mul(p, r_from_int(p, ib), r_from_int(p, rnd(rng.randint(0, 3)))))   # common factor
                ia = r_to_int(p, r_mul(p, r_from_int(p, ia % (p ** 6)), r_from_int(p, ib % (p ** 4))))
            for gen in ((False, True) if p == 2 else (False,)):
                I = impl(p, gen)
                full_case(I, ia, ib, 'random %s' % I.name)
    # ---- stream 3: ring laws on triples (implementation-level oracle)
    nt = 0
    for p, deg in ((2, 2), (3, 2), (5, 1)) if not thorough else ((2, 3), (3, 2), (5, 1), (7, 1)):
        n = p ** (deg + 1)
        for gen in ((False, True) if p == 2 else (False,)):
            I = impl(p, gen)
            objs = [I.P(i) for i in range(n)]
            for ia in range(n):
                for ib in range(n):
                    for ic in range(n):
                        ring_laws(ctx, I, objs[ia], objs[ib], objs[ic], [ia, ib, ic])
                        nt += 1
            ctx.case({'triples': I.name, 'n': n}, nontrivial=True, kind='ring-law-triples-exhaustive')
    for p in bigp:
        for gen in ((False, True) if p == 2 else (False,)):
            I = impl(p, gen)
            for rep in range(ctx.n(60, 600)):
                tr = [r_to_int(p, [rng.randrange(p) for _ in range(rng.randint(0, 12))] + [rng.randrange(1, p)]) * rng.choice([1, 1, 1, 0])
                      for _ in range(3)]
                ring_laws(ctx, I, I.P(tr[0]), I.P(tr[1]), I.P(tr[2]), tr)
                nt += 1
                ctx.case({'triple': tr, 'class': I.name}, nontrivial=all(tr), kind='ring-law-triples-random')
    ctx.extra['ring_law_triples'] = nt
    # ---- stream 2b: powmod over a dense exponent range, negative exponents included (every n in -40..40, random |n| < 2^64),
    #      invertible and non-invertible bases, with and without modulus; oracle: powmod(a, -n, b) = powmod(invert(a, b), n, b)
    #      by an independent extended Euclid + right-to-left square-and-multiply; also compared with the Coq model
    npw = 0
    for p, gen in ((2, False), (2, True), (3, False), (5, False), (7, False), (11, False), (101, False), (2 ** 31 - 1, False)):
        I = impl(p, gen)
        P = I.P
        pairs = []
        for rep in range(ctx.n(6, 30)):
            db = rng.randint(1, 4) if p < 1000 else rng.randint(1, 3)
            b = [rng.randrange(p) for _ in range(db)] + [rng.randrange(1, p)]
            a = [rng.randrange(p) for _ in range(rng.randint(0, 6))] + [rng.randrange(1, p)]
            if rep % 3 == 2:                    # force a common factor: not invertible
                f_ = [rng.randrange(p), 1]
                a, b = r_mul(p, a[:3] or [1], f_), r_mul(p, b[:3], f_)
                if not r_norm(b):               # b[:3] happened to be all zero: the modulus must be nonzero
                    b = list(f_)
            pairs.append((r_to_int(p, r_norm(a)), r_to_int(p, r_norm(b))))
        pairs += [(p + 1, p * p + 1), (1, p), (0, p + 1), (p + 1, 1)]          # X+1 mod X^2+1; 1 mod X; 0; constant modulus
        for ia, ib in pairs:
            a, b = r_from_int(p, ia), r_from_int(p, ib)
            ns = list(range(-40, 41)) + [s * rng.randrange(1, 2 ** rng.choice([8, 16, 33, 64])) for s in (1, -1) for _ in range(5)]
            A, B = P(ia), P(ib)
            inv = r_invert(p, a, b)
            got_all, got0 = [], []
            for n in ns:
                got = I.uni(guard(lambda: P.powmod(A, n, B)))
                got_all.append(guard(lambda: P.powmod(A, n, B)))
                if n == 0:
                    want = [1]
                elif n > 0:
                    want = r_powmod_sm(p, a, n, b)
                else:
                    want = ZERODIV if inv is None else r_powmod_sm(p, inv, -n, b)
                npw += 1
                if got != want:
                    ctx.violation('powmod-wrong n=%d %s' % (n, I.name), {'class': I.name, 'p': p, 'a': ia, 'b': ib, 'n': n,
                                                                          'a_coef': a, 'b_coef': b, 'got': got, 'want': want,
                                                                          'invertible': inv is not None})
            ns0 = list(range(-3, 7))
            for n in ns0:                       # no modulus: n < 0 -> ValueError, else plain power
                g0 = guard(lambda: A ** n)
                got0.append(g0)
                want = VALUE
                if n >= 0:
                    want = [1]
                    for _ in range(n):
                        want = r_mul(p, want, a)
                if I.uni(g0) != want:
                    ctx.violation('pow-wrong n=%d %s' % (n, I.name), {'class': I.name, 'p': p, 'a': ia, 'n': n, 'got': I.uni(g0),
                                                                       'want': want})
            if I.binary:
                e = 'pwd2 %d %d %s ++ pwd20 %d %s' % (ia, ib, zl(ns), ia, zl(ns0))
            else:
                e = 'pwd %d %d %d %s ++ pwd0 %d %d %s' % (p, ia, ib, zl(ns), p, ia, zl(ns0))
            exprs.append(e)
            expect.append([I.enc(x) for x in got_all + got0])
            key = {'class': I.name, 'p': p, 'a': ia, 'b': ib, 'stream': 'powmod-dense', 'ns': ns[81:]}
            meta.append(key)
            ctx.case(key, nontrivial=len(b) > 1, kind='powmod-dense %s' % I.name)
    ctx.extra['powmod_dense_evaluations'] = npw
    # ---- stream 4: error inputs
    for p in (2, 3, 101):
        error_stream(ctx, gfpx, impl(p))
    error_stream(ctx, gfpx, impl(2, True))
    # ---- stream 5: large exhaustive pair tables, per-row hashes
    tables = [(2, 3, False), (2, 3, True), (3, 3, False), (5, ctx.n(2, 3), False), (7, 2, False), (2, ctx.n(6, 8), False)]
    hex_, hmeta = [], []
    npairs = 0
    for p, deg, gen in tables:
        I = impl(p, gen)
        n = p ** (deg + 1)
        objs = [I.P(i) for i in range(n)]
        # rows sent to the Coq model: all of them (thorough) / a deterministic sample incl. boundary rows (quick);
        # the implementation + oracle always run on the whole table
        budget = n if thorough else {2: 40, 3: 81, 5: 30, 7: 14}[p]
        coq_rows = set(range(n)) if budget >= n else set([0, 1, p, n - 1] + rng.sample(range(n), budget - 4))
        for ia in range(n):
            h = 1
            A = objs[ia]
            for ib in range(n):
                B = objs[ib]
                c = core_items(I, A, B)
                cv = cmp_item(A, B)
                oracle_pair(ctx, I, ia, ib, c, cv)
                h = hll(h, [I.enc(x) for x in c] + [cv])
            npairs += n
            if ia not in coq_rows:
                continue
            hex_.append(('rowhash2 %d %d%%nat' % (ia, n)) if I.binary else ('rowhash %d %d %d%%nat' % (p, ia, n)))
            hmeta.append(({'class': I.name, 'p': p, 'a': ia, 'b': 'all %d' % n}, h))
            ctx.case({'table': I.name, 'deg': deg, 'a': ia}, nontrivial=ia > 0, kind='exhaustive-table-row %s deg<=%d' % (I.name, deg))
        ctx.log('table %s deg<=%d: %d pairs through implementation + oracle' % (I.name, deg, n * n))
    ctx.extra['exhaustive'] = True
    ctx.extra['exhaustive_pairs'] = npairs
    ctx.evaluations += npairs
    # ---- model evaluation
    if ok:
        ctx.log('evaluating %d full cases and %d table rows in Coq' % (len(exprs), len(hex_)))
        res = ctx.coq_eval(['MPyC.Gfpx', 'MPyC.Gf2x'], exprs, preamble=PRE, chunk=max(40, len(exprs) // 12 + 1))
        mism = 0
        for r, want, key in zip(res, expect, meta):
            if r != want:
                mism += 1
                if isinstance(r, list) and len(r) == len(want):
                    diff = [(i, r[i], want[i]) for i in range(len(want)) if r[i] != want[i]][:3]
                else:
                    diff = str(r)[:400]
                ctx.broken.append({'kind': 'correspondence', 'case': key, 'item,model,impl': diff})
        nch = 12
        order = sorted(range(len(hex_)), key=lambda i: (i % nch, i))        # spread the expensive p=7 rows over all chunks
        hex_ = [hex_[i] for i in order]
        hmeta = [hmeta[i] for i in order]
        hres = ctx.coq_eval(['MPyC.Gfpx', 'MPyC.Gf2x'], hex_, preamble=PRE, chunk=max(8, (len(hex_) + nch - 1) // nch), tag='C23h')
        for r, (key, h) in zip(hres, hmeta):
            if r != h:
                mism += 1
                ctx.broken.append({'kind': 'correspondence-row-hash', 'case': key, 'model': str(r)[:200], 'impl': h})
        ctx.extra['traces_validated_against_impl'] = len(exprs) + npairs - mism
        ctx.log('model/implementation disagreements: %d' % mism)
    ctx.notes.append('binary __call__ at even x is reported as finding F-C23-2 when hit; powmod(a, 0, b) = 1 is the specified convention')
    if ctx.broken and not ctx.violations:
        ctx.unproved('C23 model/proof', {'broken': ctx.broken[:5]})
