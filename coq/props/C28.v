(** C28 — secure group operations match plain group operations.  Only statements; proofs are in
    theories/SecGrp.v (model of secgroups.repeat_secret_base_secret_output and
    repeat_public_base_secret_output / _public_output) and theories/SecFld.v (if_else). *)
Require Import MPyC.Field MPyC.SecFld MPyC.SecGrp.
From Coq Require Import ZArith List.
Import ListNotations.
Local Open Scope nat_scope.

(** ** secret base, secret exponent: square-and-multiply over the exponent bits with if_else,
    for every group, every bit length l >= 1 and every exponent 0 <= x < 2^l *)
Theorem C28_repeat_bits_correct :
  forall (G : GroupT) (a : G) (l x : nat), 0 < l -> x < 2 ^ l ->
    repeat_bits a (nat_bits l x) = Some (gpow a x).
Proof. exact repeat_bits_correct. Qed.
Print Assumptions C28_repeat_bits_correct.

Theorem C28_repeat_bits_value :
  forall (G : GroupT) (a : G) (x : list bool), x <> [] -> repeat_bits a x = Some (gpow a (bits_val x)).
Proof. exact repeat_bits_value. Qed.
Print Assumptions C28_repeat_bits_value.

(** if_else on the coordinates of a group element (field values) selects *)
Theorem C28_if_else_selects :
  forall (K : FieldT) (x y : K), if_else (f1 K) x y = x /\ if_else (f0 K) x y = y.
Proof. intros K x y. split; [apply if_else_1|apply if_else_0]. Qed.
Print Assumptions C28_if_else_selects.

(** ** public base: the parties' local powers a^(e_i), e_i = int(lambda_i x_i), multiply to a^x
    for every sharing xs of x under the recombination vector lams over the exponent field Z_P —
    PROVIDED a^P = 1, i.e. ord(a) divides the order P of the exponent field.  The hypothesis is
    forced by the proof: in general the result is a^x * a^(jP) (second theorem), and it is
    necessary (third theorem, F-C28). *)
Theorem C28_repeat_public_base_correct :
  forall (G : GroupT) (signed : bool) (P : Z) (lams xs : list Z) (a : G) (x : Z),
    P <> 0%Z -> recombined P lams xs = (x mod P)%Z -> zpow a P = gid G ->
    repeat_public_base signed P lams xs a = zpow a x.
Proof. exact repeat_public_base_correct. Qed.
Print Assumptions C28_repeat_public_base_correct.

Theorem C28_repeat_public_base_general :
  forall (G : GroupT) (signed : bool) (P : Z) (lams xs : list Z) (a : G) (x : Z),
    P <> 0%Z -> recombined P lams xs = (x mod P)%Z ->
    exists j : Z, repeat_public_base signed P lams xs a = gop G (zpow a x) (zpow a (j * P)).
Proof. exact repeat_public_base_general. Qed.
Print Assumptions C28_repeat_public_base_general.

Theorem C28_repeat_public_base_refuted :
  exists (G : GroupT) (signed : bool) (P : Z) (lams xs : list Z) (a : G) (x : Z),
    P <> 0%Z /\ recombined P lams xs = (x mod P)%Z /\ repeat_public_base signed P lams xs a <> zpow a x.
Proof. exact repeat_public_base_refuted. Qed.
Print Assumptions C28_repeat_public_base_refuted.

Theorem C28_repeat_public_base_refuted_signed :
  exists (G : GroupT) (P : Z) (lams xs : list Z) (a : G) (x : Z),
    P <> 0%Z /\ recombined P lams xs = (x mod P)%Z /\ repeat_public_base true P lams xs a <> zpow a x.
Proof. exact repeat_public_base_refuted_signed. Qed.
Print Assumptions C28_repeat_public_base_refuted_signed.

(** exponent laws used above, for every group and all integers *)
Theorem C28_zpow_add : forall (G : GroupT) (a : G) (x y : Z), zpow a (x + y) = gop G (zpow a x) (zpow a y).
Proof. exact zpow_add. Qed.
Print Assumptions C28_zpow_add.

Theorem C28_zpow_fast_eq : forall (G : GroupT) (a : G) (z : Z), zpow_fast a z = zpow a z.
Proof. exact zpow_fast_eq. Qed.
Print Assumptions C28_zpow_fast_eq.

(** ** non-vacuity: cyclic group of order 3, exponent field Z_3 (ord(a) = 3 divides P = 3),
    3 parties cannot share over Z_3 so use P = 3 with two parties (points 1,2: lambda = (2, -1)):
    sharing f = 2 + X of x = 2 (shares 0, 1) *)
Example C28_nonvacuous_public :
  recombined 3 [2; 2]%Z [0; 1]%Z = (2 mod 3)%Z /\ zpow (G := C3Group) c3_1 3 = gid C3Group /\
  repeat_public_base (G := C3Group) false 3 [2; 2]%Z [0; 1]%Z c3_1 = c3_2.
Proof. vm_compute. repeat split. Qed.

Example C28_nonvacuous_bits :
  repeat_bits (G := C3Group) c3_1 (nat_bits 4 11) = Some c3_2 /\ gpow (G := C3Group) c3_1 11 = c3_2.
Proof. vm_compute. split; reflexivity. Qed.
