(** C38 — secure polynomial arithmetic agrees with plain polynomial arithmetic; only the length
    bound is public.  Only statements; proofs are in theories/SecPoly.v.
    A secure polynomial is a padded coefficient list (low -> high) over a field K; [strip isz]
    removes trailing zeros ([isz] is any zero test: isz x = true <-> x = 0).  [ref_*] are the plain
    operations on normal forms (compute, then normalise), as gfpx does. *)
Require Import MPyC.Base MPyC.Field MPyC.Poly MPyC.Zp MPyC.SecPoly.
Require MPyC.Gfpx.
From Coq Require Import ZArith Znumtheory.
Local Open Scope nat_scope.

Definition ZeroTest (K : FieldT) (isz : K -> bool) : Prop := forall x, isz x = true <-> x = f0 K.

(** the normal form is determined by the coefficient function, and coefficients are unchanged *)
Theorem C38_strip_canonical :
  forall (K : FieldT) (isz : K -> bool), ZeroTest K isz ->
  forall a b : list K,
    (strip isz a = strip isz b <-> forall k, nth k a (f0 K) = nth k b (f0 K)) /\
    strip isz (strip isz a) = strip isz a /\
    (strip isz a = [] \/ last (strip isz a) (f0 K) <> f0 K).
Proof.
  intros K isz H a b. split; [apply strip_eq_iff, H|]. split; [apply strip_idem, H|apply strip_last_nonzero, H].
Qed.
Print Assumptions C38_strip_canonical.

Theorem C38_add_normal :
  forall (K : FieldT) (isz : K -> bool), ZeroTest K isz ->
  forall a b : list K, strip isz (sp_add a b) = ref_add isz (strip isz a) (strip isz b).
Proof. exact add_normal. Qed.
Print Assumptions C38_add_normal.

Theorem C38_sub_normal :
  forall (K : FieldT) (isz : K -> bool), ZeroTest K isz ->
  forall a b : list K, strip isz (sp_sub a b) = ref_sub isz (strip isz a) (strip isz b).
Proof. exact sub_normal. Qed.
Print Assumptions C38_sub_normal.

Theorem C38_neg_normal :
  forall (K : FieldT) (isz : K -> bool), ZeroTest K isz ->
  forall a : list K, strip isz (sp_neg a) = ref_neg isz (strip isz a).
Proof. exact neg_normal. Qed.
Print Assumptions C38_neg_normal.

Theorem C38_scale_normal :
  forall (K : FieldT) (isz : K -> bool), ZeroTest K isz ->
  forall (c : K) (a : list K), strip isz (pscale c a) = ref_scale isz c (strip isz a).
Proof. exact scale_normal. Qed.
Print Assumptions C38_scale_normal.

(** multiplication by convolution on padded lists agrees with convolution on stripped lists, and
    the convolution is the polynomial product (evaluation is multiplicative) *)
Theorem C38_mul_normal :
  forall (K : FieldT) (isz : K -> bool), ZeroTest K isz ->
  forall a b : list K,
    strip isz (sp_mul a b) = ref_mul isz (strip isz a) (strip isz b) /\
    strip isz (sp_mul a b) = strip isz (sp_mul (strip isz a) (strip isz b)) /\
    forall x, eval (sp_mul a b) x = fmul K (eval a x) (eval b x).
Proof.
  intros K isz H a b. split; [apply mul_normal, H|]. split; [apply mul_strip_operands, H|].
  intros x. apply eval_sp_mul.
Qed.
Print Assumptions C38_mul_normal.

(** __call__ (power sum on the padded list) = Horner on the padded list = on the stripped list *)
Theorem C38_call_correct :
  forall (K : FieldT) (isz : K -> bool), ZeroTest K isz ->
  forall (a : list K) (x : K),
    sp_call a x = eval a x /\ eval (strip isz a) x = eval a x /\ sp_call a x = sp_call (strip isz a) x.
Proof.
  intros K isz H a x. split; [apply call_horner|]. split; [apply eval_strip, H|apply call_strip, H].
Qed.
Print Assumptions C38_call_correct.

(** degree = length of the normal form - 1, in -1 .. len-1 *)
Theorem C38_degree_correct :
  forall (K : FieldT) (isz : K -> bool), ZeroTest K isz ->
  forall a : list K,
    sp_degree isz a = (Z.of_nat (length (strip isz a)) - 1)%Z /\
    (-1 <= sp_degree isz a < Z.of_nat (length a))%Z.
Proof.
  intros K isz H a. split.
  - apply degree_correct.
  - apply degree_range.
Qed.
Print Assumptions C38_degree_correct.

Theorem C38_shifts_normal :
  forall (K : FieldT) (isz : K -> bool), ZeroTest K isz ->
  forall (n : nat) (a : list K),
    strip isz (sp_lshift n a) = sp_lshift n (strip isz a) /\
    strip isz (sp_rshift n a) = strip isz (sp_rshift n (strip isz a)) /\
    strip isz (sp_truncate n a) = strip isz (sp_truncate n (strip isz a)).
Proof.
  intros K isz H n a. split; [apply lshift_normal, H|]. split; [apply rshift_normal, H|apply truncate_normal, H].
Qed.
Print Assumptions C38_shifts_normal.

(** the oblivious equality test decides equality of the represented polynomials *)
Theorem C38_eq_correct :
  forall (K : FieldT) (isz : K -> bool), ZeroTest K isz ->
  forall a b : list K, sp_eq isz a b = true <-> strip isz a = strip isz b.
Proof. exact eq_correct. Qed.
Print Assumptions C38_eq_correct.

(** only the length bound is public: padded result lengths are functions of the padded lengths *)
Theorem C38_length_bound_public :
  forall (K : Ops) (a b a' b' : list K) (n : nat) (c c' : K),
    length a = length a' -> length b = length b' ->
    length (sp_add a b) = length (sp_add a' b') /\
    length (sp_sub a b) = length (sp_sub a' b') /\
    length (sp_mul a b) = length (sp_mul a' b') /\
    length (sp_neg a) = length (sp_neg a') /\
    length (pscale c a) = length (pscale c' a') /\
    length (sp_lshift n a) = length (sp_lshift n a') /\
    length (sp_rshift n a) = length (sp_rshift n a') /\
    length (sp_truncate n a) = length (sp_truncate n a').
Proof. exact length_bound_public. Qed.
Print Assumptions C38_length_bound_public.

(** len_mul la lb = 0 if la = 0 or lb = 0, else la + lb - 1;  len_lshift n la = 0 if la = 0, else n + la *)
Theorem C38_length_formulas :
  forall (K : Ops) (a b : list K) (n : nat),
    length (sp_add a b) = Nat.max (length a) (length b) /\
    length (sp_sub a b) = Nat.max (length a) (length b) /\
    length (sp_mul a b) = len_mul (length a) (length b) /\
    length (sp_lshift n a) = len_lshift n (length a) /\
    length (sp_rshift n a) = length a - n /\
    length (sp_truncate n a) = Nat.min n (length a).
Proof.
  intros K a b n. rewrite length_sp_add, length_sp_sub, length_sp_mul, length_sp_lshift,
    length_sp_rshift, length_sp_truncate. repeat split; reflexivity.
Qed.
Print Assumptions C38_length_formulas.

(** powmod as coded in secpols._powmod (square-and-multiply with the n = 1 reduction) over the Gfpx
    model's normal-form multiplication and remainder: for every n >= 1 the result is a reduced normal
    form (degree < deg b) congruent to a^n modulo (p, b), i.e. it is (a^n) mod b.
    cong p b x y  :=  exists k1 k2, x = y + k1*b + p*k2 in Z[x] (as polynomial functions over Z) *)
Theorem C38_powmod_correct :
  forall (p : Z) (b a : list Z) (n : Z),
    prime p -> Gfpx.wf p b -> b <> [] -> Gfpx.wf p a -> (1 <= n)%Z ->
    Gfpx.wf p (sp_powmod p b a n) /\ (length (sp_powmod p b a n) < length b)%nat /\
    cong p b (sp_powmod p b a n) (powz a (Z.to_nat n)).
Proof. intros p b a n Pp Wb Hb Wa Hn. apply sp_powmod_correct; assumption. Qed.
Print Assumptions C38_powmod_correct.

(** Instance: the executable model over integers modulo a prime (the one run against secpols.py). *)
Theorem C38_Zp :
  forall (p : Z) (Hp : prime p) (a b : list (Zp p)),
    let S := @strip (ZpOps p) (zisz p) in
    S (@sp_add (ZpOps p) a b) = @ref_add (ZpOps p) (zisz p) (S a) (S b) /\
    S (@sp_mul (ZpOps p) a b) = @ref_mul (ZpOps p) (zisz p) (S a) (S b) /\
    forall x, @sp_call (ZpOps p) a x = @eval (ZpOps p) (S a) x.
Proof.
  intros p Hp a b S. unfold S.
  split; [apply (add_normal (ZpField p Hp) (zisz p) (zisz_spec p))|].
  split; [apply (mul_normal (ZpField p Hp) (zisz p) (zisz_spec p))|].
  intros x. rewrite (call_horner (ZpField p Hp)). symmetry.
  apply (eval_strip (ZpField p Hp) (zisz p) (zisz_spec p)).
Qed.
Print Assumptions C38_Zp.

(** Non-vacuity: GF(5); a = 1 + 2x (padded to length 4), b = 4 + 3x + x^2 (padded to 3):
    a + b = 0 + 0x + x^2; the zero test exists; padded lengths 4, 3 give 4 and 6. *)
Example C38_nonvacuous :
  prime 5 /\ ZeroTest (ZpField 5 (is_prime_small_correct 5 eq_refl)) (zisz 5) /\
  zsp_add 5 [1; 2; 0; 0]%Z [4; 3; 1]%Z = [0; 0; 1; 0]%Z /\
  zsp_strip 5 (zsp_add 5 [1; 2; 0; 0]%Z [4; 3; 1]%Z) = [0; 0; 1]%Z /\
  zsp_mul 5 [1; 2; 0; 0]%Z [4; 3; 1]%Z = [4; 1; 2; 2; 0; 0]%Z /\
  zsp_degree 5 [1; 2; 0; 0]%Z = 1%Z /\ zsp_call 5 [1; 2; 0; 0]%Z 3 = 2%Z /\
  zsp_eq 5 [1; 2; 0; 0]%Z [1; 2]%Z = true /\
  Gfpx.wfb 5 [1; 2]%Z = true /\ Gfpx.wfb 5 [4; 3; 1]%Z = true /\
  sp_powmod 5 [4; 3; 1]%Z [1; 2]%Z 3 = [4]%Z /\ sp_powmod 5 [4; 3; 1]%Z [1; 2; 0; 3]%Z 1 = [2; 2]%Z.
Proof.
  split; [apply is_prime_small_correct; reflexivity|]. split; [exact (zisz_spec 5)|]. vm_compute. repeat split.
Qed.
