(** C04 — secure finite-field arithmetic equals field arithmetic.  Only statements; proofs are in
    theories/SecFld.v (value-level model of runtime.pow / reciprocal / is_zero / is_zero_public /
    and_ / xor / invert / or_ / to_bits / from_bits and of the lifting in sectypes._SecFld). *)
Require Import MPyC.Field MPyC.Zp MPyC.Fermat MPyC.SecFld.
From Coq Require Import NArith ZArith Znumtheory List.
Import ListNotations.
Local Open Scope nat_scope.

(** ** for every field and EVERY public exponent: square-and-multiply as coded (incl. the b = 254
    special chain and the reciprocal for negative exponents) is the power function *)
Theorem C04_pow_correct :
  forall (K : FieldT) (recip : K -> K) (a : K) (b : Z),
    ((b < 0)%Z -> recip a = finv K a) -> pow recip a b = fzpow K a b.
Proof. exact pow_correct. Qed.
Print Assumptions C04_pow_correct.

Theorem C04_pow_loop_invariant :
  forall (K : FieldT) (b : positive) (c d : K), pow_loop b c d = fmul K c (fpow d (Pos.to_nat b)).
Proof. exact pow_loop_spec. Qed.
Print Assumptions C04_pow_loop_invariant.

Theorem C04_pow254_chain : forall (K : FieldT) (a : K), pow254_chain a = fpow a 254.
Proof. exact pow254_chain_correct. Qed.
Print Assumptions C04_pow254_chain.

(** ** reciprocal by blinding: r / (a r) = 1/a on a good tape (r <> 0); the retry loop never
    returns a wrong value and succeeds as soon as the tape contains a nonzero mask *)
Theorem C04_reciprocal_blind :
  forall (K : FieldT) (a r : K), a <> f0 K -> r <> f0 K -> fdiv K r (fmul K a r) = finv K a.
Proof. exact reciprocal_blind. Qed.
Print Assumptions C04_reciprocal_blind.

Theorem C04_reciprocal_loop_sound :
  forall (K : FieldT) (isz : K -> bool), (forall x, isz x = true <-> x = f0 K) ->
  forall (rs : list K) (a v : K), a <> f0 K -> reciprocal_loop isz rs a = Some v -> v = finv K a.
Proof. exact reciprocal_loop_sound. Qed.
Print Assumptions C04_reciprocal_loop_sound.

Theorem C04_reciprocal_loop_complete :
  forall (K : FieldT) (isz : K -> bool), (forall x, isz x = true <-> x = f0 K) ->
  forall (rs : list K) (a : K), a <> f0 K -> (exists r, In r rs /\ r <> f0 K) ->
    reciprocal_loop isz rs a = Some (finv K a).
Proof. exact reciprocal_loop_complete. Qed.
Print Assumptions C04_reciprocal_loop_complete.

Theorem C04_div_correct :
  forall (K : FieldT) (recip : K -> K) (a b : K), recip b = finv K b -> div_sec recip a b = fdiv K a b.
Proof. exact div_sec_correct. Qed.
Print Assumptions C04_div_correct.

(** ** Fermat's little theorem for ANY finite field given with an enumeration of its elements
    (x |-> a x permutes the nonzero elements); q = length elts *)
Theorem C04_fermat_finite_field :
  forall (K : FieldT) (elts : list K), NoDup elts -> (forall x : K, In x elts) ->
    forall a : K, a <> f0 K -> fpow a (length elts - 1) = f1 K.
Proof. exact fermat_finite_field. Qed.
Print Assumptions C04_fermat_finite_field.

(** ** is_zero / == / != via a^(q-1) are exact in EVERY enumerated finite field (no Fermat
    hypothesis left), q = number of elements as passed by the code (field.order) *)
Theorem C04_is_zero_fermat :
  forall (K : FieldT) (elts : list K), NoDup elts -> (forall x : K, In x elts) ->
    forall a : K, is_zero (Z.of_nat (length elts)) a = if feq_dec K a (f0 K) then f1 K else f0 K.
Proof. exact is_zero_finite. Qed.
Print Assumptions C04_is_zero_fermat.

Theorem C04_eq_correct :
  forall (K : FieldT) (elts : list K), NoDup elts -> (forall x : K, In x elts) ->
    forall a b : K, eq_sec (Z.of_nat (length elts)) a b = (if feq_dec K a b then f1 K else f0 K)
                 /\ ne_sec (Z.of_nat (length elts)) a b = (if feq_dec K a b then f0 K else f1 K).
Proof. intros K elts Hnd Hall a b. split; [apply eq_sec_finite|apply ne_sec_finite]; assumption. Qed.
Print Assumptions C04_eq_correct.

(** instance: Z_p for EVERY prime p (elements enumerated as 0 .. p-1), exponent p - 1 *)
Theorem C04_fermat_Zp :
  forall (p : Z) (Hp : prime p) (a : Zp p),
    a <> f0 (ZpOps p) -> fpow (K := ZpOps p) a (Z.to_nat (p - 1)) = f1 (ZpOps p).
Proof. exact fermat_Zp. Qed.
Print Assumptions C04_fermat_Zp.

Theorem C04_eq_correct_Zp :
  forall (p : Z) (Hp : prime p) (a b : Zp p),
    is_zero (K := ZpOps p) p a = (if Zp_dec p a (f0 (ZpOps p)) then f1 (ZpOps p) else f0 (ZpOps p)) /\
    eq_sec (K := ZpOps p) p a b = (if Zp_dec p a b then f1 (ZpOps p) else f0 (ZpOps p)) /\
    ne_sec (K := ZpOps p) p a b = (if Zp_dec p a b then f0 (ZpOps p) else f1 (ZpOps p)).
Proof. intros p Hp a b. split; [apply zp_is_zero_correct; exact Hp|apply zp_eq_correct; exact Hp]. Qed.
Print Assumptions C04_eq_correct_Zp.

(** the version with Fermat as an explicit hypothesis (any q), kept as the lemma the above instantiate *)
Theorem C04_is_zero_given_fermat :
  forall (K : FieldT) (q : Z), (2 <= q)%Z ->
    (forall a : K, a <> f0 K -> fpow a (Z.to_nat (q - 1)) = f1 K) ->
    forall a : K, is_zero q a = if feq_dec K a (f0 K) then f1 K else f0 K.
Proof. exact is_zero_fermat. Qed.
Print Assumptions C04_is_zero_given_fermat.

(** ** public zero test: correct iff the mask is nonzero *)
Theorem C04_is_zero_public :
  forall (K : FieldT) (isz : K -> bool), (forall x, isz x = true <-> x = f0 K) ->
  forall a r : K, r <> f0 K -> (is_zero_public isz a r = true <-> a = f0 K).
Proof. exact is_zero_public_correct. Qed.
Print Assumptions C04_is_zero_public.

Theorem C04_is_zero_public_bad_tape :
  forall (K : FieldT) (isz : K -> bool), (forall x, isz x = true <-> x = f0 K) ->
  forall a : K, is_zero_public isz a (f0 K) = true.
Proof. exact is_zero_public_bad_tape. Qed.
Print Assumptions C04_is_zero_public_bad_tape.

(** ** characteristic 2: elements of GF(2^d) as d-bit vectors, + is xor *)
Theorem C04_bitwise_char2 :
  forall (d : nat) (a b : N), (a < 2 ^ N.of_nat d)%N -> (b < 2 ^ N.of_nat d)%N ->
    and2 d a b = N.land a b /\ or2 d a b = N.lor a b /\ xor2 a b = N.lxor a b /\
    invert2 d a = (2 ^ N.of_nat d - 1 - a)%N /\
    (forall n, N.testbit (invert2 d a) n = if (n <? N.of_nat d)%N then negb (N.testbit a n) else N.testbit a n).
Proof.
  intros d a b Ha Hb. split; [apply and2_correct; exact Ha|]. split; [apply or2_correct; exact Ha|].
  split; [reflexivity|]. split; [apply invert2_correct; exact Ha|]. apply invert2_bits.
Qed.
Print Assumptions C04_bitwise_char2.

Theorem C04_or_from_xor_and : forall a b : N, N.lor a b = N.lxor (N.lxor a b) (N.land a b).
Proof. exact or_from_xor_and. Qed.
Print Assumptions C04_or_from_xor_and.

(** bit decomposition in characteristic 2 (mask with random bits, open, unmask) is exact for
    every mask, and from_bits inverts it *)
Theorem C04_to_bits_char2 :
  forall (d : nat) (rbits : list bool) (a : N), (a < 2 ^ N.of_nat d)%N ->
    to_bits2_masked d rbits a = to_bits2 d a /\ from_bits2 (to_bits2 d a) = a /\
    (forall i, i < d -> nth i (to_bits2 d a) false = N.testbit a (N.of_nat i)).
Proof.
  intros d r a Ha. split; [apply to_bits2_masked_correct|]. split; [apply from_to_bits2; exact Ha|].
  intros i Hi. apply to_bits2_nth. exact Hi.
Qed.
Print Assumptions C04_to_bits_char2.

(** prime fields: from_bits of the bits of the representative is the element (value level; the
    secure path convert -> secint bits -> convert back is covered by the correspondence run) *)
Theorem C04_to_bits_prime_roundtrip :
  forall (K : FieldT) (l : nat) (a : N), (a < 2 ^ N.of_nat l)%N ->
    from_bits_fld (map (b2K K) (to_bits2 l a)) = fnat K (N.to_nat a).
Proof. exact to_bits_prime_roundtrip. Qed.
Print Assumptions C04_to_bits_prime_roundtrip.

(** ** lifting (m >= q): for ANY field embedding iota : K -> L and out-conversion inverting it,
    every operator applied to lifted values returns, after out-conversion, the result in the
    requested field K (== through Fermat in the enumerated finite field L, no hypothesis).
    PARTIAL (lift_correct): iota being a ring homomorphism with out_conv (iota a) = a is a
    hypothesis; it is discharged for GF(2) in GF(4) below, for the other (q, e) it is left to the
    correspondence run (prime-subfield embedding as constants). *)
Theorem C04_lift_correct_partial :
  forall (K L : FieldT) (iota : K -> L),
    iota (f1 K) = f1 L ->
    (forall a b, iota (fadd K a b) = fadd L (iota a) (iota b)) ->
    (forall a b, iota (fmul K a b) = fmul L (iota a) (iota b)) ->
    forall unlift : L -> option K, (forall a, unlift (iota a) = Some a) ->
    forall a b : K,
      unlift (fadd L (iota a) (iota b)) = Some (fadd K a b) /\
      unlift (fsub L (iota a) (iota b)) = Some (fsub K a b) /\
      unlift (fmul L (iota a) (iota b)) = Some (fmul K a b) /\
      (forall recip : L -> L, b <> f0 K -> recip (iota b) = finv L (iota b) ->
         unlift (div_sec recip (iota a) (iota b)) = Some (fdiv K a b)) /\
      (forall (recip : L -> L) (n : Z), ((n < 0)%Z -> a <> f0 K /\ recip (iota a) = finv L (iota a)) ->
         unlift (pow recip (iota a) n) = Some (fzpow K a n)) /\
      (forall eltsL : list L, NoDup eltsL -> (forall x : L, In x eltsL) ->
         unlift (eq_sec (Z.of_nat (length eltsL)) (iota a) (iota b)) = Some (if feq_dec K a b then f1 K else f0 K)).
Proof.
  intros K L iota H1 Ha Hm unlift Hu a b.
  split; [apply lift_add; assumption|]. split; [apply lift_sub; assumption|].
  split; [apply lift_mul; assumption|]. split; [intros; apply lift_div; assumption|].
  split; [intros; apply lift_pow; assumption|]. intros eltsL Hnd Hall. apply lift_eq_finite; assumption.
Qed.
Print Assumptions C04_lift_correct_partial.

(** ** non-vacuity *)
(** GF(101): 7^254 by the chain, 1/7 by blinding with r = 33, 7^(-3), == via Fermat *)
Example C04_nonvacuous_Zp :
  prime 101 /\ zp_pow254 101 7 = (7 ^ 254 mod 101)%Z /\ zp_reciprocal 101 33 7 = Some 29%Z /\
  (7 * 29 mod 101 = 1)%Z /\ zp_pow 101 33 7 (-3) = (29 ^ 3 mod 101)%Z /\
  zp_eq 101 5 5 = 1%Z /\ zp_eq 101 5 6 = 0%Z /\ zp_is_zero_public 101 33 0 = true /\ zp_is_zero_public 101 33 9 = false.
Proof. split; [apply is_prime_small_correct; reflexivity|]. vm_compute. repeat split. Qed.

(** the hypotheses of the lifting theorem and of Fermat hold for GF(2) inside GF(4) *)
Example C04_nonvacuous_lift :
  (iota24 (f1 GF2Field) = f1 GF4Field) /\
  (forall a b, iota24 (fadd GF2Field a b) = fadd GF4Field (iota24 a) (iota24 b)) /\
  (forall a b, iota24 (fmul GF2Field a b) = fmul GF4Field (iota24 a) (iota24 b)) /\
  (forall a, unlift24 (iota24 a) = Some a) /\
  (forall x : GF4Field, x <> f0 GF4Field -> fpow x (Z.to_nat (4 - 1)) = f1 GF4Field) /\
  unlift24 (eq_sec (K := GF4Field) 4 (iota24 true) (iota24 true)) = Some true.
Proof.
  split; [reflexivity|]. split; [intros [|] [|]; reflexivity|]. split; [intros [|] [|]; reflexivity|].
  split; [intros [|]; reflexivity|]. split; [exact GF4_fermat|reflexivity].
Qed.

(** the enumeration hypotheses hold for Z_101 (0..100) and for GF(4); == through the protocol formula *)
Example C04_nonvacuous_finite :
  prime 101 /\ NoDup (zp_elts 101) /\ (forall x : Zp 101, In x (zp_elts 101)) /\ length (zp_elts 101) = 101 /\
  NoDup GF4_elts /\ (forall x : GF4Field, In x GF4_elts) /\
  eq_sec (K := GF4Field) (Z.of_nat (length GF4_elts)) (true, true) (true, true) = f1 GF4Field /\
  eq_sec (K := GF4Field) (Z.of_nat (length GF4_elts)) (true, true) (false, true) = f0 GF4Field /\
  NoDup GF2_elts /\ (forall x : GF2Field, In x GF2_elts).
Proof.
  split; [apply is_prime_small_correct; reflexivity|]. split; [apply zp_elts_nodup|].
  split; [apply zp_elts_all; reflexivity|]. split; [reflexivity|]. split; [exact GF4_elts_nodup|].
  split; [exact GF4_elts_all|]. split; [reflexivity|]. split; [reflexivity|]. split; [exact GF2_elts_nodup|exact GF2_elts_all].
Qed.

(** GF(2^8): 0x53 & 0xCA, |, ~ through the protocol formulas *)
Example C04_nonvacuous_bits :
  and2 8 83 202 = 66%N /\ or2 8 83 202 = 219%N /\ invert2 8 83 = 172%N /\
  to_bits2_masked 8 [true; false; true; true; false; false; true; false] 83 = to_bits2 8 83.
Proof. vm_compute. repeat split. Qed.
