(** C27 — elliptic-curve coordinate formulas of mpyc/fingroups.py (lines 652-1037), transcribed
    over an abstract field ([Ops] for execution, [FieldT] for the theorems).

    Integer constants multiply field elements in the code ([2*cls.d], [3*x**2], [8*c]); they are
    the field elements 1+1, ... here.  [x**2] is [x*x].  [1/z] is [fdiv 1 z].  The Weierstrass
    affine identity [()] is [None].  Field equality tests ([==]) go through [eqb]. *)
Require Import MPyC.Field MPyC.Zp MPyC.Group.
From Coq Require Import Bool Lia Znumtheory.

Section Defs.
Variable K : Ops.
Variable eqb : K -> K -> bool.
Notation "0" := (f0 K). Notation "1" := (f1 K).
Infix "+" := (fadd K). Infix "*" := (fmul K). Infix "-" := (fsub K). Infix "/" := (fdiv K).
Notation "- x" := (fopp K x).

Definition c2 : K := 1 + 1.
Definition c3 : K := c2 + 1.
Definition c8 : K := c2 * (c2 * c2).

Definition pt2 : Type := (K * K)%type.
Definition pt3 : Type := (K * K * K)%type.
Definition pt4 : Type := (K * K * K * K)%type.

(** ---------------- Edwards curves  a x^2 + y^2 = 1 + d x^2 y^2 ---------------- *)
Definition ed_on (a d : K) (P : pt2) : bool :=
  let '(x, y) := P in eqb (a * (x * x) + y * y) (1 + d * (x * x) * (y * y)).

(** EdwardsAffine *)
Definition eda_id : pt2 := (0, 1).
Definition eda_inv (P : pt2) : pt2 := let '(x, y) := P in (- x, y).
Definition eda_add (a d : K) (P1 P2 : pt2) : pt2 :=
  let '(x1, y1) := P1 in let '(x2, y2) := P2 in
  let C := x1 * x2 in
  let D := y1 * y2 in
  let E := d * C * D in
  let x3 := (1 - E) * ((x1 + y1) * (x2 + y2) - C - D) in
  let y3 := (1 + E) * (D - a * C) in
  let z3_inv := 1 / (1 - E * E) in
  (x3 * z3_inv, y3 * z3_inv).
Definition eda_eq (P1 P2 : pt2) : bool :=
  let '(x1, y1) := P1 in let '(x2, y2) := P2 in eqb x1 x2 && eqb y1 y2.

(** EdwardsProjective *)
Definition edp_id : pt3 := (0, 1, 1).
Definition edp_inv (P : pt3) : pt3 := let '(x, y, z) := P in (- x, y, z).
Definition edp_add (a d : K) (P1 P2 : pt3) : pt3 :=
  let '(x1, y1, z1) := P1 in let '(x2, y2, z2) := P2 in
  let A := z1 * z2 in
  let B := A * A in
  let C := x1 * x2 in
  let D := y1 * y2 in
  let E := d * C * D in
  let F := B - E in
  let G := B + E in
  let x3 := A * F * ((x1 + y1) * (x2 + y2) - C - D) in
  let y3 := A * G * (D - a * C) in
  let z3 := F * G in
  (x3, y3, z3).
Definition edp_norm (P : pt3) : pt3 :=
  let '(x, y, z) := P in let z_inv := 1 / z in (x * z_inv, y * z_inv, 1).
Definition edp_eq (P1 P2 : pt3) : bool :=
  let '(x1, y1, z1) := P1 in let '(x2, y2, z2) := P2 in
  eqb (x1 * z2) (x2 * z1) && eqb (y1 * z2) (y2 * z1).

(** EdwardsExtended (formulas for a = -1) *)
Definition ede_id : pt4 := (0, 1, 1, 0).
Definition ede_inv (P : pt4) : pt4 := let '(x, y, z, t) := P in (- x, y, z, - t).
Definition ede_add (d : K) (P1 P2 : pt4) : pt4 :=
  let '(x1, y1, z1, t1) := P1 in let '(x2, y2, z2, t2) := P2 in
  let r1 := y1 - x1 in let r2 := y2 - x2 in let r3 := y1 + x1 in let r4 := y2 + x2 in
  let s1 := r1 * r2 in let s2 := r3 * r4 in let s3 := c2 * d * t1 * t2 in let s4 := c2 * z1 * z2 in
  let u1 := s2 - s1 in let u2 := s4 - s3 in let u3 := s4 + s3 in let u4 := s2 + s1 in
  (u1 * u2, u3 * u4, u2 * u3, u1 * u4).
Definition ede_dbl (d : K) (P : pt4) : pt4 :=
  let '(x, y, z, t) := P in
  let s1 := (y - x) * (y - x) in let s2 := (y + x) * (y + x) in
  let s3 := c2 * d * (t * t) in let s4 := c2 * (z * z) in
  let u1 := s2 - s1 in let u2 := s4 - s3 in let u3 := s4 + s3 in let u4 := s2 + s1 in
  (u1 * u2, u3 * u4, u2 * u3, u1 * u4).
Definition ede_norm (P : pt4) : pt4 :=
  let '(x, y, z, _) := P in
  let z_inv := 1 / z in let x' := x * z_inv in let y' := y * z_inv in (x', y', 1, x' * y').
Definition ede_eq (P1 P2 : pt4) : bool :=
  let '(x1, y1, z1, _) := P1 in let '(x2, y2, z2, _) := P2 in
  eqb (x1 * z2) (x2 * z1) && eqb (y1 * z2) (y2 * z1).

(** ---------------- short Weierstrass curves  y^2 = x^3 + a x + b ---------------- *)
Definition w_on (a b : K) (P : pt2) : bool :=
  let '(x, y) := P in eqb (y * y) (x * x * x + a * x + b).

(** WeierstrassAffine: identity is the empty tuple = None *)
Definition wa_eq (P Q : option pt2) : bool :=
  match P, Q with
  | None, None => true
  | Some (x1, y1), Some (x2, y2) => eqb x1 x2 && eqb y1 y2
  | _, _ => false
  end.
Definition wa_inv (P : option pt2) : option pt2 :=
  match P with None => None | Some (x, y) => Some (x, - y) end.
Definition wa_dbl (a : K) (P : option pt2) : option pt2 :=
  match P with
  | None => None
  | Some (x, y) =>
      if eqb y 0 then None
      else
        let r := (c3 * (x * x) + a) / (c2 * y) in
        let x2 := r * r - c2 * x in
        let y2 := r * (x - x2) - y in
        Some (x2, y2)
  end.
Definition wa_add (a : K) (P Q : option pt2) : option pt2 :=
  match P, Q with
  | None, _ => Q
  | _, None => P
  | Some (x1, y1), Some (x2, y2) =>
      if wa_eq P Q then wa_dbl a P
      else if eqb x1 x2 then None
      else
        let r := (y1 - y2) / (x1 - x2) in
        let x3 := r * r - x1 - x2 in
        let y3 := r * (x1 - x3) - y1 in
        Some (x3, y3)
  end.

(** WeierstrassProjective (Renes-Costello-Batina, a = 0) *)
Definition wp_id : pt3 := (0, 1, 0).
Definition wp_inv (P : pt3) : pt3 := let '(x, y, z) := P in (x, - y, z).
Definition wp_add (b : K) (P1 P2 : pt3) : pt3 :=
  let '(x1, y1, z1) := P1 in let '(x2, y2, z2) := P2 in
  let b3 := c3 * b in
  let t0 := x1 * x2 in let t1 := y1 * y2 in let t2 := z1 * z2 in
  let t3 := (x1 + y1) * (x2 + y2) - t0 - t1 in
  let t4 := (y1 + z1) * (y2 + z2) - t1 - t2 in
  let y3 := b3 * ((x1 + z1) * (x2 + z2) - t0 - t2) in
  let t0 := t0 * c3 in
  let t2 := t2 * b3 in
  let z3 := t1 + t2 in
  let t1 := t1 - t2 in
  let x3 := t3 * t1 - t4 * y3 in
  let y3 := t0 * y3 + t1 * z3 in
  let z3 := t4 * z3 + t0 * t3 in
  (x3, y3, z3).
Definition wp_dbl (b : K) (P : pt3) : pt3 :=
  let '(x, y, z) := P in
  let t0 := y * y in
  let z2 := c8 * t0 in
  let t2 := c3 * b * (z * z) in
  let x2 := t2 * z2 in
  let y2 := t0 + t2 in
  let z2 := z2 * (y * z) in
  let t0 := t0 - c3 * t2 in
  let y2 := t0 * y2 + x2 in
  let x2 := c2 * t0 * x * y in
  (x2, y2, z2).
Definition wp_norm (P : pt3) : pt3 :=
  let '(x, y, z) := P in
  if eqb z 0 then wp_id else let z_inv := 1 / z in (x * z_inv, y * z_inv, 1).
Definition wp_eq (P1 P2 : pt3) : bool :=
  let '(x1, y1, z1) := P1 in let '(x2, y2, z2) := P2 in
  if eqb z1 0 && eqb z2 0 then true
  else eqb (x1 * z2) (x2 * z1) && eqb (y1 * z2) (y2 * z1).

(** WeierstrassJacobian (a = 0) *)
Definition wj_inv (P : pt3) : pt3 := let '(x, y, z) := P in (x, - y, z).
Definition wj_dbl (P : pt3) : pt3 :=
  let '(x1, y1, z1) := P in
  let a := x1 * x1 in
  let b := y1 * y1 in
  let c := b * b in
  let d := c2 * ((x1 + b) * (x1 + b) - a - c) in
  let e := c3 * a in
  let f := e * e in
  let x2 := f - c2 * d in
  let y2 := e * (d - x2) - c8 * c in
  let z2 := c2 * y1 * z1 in
  (x2, y2, z2).
Definition wj_add (P1 P2 : pt3) : pt3 :=
  let '(x1, y1, z1) := P1 in let '(x2, y2, z2) := P2 in
  if eqb z1 0 then P2
  else if eqb z2 0 then P1
  else
    let z1z1 := z1 * z1 in
    let z2z2 := z2 * z2 in
    let u1 := x1 * z2z2 in
    let u2 := x2 * z1z1 in
    let s1 := y1 * z2 * z2z2 in
    let s2 := y2 * z1 * z1z1 in
    let h := u2 - u1 in
    let r := c2 * (s2 - s1) in
    if eqb h 0 && eqb r 0 then wj_dbl P1
    else
      let i := (c2 * h) * (c2 * h) in
      let j := h * i in
      let v := u1 * i in
      let x3 := r * r - j - c2 * v in
      let y3 := r * (v - x3) - c2 * s1 * j in
      let z3 := ((z1 + z2) * (z1 + z2) - z1z1 - z2z2) * h in
      (x3, y3, z3).
Definition wj_norm (P : pt3) : pt3 :=
  let '(x, y, z) := P in
  if eqb z 0 then wp_id
  else
    let z_inv := 1 / z in
    let z_inv2 := z_inv * z_inv in
    (x * z_inv2, y * z_inv * z_inv2, 1).
Definition wj_eq (P1 P2 : pt3) : bool :=
  let '(x1, y1, z1) := P1 in let '(x2, y2, z2) := P2 in
  if eqb z1 0 && eqb z2 0 then true
  else
    let z12 := z1 * z1 in let z22 := z2 * z2 in
    eqb (x1 * z22) (x2 * z12) && eqb (y1 * z2 * z22) (y2 * z1 * z12).

(** maps to the affine representation *)
Definition edp_aff (P : pt3) : pt2 := let '(x, y, z) := P in (x / z, y / z).
Definition ede_aff (P : pt4) : pt2 := let '(x, y, z, _) := P in (x / z, y / z).
Definition wp_aff (P : pt3) : option pt2 :=
  let '(x, y, z) := P in if eqb z 0 then None else Some (x / z, y / z).
Definition wj_aff (P : pt3) : option pt2 :=
  let '(x, y, z) := P in if eqb z 0 then None else Some (x / (z * z), y / (z * z * z)).

End Defs.

Arguments eda_id {K}. Arguments edp_id {K}. Arguments ede_id {K}. Arguments wp_id {K}.
Arguments eda_inv {K} P. Arguments edp_inv {K} P. Arguments ede_inv {K} P.
Arguments wa_inv {K} P. Arguments wp_inv {K} P. Arguments wj_inv {K} P.
Arguments eda_add {K} a d P1 P2. Arguments edp_add {K} a d P1 P2.
Arguments ede_add {K} d P1 P2. Arguments ede_dbl {K} d P.
Arguments edp_norm {K} P. Arguments ede_norm {K} P.
Arguments eda_eq {K} eqb P1 P2. Arguments edp_eq {K} eqb P1 P2. Arguments ede_eq {K} eqb P1 P2.
Arguments ed_on {K} eqb a d P. Arguments w_on {K} eqb a b P.
Arguments wa_eq {K} eqb P Q. Arguments wa_dbl {K} eqb a P. Arguments wa_add {K} eqb a P Q.
Arguments wp_add {K} b P1 P2. Arguments wp_dbl {K} b P. Arguments wp_norm {K} eqb P.
Arguments wp_eq {K} eqb P1 P2.
Arguments wj_dbl {K} P. Arguments wj_add {K} eqb P1 P2. Arguments wj_norm {K} eqb P.
Arguments wj_eq {K} eqb P1 P2.
Arguments edp_aff {K} P. Arguments ede_aff {K} P. Arguments wp_aff {K} eqb P. Arguments wj_aff {K} eqb P.

(** ---------------- executable instances over the integers modulo p ----------------
    (used by the correspondence run and by the toy-curve theorems; no proofs about p needed) *)
Section ZpExec.
Local Open Scope Z_scope.
Variable p : Z.
Let F := ZpOps p.
Definition zeqb (a b : F) : bool := zval a =? zval b.
Definition zk (z : Z) : F := mkZp p z.
Definition in2 (P : Z * Z) : pt2 F := (zk (fst P), zk (snd P)).
Definition out2 (P : pt2 F) : Z * Z := (zval (fst P), zval (snd P)).
Definition in3 (P : Z * Z * Z) : pt3 F := let '(x, y, z) := P in (zk x, zk y, zk z).
Definition out3 (P : pt3 F) : Z * Z * Z := let '(x, y, z) := P in (zval x, zval y, zval z).
Definition in4 (P : Z * Z * Z * Z) : pt4 F := let '(x, y, z, t) := P in (zk x, zk y, zk z, zk t).
Definition out4 (P : pt4 F) : Z * Z * Z * Z := let '(x, y, z, t) := P in (zval x, zval y, zval z, zval t).
Definition ino (P : option (Z * Z)) : option (pt2 F) := option_map in2 P.
Definition outo (P : option (pt2 F)) : option (Z * Z) := option_map out2 P.

Definition rep {G} (op : G -> G -> G) (op2 inv : G -> G) (e a : G) (n : Z) : G := repeat_loop op op2 inv e a n.

(** EdwardsAffine: operation, default operation2, inversion, equality, repeat *)
Definition z_eda_add a d P Q := out2 (eda_add (zk a) (zk d) (in2 P) (in2 Q)).
Definition z_eda_inv P := out2 (eda_inv (in2 P)).
Definition z_eda_eq P Q := eda_eq zeqb (in2 P) (in2 Q).
Definition z_eda_rep a d P n :=
  let ad := eda_add (zk a) (zk d) in out2 (rep ad (fun c => ad c c) eda_inv eda_id (in2 P) n).
(** EdwardsProjective *)
Definition z_edp_add a d P Q := out3 (edp_add (zk a) (zk d) (in3 P) (in3 Q)).
Definition z_edp_inv P := out3 (edp_inv (in3 P)).
Definition z_edp_eq P Q := edp_eq zeqb (in3 P) (in3 Q).
Definition z_edp_norm P := out3 (edp_norm (in3 P)).
Definition z_edp_rep a d P n :=
  let ad := edp_add (zk a) (zk d) in out3 (rep ad (fun c => ad c c) edp_inv edp_id (in3 P) n).
(** EdwardsExtended *)
Definition z_ede_add d P Q := out4 (ede_add (zk d) (in4 P) (in4 Q)).
Definition z_ede_dbl d P := out4 (ede_dbl (zk d) (in4 P)).
Definition z_ede_inv P := out4 (ede_inv (in4 P)).
Definition z_ede_eq P Q := ede_eq zeqb (in4 P) (in4 Q).
Definition z_ede_norm P := out4 (ede_norm (in4 P)).
Definition z_ede_rep d P n :=
  out4 (rep (ede_add (zk d)) (ede_dbl (zk d)) ede_inv ede_id (in4 P) n).
(** WeierstrassAffine *)
Definition z_wa_add a P Q := outo (wa_add zeqb (zk a) (ino P) (ino Q)).
Definition z_wa_dbl a P := outo (wa_dbl zeqb (zk a) (ino P)).
Definition z_wa_inv P := outo (wa_inv (ino P)).
Definition z_wa_eq P Q := wa_eq zeqb (ino P) (ino Q).
Definition z_wa_rep a P n :=
  outo (rep (wa_add zeqb (zk a)) (wa_dbl zeqb (zk a)) wa_inv None (ino P) n).
(** WeierstrassProjective *)
Definition z_wp_add b P Q := out3 (wp_add (zk b) (in3 P) (in3 Q)).
Definition z_wp_dbl b P := out3 (wp_dbl (zk b) (in3 P)).
Definition z_wp_inv P := out3 (wp_inv (in3 P)).
Definition z_wp_eq P Q := wp_eq zeqb (in3 P) (in3 Q).
Definition z_wp_norm P := out3 (wp_norm zeqb (in3 P)).
Definition z_wp_rep b P n :=
  out3 (rep (wp_add (zk b)) (wp_dbl (zk b)) wp_inv wp_id (in3 P) n).
(** WeierstrassJacobian *)
Definition z_wj_add P Q := out3 (wj_add zeqb (in3 P) (in3 Q)).
Definition z_wj_dbl P := out3 (wj_dbl (in3 P)).
Definition z_wj_inv P := out3 (wj_inv (in3 P)).
Definition z_wj_eq P Q := wj_eq zeqb (in3 P) (in3 Q).
Definition z_wj_norm P := out3 (wj_norm zeqb (in3 P)).
Definition z_wj_rep P n :=
  out3 (rep (wj_add zeqb) wj_dbl wj_inv wp_id (in3 P) n).
End ZpExec.
