#!/venv/bin/python
"""Entry point: check.py Cxx [--tier quick|thorough] [--replay path]

Exit 0 = property held on everything explored (known findings are printed, not failed);
exit 1 + `VIOLATION property=<id> replay=<path>` otherwise. Rewrites evidence/<id>.json.
"""
import os, sys, argparse, importlib, traceback, json

HERE = os.path.dirname(os.path.abspath(__file__))
sys.path.insert(0, HERE)
os.environ.setdefault('PYTHONHASHSEED', '0')
REPO = os.environ.get('MPYC_REPO', '/repo')
sys.path.insert(0, REPO)
os.environ['PYTHONPATH'] = REPO + os.pathsep + HERE

from lib.core import Ctx, VERIF  # noqa: E402


def main():
    ap = argparse.ArgumentParser()
    ap.add_argument('prop')
    ap.add_argument('--tier', default=os.environ.get('VERIF_TIER', 'quick'))
    ap.add_argument('--replay', default=None)
    a = ap.parse_args()
    if a.tier not in ('quick', 'thorough'):
        a.tier = 'quick'
    seed = int(os.environ.get('VERIF_SEED', '0') or 0)
    ctx = Ctx(a.prop, a.tier, seed, a.replay)
    try:
        mod = importlib.import_module('props.' + a.prop.lower())
        if a.replay:
            rep = json.load(open(a.replay))
            if hasattr(mod, 'replay'):
                mod.replay(ctx, rep)
            else:
                ctx.log('no dedicated replay; re-running the check with the recorded seed/tier')
                ctx.seed = rep.get('seed', seed)
                mod.run(ctx)
        else:
            mod.run(ctx)
    except Exception:
        tb = traceback.format_exc()
        ctx.log('check crashed:\n' + tb)
        ctx.unproved('harness-crash', {'traceback': tb[-4000:]})
    rc = ctx.finish()
    sys.exit(rc)


if __name__ == '__main__':
    main()
