(** C39 — secure type and party configuration parameters are valid.
    Only statements; proofs and the model are in theories/SecFldCfg.v. *)
From Coq Require Import ZArith List Lia Bool.
Require Import MPyC.SecFldCfg.
Import ListNotations.
Local Open Scope Z_scope.

(** runtime.setup refuses every threshold with 2t >= m (AssertionError) ... *)
Theorem C39_setup_refuses :
  forall m t, m <= 2 * t -> setup_threshold m (Some t) = Err EAssert.
Proof. exact setup_refuses. Qed.
Print Assumptions C39_setup_refuses.

Theorem C39_setup_accepts_iff :
  forall m t t', setup_threshold m (Some t) = Ok t' <-> (t' = t /\ 2 * t < m).
Proof. exact setup_accepts_iff. Qed.
Print Assumptions C39_setup_accepts_iff.

(** ... and its default (m-1)//2 is accepted, valid, and the largest valid threshold *)
Theorem C39_default_threshold_ok :
  forall m, setup_threshold m None = Ok ((m - 1) / 2) /\ 2 * ((m - 1) / 2) < m /\
            (forall t, 2 * t < m -> t <= (m - 1) / 2).
Proof. exact default_threshold_ok. Qed.
Print Assumptions C39_default_threshold_ok.

(** _SecFld: lifted iff t != 0 and m >= q *)
Theorem C39_lift_iff :
  forall (clog : Z -> Z -> option Z) t m q fdeg o b e,
    lift_cfg clog t m q fdeg = Ok (o, b, e) -> (b = true <-> (t <> 0 /\ q <= m)).
Proof. exact lift_iff. Qed.
Print Assumptions C39_lift_iff.

(** under the ceil-log law the lifted field GF(q^e) has q^e > m, with e >= 2 *)
Theorem C39_lift_large_enough :
  forall (clog : Z -> Z -> option Z) t m q fdeg o e,
    (forall a b e, 2 <= b -> 1 <= a -> clog a b = Some e -> a <= b ^ e) -> 2 <= q -> 0 <= m ->
    lift_cfg clog t m q fdeg = Ok (o, true, e) -> o = q ^ e /\ m < q ^ e /\ 2 <= e.
Proof. exact lift_large_enough. Qed.
Print Assumptions C39_lift_large_enough.

(** a too-small EXTENSION field is refused by an assert, not lifted *)
Theorem C39_lift_refuses_ext :
  forall (clog : Z -> Z -> option Z) t m q fdeg,
    t <> 0 -> q <= m -> fdeg <> 1 -> lift_cfg clog t m q fdeg = Err EAssert.
Proof. exact lift_refuses_ext. Qed.
Print Assumptions C39_lift_refuses_ext.

(** outputs of a lifted type are converted into the base field [0,q); only constants pass *)
Theorem C39_outputs_in_base_field :
  forall q cs v, 0 < q -> out_conv q cs = Ok v -> 0 <= v < q /\ pdeg cs <= 0.
Proof. exact outputs_in_base_field. Qed.
Print Assumptions C39_outputs_in_base_field.

(** every secure type's field has more elements than parties when t != 0:
    SecFld (plain or lifted) ... *)
Theorem C39_all_types_field_gt_m_secfld :
  forall (clog : Z -> Z -> option Z) t m q fdeg o b e,
    (forall a b e, 2 <= b -> 1 <= a -> clog a b = Some e -> a <= b ^ e) -> 2 <= q -> 0 <= m -> t <> 0 ->
    lift_cfg clog t m q fdeg = Ok (o, b, e) -> m < o.
Proof. exact secfld_field_gt_m. Qed.
Print Assumptions C39_all_types_field_gt_m_secfld.

(** ... SecInt / SecFxp / both components of SecFlt (all through _pfield) *)
Theorem C39_all_types_field_gt_m_pfield :
  forall t m order o, pfield_cfg t m order = Ok o -> o = order /\ (t <> 0 -> m < o).
Proof. exact pfield_gt_m. Qed.
Print Assumptions C39_all_types_field_gt_m_pfield.

Theorem C39_pfield_refuses :
  forall t m order, t <> 0 -> order <= m -> pfield_cfg t m order = Err EAssert.
Proof. exact pfield_refuses. Qed.
Print Assumptions C39_pfield_refuses.

(** SecFld argument resolution ([resolve] returns (field char, field degree, resolved char, resolved
    ext_deg, claimed order)); the six primitives are arbitrary oracles.
    For ALL arguments: field characteristic = resolved char; claimed order = [order] when given
    (else char^ext_deg); min_order <= claimed order. *)
Theorem C39_secfld_bookkeeping :
  forall fpp isprime irred iroot nextprime clog order modulus char ext_deg min_order fc fd c e q,
    resolve fpp isprime irred iroot nextprime clog order modulus char ext_deg min_order = Ok (fc, fd, c, e, q) ->
    fc = c /\ q = or_ order (c ^ e) /\ or_ min_order q <= q.
Proof. exact resolve_bookkeeping. Qed.
Print Assumptions C39_secfld_bookkeeping.

(** min_order: unconditional (a wrong float log can only become an AssertionError) *)
Theorem C39_secfld_min_order :
  forall fpp isprime irred iroot nextprime clog order modulus char ext_deg mo fc fd c e q,
    mo <> 0 ->
    resolve fpp isprime irred iroot nextprime clog order modulus char ext_deg (Some mo) = Ok (fc, fd, c, e, q) ->
    mo <= q.
Proof. exact secfld_min_order. Qed.
Print Assumptions C39_secfld_min_order.

(** PARTIAL: explicit order q0 gives exactly char^ext_deg = q0 = claimed order, and the FIELD has
    order q0 when the modulus is absent or an int that is not turned into a polynomial.
    Missing (false, see C39_secfld_order_exact_refuted): the same for polynomial moduli. *)
Theorem C39_secfld_order_exact_partial :
  forall fpp isprime irred iroot nextprime clog q0 modulus char ext_deg min_order fc fd c e q,
    (forall x p d, fpp x = Some (p, d) -> p ^ d = x /\ p <> 0 /\ 1 <= d) -> q0 <> 0 ->
    resolve fpp isprime irred iroot nextprime clog (Some q0) modulus char ext_deg min_order = Ok (fc, fd, c, e, q) ->
    q = q0 /\ c ^ e = q0 /\ fc = c /\ fpp q0 = Some (c, e) /\
    ((modulus = MNone \/ exists z, modulus = MInt z /\ z <= c) -> fd = e /\ fc ^ fd = q0).
Proof. exact secfld_order_exact_partial. Qed.
Print Assumptions C39_secfld_order_exact_partial.

(** REFUTED: "a successful call returns a field of exactly the requested order / degree / at least
    min_order".  Witnesses (oracle answers are the true ones for these inputs):
    SecFld(order=8, modulus='x^2+x+1') -> GF(2^2);  SecFld(modulus='x^2+x+1', ext_deg=10,
    min_order=100) -> GF(2^2), order 4 < 100.  Replayed on the implementation by the check. *)
Theorem C39_secfld_order_exact_refuted :
  exists fpp isprime irred iroot nextprime clog order modulus char ext_deg min_order fc fd c e q,
    resolve fpp isprime irred iroot nextprime clog order modulus char ext_deg min_order = Ok (fc, fd, c, e, q) /\
    order = Some 8 /\ fpp 8 = Some (2, 3) /\ fc ^ fd = 4.
Proof.
  exists (fun x => if x =? 8 then Some (2, 3) else None), (fun x => x =? 2), (fun _ _ => true),
         (fun _ _ => (0, true)), (fun _ => 0), (fun _ _ => None),
         (Some 8), (MStr [1; 1; 1]), None, None, None, 2, 2, 2, 3, 8.
  vm_compute. repeat split.
Qed.
Print Assumptions C39_secfld_order_exact_refuted.

Theorem C39_secfld_min_order_field_refuted :
  exists fpp isprime irred iroot nextprime clog modulus fc fd c e q,
    resolve fpp isprime irred iroot nextprime clog None modulus None (Some 10) (Some 100) = Ok (fc, fd, c, e, q) /\
    fc ^ fd < 100 /\ fd <> 10.
Proof.
  exists (fun _ => None), (fun x => x =? 2), (fun _ _ => true), (fun _ _ => (0, true)), (fun _ => 0),
         (fun _ _ => None), (MStr [1; 1; 1]), 2, 2, 2, 10, 1024.
  vm_compute. repeat split; discriminate.
Qed.
Print Assumptions C39_secfld_min_order_field_refuted.

(** Non-vacuity of the partial theorem: SecFld(order=9) -> GF(3^2) *)
Example C39_nonvacuous_resolve :
  let fpp := fun x => if x =? 9 then Some (3, 2) else None in
  (forall x p d, fpp x = Some (p, d) -> p ^ d = x /\ p <> 0 /\ 1 <= d) /\
  resolve fpp (fun x => x =? 3) (fun _ _ => true) (fun _ _ => (0, true)) (fun _ => 0) (fun _ _ => None)
          (Some 9) MNone None None (Some 5) = Ok (3, 2, 3, 2, 9).
Proof.
  split; [|vm_compute; reflexivity].
  intros x p d. simpl. destruct (x =? 9) eqn:E; [|discriminate].
  apply Z.eqb_eq in E. intros H; inversion H; subst. repeat split; try reflexivity; lia.
Qed.

(** Non-vacuity: m = 5, t = 2, SecFld(3): clog 6 3 = 2, lifted to GF(9) *)
Example C39_nonvacuous_lift :
  let clog := fun a b => if (a =? 6) && (b =? 3) then Some 2 else None in
  lift_cfg clog 2 5 3 1 = Ok (9, true, 2) /\ setup_threshold 5 (Some 2) = Ok 2 /\
  setup_threshold 5 (Some 3) = Err EAssert /\ setup_threshold 5 None = Ok 2 /\
  pfield_cfg 2 5 7 = Ok 7 /\ pfield_cfg 2 7 7 = Err EAssert /\
  out_conv 3 [2] = Ok 2 /\ out_conv 3 [1; 1] = Err EAssert.
Proof. vm_compute. repeat split. Qed.
