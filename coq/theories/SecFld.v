(** SecFld.v — value-level model of the secure finite-field protocols of mpyc/runtime.py
    (pow incl. the b = 254 chain, reciprocal by blinding, is_zero via a^(q-1), is_zero_public,
    eq/ne, if_else, the characteristic-2 bitwise operators and_/xor/invert/or_, to_bits/from_bits)
    and of the subfield lifting of sectypes._SecFld, with their correctness theorems over an
    abstract field.  Definitions are over [Ops] (executable on [ZpOps p]); theorems over [FieldT]. *)
Require Import MPyC.Base MPyC.Field MPyC.Zp MPyC.Fermat.
From Coq Require Import NArith ZArith Znumtheory Lia Bool List.
Import ListNotations.

(** * 1. Definitions (executable, no hypotheses) *)
Section Defs.
Variable K : Ops.
Local Notation "0" := (f0 K). Local Notation "1" := (f1 K).
Local Infix "+" := (fadd K). Local Infix "*" := (fmul K). Local Infix "-" := (fsub K).
Local Infix "/" := (fdiv K).

(** runtime.pow, general branch:
      d = a; c = 1
      for i in range(b.bit_length() - 1):
          if (b >> i) & 1: c = c * d
          d = d * d
      c = c * d
    Structural recursion over the binary numeral b, least significant bit first; the leading
    one is the final [c * d]. *)
Fixpoint pow_loop (b : positive) (c d : K) : K :=
  match b with
  | xH => c * d
  | xO b' => pow_loop b' c (d * d)
  | xI b' => pow_loop b' (c * d) (d * d)
  end.

(** runtime.pow, branch b == 254 (addition chain for the AES S-box; scalar_mul(c, [c, d]) is the
    pair (c*c, c*d)). *)
Definition pow254_chain (a : K) : K :=
  let d := a in
  let c := d * d in
  let c := c * c in
  let c := c * c in
  let c := c * d in
  let c := c * c in
  let '(c, d) := (c * c, c * d) in
  let '(c, d) := (c * c, c * d) in
  let c := c * d in
  c * c.

(** runtime.pow: [recip] stands for runtime.reciprocal (only used for b < 0). *)
Definition pow (recip : K -> K) (a : K) (b : Z) : K :=
  if (b =? 254)%Z then pow254_chain a
  else match b with
       | Z0 => 1
       | Zpos p => pow_loop p 1 a
       | Zneg p => pow_loop p 1 (recip a)
       end.

(** runtime.reciprocal: one iteration of the while-loop with the random mask r:
    ar = a*r is opened; if ar == 0 the loop repeats (None), otherwise the result is r / ar. *)
Definition reciprocal_try (isz : K -> bool) (a r : K) : option K :=
  let ar := a * r in if isz ar then None else Some (r / ar).

(** the whole loop on a tape of masks (None = tape exhausted) *)
Fixpoint reciprocal_loop (isz : K -> bool) (rs : list K) (a : K) : option K :=
  match rs with
  | [] => None
  | r :: rs' => match reciprocal_try isz a r with Some v => Some v | None => reciprocal_loop isz rs' a end
  end.

(** runtime.div for a shared divisor: c = reciprocal(b); mul(c, a) *)
Definition div_sec (recip : K -> K) (a b : K) : K := recip b * a.

(** runtime.is_zero for SecureFiniteField: 1 - pow(a, order - 1); eq(a,b) = is_zero(a - b);
    __ne__ = 1 - eq *)
Definition is_zero (q : Z) (a : K) : K := 1 - pow (fun x => x) a (q - 1).
Definition eq_sec (q : Z) (a b : K) : K := is_zero q (a - b).
Definition ne_sec (q : Z) (a b : K) : K := 1 - eq_sec q a b.

(** runtime.is_zero_public: b = a*r is opened, answer b == 0 *)
Definition is_zero_public (isz : K -> bool) (a r : K) : bool := isz (a * r).

(** runtime.if_else on field values: c*(x - y) + y *)
Definition if_else (c x y : K) : K := c * (x - y) + y.

(** from_bits for a prime field: s = 0; for a in reversed(x): s <<= 1; s += a *)
Definition from_bits_fld (x : list K) : K := fold_right (fun a s => (s + s) + a) 0 x.
End Defs.

Arguments pow_loop {K}. Arguments pow254_chain {K}. Arguments pow {K}.
Arguments reciprocal_try {K}. Arguments reciprocal_loop {K}. Arguments div_sec {K}.
Arguments is_zero {K}. Arguments eq_sec {K}. Arguments ne_sec {K}. Arguments is_zero_public {K}.
Arguments if_else {K}. Arguments from_bits_fld {K}.

(** * 2. Theorems over an abstract field *)
Section Thms.
Variable K : FieldT.
Add Field KF2 : (fth K).
Local Notation "0" := (f0 K). Local Notation "1" := (f1 K).
Local Infix "+" := (fadd K). Local Infix "*" := (fmul K). Local Infix "-" := (fsub K).
Local Infix "/" := (fdiv K).

Lemma fpow_add (x : K) n m : fpow x (n + m) = fpow x n * fpow x m.
Proof. induction n as [|n IH]; simpl; [ring|rewrite IH; ring]. Qed.

Lemma fpow_sq (x : K) n : fpow (x * x) n = fpow x (n + n).
Proof. induction n as [|n IH]; simpl; [reflexivity|]. rewrite IH. rewrite Nat.add_succ_r. simpl. ring. Qed.

Lemma fpow_0 n : fpow (K := K) 0 (S n) = 0.
Proof. simpl. ring. Qed.

Lemma fpow_1 n : fpow (K := K) 1 n = 1.
Proof. induction n as [|n IH]; simpl; [reflexivity|rewrite IH; ring]. Qed.

Lemma fpow_neq0 (x : K) n : x <> 0 -> fpow x n <> 0.
Proof. intros H. induction n as [|n IH]; simpl; [apply f1_neq_f0|apply fmul_neq0; auto]. Qed.

(** the loop invariant of square-and-multiply: for every exponent (binary numeral) b *)
Lemma pow_loop_spec : forall (b : positive) (c d : K), pow_loop b c d = c * fpow d (Pos.to_nat b).
Proof.
  induction b as [b IH|b IH|]; intros c d; cbn [pow_loop].
  - rewrite IH, Pos2Nat.inj_xI, fpow_sq. replace (2 * Pos.to_nat b)%nat with (Pos.to_nat b + Pos.to_nat b)%nat by lia.
    simpl. ring.
  - rewrite IH, Pos2Nat.inj_xO, fpow_sq. replace (2 * Pos.to_nat b)%nat with (Pos.to_nat b + Pos.to_nat b)%nat by lia.
    reflexivity.
  - simpl. ring.
Qed.

(** the b = 254 addition chain is a^254 (a ring identity, so it holds in every field) *)
Theorem pow254_chain_correct (a : K) : pow254_chain a = fpow a 254.
Proof. unfold pow254_chain. simpl fpow. ring. Qed.

(** specification of ** for a public integer exponent *)
Definition fzpow (a : K) (b : Z) : K :=
  match b with
  | Z0 => 1
  | Zpos p => fpow a (Pos.to_nat p)
  | Zneg p => fpow (finv K a) (Pos.to_nat p)
  end.

Theorem pow_correct (recip : K -> K) (a : K) (b : Z) :
  ((b < 0)%Z -> recip a = finv K a) -> pow recip a b = fzpow a b.
Proof.
  intros Hr. unfold pow. destruct (b =? 254)%Z eqn:E.
  - apply Z.eqb_eq in E. subst b. rewrite pow254_chain_correct. reflexivity.
  - destruct b as [|p|p]; cbn [fzpow].
    + reflexivity.
    + rewrite pow_loop_spec. ring.
    + rewrite pow_loop_spec, Hr by lia. ring.
Qed.

Corollary pow_nonneg (recip : K -> K) (a : K) (n : nat) : pow recip a (Z.of_nat n) = fpow a n.
Proof.
  rewrite pow_correct by lia. destruct n as [|n]; [reflexivity|].
  cbn [Z.of_nat fzpow]. rewrite SuccNat2Pos.id_succ. reflexivity.
Qed.

(** reciprocal by blinding: on a good tape (r <> 0) the value r / (a r) is the inverse of a *)
Theorem reciprocal_blind (a r : K) : a <> 0 -> r <> 0 -> r / (a * r) = finv K a.
Proof. intros Ha Hr. field. split; assumption. Qed.

Section WithZeroTest.
Variable isz : K -> bool.
Hypothesis isz_spec : forall x, isz x = true <-> x = 0.

Theorem reciprocal_try_correct (a r : K) : a <> 0 ->
  reciprocal_try isz a r = if isz r then None else Some (finv K a).
Proof.
  intros Ha. unfold reciprocal_try.
  destruct (isz r) eqn:Er.
  - apply isz_spec in Er. subst r. replace (a * 0) with 0 by ring.
    replace (isz 0) with true; [reflexivity|]. symmetry. apply isz_spec. reflexivity.
  - assert (Hr : r <> 0) by (intros E; apply isz_spec in E; congruence).
    destruct (isz (a * r)) eqn:Ear.
    + apply isz_spec in Ear. exfalso. exact (fmul_neq0 K a r Ha Hr Ear).
    + rewrite reciprocal_blind by assumption. reflexivity.
Qed.

(** the loop never returns a wrong value, and returns as soon as the tape has a nonzero mask *)
Theorem reciprocal_loop_sound (rs : list K) (a v : K) : a <> 0 ->
  reciprocal_loop isz rs a = Some v -> v = finv K a.
Proof.
  intros Ha. induction rs as [|r rs IH]; cbn [reciprocal_loop]; [discriminate|].
  rewrite reciprocal_try_correct by exact Ha. destruct (isz r); [exact IH|]. intros E; inversion E; reflexivity.
Qed.

Theorem reciprocal_loop_complete (rs : list K) (a : K) : a <> 0 ->
  (exists r, In r rs /\ r <> 0) -> reciprocal_loop isz rs a = Some (finv K a).
Proof.
  intros Ha. induction rs as [|r rs IH]; intros [r0 [Hin Hr0]]; [destruct Hin|].
  cbn [reciprocal_loop]. rewrite reciprocal_try_correct by exact Ha.
  destruct (isz r) eqn:Er; [|reflexivity].
  apply IH. destruct Hin as [->|Hin]; [|exists r0; auto].
  apply isz_spec in Er. contradiction.
Qed.

(** the reciprocal of zero never terminates with a value (a*r = 0 for every r) *)
Theorem reciprocal_loop_zero (rs : list K) : reciprocal_loop isz rs 0 = None.
Proof.
  induction rs as [|r rs IH]; [reflexivity|]. cbn [reciprocal_loop]. unfold reciprocal_try.
  replace (0 * r) with 0 by ring. replace (isz 0) with true; [exact IH|]. symmetry. apply isz_spec. reflexivity.
Qed.

(** public zero test: correct exactly on good tapes *)
Theorem is_zero_public_correct (a r : K) : r <> 0 -> (is_zero_public isz a r = true <-> a = 0).
Proof.
  intros Hr. unfold is_zero_public. rewrite isz_spec. split.
  - intros E. destruct (feq_dec K a 0) as [Ea|Ea]; [exact Ea|]. exfalso. exact (fmul_neq0 K a r Ea Hr E).
  - intros ->. ring.
Qed.

Theorem is_zero_public_bad_tape (a : K) : is_zero_public isz a 0 = true.
Proof. unfold is_zero_public. apply isz_spec. ring. Qed.
End WithZeroTest.

(** division with a shared divisor *)
Theorem div_sec_correct (recip : K -> K) (a b : K) : recip b = finv K b -> div_sec recip a b = a / b.
Proof. intros H. unfold div_sec. rewrite H. rewrite (Fdiv_def (fth K)). ring. Qed.

(** secure selection *)
Theorem if_else_1 (x y : K) : if_else 1 x y = x.
Proof. unfold if_else. ring. Qed.
Theorem if_else_0 (x y : K) : if_else 0 x y = y.
Proof. unfold if_else. ring. Qed.

(** zero test via Fermat: stated for any field of order q in which a^(q-1) = 1 for a <> 0 *)
Section Fermat.
Variable q : Z.
Hypothesis Hq : (2 <= q)%Z.
Hypothesis fermat : forall a : K, a <> 0 -> fpow a (Z.to_nat (q - 1)) = 1.

Theorem is_zero_fermat (a : K) : is_zero q a = if feq_dec K a 0 then 1 else 0.
Proof.
  unfold is_zero.
  replace (q - 1)%Z with (Z.of_nat (Z.to_nat (q - 1))) by lia.
  rewrite pow_nonneg.
  destruct (feq_dec K a 0) as [E|E].
  - subst a. destruct (Z.to_nat (q - 1)) as [|n] eqn:En; [lia|]. rewrite fpow_0. ring.
  - rewrite fermat by exact E. ring.
Qed.

Theorem eq_sec_correct (a b : K) : eq_sec q a b = if feq_dec K a b then 1 else 0.
Proof.
  unfold eq_sec. rewrite is_zero_fermat.
  destruct (feq_dec K (a - b) 0) as [E|E], (feq_dec K a b) as [E'|E']; try reflexivity.
  - exfalso. apply E'. apply fsub_eq0. exact E.
  - exfalso. apply E. subst b. ring.
Qed.

Theorem ne_sec_correct (a b : K) : ne_sec q a b = if feq_dec K a b then 0 else 1.
Proof. unfold ne_sec. rewrite eq_sec_correct. destruct (feq_dec K a b); ring. Qed.
End Fermat.
End Thms.

(** ** zero test and equality in ANY enumerated finite field: the Fermat hypothesis is discharged by
    theories/Fermat.v (q = number of elements) *)
Section FiniteField.
Variable K : FieldT.
Variable elts : list K.
Hypothesis elts_nodup : NoDup elts.
Hypothesis elts_all : forall x : K, In x elts.
Let q : Z := Z.of_nat (length elts).

Lemma finite_q_ge2 : (2 <= q)%Z.
Proof. unfold q. pose proof (length_elts_ge2 K elts elts_nodup elts_all). lia. Qed.

Lemma finite_fermat (a : K) : a <> f0 K -> fpow a (Z.to_nat (q - 1)) = f1 K.
Proof.
  intros Ha. unfold q. replace (Z.to_nat (Z.of_nat (length elts) - 1)) with (length elts - 1)%nat by lia.
  apply (fermat_finite_field K elts elts_nodup elts_all a Ha).
Qed.

Theorem is_zero_finite (a : K) : is_zero q a = if feq_dec K a (f0 K) then f1 K else f0 K.
Proof. apply is_zero_fermat; [exact finite_q_ge2|exact finite_fermat]. Qed.

Theorem eq_sec_finite (a b : K) : eq_sec q a b = if feq_dec K a b then f1 K else f0 K.
Proof. apply eq_sec_correct; [exact finite_q_ge2|exact finite_fermat]. Qed.

Theorem ne_sec_finite (a b : K) : ne_sec q a b = if feq_dec K a b then f0 K else f1 K.
Proof. apply ne_sec_correct; [exact finite_q_ge2|exact finite_fermat]. Qed.
End FiniteField.

(** * 3. Instance Z_p: executable entry points and Fermat by computation for small p *)
Local Open Scope Z_scope.

Definition zp_isz (p : Z) (a : Zp p) : bool := zval a =? 0.

Lemma zp_isz_spec p (a : Zp p) : zp_isz p a = true <-> a = f0 (ZpOps p).
Proof.
  unfold zp_isz. rewrite Z.eqb_eq. split.
  - intros E. apply Zp_eq. rewrite E. simpl. rewrite Zmod_0_l. reflexivity.
  - intros ->. simpl. apply Zmod_0_l.
Qed.

(** reciprocal with mask r (a model failure is mapped to None) *)
Definition zp_reciprocal (p r a : Z) : option Z :=
  option_map zval (reciprocal_try (K := ZpOps p) (zp_isz p) (mkZp p a) (mkZp p r)).
Definition zp_recip_fn (p r : Z) (x : Zp p) : Zp p :=
  match reciprocal_try (K := ZpOps p) (zp_isz p) x (mkZp p r) with Some v => v | None => f0 (ZpOps p) end.
Definition zp_pow (p r a b : Z) : Z := zval (pow (K := ZpOps p) (zp_recip_fn p r) (mkZp p a) b).
Definition zp_pow254 (p a : Z) : Z := zval (pow254_chain (K := ZpOps p) (mkZp p a)).
Definition zp_div (p r a b : Z) : Z := zval (div_sec (K := ZpOps p) (zp_recip_fn p r) (mkZp p a) (mkZp p b)).
Definition zp_is_zero (p a : Z) : Z := zval (is_zero (K := ZpOps p) p (mkZp p a)).
Definition zp_eq (p a b : Z) : Z := zval (eq_sec (K := ZpOps p) p (mkZp p a) (mkZp p b)).
Definition zp_ne (p a b : Z) : Z := zval (ne_sec (K := ZpOps p) p (mkZp p a) (mkZp p b)).
Definition zp_is_zero_public (p r a : Z) : bool := is_zero_public (K := ZpOps p) (zp_isz p) (mkZp p a) (mkZp p r).
Definition zp_if_else (p c x y : Z) : Z := zval (if_else (K := ZpOps p) (mkZp p c) (mkZp p x) (mkZp p y)).
Definition zp_from_bits (p : Z) (bits : list Z) : Z := zval (from_bits_fld (K := ZpOps p) (map (mkZp p) bits)).
(** all binary operators at once: [a+b; a-b; a*b; a/b (b<>0, else -1); a==b; a!=b] *)
Definition zp_binops (p r a b : Z) : list Z :=
  [ zval (fadd (ZpOps p) (mkZp p a) (mkZp p b)); zval (fsub (ZpOps p) (mkZp p a) (mkZp p b));
    zval (fmul (ZpOps p) (mkZp p a) (mkZp p b));
    (if b mod p =? 0 then -1 else zp_div p r a b); zp_eq p a b; zp_ne p a b ].

(** == / != / is_zero over Z_p for EVERY prime p, no hypothesis left *)
Theorem zp_is_zero_correct (p : Z) (Hp : prime p) (a : Zp p) :
  is_zero (K := ZpOps p) p a = if Zp_dec p a (f0 (ZpOps p)) then f1 (ZpOps p) else f0 (ZpOps p).
Proof.
  pose proof (prime_ge_2 p Hp) as H2.
  pose proof (is_zero_finite (ZpField p Hp) (zp_elts p) (zp_elts_nodup p) (zp_elts_all p ltac:(lia)) a) as H.
  change (is_zero (K := ZpOps p) (Z.of_nat (length (zp_elts p))) a
          = if Zp_dec p a (f0 (ZpOps p)) then f1 (ZpOps p) else f0 (ZpOps p)) in H.
  rewrite zp_elts_length, Z2Nat.id in H by lia. exact H.
Qed.

Theorem zp_eq_correct (p : Z) (Hp : prime p) (a b : Zp p) :
  eq_sec (K := ZpOps p) p a b = (if Zp_dec p a b then f1 (ZpOps p) else f0 (ZpOps p)) /\
  ne_sec (K := ZpOps p) p a b = (if Zp_dec p a b then f0 (ZpOps p) else f1 (ZpOps p)).
Proof.
  pose proof (prime_ge_2 p Hp) as H2.
  pose proof (eq_sec_finite (ZpField p Hp) (zp_elts p) (zp_elts_nodup p) (zp_elts_all p ltac:(lia)) a b) as H.
  pose proof (ne_sec_finite (ZpField p Hp) (zp_elts p) (zp_elts_nodup p) (zp_elts_all p ltac:(lia)) a b) as H'.
  change (eq_sec (K := ZpOps p) (Z.of_nat (length (zp_elts p))) a b
          = if Zp_dec p a b then f1 (ZpOps p) else f0 (ZpOps p)) in H.
  change (ne_sec (K := ZpOps p) (Z.of_nat (length (zp_elts p))) a b
          = if Zp_dec p a b then f0 (ZpOps p) else f1 (ZpOps p)) in H'.
  rewrite zp_elts_length, Z2Nat.id in H, H' by lia. split; assumption.
Qed.

(** Fermat's little theorem for a concrete small prime, by enumeration (superseded by Fermat.fermat_Zp) *)
Definition fermat_check (p : Z) : bool :=
  forallb (fun n => zval (fpow (K := ZpOps p) (mkZp p (Z.of_nat n)) (Z.to_nat (p - 1))) =? 1)
          (seq 1 (Z.to_nat (p - 1))).

Lemma fermat_by_computation (p : Z) : 1 < p -> fermat_check p = true ->
  forall a : Zp p, a <> f0 (ZpOps p) -> fpow (K := ZpOps p) a (Z.to_nat (p - 1)) = f1 (ZpOps p).
Proof.
  intros Hp Hc a Ha. unfold fermat_check in Hc. rewrite forallb_forall in Hc.
  assert (Hr : 0 <= zval a < p).
  { pose proof (zval_red p a) as E. rewrite <- E. apply Z.mod_pos_bound. lia. }
  assert (Hnz : zval a <> 0).
  { intros E. apply Ha. apply Zp_eq. rewrite E. simpl. rewrite Zmod_0_l. reflexivity. }
  assert (Ea : a = mkZp p (Z.of_nat (Z.to_nat (zval a)))).
  { apply Zp_eq. rewrite zval_mkZp, Z2Nat.id by lia. symmetry. apply zval_red. }
  specialize (Hc (Z.to_nat (zval a))). rewrite <- Ea in Hc.
  apply Zp_eq. change (zval (f1 (ZpOps p))) with (1 mod p). rewrite Z.mod_1_l by lia.
  apply Z.eqb_eq. apply Hc. apply in_seq. lia.
Qed.

(** * 4. Characteristic 2: elements of GF(2^d) as bit vectors (the integer representation of
    mpyc.gfpx.BinaryPolynomial; field addition is bitwise xor — Gf2x.add2). *)
Local Open Scope N_scope.

Definition to_bits2 (d : nat) (a : N) : list bool := map (fun i => N.testbit a (N.of_nat i)) (seq 0 d).
(** runtime.from_bits in characteristic 2: s = 0; for a in reversed(x): s <<= 1; s += a *)
Definition from_bits2 (x : list bool) : N := fold_right (fun b s => N.lxor (N.shiftl s 1) (N.b2n b)) 0 x.
(** schur_prod of 0/1 elements *)
Fixpoint schur2 (x y : list bool) : list bool :=
  match x, y with a :: x', b :: y' => andb a b :: schur2 x' y' | _, _ => [] end.

Definition xor2 (a b : N) : N := N.lxor a b.                                         (* a + b *)
Definition and2 (d : nat) (a b : N) : N := from_bits2 (schur2 (to_bits2 d a) (to_bits2 d b)).
Definition invert2 (d : nat) (a : N) : N := N.lxor a (2 ^ N.of_nat d - 1).           (* a + (order-1) *)
Definition or2 (d : nat) (a b : N) : N := N.lxor (N.lxor a b) (and2 d a b).          (* a + b + (a & b) *)

(** runtime.to_bits in characteristic 2 (mask and open): r_bits random bits, r_modl their value,
    c = a + r_modl is opened, bit i of the result is r_bits[i] + ((c >> i) & 1) *)
Definition to_bits2_masked (d : nat) (rbits : list bool) (a : N) : list bool :=
  let c := N.lxor a (from_bits2 rbits) in
  map (fun i => xorb (nth i rbits false) (N.testbit c (N.of_nat i))) (seq 0 d).

Lemma from_bits2_testbit (x : list bool) (i : nat) :
  N.testbit (from_bits2 x) (N.of_nat i) = nth i x false.
Proof.
  revert i. induction x as [|b x IH]; intros i; cbn [from_bits2 fold_right].
  - rewrite N.bits_0. destruct i; reflexivity.
  - fold (from_bits2 x). rewrite N.lxor_spec. destruct i as [|i].
    + cbn [N.of_nat nth]. rewrite N.shiftl_spec_low by lia. rewrite N.b2n_bit0. destruct b; reflexivity.
    + rewrite Nat2N.inj_succ. rewrite N.shiftl_spec_high' by lia.
      replace (N.succ (N.of_nat i) - 1) with (N.of_nat i) by lia. rewrite IH.
      cbn [nth]. replace (N.testbit (N.b2n b) (N.succ (N.of_nat i))) with false; [apply xorb_false_r|].
      symmetry. destruct b; cbn [N.b2n]; [|apply N.bits_0].
      apply N.bits_above_log2. simpl. lia.
Qed.

Lemma from_bits2_high (x : list bool) (n : N) : N.of_nat (length x) <= n -> N.testbit (from_bits2 x) n = false.
Proof.
  intros H. rewrite <- (N2Nat.id n). rewrite from_bits2_testbit. apply nth_overflow. lia.
Qed.

Lemma to_bits2_nth d a i : (i < d)%nat -> nth i (to_bits2 d a) false = N.testbit a (N.of_nat i).
Proof.
  intros H. unfold to_bits2.
  rewrite nth_map_seq by exact H. reflexivity.
Qed.

Lemma to_bits2_length d a : length (to_bits2 d a) = d.
Proof. unfold to_bits2. rewrite map_length, seq_length. reflexivity. Qed.

Lemma schur2_nth x y i : nth i (schur2 x y) false = andb (nth i x false) (nth i y false).
Proof.
  revert y i. induction x as [|a x IH]; intros y i.
  - destruct i; reflexivity.
  - destruct y as [|b y]; [destruct i; cbn; rewrite andb_false_r; reflexivity|].
    destruct i; cbn; [reflexivity|apply IH].
Qed.

Lemma schur2_length x y : length (schur2 x y) = Nat.min (length x) (length y).
Proof. revert y; induction x as [|a x IH]; intros [|b y]; cbn; auto. Qed.

Lemma lt_pow2_bits (d : nat) (a : N) : a < 2 ^ N.of_nat d -> forall n, N.of_nat d <= n -> N.testbit a n = false.
Proof.
  intros H n Hn. destruct (N.eq_dec a 0) as [->|Ha]; [apply N.bits_0|].
  apply N.bits_above_log2. apply N.log2_lt_pow2 in H; [lia|lia].
Qed.

(** decomposition then recomposition is the identity on d-bit values *)
Theorem from_to_bits2 (d : nat) (a : N) : a < 2 ^ N.of_nat d -> from_bits2 (to_bits2 d a) = a.
Proof.
  intros H. apply N.bits_inj. intros n. rewrite <- (N2Nat.id n). rewrite from_bits2_testbit.
  destruct (Nat.lt_ge_cases (N.to_nat n) d) as [L|L].
  - apply to_bits2_nth. exact L.
  - rewrite nth_overflow by (rewrite to_bits2_length; exact L).
    symmetry. apply (lt_pow2_bits d a H). lia.
Qed.

(** the masked-and-opened decomposition returns the bits of a, for every mask *)
Theorem to_bits2_masked_correct (d : nat) (rbits : list bool) (a : N) :
  to_bits2_masked d rbits a = to_bits2 d a.
Proof.
  unfold to_bits2_masked, to_bits2. apply map_ext. intros i.
  rewrite N.lxor_spec, from_bits2_testbit.
  destruct (nth i rbits false), (N.testbit a (N.of_nat i)); reflexivity.
Qed.

(** & computed as from_bits(schur_prod(to_bits a, to_bits b)) is the bitwise and *)
Theorem and2_correct (d : nat) (a b : N) : a < 2 ^ N.of_nat d -> and2 d a b = N.land a b.
Proof.
  intros Ha. unfold and2. apply N.bits_inj. intros n. rewrite <- (N2Nat.id n).
  rewrite from_bits2_testbit, schur2_nth, N.land_spec.
  destruct (Nat.lt_ge_cases (N.to_nat n) d) as [L|L].
  - rewrite !to_bits2_nth by exact L. reflexivity.
  - rewrite (nth_overflow (to_bits2 d a)) by (rewrite to_bits2_length; exact L).
    rewrite (lt_pow2_bits d a Ha) by lia. reflexivity.
Qed.

(** bit-vector identity behind or_: a | b = a ^ b ^ (a & b) *)
Theorem or_from_xor_and (a b : N) : N.lor a b = N.lxor (N.lxor a b) (N.land a b).
Proof.
  apply N.bits_inj. intros n. rewrite N.lor_spec, !N.lxor_spec, N.land_spec.
  destruct (N.testbit a n), (N.testbit b n); reflexivity.
Qed.

Theorem or2_correct (d : nat) (a b : N) : a < 2 ^ N.of_nat d -> or2 d a b = N.lor a b.
Proof. intros Ha. unfold or2. rewrite and2_correct by exact Ha. symmetry. apply or_from_xor_and. Qed.

(** ~ computed as a + (2^d - 1) complements exactly the low d bits *)
Theorem invert2_bits (d : nat) (a n : N) :
  N.testbit (invert2 d a) n = if n <? N.of_nat d then negb (N.testbit a n) else N.testbit a n.
Proof.
  unfold invert2. rewrite <- N.pred_sub, <- N.ones_equiv, N.lxor_spec.
  destruct (n <? N.of_nat d) eqn:E.
  - apply N.ltb_lt in E. rewrite N.ones_spec_low by exact E. apply xorb_true_r.
  - apply N.ltb_ge in E. rewrite N.ones_spec_high by exact E. apply xorb_false_r.
Qed.

Theorem invert2_correct (d : nat) (a : N) : a < 2 ^ N.of_nat d -> invert2 d a = 2 ^ N.of_nat d - 1 - a.
Proof.
  intros Ha. unfold invert2. rewrite <- N.pred_sub, <- N.ones_equiv.
  destruct (N.eq_dec a 0) as [->|Hz]; [rewrite N.lxor_0_l, N.sub_0_r; reflexivity|].
  change (N.lxor a (N.ones (N.of_nat d))) with (N.lnot a (N.of_nat d)).
  apply N.lnot_sub_low. apply N.log2_lt_pow2; [lia|exact Ha].
Qed.

Theorem invert2_range (d : nat) (a : N) : a < 2 ^ N.of_nat d -> invert2 d a < 2 ^ N.of_nat d.
Proof. intros Ha. rewrite invert2_correct by exact Ha. lia. Qed.

(** ** from_bits as an integer, and in a prime field *)
Definition from_bits_N (x : list bool) : N := fold_right (fun b s => 2 * s + N.b2n b) 0 x.

Lemma from_bits2_N (x : list bool) : from_bits2 x = from_bits_N x.
Proof.
  induction x as [|b x IH]; [reflexivity|]. cbn [from_bits2 from_bits_N fold_right].
  fold (from_bits2 x). fold (from_bits_N x). rewrite IH.
  rewrite N.shiftl_mul_pow2, N.pow_1_r, (N.mul_comm _ 2).
  rewrite <- N.add_nocarry_lxor; [reflexivity|].
  apply N.bits_inj. intros n. rewrite N.land_spec, N.bits_0.
  destruct (N.eq_dec n 0) as [->|Hn].
  - rewrite N.testbit_even_0. reflexivity.
  - replace (N.testbit (N.b2n b) n) with false; [apply andb_false_r|].
    symmetry. destruct b; cbn [N.b2n]; [|apply N.bits_0]. apply N.bits_above_log2. simpl. lia.
Qed.

Theorem from_to_bits_N (l : nat) (a : N) : a < 2 ^ N.of_nat l -> from_bits_N (to_bits2 l a) = a.
Proof. intros H. rewrite <- from_bits2_N. apply from_to_bits2. exact H. Qed.

Close Scope N_scope.
Close Scope Z_scope.

Section PrimeBits.
Variable K : FieldT.
Add Field KF3 : (fth K).
Local Notation "0" := (f0 K). Local Notation "1" := (f1 K).
Local Infix "+" := (fadd K).

(** the image of a natural number in the field *)
Fixpoint fnat (n : nat) : K := match n with O => 0 | S n' => fnat n' + 1 end.
Definition b2K (b : bool) : K := if b then 1 else 0.

Lemma fnat_add n m : fnat (n + m) = fnat n + fnat m.
Proof. induction n as [|n IH]; simpl; [ring|rewrite IH; ring]. Qed.

(** from_bits of 0/1 field elements is the field image of the integer with these bits *)
Theorem from_bits_fld_correct (x : list bool) :
  from_bits_fld (map b2K x) = fnat (N.to_nat (from_bits_N x)).
Proof.
  induction x as [|b x IH]; [reflexivity|].
  cbn [map from_bits_fld fold_right from_bits_N]. fold (from_bits_fld (map b2K x)). fold (from_bits_N x).
  rewrite IH. rewrite N2Nat.inj_add, N2Nat.inj_mul, fnat_add.
  change (N.to_nat 2) with 2%nat. replace (2 * N.to_nat (from_bits_N x))%nat
    with (N.to_nat (from_bits_N x) + N.to_nat (from_bits_N x))%nat by lia.
  rewrite fnat_add. destruct b; simpl; ring.
Qed.

(** bit decomposition of a prime-field element (value level: the bits of its representative)
    followed by from_bits gives the element back *)
Theorem to_bits_prime_roundtrip (l : nat) (a : N) : (a < 2 ^ N.of_nat l)%N ->
  from_bits_fld (map b2K (to_bits2 l a)) = fnat (N.to_nat a).
Proof. intros H. rewrite from_bits_fld_correct, from_to_bits_N by exact H. reflexivity. Qed.
End PrimeBits.

(** * 5. Lifting (sectypes._SecFld with m >= q): the secure type works in a field L containing
    the requested field K through an embedding iota (the code: field(value) of the integer
    representative, constants of GF(q^e)), and out_conv maps results back (asserting degree <= 0). *)
Section Lift.
Variables K L : FieldT.
Variable iota : K -> L.
Hypothesis iota_1 : iota (f1 K) = f1 L.
Hypothesis iota_add : forall a b, iota (fadd K a b) = fadd L (iota a) (iota b).
Hypothesis iota_mul : forall a b, iota (fmul K a b) = fmul L (iota a) (iota b).
(** out_conv: None stands for the failing assert *)
Variable unlift : L -> option K.
Hypothesis unlift_iota : forall a, unlift (iota a) = Some a.
Add Field KFK : (fth K).
Add Field KFL : (fth L).

Lemma iota_0 : iota (f0 K) = f0 L.
Proof.
  assert (E : fadd L (iota (f0 K)) (iota (f0 K)) = fadd L (iota (f0 K)) (f0 L)).
  { rewrite <- iota_add. replace (fadd K (f0 K) (f0 K)) with (f0 K) by ring. ring. }
  transitivity (fsub L (fadd L (iota (f0 K)) (iota (f0 K))) (iota (f0 K))); [ring|]. rewrite E. ring.
Qed.

Lemma iota_opp a : iota (fopp K a) = fopp L (iota a).
Proof.
  assert (E : fadd L (iota (fopp K a)) (iota a) = f0 L).
  { rewrite <- iota_add. replace (fadd K (fopp K a) a) with (f0 K) by ring. apply iota_0. }
  transitivity (fsub L (fadd L (iota (fopp K a)) (iota a)) (iota a)); [ring|]. rewrite E. ring.
Qed.

Lemma iota_sub a b : iota (fsub K a b) = fsub L (iota a) (iota b).
Proof. replace (fsub K a b) with (fadd K a (fopp K b)) by ring. rewrite iota_add, iota_opp. ring. Qed.

Lemma iota_neq0 a : a <> f0 K -> iota a <> f0 L.
Proof.
  intros Ha E.
  assert (E1 : fmul L (iota a) (iota (finv K a)) = f1 L).
  { rewrite <- iota_mul. replace (fmul K a (finv K a)) with (f1 K) by (field; exact Ha). exact iota_1. }
  rewrite E in E1. apply (f1_neq_f0 L). rewrite <- E1. ring.
Qed.

Lemma iota_inj a b : iota a = iota b -> a = b.
Proof.
  intros E. destruct (feq_dec K a b) as [Eab|Nab]; [exact Eab|]. exfalso.
  apply (iota_neq0 (fsub K a b)); [apply fsub_neq0; exact Nab|]. rewrite iota_sub, E. ring.
Qed.

Lemma iota_inv a : a <> f0 K -> iota (finv K a) = finv L (iota a).
Proof.
  intros Ha. pose proof (iota_neq0 a Ha) as Hn.
  assert (E1 : fmul L (iota a) (iota (finv K a)) = f1 L).
  { rewrite <- iota_mul. replace (fmul K a (finv K a)) with (f1 K) by (field; exact Ha). exact iota_1. }
  transitivity (fmul L (finv L (iota a)) (fmul L (iota a) (iota (finv K a)))); [field; exact Hn|].
  rewrite E1. ring.
Qed.

Lemma iota_div a b : b <> f0 K -> iota (fdiv K a b) = fdiv L (iota a) (iota b).
Proof.
  intros Hb. rewrite (Fdiv_def (fth K)), (Fdiv_def (fth L)), iota_mul, iota_inv by exact Hb. reflexivity.
Qed.

Lemma iota_fpow a n : iota (fpow a n) = fpow (iota a) n.
Proof. induction n as [|n IH]; simpl; [exact iota_1|]. rewrite iota_mul, IH. reflexivity. Qed.

(** operations on lifted values stay in the image of iota, and the out-conversion returns the
    result in the REQUESTED field *)
Theorem lift_add a b : unlift (fadd L (iota a) (iota b)) = Some (fadd K a b).
Proof. rewrite <- iota_add. apply unlift_iota. Qed.
Theorem lift_sub a b : unlift (fsub L (iota a) (iota b)) = Some (fsub K a b).
Proof. rewrite <- iota_sub. apply unlift_iota. Qed.
Theorem lift_mul a b : unlift (fmul L (iota a) (iota b)) = Some (fmul K a b).
Proof. rewrite <- iota_mul. apply unlift_iota. Qed.
Theorem lift_div (recip : L -> L) a b : b <> f0 K -> recip (iota b) = finv L (iota b) ->
  unlift (div_sec recip (iota a) (iota b)) = Some (fdiv K a b).
Proof.
  intros Hb Hr. rewrite div_sec_correct by exact Hr. rewrite <- iota_div by exact Hb. apply unlift_iota.
Qed.
Theorem lift_pow (recip : L -> L) a (b : Z) : ((b < 0)%Z -> a <> f0 K /\ recip (iota a) = finv L (iota a)) ->
  unlift (pow recip (iota a) b) = Some (fzpow K a b).
Proof.
  intros H. rewrite pow_correct by (intros Hb; apply H; exact Hb).
  destruct b as [|p|p]; cbn [fzpow].
  - rewrite <- iota_1. apply unlift_iota.
  - rewrite <- iota_fpow. apply unlift_iota.
  - destruct (H ltac:(lia)) as [Ha _]. rewrite <- iota_inv by exact Ha. rewrite <- iota_fpow. apply unlift_iota.
Qed.
(** == in the lifted field (exponent |L| - 1, Fermat in L) outputs 0/1 of the requested field *)
Theorem lift_eq (qL : Z) : (2 <= qL)%Z ->
  (forall x : L, x <> f0 L -> fpow x (Z.to_nat (qL - 1)) = f1 L) ->
  forall a b, unlift (eq_sec qL (iota a) (iota b)) = Some (if feq_dec K a b then f1 K else f0 K).
Proof.
  intros Hq Hf a b. rewrite (eq_sec_correct L qL Hq Hf).
  destruct (feq_dec L (iota a) (iota b)) as [E|E], (feq_dec K a b) as [E'|E'].
  - rewrite <- iota_1. apply unlift_iota.
  - exfalso. apply E'. apply iota_inj. exact E.
  - exfalso. apply E. rewrite E'. reflexivity.
  - rewrite <- iota_0. apply unlift_iota.
Qed.

(** the same with the Fermat hypothesis for L discharged: L any enumerated finite field *)
Theorem lift_eq_finite (eltsL : list L) : NoDup eltsL -> (forall x : L, In x eltsL) ->
  forall a b, unlift (eq_sec (Z.of_nat (length eltsL)) (iota a) (iota b)) = Some (if feq_dec K a b then f1 K else f0 K).
Proof.
  intros Hnd Hall. apply lift_eq.
  - apply (finite_q_ge2 L eltsL Hnd Hall).
  - apply (finite_fermat L eltsL Hnd Hall).
Qed.
End Lift.

(** ** A concrete instance of the lifting hypotheses: GF(2) inside GF(4) = GF(2)[X]/(X^2+X+1)
    (what SecFld(2) uses when m >= 2 and t > 0). *)
Definition GF2Ops : Ops :=
  {| car := bool; f0 := false; f1 := true; fadd := xorb; fmul := andb; fsub := xorb;
     fopp := fun a => a; fdiv := andb; finv := fun a => a |}.
Lemma GF2_field_theory : field_theory (f0 GF2Ops) (f1 GF2Ops) (fadd GF2Ops) (fmul GF2Ops) (fsub GF2Ops)
  (fopp GF2Ops) (fdiv GF2Ops) (finv GF2Ops) (@eq bool).
Proof.
  constructor; [constructor| | |]; simpl; intros;
    repeat match goal with a : bool |- _ => destruct a end; try reflexivity; congruence.
Qed.
Definition GF2Field : FieldT := {| fops := GF2Ops; fth := GF2_field_theory; feq_dec := bool_dec |}.

Definition g4add (a b : bool * bool) : bool * bool := (xorb (fst a) (fst b), xorb (snd a) (snd b)).
Definition g4mul (a b : bool * bool) : bool * bool :=
  let '(a0, a1) := a in let '(b0, b1) := b in
  (xorb (a0 && b0) (a1 && b1), xorb (xorb (a0 && b1) (a1 && b0)) (a1 && b1)).
Definition GF4Ops : Ops :=
  {| car := bool * bool; f0 := (false, false); f1 := (true, false); fadd := g4add; fmul := g4mul; fsub := g4add;
     fopp := fun a => a; fdiv := fun a b => g4mul a (g4mul b b); finv := fun a => g4mul a a |}.
Lemma GF4_field_theory : field_theory (f0 GF4Ops) (f1 GF4Ops) (fadd GF4Ops) (fmul GF4Ops) (fsub GF4Ops)
  (fopp GF4Ops) (fdiv GF4Ops) (finv GF4Ops) (@eq (bool * bool)).
Proof.
  constructor; [constructor| | |]; simpl; intros;
    repeat match goal with a : (bool * bool)%type |- _ => destruct a as [[|] [|]] end; try reflexivity; congruence.
Qed.
Lemma GF4_dec (a b : bool * bool) : {a = b} + {a <> b}.
Proof. decide equality; apply bool_dec. Defined.
Definition GF4Field : FieldT := {| fops := GF4Ops; fth := GF4_field_theory; feq_dec := GF4_dec |}.
Definition iota24 (a : bool) : bool * bool := (a, false).
Definition unlift24 (a : bool * bool) : option bool := if snd a then None else Some (fst a).
Lemma GF4_fermat (x : GF4Field) : x <> f0 GF4Field -> fpow x (Z.to_nat (4 - 1)) = f1 GF4Field.
Proof. destruct x as [[|] [|]]; intros H; try reflexivity. exfalso; apply H; reflexivity. Qed.

Definition GF4_elts : list (bool * bool) := [(false, false); (true, false); (false, true); (true, true)].
Lemma GF4_elts_nodup : NoDup GF4_elts.
Proof. repeat constructor; simpl; intuition congruence. Qed.
Lemma GF4_elts_all (x : GF4Field) : In x GF4_elts.
Proof. destruct x as [[|] [|]]; simpl; auto. Qed.
Definition GF2_elts : list bool := [false; true].
Lemma GF2_elts_nodup : NoDup GF2_elts.
Proof. repeat constructor; simpl; intuition congruence. Qed.
Lemma GF2_elts_all (x : GF2Field) : In x GF2_elts.
Proof. destruct x; simpl; auto. Qed.
