(** C21 — placeholder statements (extended below). *)
Require Import MPyC.Field MPyC.Zp MPyC.FinField MPyC.Sqrt.
From Coq Require Import ZArith Znumtheory List.
Local Open Scope nat_scope.
