"""C37 — secure NumPy arrays agree with plain NumPy and with elementwise secure scalars; array-based
sharing / recombination / PRSS agree with the list-based versions.

Proof part: coq/props/C37.v over coq/theories/Arrays.v (row-major index maps, broadcasting,
elementwise lifting, matmul, sum/prod) and Shamir.v (np_random_split / np_recombine).  Tie: every case
is run on secure arrays in the multi-party simulator and compared three ways: (i) plain NumPy on the
opened inputs, (ii) the same computation with secure scalars, (iii) the Coq model (vm_compute) for
reshape/transpose/concatenate/stack/matmul/broadcast.  thresha np_* functions are called directly and
compared exactly with the list versions on the same (permuted, for np_random_split) tapes / same PRF keys.
"""
import itertools, time, math
from lib.core import zlit, zlist, natlit

MANIFEST = {
    'text': 'Coq (all shapes/sizes, by induction and arithmetic on row-major offsets): reshape keeps the flat data; '
            'transpose of an r x c matrix maps entry (i,j) to (j,i) and is an involution; concatenate/vstack along axis 0 '
            '(flat append; rank-2 row form), stack (entry (i,k) = k-th entry of the i-th array), concatenate/hstack along '
            'axis 1 for rank 2; broadcasting of a scalar / row vector / column vector against a matrix; lift_correct: entry k '
            'of the elementwise lifting map2 f is f of the entries k (equal shapes) and the same under the three broadcasting '
            'models; matmul_correct: entry (i,j) of the row-major product is sum_t A[i,t]*B[t,j], and (AB)^T = B^T A^T; sum/prod '
            'over all elements = fold of the flat data, invariant under reshape, = sum/product of row sums/products, all() of '
            'bits = product; np_random_split = random_split on a permuted tape, np_recombine = recombine (abstract field); '
            'np_pseudorandom_share_0 term (power sum i1^d..i1^1) = pseudorandom_share_zero term (Horner) on the same PRF block. Every run ties this to /repo: '
            'secure int / fixed-point / prime-field arrays (size <= 24, rank <= 3, broadcasts) in the m-party simulator '
            '((m,t)=(1,0),(3,1), PRSS on/off) against plain NumPy, against the same computation with secure scalars, and '
            'against the Coq index-map/matmul/broadcast model by vm_compute; secure arrays over GF(2^8), GF(3^4) and GF(2^31-1) '
            '(elementwise, matmul, reductions, movement, input by every party) at m=3,t=1 and m=5,t=2, PRSS on/off, against scalar '
            'field arithmetic and secure scalars, every party\'s output compared; thresha np_* vs list versions compared exactly, '
            'for extension fields including recombination of the array shares from every (t+1)-subset; an aliasing stream calls every '
            'array operation that takes a Python list, a public ndarray or a key/axes list, mutates the caller\'s container before '
            'awaiting (m=1 -M1 and m=3) and expects NumPy semantics for the arguments at call time (three open known findings, '
            'controls for the operations that copy before their first await); a max-workers stream runs comparisons, np_sgn, np_lsb, '
            'np_random_bits, sorting and fixed-point products at m=3 with MPYC_MAXWORKERS = 2 and 3 (array sizes not multiples of the '
            'number of workers, repeated) and records in the evidence that the worker-thread branch of PrimeFieldArray._sqrt ran '
            '(count of ThreadPoolExecutor submissions); the main stream is also run with option --mix32-64bit (m=3, PRSS on/off), and a '
            'stream of SecInt(64) arrays with the default modulus and user-supplied prime moduli p = 1 and p = 3 (mod 4) checks ==, !=, '
            'np.equal/not_equal, <, where, all/any, arithmetic against NumPy and secure scalars (m=1, m=3).',
    'note': 'The secure content of the array operations is the scalar protocol applied elementwise (scalar properties are '
            'proved elsewhere); here the theorems are the index maps that transfer them. Correspondence/oracle-only (no '
            'theorem): comparisons and np_sort/np_sgn/np_trunc as protocols (compared with NumPy and with secure scalars), '
            'fixed-point truncation placement in np_multiply/np_matmul (checked within 1 unit 2^-f per truncation), rank-3 '
            'transposes/swapaxes, getitem/slicing, flip, roll, where/minimum/maximum, amin/amax/argmin/argmax, cumsum, outer, '
            'trace/diag, tolist/fromlist, copy, input/output; not exercised at all: np_block, np_rot90, np_diagflat, np_split*, '
            'np_dstack/column_stack, np_log/exp/exp2/pow, np_det, np_reciprocal/divide, np_to_bits/from_bits/find, np_vander, '
            'np_convolve (used via secpols in C38), argmin/argmax with axes and keys. The mask-bound slip in '
            '_np_pow_public_int_base_secret_integral_exponent is a masking defect owned by C18, not checked here. '
            'np_pseudorandom_share_(0) are compared exactly with the list versions on the same thresha.PRF keys. Trusted: Coq kernel, simulator, NumPy as the specification.',
    'technique': 'Coq proof of row-major index maps/lifting/matmul + simulator-run three-way differential check (NumPy, secure scalars, vm_compute model)',
}


# ------------------------------------------------------------------------------------------------
# robust batched execution in the simulator (same scheme as c38: a hang or an exception escaping an
# MPyC coroutine leaves the party PENDING; the batch is resumed after the offending case)

ARITY = 4


class Watchdog(Exception):
    pass


ROUNDS_PER_CASE = 100000     # simulator rounds (event-loop spins + delivery calls) without a completed case => hang;
                             # load-independent; ordinary cases need < 6000 rounds (maximum observed is recorded in evidence)
ROUND_STATS = {'max_rounds_per_case': 0}


class WatchedFifo:
    """FIFO delivery; raises Watchdog when no case has completed for ROUNDS_PER_CASE simulator rounds (a deterministic
    measure: one round = one spin of the event loop plus one delivery call), or at once when an exception escaped an
    MPyC coroutine (the current case can then never complete)."""

    def __init__(self, errs, limit=None):
        from lib.sim import Fifo
        self.fifo = Fifo()
        self.errs = errs
        self.limit = limit or ROUNDS_PER_CASE
        self.n = 0
        self.last_n = 0

    def tick(self):
        d = self.n - self.last_n
        if d > ROUND_STATS['max_rounds_per_case']:
            ROUND_STATS['max_rounds_per_case'] = d
        self.last_n = self.n

    def deliver(self, net):
        self.n += 1
        if self.errs and any('CancelledError' not in e and 'InvalidState' not in e for e in self.errs):
            raise Watchdog()
        if self.n - self.last_n > self.limit:
            raise Watchdog()
        return self.fifo.deliver(net)


class PartyPickle:
    """pickle front end for one party copy of mpyc in the simulator: the m copies of the package are not in
    sys.modules, so classes pickled by reference (gfpx polynomial values of extension-field shares) must be looked up in
    the copy of the party that pickles / unpickles."""

    def __init__(self, mods):
        self.mods = mods

    def _with(self, f, *a, **k):
        import sys
        saved = {n: sys.modules.get(n) for n in self.mods}
        sys.modules.update(self.mods)
        try:
            return f(*a, **k)
        finally:
            for n, v in saved.items():
                if v is None:
                    sys.modules.pop(n, None)
                else:
                    sys.modules[n] = v

    def dumps(self, *a, **k):
        import pickle
        return self._with(pickle.dumps, *a, **k)

    def loads(self, *a, **k):
        import pickle
        return self._with(pickle.loads, *a, **k)


def run_batch(ctx, m, t, no_prss, cases, case_coro, seed, want_log=False, arity3=ARITY, extra=()):
    """One pass: cases run in order in one simulator; at the first case that does not complete (hang / escaped
    exception) that simulator is discarded and the rest continues in a fresh one."""
    from lib.sim import Sim
    results = [None] * len(cases)
    logs = []
    incomplete = []
    i = 0
    restarts = 0
    while i < len(cases):
        sim = Sim(m, t, no_prss=no_prss, seed=seed, track_tasks=False, log_messages=want_log, extra=tuple(extra))
        for k_ in range(m):       # arrays over extension fields are pickled: resolve classes in that party's module copy
            sim.mods[k_]['mpyc.runtime'].pickle = PartyPickle(sim.mods[k_])
        errs = []
        sim.loop.set_exception_handler(lambda loop, c: errs.append(repr(c.get('exception'))[:200]))
        try:
            sim.start()
            if not sim.started:
                raise RuntimeError('simulator start failed')
            prog_res = [[None] * len(cases) for _ in range(m)]
            start = i
            pol = WatchedFifo(errs)

            async def prog(mpc, mods, pid, start=start, prog_res=prog_res, pol=pol):
                state = {}
                for j in range(start, len(cases)):
                    try:
                        r = await (case_coro(mpc, mods, pid, state, cases[j]) if arity3 == 5 else case_coro(mpc, mods, pid, cases[j]))
                    except Exception as e:  # synchronous exceptions (asserts, TypeError ...)
                        r = ('EXC', type(e).__name__)
                    prog_res[pid][j] = ('ok', r)
                    if pid == m - 1 or m == 1:
                        pol.tick()
                return True
            try:
                sim.run(prog, pol, idle_limit=50000 if m > 1 else 10**15, max_rounds=10**15)
                stopped = 'idle'
            except Watchdog:
                stopped = 'rounds'
            if want_log:
                logs.append([[(d, peer, size) for (d, peer, pc, size) in sim.msglog[k]] for k in range(m)])
            done = True
            for j in range(start, len(cases)):
                col = [prog_res[k][j] for k in range(m)]
                if all(c is not None for c in col):
                    vals = [c[1] for c in col]
                    results[j] = vals[0] if all(v == vals[0] for v in vals) else ('DIVERGE', vals)
                    i = j + 1
                else:
                    exc = [e for e in errs if 'CancelledError' not in e and 'InvalidState' not in e]
                    results[j] = ('EXC', exc[0].split('(')[0]) if exc else ('HANG', stopped)
                    incomplete.append(j)
                    i = j + 1
                    done = False
                    restarts += 1
                    break
            if done:
                try:
                    sim.shutdown()
                except Exception:
                    pass
        finally:
            sim.close()
    ctx.extra['sim_restarts'] = ctx.extra.get('sim_restarts', 0) + restarts
    return results, logs, incomplete


def run_cases(ctx, m, t, no_prss, cases, case_coro, seed, want_log=False, isolated=(), extra=()):
    """cases: list of JSON-able case descriptions.  Returns per-case results: value | ('EXC', name) | ('HANG', how) |
    ('DIVERGE', per-party values).  Cases whose index is in `isolated` (predicted not to terminate) run alone in their own
    simulator.  Every case that did not complete (HANG / escaped EXC) in a shared simulator is re-run once alone in a
    fresh simulator and the outcome of that isolated run is what is reported."""
    isolated = set(isolated)
    shared = [j for j in range(len(cases)) if j not in isolated]
    results = [None] * len(cases)
    res, logs, inc = run_batch(ctx, m, t, no_prss, [cases[j] for j in shared], case_coro, seed, want_log, extra=extra)
    for j, r in zip(shared, res):
        results[j] = r
    redo = [] if want_log else [shared[q] for q in inc] + [j for j in shared if isinstance(results[j], tuple) and results[j][:1] == ('DIVERGE',)]
    for j in sorted(isolated) + redo:
        results[j] = run_batch(ctx, m, t, no_prss, [cases[j]], case_coro, seed, extra=extra)[0][0]
    if redo:
        ctx.extra['cases_rerun_in_isolation'] = ctx.extra.get('cases_rerun_in_isolation', 0) + len(redo)
    ctx.extra['max_rounds_per_case'] = ROUND_STATS['max_rounds_per_case']
    ctx.extra['hang_limit_rounds'] = ROUNDS_PER_CASE
    return (results, logs) if want_log else results


# ------------------------------------------------------------------------------------------------
# types, data

P = 101
F = 8          # secfxp(16): 8 fractional bits


def gen_vals(rng, tname, n):
    if tname.startswith('int64'):
        return [rng.choice([0, 1, -1, 2**31 - 1, -2**31, rng.randint(-10**6, 10**6), rng.randint(-20, 20)]) for _ in range(n)]
    if tname == 'int':
        return [rng.choice([0, 1, -1, 7, -8, rng.randint(-20, 20), rng.randint(-20, 20)]) for _ in range(n)]
    if tname == 'fld':
        return [rng.choice([0, 1, P - 1, rng.randrange(P), rng.randrange(P)]) for _ in range(n)]
    if tname == 'fxpi':   # integral fixed-point array
        return [rng.randint(-6, 6) for _ in range(n)]
    # 'fxp': multiples of 1/16 in [-4, 4]: exactly representable, products exact with 8 fractional bits
    return [rng.choice([0.0, 0.5, -0.25, 1.0, rng.randint(-64, 64) / 16, rng.randint(-64, 64) / 16]) for _ in range(n)]


def prodshape(s):
    n = 1
    for d in s:
        n *= d
    return n


# ------------------------------------------------------------------------------------------------
# operations: name -> (array function f(np, x, y, k), scalar function or None, type names, tolerance in units)
# array functions use only operators / np.* functions / methods available for numpy arrays AND secure arrays

def bc_index(np, xs, ys):
    """index arrays of the broadcast of shapes xs, ys (plain numpy)"""
    ia = np.arange(max(1, prodshape(xs))).reshape(xs)
    ib = np.arange(max(1, prodshape(ys))).reshape(ys)
    A, B = np.broadcast_arrays(ia, ib)
    return A.reshape(-1).tolist(), B.reshape(-1).tolist(), list(A.shape)


import operator as _op
EW = {'add': _op.add, 'sub': _op.sub, 'mul': _op.mul, 'lt': _op.lt, 'le': _op.le, 'gt': _op.gt, 'ge': _op.ge,
      'eq': _op.eq, 'ne': _op.ne}


def ops_table():
    T = {}
    for nm, f in EW.items():
        T['ew_' + nm] = dict(arr=lambda np, x, y, k, f=f: f(x, y), sc='ew', f=f,
                             types=('int', 'fxp', 'fxpi', 'fld') if nm in ('add', 'sub', 'mul', 'eq', 'ne') else ('int', 'fxp', 'fxpi'),
                             arity=2, bc=True, tol=1 if nm == 'mul' else 0)
    # public scalar / public array / secure scalar operands
    T['pub_add'] = dict(arr=lambda np, x, y, k: x + k, types=('int', 'fxp', 'fld'), arity=1, ks=(3, -2))
    T['pub_rsub'] = dict(arr=lambda np, x, y, k: k - x, types=('int', 'fxp', 'fld'), arity=1, ks=(3, 0))
    T['pub_mul'] = dict(arr=lambda np, x, y, k: x * k, types=('int', 'fxp', 'fxpi', 'fld'), arity=1, ks=(2, -3))
    T['pub_mul_float'] = dict(arr=lambda np, x, y, k: x * k, types=('fxp', 'fxpi'), arity=1, ks=(0.5, -1.25), tol=1)
    T['pubarr_add'] = dict(arr=lambda np, x, y, k: x + y, types=('int', 'fld', 'fxp'), arity=2, ypub=True, bc=True)
    T['pubarr_mul'] = dict(arr=lambda np, x, y, k: x * y, types=('int', 'fld', 'fxp'), arity=2, ypub=True, bc=True, tol=1)
    T['sec_scalar_mul'] = dict(arr=lambda np, x, y, k: x * y, types=('int', 'fxp', 'fld'), arity=2, yscalar=True, tol=1)
    T['sec_scalar_add'] = dict(arr=lambda np, x, y, k: y + x, types=('int', 'fxp', 'fld'), arity=2, yscalar=True)
    T['neg'] = dict(arr=lambda np, x, y, k: -x, types=('int', 'fxp', 'fld'), arity=1)
    T['abs'] = dict(arr=lambda np, x, y, k: np.absolute(x), types=('int', 'fxp'), arity=1)
    T['minimum'] = dict(arr=lambda np, x, y, k: np.minimum(x, y), types=('int', 'fxp'), arity=2)
    T['maximum'] = dict(arr=lambda np, x, y, k: np.maximum(x, y), types=('int', 'fxp'), arity=2)
    T['where'] = dict(arr=lambda np, x, y, k: np.where(x < y, x, y), types=('int',), arity=2)
    # matmul
    T['matmul'] = dict(arr=lambda np, x, y, k: x @ y, sc='matmul', types=('int', 'fxp', 'fxpi', 'fld'), arity=2, mm=True, tol=1)
    T['matmul_mixed_integral'] = dict(arr=lambda np, x, y, k: x @ y, types=('fxpmix',), arity=2, mm=True, tol=1)
    T['matmul_pub'] = dict(arr=lambda np, x, y, k: x @ y, types=('int', 'fxp', 'fld'), arity=2, mm=True, ypub=True, tol=1)
    T['outer'] = dict(arr=lambda np, x, y, k: np.outer(x, y), types=('int', 'fld'), arity=2, vec=True)
    # reductions
    T['sum'] = dict(arr=lambda np, x, y, k: np.sum(x), sc='sum', types=('int', 'fxp', 'fld'), arity=1)
    T['sum_axis'] = dict(arr=lambda np, x, y, k: np.sum(x, axis=k), types=('int', 'fxp', 'fld'), arity=1, axis=True)
    T['prod'] = dict(arr=lambda np, x, y, k: np.prod(x), sc='prod', types=('int', 'fld', 'fxpi'), arity=1, small=True)
    T['prod_axis'] = dict(arr=lambda np, x, y, k: np.prod(x, axis=k), types=('int', 'fld'), arity=1, axis=True, small=True)
    T['all'] = dict(arr=lambda np, x, y, k: np.all(x == y), types=('int', 'fld'), arity=2)
    T['any'] = dict(arr=lambda np, x, y, k: np.any(x != y), types=('int', 'fld'), arity=2)
    T['all_axis'] = dict(arr=lambda np, x, y, k: np.all(x == y, axis=k), types=('int',), arity=2, axis=True)
    T['cumsum'] = dict(arr=lambda np, x, y, k: np.cumsum(x), types=('int', 'fld'), arity=1)
    T['amin'] = dict(arr=lambda np, x, y, k: np.amin(x), types=('int', 'fxp'), arity=1)
    T['amax_axis'] = dict(arr=lambda np, x, y, k: np.amax(x, axis=k), types=('int',), arity=1, axis=True)
    T['argmin'] = dict(arr=lambda np, x, y, k: np.argmin(x), types=('int',), arity=1, nonempty=True)
    T['argmax'] = dict(arr=lambda np, x, y, k: np.argmax(x), types=('int',), arity=1, nonempty=True)
    # sorting
    T['sort_axis'] = dict(arr=lambda np, x, y, k: np.sort(x, axis=k), types=('int', 'fxp'), arity=1, axis=True)
    T['sort_last'] = dict(arr=lambda np, x, y, k: np.sort(x), types=('int', 'fxp'), arity=1)
    T['sort_flat'] = dict(arr=lambda np, x, y, k: np.sort(x, axis=None), sc='sorted', types=('int', 'fxp'), arity=1)
    # shape manipulation
    T['reshape'] = dict(arr=lambda np, x, y, k: np.reshape(x, k), types=('int', 'fld', 'fxp'), arity=1, reshape=True)
    T['flatten'] = dict(arr=lambda np, x, y, k: x.flatten(), types=('int', 'fld'), arity=1)
    T['transpose'] = dict(arr=lambda np, x, y, k: x.T, types=('int', 'fld', 'fxp'), arity=1)
    T['np_transpose'] = dict(arr=lambda np, x, y, k: np.transpose(x), types=('int',), arity=1)
    T['swapaxes'] = dict(arr=lambda np, x, y, k: x.swapaxes(0, -1), types=('int',), arity=1)
    T['concatenate0'] = dict(arr=lambda np, x, y, k: np.concatenate((x, y)), types=('int', 'fld', 'fxp'), arity=2, same=True)
    T['concatenate1'] = dict(arr=lambda np, x, y, k: np.concatenate((x, y), axis=1), types=('int', 'fld'), arity=2, same=True, rank2=True)
    T['stack'] = dict(arr=lambda np, x, y, k: np.stack((x, y, x)), types=('int', 'fld'), arity=2, same=True)
    T['stack1'] = dict(arr=lambda np, x, y, k: np.stack((x, y), axis=1), types=('int',), arity=2, same=True)
    T['hstack'] = dict(arr=lambda np, x, y, k: np.hstack((x, y)), types=('int', 'fld'), arity=2, same=True)
    T['vstack'] = dict(arr=lambda np, x, y, k: np.vstack((x, y)), types=('int', 'fld'), arity=2, same=True)
    T['flip'] = dict(arr=lambda np, x, y, k: np.flip(x), types=('int',), arity=1)
    T['roll'] = dict(arr=lambda np, x, y, k: np.roll(x, 2), types=('int',), arity=1)
    T['copy'] = dict(arr=lambda np, x, y, k: x.copy(), types=('int', 'fxp'), arity=1)
    T['getitem_0'] = dict(arr=lambda np, x, y, k: x[0], types=('int', 'fld', 'fxp'), arity=1, nonempty=True)
    T['getitem_last'] = dict(arr=lambda np, x, y, k: x[..., -1], types=('int', 'fld'), arity=1, nonempty=True)
    T['getitem_slice'] = dict(arr=lambda np, x, y, k: x[::2], types=('int', 'fld'), arity=1)
    T['getitem_col'] = dict(arr=lambda np, x, y, k: x[:, 1:], types=('int',), arity=1, rank2p=True)
    T['getitem_neg'] = dict(arr=lambda np, x, y, k: x[::-1], types=('int',), arity=1)
    T['tolist'] = dict(arr=lambda np, x, y, k: x.tolist(), types=('int', 'fld'), arity=1)
    # protocol-level array functions, called through the party's runtime
    T['np_sgn'] = dict(arr=lambda np, x, y, k: np.sign(x), arr_mpc=lambda mpc, np, x, y, k: mpc.np_sgn(x), types=('int', 'fxp'), wtypes=('int', 'fxp'), arity=1)
    T['np_lsb'] = dict(arr=lambda np, x, y, k: x % 2, arr_mpc=lambda mpc, np, x, y, k: mpc.np_lsb(x), types=('int',), wtypes=('int',), arity=1)
    T['np_random_bits'] = dict(arr=lambda np, x, y, k: x * 0,
                               arr_mpc=lambda mpc, np, x, y, k: (lambda b: b * (1 - b) + 0 * x)(mpc.np_random_bits(type(x).sectype, x.size).reshape(x.shape)),
                               types=('int',), wtypes=('int',), arity=1)
    T['np_equal'] = dict(arr=lambda np, x, y, k: np.equal(x, y), types=(), arity=2)
    T['np_not_equal'] = dict(arr=lambda np, x, y, k: np.not_equal(x, y), types=(), arity=2)
    T['inout'] = dict(arr=lambda np, x, y, k: x, types=('int', 'fxp', 'fld', 'fxpi'), arity=1, inout=True)
    return T


SHAPES = [(3,), (5,), (7,), (1,), (4,), (2, 3), (3, 2), (1, 3), (3, 1), (2, 2), (4, 5), (2, 2, 3), (2, 3, 2), (2, 1, 3), (3, 2, 4)]
BC_PAIRS = [((2, 3), (3,)), ((2, 3), (1, 3)), ((2, 3), (2, 1)), ((2, 2, 3), (2, 3)), ((2, 2, 3), (3,)), ((3, 1), (1, 4)),
            ((2, 3), (1,)), ((3,), (2, 3)), ((2, 1, 3), (2, 1)), ((4,), (4,)), ((2, 3), (2, 3)), ((2, 3, 2), (2, 3, 2))]
MM_PAIRS = [((2, 3), (3, 2)), ((3,), (3,)), ((2, 3), (3,)), ((3,), (3, 2)), ((2, 2, 3), (3, 2)), ((1, 4), (4, 1)),
            ((3, 3), (3, 3)), ((2, 2, 3), (2, 3, 2)), ((4, 1), (1, 4)), ((2, 5), (5, 2))]


def gen_cases(ctx, T, per_op):
    rng = ctx.rng
    cases = []
    for nm, spec in T.items():
        for tname in spec['types']:
            for rep in range(per_op):
                k = None
                ty = tx = tname
                if tname == 'fxpmix':
                    tx, ty = ('fxpi', 'fxp') if rep % 2 == 0 else ('fxp', 'fxpi')
                if spec.get('mm'):
                    xs, ys = rng.choice(MM_PAIRS)
                elif spec.get('bc'):
                    xs, ys = rng.choice(BC_PAIRS)
                elif spec.get('vec'):
                    xs, ys = rng.choice([(3,), (2, 2), (4,)]), rng.choice([(2,), (3,), (1, 3)])
                elif spec.get('rank2'):
                    xs = rng.choice([(2, 3), (3, 2), (1, 3), (2, 2)])
                    ys = (xs[0], rng.choice([1, 2, 4]))
                elif spec.get('rank2p'):
                    xs = ys = rng.choice([s for s in SHAPES if len(s) >= 2])
                elif spec.get('small'):
                    xs = ys = rng.choice([(3,), (2, 2), (1,), (4,), (2, 1, 2)])
                else:
                    xs = ys = rng.choice(SHAPES)
                if nm in ('hstack', 'vstack', 'concatenate0', 'stack', 'stack1'):
                    ys = xs
                    if nm == 'concatenate0' and rng.random() < 0.5:
                        ys = (rng.choice([1, 2]),) + xs[1:]
                if spec.get('axis'):
                    k = rng.randrange(-1, len(xs))
                if spec.get('reshape'):
                    n = prodshape(xs)
                    opts = [(n,), (-1,), (1, n), (n, 1)] + [(d, n // d) for d in range(2, n) if n % d == 0] + \
                           [(2, 2, n // 4)] * (n % 4 == 0)
                    k = rng.choice(opts)
                if 'ks' in spec:
                    k = spec['ks'][rep % len(spec['ks'])]
                if spec.get('yscalar'):
                    ys = ()
                if spec['arity'] == 1:
                    ys = None
                xv = gen_vals(rng, tx, prodshape(xs))
                yv = gen_vals(rng, ty, prodshape(ys)) if ys is not None else None
                if nm.startswith('sort') or nm in ('argmin', 'argmax', 'amin', 'amax_axis'):
                    pass
                if nm in ('ew_eq', 'ew_ne', 'all', 'any', 'all_axis', 'ew_le', 'ew_ge') and yv is not None and rng.random() < 0.6:
                    # force many equal entries
                    A, B, _ = bc_index(__import__('numpy'), xs, ys)
                    for a, b in zip(A, B):
                        if rng.random() < 0.7:
                            yv[b] = xv[a]
                if nm in ('argmin', 'argmax'):
                    xv = rng.sample(range(-30, 30), len(xv)) if tname == 'int' else xv     # distinct: unique arg
                cases.append((nm, tx, ty, list(xs), xv, (list(ys) if ys is not None else None), yv, k))
    return cases


_MODULI = []


def user_moduli(gmpy):
    """deterministic user-supplied prime moduli for SecInt(64, p=P): the first primes above 2^96 (P > 2^(l+k+1) for l=64 at
    the default security parameter 30) that are 1 mod 4 (NOT a Blum prime) and 3 mod 4 (as in c31.py)"""
    if not _MODULI:
        q = 1 << 96
        P1 = P3 = None
        while P1 is None or P3 is None:
            q = int(gmpy.next_prime(q))
            if q % 4 == 1 and P1 is None:
                P1 = q
            if q % 4 == 3 and P3 is None:
                P3 = q
        _MODULI.extend([P1, P3])
    return tuple(_MODULI)


def make_case_coro(T):
    async def case_coro(mpc, mods, pid, case):
        (nm, tx, ty, xs, xv, ys, yv, k) = case
        np = mods['mpyc.numpy'].np
        spec = T[nm]
        secint, secfxp, secfld = mpc.SecInt(16), mpc.SecFxp(16), mpc.SecFld(P)

        def stype(tn):
            if tn.startswith('int64'):
                P1, P3 = user_moduli(mods['mpyc.gmpy'])
                return {'int64': lambda: mpc.SecInt(64), 'int64p1': lambda: mpc.SecInt(64, p=P1), 'int64p3': lambda: mpc.SecInt(64, p=P3)}[tn]()
            return {'int': secint, 'fld': secfld, 'fxp': secfxp, 'fxpi': secfxp}[tn]

        def plain(tn, vals, shape):
            if tn == 'fxp':
                return np.array(vals, dtype=float).reshape(shape)
            if tn == 'fld':
                return np.array(vals, dtype=object).reshape(shape)
            return np.array(vals, dtype=int).reshape(shape)

        async def conv(r):
            if isinstance(r, (list, tuple)):
                return [await conv(e) for e in r]
            v = await mpc.output(r)
            return canon_val(v)

        def canon_val(v):
            if hasattr(v, 'value') and hasattr(v.value, 'tolist'):
                return ('arr', list(v.shape), [int(e) for e in v.value.reshape(-1).tolist()])
            if hasattr(v, 'tolist') and hasattr(v, 'shape'):
                flat = v.reshape(-1).tolist()
                return ('arr', list(v.shape), [e if isinstance(e, float) else int(e) for e in flat])
            if hasattr(v, 'value'):
                return ('val', int(v.value))
            return ('val', v if isinstance(v, float) else int(v))

        # genuinely shared inputs: party 0 inputs x, party (m-1) inputs y
        m = len(mpc.parties)
        x = mpc.input(stype(tx).array(plain(tx, xv, xs)), senders=0)
        y = None
        if ys is not None:
            if spec.get('ypub'):
                y = plain(ty, yv, ys)
                if ty == 'fld':
                    y = np.array(yv, dtype=int).reshape(ys)
            elif spec.get('yscalar'):
                y = mpc.input(stype(ty)(yv[0]), senders=m - 1)
            else:
                y = mpc.input(stype(ty).array(plain(ty, yv, ys)), senders=m - 1)
        out = {}
        if spec.get('inout'):
            out['integral'] = bool(getattr(x, 'integral', True))
            raw = await mpc.output(mpc.input(stype(tx).array(plain(tx, xv, xs)), senders=list(range(m)))[m - 1])
            out['arr'] = canon_val(raw)
            out['sc'] = await conv(x)
            return out
        r = spec['arr_mpc'](mpc, np, x, y, k) if 'arr_mpc' in spec else spec['arr'](np, x, y, k)
        if hasattr(r, 'integral'):
            out['integral'] = bool(r.integral)
        out['arr'] = await conv(r)
        # (ii) the same computation with secure scalars
        sc = spec.get('sc')
        if sc:
            xl = x.flatten().tolist() if xs else [x]
            if sc == 'ew':
                yl = y.flatten().tolist()
                A, B, shp = bc_index(np, tuple(xs), tuple(ys))
                res = [spec['f'](xl[a], yl[b]) for a, b in zip(A, B)]
                out['sc'] = ('arr', shp, [c[1] for c in [canon_val(v) for v in await mpc.output(res)]]) if res else ('arr', shp, [])
            elif sc == 'matmul':
                yl = y.flatten().tolist()
                I, J, KK, shp = mm_index(np, tuple(xs), tuple(ys))
                res = [mpc.sum([xl[a] * yl[b] for a, b in terms]) for terms in I]
                vals = [canon_val(v)[1] for v in await mpc.output(res)]
                out['sc'] = ('arr', shp, vals) if shp else ('val', vals[0])
            elif sc == 'sum':
                out['sc'] = canon_val(await mpc.output(mpc.sum(xl)))
            elif sc == 'prod':
                out['sc'] = canon_val(await mpc.output(mpc.prod(xl)))
            elif sc == 'sorted':
                vals = [canon_val(v)[1] for v in await mpc.output(mpc.sorted(xl))]
                out['sc'] = ('arr', [len(vals)], vals)
        return out
    return case_coro


def mm_index(np, xs, ys):
    """for every output entry of x @ y the list of (flat index in x, flat index in y) pairs"""
    ia = np.arange(prodshape(xs)).reshape(xs)
    ib = np.arange(prodshape(ys)).reshape(ys)
    n = xs[-1]
    # use object arrays of tuples via einsum-free explicit loops
    A = ia if ia.ndim > 1 else ia.reshape(1, n)
    B = ib if ib.ndim > 1 else ib.reshape(n, 1)
    batch = np.broadcast_shapes(A.shape[:-2], B.shape[:-2])
    A = np.broadcast_to(A, batch + A.shape[-2:])
    B = np.broadcast_to(B, batch + B.shape[-2:])
    terms = []
    for bidx in itertools.product(*[range(d) for d in batch]):
        for i in range(A.shape[-2]):
            for j in range(B.shape[-1]):
                terms.append([(int(A[bidx + (i, t)]), int(B[bidx + (t, j)])) for t in range(n)])
    shp = list(batch)
    if ia.ndim > 1:
        shp.append(A.shape[-2])
    if ib.ndim > 1:
        shp.append(B.shape[-1])
    return terms, None, None, shp


def numpy_oracle(T, case):
    """plain NumPy on the opened inputs; ints exact (Python ints), field reduced mod P, floats for fixed point"""
    import numpy
    (nm, tx, ty, xs, xv, ys, yv, k) = case
    spec = T[nm]

    def plain(tn, vals, shape):
        if tn == 'fxp':
            return numpy.array(vals, dtype=float).reshape(shape)
        return numpy.array(vals, dtype=object).reshape(shape) if tn == 'fld' else numpy.array(vals, dtype=int).reshape(shape)
    x = plain(tx, xv, xs)
    y = None
    if ys is not None:
        y = plain(ty, yv, ys)
        if spec.get('yscalar'):
            y = y.reshape(-1)[0]
    if spec.get('inout'):
        r = x
    else:
        r = spec['arr'](numpy, x, y, k)

    def cv(v):
        if isinstance(v, list):
            return [cv(e) for e in v]
        if isinstance(v, numpy.ndarray):
            flat = v.reshape(-1).tolist()
            return ('arr', list(v.shape), [fix(e) for e in flat])
        return ('val', fix(v))

    def fix(e):
        if isinstance(e, (bool, numpy.bool_)):
            e = int(e)
        if isinstance(e, (float, numpy.floating)):
            return float(e)
        e = int(e)
        return e % P if tx == 'fld' else e
    return cv(r)


def close(a, b, tol_units):
    """compare canonical values; floats within tol_units * 2^-F"""
    if isinstance(a, list) and isinstance(b, list):
        return len(a) == len(b) and all(close(x, y, tol_units) for x, y in zip(a, b))
    if isinstance(a, list) or isinstance(b, list):
        return False
    if a[0] != b[0]:
        # a 0-d array and a scalar are the same value
        if {a[0], b[0]} == {'arr', 'val'}:
            av = a[2][0] if a[0] == 'arr' and a[1] == [] and len(a[2]) == 1 else (a[1] if a[0] == 'val' else None)
            bv = b[2][0] if b[0] == 'arr' and b[1] == [] and len(b[2]) == 1 else (b[1] if b[0] == 'val' else None)
            return av is not None and bv is not None and abs(av - bv) <= tol_units * 2.0 ** -F + 1e-12
        return False
    if a[0] == 'val':
        return abs(a[1] - b[1]) <= tol_units * 2.0 ** -F + 1e-12
    return a[1] == b[1] and len(a[2]) == len(b[2]) and all(abs(x - y) <= tol_units * 2.0 ** -F + 1e-12 for x, y in zip(a[2], b[2]))


# ------------------------------------------------------------------------------------------------
# Coq model expressions for the index-map / matmul / broadcast cases (integers; fields reduced after)

def model_expr(case):
    (nm, tx, ty, xs, xv, ys, yv, k) = case
    if tx not in ('int', 'fld') or (ty not in ('int', 'fld')):
        return None
    X = zlist(xv)
    if nm in ('transpose', 'np_transpose') and len(xs) == 2:
        return 'transpose2 %s %s %s' % (natlit(xs[0]), natlit(xs[1]), X)
    if nm in ('reshape', 'flatten'):
        return 'flat (reshape [] (%s, %s))' % ('[' + '; '.join(natlit(d) for d in xs) + ']', X)
    if nm in ('concatenate0', 'vstack') and (len(xs) >= 2 or nm == 'concatenate0'):
        return 'ex_concat0 %s %s' % (X, zlist(yv))
    if nm == 'vstack' and len(xs) == 1:
        return 'ex_concat0 %s %s' % (X, zlist(yv))
    if nm == 'hstack' and len(xs) == 1:
        return 'ex_concat0 %s %s' % (X, zlist(yv))
    if nm in ('concatenate1', 'hstack') and len(xs) == 2:
        return 'concat1 %s %s %s %s %s' % (natlit(xs[0]), natlit(xs[1]), natlit(ys[1]), X, zlist(yv))
    if nm == 'stack':
        return 'flat (stack0 [] [%s; %s; %s])' % (X, zlist(yv), X)
    if nm in ('matmul', 'matmul_pub') and len(xs) <= 2 and len(ys) <= 2:
        r = xs[0] if len(xs) == 2 else 1
        c = ys[1] if len(ys) == 2 else 1
        return 'matmul %s %s %s %s %s' % (natlit(r), natlit(xs[-1]), natlit(c), X, zlist(yv))
    if nm in ('ew_add', 'ew_sub', 'ew_mul', 'pubarr_add', 'pubarr_mul'):
        f = {'ew_add': 'Z.add', 'ew_sub': 'Z.sub', 'ew_mul': 'Z.mul', 'pubarr_add': 'Z.add', 'pubarr_mul': 'Z.mul'}[nm]
        if xs == ys:
            return 'map2 %s %s %s' % (f, X, zlist(yv))
        if len(xs) == 2 and ys in ([xs[1]], [1, xs[1]]):
            return 'map2 %s %s (bc_row %s %s)' % (f, X, natlit(xs[0]), zlist(yv))
        if len(xs) == 2 and ys == [xs[0], 1]:
            return 'map2 %s %s (bc_col %s %s)' % (f, X, natlit(xs[1]), zlist(yv))
        if len(xs) == 2 and ys == [1]:
            return 'map2 %s %s (bc_scalar %s (%d))' % (f, X, natlit(xs[0] * xs[1]), yv[0])
    if nm == 'sum':
        return '[asum ([], %s)]' % X
    if nm == 'prod':
        return '[aprod ([], %s)]' % X
    return None


# ------------------------------------------------------------------------------------------------
# thresha: array versions vs list versions

class Tape:
    def __init__(self, vals):
        self.vals = list(vals)
        self.pos = 0

    def randbelow(self, n):
        v = self.vals[self.pos] % n
        self.pos += 1
        return v


def thresha_checks(ctx, np):
    from mpyc import thresha, finfields
    import secrets as _secrets
    rng = ctx.rng
    n_ok = 0
    for p in (7, 11, 101, 257, 2 ** 61 - 1):
        Fp = finfields.GF(p)
        for m in range(1, 6):
            if m >= p:
                continue
            for t in range(0, m):
                n = rng.choice([1, 2, 3, 5])
                ss = [rng.choice([0, 1, p - 1, rng.randrange(p)]) for _ in range(n)]
                tape = [rng.randrange(p) for _ in range(t * n)]
                # np_random_split(tape) == random_split(tape'), tape'[h*t + j] = tape[(t-1-j)*n + h]
                tp = Tape(tape)
                thresha.secrets = tp
                try:
                    npsh = thresha.np_random_split(Fp, Fp.array(np.array(ss, dtype=object)), t, m)
                finally:
                    thresha.secrets = _secrets
                npsh = [[int(v) % p for v in row] for row in np.asarray(npsh).tolist()]
                perm = [tape[(t - 1 - j) * n + h] for h in range(n) for j in range(t)]
                thresha.secrets = Tape(perm)
                try:
                    lsh = thresha.random_split(Fp, list(ss), t, m)
                finally:
                    thresha.secrets = _secrets
                lsh = [[int(v) % p for v in row] for row in lsh]
                key = {'p': p, 'm': m, 't': t, 'ss': ss, 'tape': tape}
                ctx.case(dict(key, what='np_random_split'), nontrivial=t >= 1, kind='thresha np_random_split')
                if npsh != lsh or tp.pos != t * n:
                    ctx.violation('thresha-np_random_split differs from random_split on the permuted tape',
                                  dict(key, np=npsh, list=lsh, consumed=tp.pos))
                else:
                    n_ok += 1
                # np_recombine vs recombine on every subset of size t+1 (and one larger), several points
                subs = [I for I in itertools.combinations(range(m), t + 1)][:6] + ([tuple(range(m))] if m > t + 1 else [])
                for I in subs:
                    for xr in (0, m + 1, [0, I[0] + 1]):
                        pts_l = [(i + 1, lsh[i]) for i in I]
                        pts_a = [(i + 1, npsh[i]) for i in I]
                        a = thresha.np_recombine(Fp, pts_a, xr)
                        b = thresha.recombine(Fp, pts_l, xr)
                        a = np.asarray(a.value if hasattr(a, 'value') else a).tolist()
                        cvt = lambda z: [cvt(e) for e in z] if isinstance(z, list) else int(z) % p
                        ctx.case(dict(key, what='np_recombine', I=list(I), xr=xr), nontrivial=True, kind='thresha np_recombine')
                        if cvt(a) != cvt(b):
                            ctx.violation('thresha-np_recombine differs from recombine', dict(key, I=list(I), xr=xr, np=cvt(a), list=cvt(b)))
                        elif xr == 0 and cvt(b) != [s % p for s in ss]:
                            ctx.violation('thresha-recombine does not return the secrets', dict(key, I=list(I), got=cvt(b)))
                        else:
                            n_ok += 1
                # PRSS with the same keys
                if t >= 0:
                    keys = {}
                    for S in itertools.combinations(range(m), m - t):
                        keys[S] = bytes(rng.getrandbits(8) for _ in range(16))
                    uci = bytes(rng.getrandbits(8) for _ in range(6))
                    nn = rng.choice([1, 2, 4])
                    sh_l, sh_a, z_l, z_a = [], [], [], []
                    for i in range(m):
                        prfs = {S: thresha.PRF(kk, p) for S, kk in keys.items() if i in S}
                        sl = [int(v) % p for v in thresha.pseudorandom_share(Fp, m, i, prfs, uci, nn)]
                        sa = thresha.np_pseudorandom_share(Fp, m, i, prfs, uci, nn)
                        sa = [int(v) % p for v in np.asarray(sa.value).tolist()]
                        zl = [int(v) % p for v in thresha.pseudorandom_share_zero(Fp, m, i, prfs, uci, nn)]
                        za = thresha.np_pseudorandom_share_0(Fp, m, i, prfs, uci, nn)
                        za = [int(v) % p for v in np.asarray(za.value).reshape(-1).tolist()]
                        sh_l.append(sl); sh_a.append(sa); z_l.append(zl); z_a.append(za)
                        ctx.case(dict(key, what='prss', i=i, n=nn), nontrivial=True, kind='thresha np_pseudorandom_share(_0)')
                        if sl != sa:
                            ctx.violation('thresha-np_pseudorandom_share differs from pseudorandom_share', dict(key, i=i, np=sa, list=sl))
                        elif zl != za:
                            ctx.violation('thresha-np_pseudorandom_share_0 differs from pseudorandom_share_zero (same PRF keys)',
                                          dict(key, i=i, np=za, list=zl))
                        else:
                            n_ok += 1
                    # both zero-sharings really share zero (degree <= m-1 interpolation over all parties at 0), the
                    # random sharings of all parties are consistent with degree t
                    if m > t:
                        for name, rows, deg in (('list-zero', z_l, 2 * t if 2 * t < m else None), ('np-zero', z_a, 2 * t if 2 * t < m else None), ('random', sh_l, t)):
                            if deg is None:
                                continue
                            pts = [(i + 1, rows[i]) for i in range(deg + 1)]
                            full = [(i + 1, rows[i]) for i in range(m)]
                            r0 = [int(v) % p for v in thresha.recombine(Fp, pts, 0)]
                            r1 = [int(v) % p for v in thresha.recombine(Fp, full, 0)]
                            if r0 != r1 or (name != 'random' and any(r1)):
                                ctx.violation('thresha-prss sharing inconsistent (%s)' % name, dict(key, rows=rows, r0=r0, r1=r1))
    ctx.extra['thresha_exact_agreements'] = n_ok


# ------------------------------------------------------------------------------------------------
# secure arrays over extension fields GF(2^8), GF(3^4) and a medium prime field, m=3,t=1 and m=5,t=2: array sharing
# (np_random_split), resharing and recombination with field-typed x-coordinates; outputs checked at EVERY party

EXT_FIELDS = (2 ** 8, 3 ** 4, 2 ** 31 - 1)
EXT_OPS = ('add', 'sub', 'mul', 'matmul', 'eq', 'ne', 'neg', 'sum', 'sum_axis0', 'sec_scalar_mul', 'transpose', 'reshape',
           'concatenate', 'getitem', 'inout', 'mul_chain')


def enc(gfpx, e, q):
    """integer encoding of an int / gfpx polynomial / finite field element"""
    if isinstance(e, gfpx.Polynomial):
        return int(e)
    v = getattr(e, 'value', e)
    if isinstance(v, gfpx.Polynomial):
        return int(v)
    return int(v) % q


def main_field(FF, q):
    import math
    for pr in (2, 3):
        d = round(math.log(q, pr))
        if pr ** d == q and d > 1:
            return FF.GF(FF.find_irreducible(pr, d))
    return FF.GF(q)


def ext_cases(ctx, per_op):
    rng = ctx.rng
    cases = []
    for q in EXT_FIELDS:
        for op in EXT_OPS:
            for rep in range(per_op):
                if op == 'matmul':
                    xs, ys = rng.choice([((2, 3), (3, 2)), ((3,), (3,)), ((2, 2), (2,)), ((1, 4), (4, 2))])
                elif op in ('add', 'sub', 'mul', 'eq', 'ne'):
                    xs, ys = rng.choice([((2, 3), (2, 3)), ((2, 3), (3,)), ((4,), (4,)), ((2, 2), (2, 1)), ((3,), (1,))])
                elif op == 'sec_scalar_mul':
                    xs, ys = rng.choice([(3,), (2, 2)]), ()
                else:
                    xs = ys = rng.choice([(3,), (2, 3), (2, 2), (4,)])
                xv = [rng.choice([0, 1, q - 1, rng.randrange(q), rng.randrange(q)]) for _ in range(prodshape(xs))]
                yv = [rng.choice([0, 1, q - 1, rng.randrange(q), rng.randrange(q)]) for _ in range(max(1, prodshape(ys)))]
                if op in ('eq', 'ne'):
                    A, B, _ = bc_index(__import__('numpy'), xs, ys)
                    for a_, b_ in zip(A, B):
                        if rng.random() < 0.5:
                            yv[b_] = xv[a_]
                cases.append((q, op, list(xs), xv, list(ys), yv))
    return cases


async def ext_case_coro(mpc, mods, pid, case):
    (q, op, xs, xv, ys, yv) = case
    np = mods['mpyc.numpy'].np
    secfld = mpc.SecFld(q)
    F = secfld.field
    m = len(mpc.parties)

    def arr(vals, shape):
        return secfld.array(F.array(np.array(vals, dtype=object).reshape(shape)))

    def canon(v):
        if hasattr(v, 'value') and hasattr(v.value, 'reshape'):
            return ('arr', list(v.shape), [int(e) for e in v.value.reshape(-1).tolist()])
        return ('val', int(v))
    x = mpc.input(arr(xv, xs), senders=0)
    if op == 'sec_scalar_mul':
        y = mpc.input(secfld(F(yv[0])), senders=m - 1)
    else:
        y = mpc.input(arr(yv, ys), senders=m - 1)
    out = {}
    xl = x.flatten().tolist()
    yl = y.flatten().tolist() if op != 'sec_scalar_mul' else [y]
    sc = None
    if op in ('add', 'sub', 'mul', 'eq', 'ne'):
        f = EW[op]
        r = f(x, y)
        A, B, shp = bc_index(np, tuple(xs), tuple(ys))
        sc = ('arr', shp, [canon(v)[1] for v in await mpc.output([f(xl[a], yl[b]) for a, b in zip(A, B)])])
    elif op == 'matmul':
        r = x @ y
        terms, _, _, shp = mm_index(np, tuple(xs), tuple(ys))
        vals = [canon(v)[1] for v in await mpc.output([mpc.sum([xl[a] * yl[b] for a, b in tt]) for tt in terms])]
        sc = ('arr', shp, vals) if shp else ('val', vals[0])
    elif op == 'neg':
        r = -x
    elif op == 'sum':
        r = np.sum(x)
        sc = canon(await mpc.output(mpc.sum(xl)))
    elif op == 'sum_axis0':
        r = np.sum(x, axis=0)
    elif op == 'sec_scalar_mul':
        r = x * y
        sc = ('arr', list(xs), [canon(v)[1] for v in await mpc.output([e * y for e in xl])])
    elif op == 'transpose':
        r = x.T
    elif op == 'reshape':
        r = np.reshape(x, (-1,))
    elif op == 'concatenate':
        r = np.concatenate((x, y))
    elif op == 'getitem':
        r = x[-1]
    elif op == 'mul_chain':
        r = (x * y) * x + y         # two successive array resharings
    elif op == 'inout':
        ins = mpc.input(arr(xv, xs), senders=list(range(m)))     # every party is a sender once
        r = ins[0]
        for z in ins[1:]:
            r = r + z
    v = await mpc.output(r)
    out['arr'] = canon(v)
    if sc is not None:
        out['sc'] = sc
    return out


def ext_oracle(FF, case, m):
    """plain field arithmetic with SCALAR field elements (no arrays, no thresha): values as integer encodings"""
    import numpy
    (q, op, xs, xv, ys, yv) = case
    F = main_field(FF, q)
    X = [F(v) for v in xv]
    Y = [F(v) for v in yv]

    def E(e):
        return enc(FF.gfpx, e, q)
    if op in ('add', 'sub', 'mul', 'eq', 'ne', 'mul_chain'):
        A, B, shp = bc_index(numpy, tuple(xs), tuple(ys))
        if op == 'mul_chain':
            vals = [E((X[a] * Y[b]) * X[a] + Y[b]) for a, b in zip(A, B)]
        elif op in ('eq', 'ne'):
            vals = [int(EW[op](X[a], Y[b])) for a, b in zip(A, B)]
        else:
            vals = [E(EW[op](X[a], Y[b])) for a, b in zip(A, B)]
        return ('arr', shp, vals)
    if op == 'matmul':
        terms, _, _, shp = mm_index(numpy, tuple(xs), tuple(ys))
        vals = []
        for tt in terms:
            acc = F(0)
            for a, b in tt:
                acc = acc + X[a] * Y[b]
            vals.append(E(acc))
        return ('arr', shp, vals) if shp else ('val', vals[0])
    if op == 'neg':
        return ('arr', xs, [E(-e) for e in X])
    if op == 'sec_scalar_mul':
        return ('arr', xs, [E(e * Y[0]) for e in X])
    if op == 'inout':
        acc = [F(0)] * len(X)
        for _ in range(m):
            acc = [a + e for a, e in zip(acc, X)]
        return ('arr', xs, [E(e) for e in acc])
    idx = numpy.arange(len(X)).reshape(xs)
    if op == 'sum':
        acc = F(0)
        for e in X:
            acc = acc + e
        return ('val', E(acc))
    if op == 'sum_axis0':
        cols = idx.reshape(xs[0], -1)
        vals = []
        for j in range(cols.shape[1]):
            acc = F(0)
            for i in range(cols.shape[0]):
                acc = acc + X[int(cols[i, j])]
            vals.append(E(acc))
        return ('arr', xs[1:], vals) if len(xs) > 1 else ('val', vals[0])
    if op == 'transpose':
        r = idx.T
        return ('arr', list(r.shape), [E(X[int(i)]) for i in r.reshape(-1)])
    if op == 'reshape':
        return ('arr', [len(X)], [E(e) for e in X])
    if op == 'concatenate':
        return ('arr', [xs[0] + ys[0]] + xs[1:], [E(e) for e in X + Y])
    if op == 'getitem':
        r = idx[-1]
        if r.shape == ():
            return ('val', E(X[int(r)]))
        return ('arr', list(r.shape), [E(X[int(i)]) for i in r.reshape(-1)])
    raise KeyError(op)


def same_val(a, b):
    if a[0] == b[0]:
        return a == b
    if {a[0], b[0]} == {'arr', 'val'}:
        arr, val = (a, b) if a[0] == 'arr' else (b, a)
        return arr[1] == [] and arr[2] == [val[1]]
    return False


def ext_stream(ctx, FF):
    configs = [(3, 1, False), (5, 2, False), (3, 1, True), (5, 2, True)]
    for ci, (m, t, no_prss) in enumerate(configs):
        t1 = time.time()
        cases = ext_cases(ctx, ctx.n(1, 4))
        res = run_cases(ctx, m, t, no_prss, cases, ext_case_coro, seed=ctx.seed + 101 * m + no_prss)
        cfg = 'm=%d t=%d%s' % (m, t, ' no-prss' if no_prss else '')
        for case, got in zip(cases, res):
            (q, op, xs, xv, ys, yv) = case
            key = {'field_order': q, 'op': op, 'xs': xs, 'xv': xv, 'ys': ys, 'yv': yv, 'cfg': cfg}
            fname = 'GF(2^8)' if q == 256 else ('GF(3^4)' if q == 81 else 'GF(2^31-1)')
            want = ext_oracle(FF, case, m)
            if isinstance(got, tuple):      # EXC / HANG / DIVERGE (the parties' outputs are compared with each other)
                ctx.violation('array-ext %s %s %s %s' % (op, got[0].lower(), fname, cfg), dict(key, got=str(got)[:600], want=want))
                continue
            if not same_val(got['arr'], want):
                ctx.violation('array-ext %s wrong vs field scalars %s %s' % (op, fname, cfg), dict(key, got=got['arr'], want=want))
                continue
            if 'sc' in got and not same_val(got['sc'], want):
                ctx.violation('array-ext %s secure scalars disagree %s %s' % (op, fname, cfg), dict(key, arrays=got['arr'], scalars=got['sc'], want=want))
                continue
            ctx.case(key, nontrivial=True, kind='ext %s %s %s' % (op, fname, cfg))
        ctx.log('extension/medium-prime field arrays %s: %d cases in %.1fs' % (cfg, len(cases), time.time() - t1))


def thresha_ext_checks(ctx, np):
    """np_random_split vs random_split over extension fields on the same (permuted) tape; every (t+1)-subset of the
    array shares must recombine (list-based recombine, x-coordinates field(i)) to the secrets."""
    from mpyc import thresha, finfields
    import secrets as _secrets
    rng = ctx.rng
    n_ok = 0
    for (pr, d) in ((2, 8), (3, 4), (2, 3), (5, 2)):
        Fq = finfields.GF(finfields.find_irreducible(pr, d))
        q = pr ** d
        from mpyc import gfpx as _gf
        E = lambda e, q=q: enc(_gf, e, q)
        for m in range(2, 7):
            if m >= q:
                continue
            for t in range(1, m):
                n = rng.choice([1, 2, 3])
                ss = [rng.choice([0, 1, q - 1, rng.randrange(q)]) for _ in range(n)]
                tape = [rng.randrange(q) for _ in range(t * n)]
                key = {'field': '%d^%d' % (pr, d), 'm': m, 't': t, 'ss': ss, 'tape': tape}
                thresha.secrets = Tape(tape)
                try:
                    npsh = thresha.np_random_split(Fq, Fq.array(np.array(ss, dtype=object)), t, m)
                finally:
                    thresha.secrets = _secrets
                npsh = [[E(v) for v in row] for row in np.asarray(npsh).tolist()]
                perm = [tape[(t - 1 - j) * n + h] for h in range(n) for j in range(t)]
                thresha.secrets = Tape(perm)
                try:
                    lsh = thresha.random_split(Fq, [Fq(s_) for s_ in ss], t, m)
                finally:
                    thresha.secrets = _secrets
                lsh = [[E(v) for v in row] for row in lsh]
                ctx.case(dict(key, what='np_random_split ext'), nontrivial=True, kind='thresha np_random_split GF(p^d)')
                if npsh != lsh:
                    ctx.violation('thresha-np_random_split differs from random_split on the permuted tape GF(%d^%d)' % (pr, d),
                                  dict(key, np=npsh, list=lsh))
                    continue
                subs = list(itertools.combinations(range(m), t + 1))
                if len(subs) > 20:
                    subs = rng.sample(subs, 20)
                bad = None
                for I in subs:
                    pts = [(i + 1, [Fq(v) for v in npsh[i]]) for i in I]
                    rec = [E(v) for v in thresha.recombine(Fq, pts, 0)]
                    rec_np = thresha.np_recombine(Fq, [(i + 1, npsh[i]) for i in I], 0)
                    rec_np = [E(v) for v in np.asarray(rec_np.value if hasattr(rec_np, 'value') else rec_np).reshape(-1).tolist()]
                    if rec != ss or rec_np != ss:
                        bad = (list(I), rec, rec_np)
                        break
                if bad:
                    ctx.violation('thresha-np_random_split shares not on a degree-t polynomial GF(%d^%d)' % (pr, d),
                                  dict(key, subset=bad[0], recombined=bad[1], np_recombined=bad[2]))
                else:
                    n_ok += 1
    ctx.extra['thresha_extension_field_agreements'] = n_ok


# ------------------------------------------------------------------------------------------------
# aliasing stream: an array operation must use its arguments as passed at call time.  In asynchronous mode (-M1, m>1) a
# coroutine runs only up to its first await when called; the caller then mutates ITS OWN list / public ndarray / key
# or axes list before awaiting the result.  Expected = NumPy semantics for the arguments at call time.

def alias_table():
    import numpy
    T = []

    def seq_muts():
        return {'reverse': lambda C, A: C['L'].reverse(),
                'overwrite': lambda C, A: C['L'].__setitem__(0, C['L'][2]),
                'del': lambda C, A: C['L'].__delitem__(-1),
                'append': lambda C, A: C['L'].append(C['L'][0])}
    for nm in ('concatenate', 'stack', 'vstack', 'hstack', 'dstack', 'column_stack'):
        T.append(dict(fn='np_' + nm, kind='list', make=lambda A: {'L': [A['x'], A['y'], A['z']]},
                      call=lambda mpc, np, A, C, nm=nm: getattr(np, nm)(C['L']), muts=seq_muts()))
    T.append(dict(fn='np_block', kind='nested', make=lambda A: {'L': [[A['x'], A['y']], [A['y'], A['z']]]},
                  call=lambda mpc, np, A, C: np.block(C['L']),
                  muts={'reverse': lambda C, A: C['L'].reverse(),
                        'inner-overwrite': lambda C, A: C['L'][0].__setitem__(0, C['L'][1][1]),
                        'inner-reverse': lambda C, A: C['L'][0].reverse()}))
    T.append(dict(fn='np_fromlist', kind='list', make=lambda A: {'L': A['v'].tolist()},
                  call=lambda mpc, np, A, C: mpc.np_fromlist(C['L']), plain=lambda np, A, C: np.array(C['L']),
                  muts={'reverse': lambda C, A: C['L'].reverse(),
                        'overwrite': lambda C, A: C['L'].__setitem__(0, C['L'][2]),
                        'del': lambda C, A: C['L'].__delitem__(-1),
                        'append': lambda C, A: C['L'].append(C['L'][0])}))
    pub_muts = {'overwrite': lambda C, A: C['w'].__setitem__(0, 77), 'scale': lambda C, A: C['w'].__imul__(2)}
    for nm in ('concatenate', 'stack', 'vstack', 'hstack'):
        T.append(dict(fn='np_' + nm, kind='pubelem', make=lambda A: {'w': numpy.array([5, 6, 7, 8])},
                      call=lambda mpc, np, A, C, nm=nm: getattr(np, nm)((A['v'], C['w'])), muts=pub_muts))
    T.append(dict(fn='np_append', kind='pubelem', make=lambda A: {'w': numpy.array([5, 6, 7, 8])},
                  call=lambda mpc, np, A, C: np.append(A['v'], C['w']), muts=pub_muts))
    # keys / axes
    key_muts = {'reverse': lambda C, A: C['k'].reverse(), 'overwrite': lambda C, A: C['k'].__setitem__(0, 3),
                'del': lambda C, A: C['k'].__delitem__(-1), 'append': lambda C, A: C['k'].append(1)}
    T.append(dict(fn='np_getitem', kind='key', make=lambda A: {'k': [0, 2]}, call=lambda mpc, np, A, C: A['v'][C['k']], muts=key_muts))

    def upd_plain(np, A, C, val):
        b = A['v'].copy()
        b[C['k']] = val
        return b
    T.append(dict(fn='np_update', kind='key', make=lambda A: {'k': [0, 2]},
                  call=lambda mpc, np, A, C: mpc.np_update(A['v'], C['k'], A['u']), plain=lambda np, A, C: upd_plain(np, A, C, A['u']),
                  muts={'reverse': key_muts['reverse'], 'overwrite': key_muts['overwrite']}))
    T.append(dict(fn='np_update', kind='value', make=lambda A: {'k': [0, 2], 'w': numpy.array([7, 8])},
                  call=lambda mpc, np, A, C: mpc.np_update(A['v'], C['k'], C['w']), plain=lambda np, A, C: upd_plain(np, A, C, C['w']),
                  muts={'overwrite': lambda C, A: C['w'].__setitem__(0, 100), 'scale': lambda C, A: C['w'].__imul__(2)}))
    T.append(dict(fn='np_transpose', kind='axes', make=lambda A: {'ax': [1, 0, 2]}, call=lambda mpc, np, A, C: np.transpose(A['t'], C['ax']),
                  muts={'reverse': lambda C, A: C['ax'].reverse()}))
    T.append(dict(fn='np_roll', kind='axes', make=lambda A: {'ax': [0]}, call=lambda mpc, np, A, C: np.roll(A['x'], 1, axis=C['ax']),
                  muts={'overwrite': lambda C, A: C['ax'].__setitem__(0, 1)}))
    T.append(dict(fn='np_flip', kind='axes', make=lambda A: {'ax': [0]}, call=lambda mpc, np, A, C: np.flip(A['x'], axis=C['ax']),
                  muts={'overwrite': lambda C, A: C['ax'].__setitem__(0, 1), 'append': lambda C, A: C['ax'].append(1)}))
    T.append(dict(fn='np_rot90', kind='axes', make=lambda A: {'ax': [0, 1]}, call=lambda mpc, np, A, C: np.rot90(A['r'], 1, axes=C['ax']),
                  muts={'reverse': lambda C, A: C['ax'].reverse()}))
    T.append(dict(fn='np_expand_dims', kind='axes', make=lambda A: {'ax': [0]}, call=lambda mpc, np, A, C: np.expand_dims(A['x'], C['ax']),
                  muts={'overwrite': lambda C, A: C['ax'].__setitem__(0, 1)}))
    # public ndarray operands
    arr_muts = {'overwrite': lambda C, A: C['w'].__setitem__((0,) * C['w'].ndim, 100), 'scale': lambda C, A: C['w'].__imul__(2)}
    W2 = lambda A: {'w': numpy.array([[2, 3], [4, 5]])}
    W1 = lambda A: {'w': numpy.array([1, 2, 3])}
    T.append(dict(fn='np_multiply', kind='pubarr', make=W2, call=lambda mpc, np, A, C: A['x'] * C['w'], muts=arr_muts))
    T.append(dict(fn='np_matmul', kind='pubarr', make=W2, call=lambda mpc, np, A, C: A['x'] @ C['w'], muts=arr_muts))
    T.append(dict(fn='np_matmul', kind='pubarr', make=W2, call=lambda mpc, np, A, C: C['w'] @ A['x'], muts=arr_muts, tag='left'))
    T.append(dict(fn='np_left_shift', kind='pubarr', make=lambda A: {'w': numpy.array([[1, 2], [0, 3]])},
                  call=lambda mpc, np, A, C: A['x'] << C['w'], muts={'overwrite': lambda C, A: C['w'].__setitem__((0, 0), 4),
                                                                     'scale': lambda C, A: C['w'].__imul__(2)}))
    T.append(dict(fn='np_convolve', kind='pubarr', make=W1, call=lambda mpc, np, A, C: np.convolve(A['v'], C['w']), muts=arr_muts))
    T.append(dict(fn='np_outer', kind='pubarr', make=W1, call=lambda mpc, np, A, C: np.outer(A['v'], C['w']), muts=arr_muts))
    T.append(dict(fn='np_add', kind='pubarr', make=W2, call=lambda mpc, np, A, C: mpc.np_add(A['x'], C['w']),
                  plain=lambda np, A, C: A['x'] + C['w'], muts=arr_muts))
    T.append(dict(fn='np_subtract', kind='pubarr', make=W2, call=lambda mpc, np, A, C: mpc.np_subtract(A['x'], C['w']),
                  plain=lambda np, A, C: A['x'] - C['w'], muts=arr_muts))
    # controls: operations that copy / rebuild their argument before the first await today (a late read appearing here,
    # or anywhere outside the functions listed in known_findings/C37.json, is a new violation)
    T.append(dict(fn='operator_add', kind='pubarr', make=W2, call=lambda mpc, np, A, C: A['x'] + C['w'], muts=arr_muts))
    T.append(dict(fn='operator_sub', kind='pubarr', make=W2, call=lambda mpc, np, A, C: C['w'] - A['x'], muts=arr_muts))
    T.append(dict(fn='np_reshape', kind='axes', make=lambda A: {'ax': [-1, 2]}, call=lambda mpc, np, A, C: np.reshape(A['t'], C['ax']),
                  muts={'overwrite': lambda C, A: C['ax'].__setitem__(1, 3)}))
    T.append(dict(fn='np_sum', kind='axes', make=lambda A: {'ax': (0, 1)}, call=lambda mpc, np, A, C: np.sum(A['t'], axis=C['ax']),
                  muts={'none': lambda C, A: None}))
    T.append(dict(fn='np_where', kind='pubarr', make=W2, call=lambda mpc, np, A, C: np.where(A['x'] < A['y'], A['x'], A['y']) + 0 * C['w'].shape[0],
                  muts={'none': lambda C, A: None}))
    T.append(dict(fn='np_multiply', kind='float-pubarr', make=lambda A: {'w': numpy.array([[0.5, 1.5], [2.0, -1.0]])},
                  call=lambda mpc, np, A, C: A['q'] * C['w'], muts={'overwrite': lambda C, A: C['w'].__setitem__((0, 0), 3.0),
                                                                   'scale': lambda C, A: C['w'].__imul__(2)}))
    return T


ALIAS_PLAIN = {'x': [[1, 2], [3, 4]], 'y': [[5, 6], [7, 8]], 'z': [[9, 10], [11, 12]], 'v': [10, 20, 30, 40], 'u': [7, 8],
               'r': [[1, 2, 3], [4, 5, 6]], 't': [[[0, 1], [2, 3], [4, 5]], [[6, 7], [8, 9], [10, 11]]],
               'q': [[1.0, -2.0], [0.5, 4.0]]}


def alias_stream(ctx):
    import numpy
    T = alias_table()
    cases = [(i, mut) for i, spec in enumerate(T) for mut in spec['muts']]

    async def coro(mpc, mods, pid, case):
        (i, mut) = case
        spec = T[i]
        np = mods['mpyc.numpy'].np
        secint, secfxp = mpc.SecInt(16), mpc.SecFxp(16)
        A = {}
        for nm, val in ALIAS_PLAIN.items():
            st = secfxp if nm == 'q' else secint
            A[nm] = mpc.input(st.array(np.array(val, dtype=float if nm == 'q' else int)), senders=0)
        C = spec['make'](A)
        r = spec['call'](mpc, np, A, C)         # runs up to the first await
        spec['muts'][mut](C, A)                 # the caller changes its own container
        v = await mpc.output(r)
        if hasattr(v, 'tolist') and hasattr(v, 'shape'):
            return ('arr', list(v.shape), [e if isinstance(e, float) else int(e) for e in v.reshape(-1).tolist()])
        return ('val', v if isinstance(v, float) else int(v))
    for (m, t) in ((1, 0), (3, 1)):
        t1 = time.time()
        res = run_cases(ctx, m, t, False, cases, coro, seed=ctx.seed + 7 + m)
        for (i, mut), got in zip(cases, res):
            spec = T[i]
            Ap = {nm: numpy.array(val, dtype=float if nm == 'q' else int) for nm, val in ALIAS_PLAIN.items()}
            Cp = spec['make'](Ap)
            w = spec['plain'](numpy, Ap, Cp) if 'plain' in spec else spec['call'](None, numpy, Ap, Cp)
            w = numpy.asarray(w)
            want = ('arr', list(w.shape), [float(e) if isinstance(e, (float, numpy.floating)) else int(e) for e in w.reshape(-1).tolist()])
            key = {'aliasing': spec['fn'], 'arg': spec['kind'], 'mutation': mut, 'side': spec.get('tag', ''), 'm': m}
            okv = isinstance(got, tuple) and got and got[0] in ('arr', 'val') and close(got, want, 0)
            ctx.case(key, nontrivial=True, kind='aliasing %s %s m=%d' % (spec['fn'], spec['kind'], m))
            if not okv:
                ctx.violation('aliasing %s %s:%s m=%d' % (spec['fn'], spec['kind'], mut, m),
                              dict(key, got=str(got)[:300], want_call_time_arguments=want,
                                   note='result depends on a mutation the caller made to its own container after the call'))
        ctx.log('aliasing stream m=%d: %d (operation, mutation) cases in %.1fs' % (m, len(cases), time.time() - t1))


def judge_case(ctx, T, case, got, cfg, model_items=None, sigtag=''):
    (nm, tx, ty, xs, xv, ys, yv, k) = case
    spec = T[nm]
    key = {'op': nm, 'tx': tx, 'ty': ty, 'xs': xs, 'xv': xv, 'ys': ys, 'yv': yv, 'k': k, 'cfg': cfg}
    nontriv = len(xs) >= 2 or (ys is not None and ys != xs) or prodshape(xs) > 1
    kind = '%s %s %s' % (nm, tx, cfg)
    try:
        want = numpy_oracle(T, case)
    except Exception as e:
        want = ('EXC', type(e).__name__)
    if isinstance(got, tuple) and got and got[0] in ('EXC', 'HANG', 'DIVERGE'):
        if isinstance(want, tuple) and want[0] == 'EXC':
            ctx.case(key, nontrivial=False, kind='error-inputs')
            return
        if '--mix32-64bit' in cfg and got[0] == 'EXC' and isinstance(want, tuple) and want[0] == 'arr' and want[2] == []:
            ctx.violation('array-%s exc mix32-empty-output' % nm, dict(key, got=got, want=str(want)[:300]))     # F-C37-5
            return
        if nm == 'np_lsb' and 'no-prss' in cfg and got[0] == 'EXC':
            ctx.violation('array-np_lsb exc no-prss', dict(key, got=got, want=str(want)[:300]))     # F-C37-4
            return
        ctx.violation(sigtag + 'array-%s %s %s shapes=%s,%s' % (nm, got[0].lower(), tx, xs, ys), dict(key, got=got, want=str(want)[:300]))
        return
    if isinstance(want, tuple) and want[0] == 'EXC':
        ctx.violation(sigtag + 'array-%s no-error %s' % (nm, tx), dict(key, got=str(got)[:300], want=want))
        return
    tol = spec.get('tol', 0) if 'fxp' in (tx, ty) or 'fxpi' in (tx, ty) else 0
    if tx == 'fxpi' and ty == 'fxpi' and nm not in ('pub_mul_float',):
        tol = 0
    if not close(got['arr'], want, tol):
        ctx.violation(sigtag + 'array-%s wrong vs numpy %s shapes=%s,%s' % (nm, tx + ('/' + ty if ty != tx else ''), xs, ys),
                      dict(key, got=got['arr'], want=want, tol_units=tol))
        return
    if 'sc' in got:
        n_terms = xs[-1] if nm == 'matmul' else (prodshape(xs) if nm == 'prod' else 1)
        tol_sc = (spec.get('tol', 0) * n_terms) if tol else 0
        ref = want if not spec.get('inout') else want
        if not close(got['sc'], ref, tol_sc):
            ctx.violation(sigtag + 'array-%s secure scalars disagree %s shapes=%s,%s' % (nm, tx, xs, ys),
                          dict(key, arrays=got['arr'], scalars=got['sc'], numpy=want, tol_units=tol_sc))
            return
    # integrality flag of fixed-point results: integral operands keep exactness
    if nm in ('ew_mul', 'matmul') and tx == 'fxpi' and ty == 'fxpi' and got.get('integral') is False:
        ctx.violation(sigtag + 'array-%s integral flag lost' % nm, key)
    ctx.case(key, nontrivial=nontriv, kind=kind)
    e = model_expr(case) if model_items is not None else None
    if e is not None and len(model_items) < ctx.n(500, 4000):
        model_items.append((case, got['arr'], e))


# ------------------------------------------------------------------------------------------------
# configuration dimension "max workers": with option -W w > 0 (env MPYC_MAXWORKERS, read by PrimeFieldArray._sqrt at
# every call) the array square roots behind np_random_bits (hence np_sgn / comparisons, np_trunc / fixed-point products,
# np_lsb) are computed by w worker threads, chunk by chunk.  The results must not depend on w.

WORKER_OPS = ('ew_lt', 'ew_le', 'ew_gt', 'ew_ge', 'ew_eq', 'ew_ne', 'ew_mul', 'matmul', 'sort_last', 'abs', 'minimum',
              'where', 'amin', 'np_sgn', 'np_lsb', 'np_random_bits', 'pub_mul_float')


def workers_stream(ctx, T):
    import os, concurrent.futures
    rng = ctx.rng
    shapes1 = [(5,), (7,), (9,), (11,), (6,), (4,), (3, 3), (2, 5), (13,)]
    total_submits = 0
    old_env = os.environ.get('MPYC_MAXWORKERS')
    orig_submit = concurrent.futures.ThreadPoolExecutor.submit
    counter = [0]

    def counting_submit(self_, fn, *a, **k):
        if getattr(fn, '__name__', '') == 'powmod_base_list':
            counter[0] += 1
        return orig_submit(self_, fn, *a, **k)
    try:
        concurrent.futures.ThreadPoolExecutor.submit = counting_submit
        for W in (2, 3):
            for rep in range(ctx.n(2, 6)):
                cases = []
                for nm in WORKER_OPS:
                    spec = T[nm]
                    for tx in (spec.get('wtypes') or [t_ for t_ in spec['types'] if t_ in ('int', 'fxp')][:2]):
                        if nm == 'matmul':
                            xs, ys = rng.choice([((3, 3), (3, 3)), ((2, 5), (5, 2)), ((5,), (5,)), ((1, 7), (7, 1))])
                        else:
                            xs = ys = rng.choice(shapes1)
                        k = None
                        if 'ks' in spec:
                            k = spec['ks'][rep % len(spec['ks'])]
                        if spec['arity'] == 1:
                            ys = None
                        xv = gen_vals(rng, tx, prodshape(xs))
                        yv = gen_vals(rng, tx, prodshape(ys)) if ys is not None else None
                        if nm in ('ew_eq', 'ew_ne', 'ew_le', 'ew_ge') and yv:
                            yv = [x_ if rng.random() < 0.5 else y_ for x_, y_ in zip(xv, yv)]
                        cases.append((nm, tx, tx, list(xs), xv, (list(ys) if ys is not None else None), yv, k))
                os.environ['MPYC_MAXWORKERS'] = str(W)
                before = counter[0]
                t1 = time.time()
                no_prss = False      # without PRSS np_random_bits does not use array square roots
                try:
                    res = run_cases(ctx, 3, 1, no_prss, cases, make_case_coro(T), seed=ctx.seed + 1000 * W + rep)
                finally:
                    if old_env is None:
                        os.environ.pop('MPYC_MAXWORKERS', None)
                    else:
                        os.environ['MPYC_MAXWORKERS'] = old_env
                cfg = 'm=3 t=1%s max_workers=%d' % (' no-prss' if no_prss else '', W)
                for case, got in zip(cases, res):
                    judge_case(ctx, T, case, got, cfg, None, sigtag='workers W=%d ' % W)
                total_submits += counter[0] - before
                ctx.log('%s: %d cases in %.1fs, %d worker-thread chunk submissions' % (cfg, len(cases), time.time() - t1, counter[0] - before))
    finally:
        concurrent.futures.ThreadPoolExecutor.submit = orig_submit
    ctx.extra['worker_thread_chunk_submissions'] = total_submits
    if total_submits == 0:
        ctx.unproved('max-workers stream did not execute the worker-thread branch of PrimeFieldArray._sqrt',
                     {'detail': 'no ThreadPoolExecutor.submit(powmod_base_list, ...) observed with MPYC_MAXWORKERS in (2, 3)'})


MODULI_OPS = ('ew_eq', 'ew_ne', 'ew_lt', 'ew_le', 'ew_gt', 'ew_ge', 'np_equal', 'np_not_equal', 'where', 'all', 'any', 'ew_add',
              'ew_sub', 'ew_mul', 'sum', 'sort_last', 'minimum')


def moduli_stream(ctx, T):
    """secure integer arrays of 64 bits with the default modulus and with user-supplied prime moduli p = 1 (mod 4) and
    p = 3 (mod 4): the zero test / comparison protocols are selected by bit length, security parameter and p mod 4"""
    rng = ctx.rng
    for (m, t) in ((1, 0), (3, 1)):
        t1 = time.time()
        cases = []
        for tx in ('int64', 'int64p1', 'int64p3'):
            for nm in MODULI_OPS:
                for rep in range(ctx.n(1, 4) if m > 1 else ctx.n(2, 6)):
                    xs = ys = rng.choice([(4,), (2, 3), (5,), (1,), (2, 2, 2)])
                    if nm.startswith('ew_') and rng.random() < 0.3:
                        xs, ys = rng.choice(BC_PAIRS)
                    spec = T[nm]
                    if spec['arity'] == 1:
                        ys = None
                    xv = gen_vals(rng, tx, prodshape(xs))
                    yv = gen_vals(rng, tx, prodshape(ys)) if ys is not None else None
                    if yv is not None and nm in ('ew_eq', 'ew_ne', 'ew_le', 'ew_ge', 'np_equal', 'np_not_equal', 'all', 'any', 'where'):
                        A, B, _ = bc_index(__import__('numpy'), tuple(xs), tuple(ys))
                        for a_, b_ in zip(A, B):
                            if rng.random() < 0.5:
                                yv[b_] = xv[a_]      # equal entries
                    if nm == 'ew_mul':
                        xv = [v % 2**20 for v in xv]
                    cases.append((nm, tx, tx, list(xs), xv, (list(ys) if ys is not None else None), yv, None))
        res = run_cases(ctx, m, t, False, cases, make_case_coro(T), seed=ctx.seed + 77 + m)
        cfg = 'm=%d t=%d' % (m, t)
        for case, got in zip(cases, res):
            judge_case(ctx, T, case, got, cfg, None, sigtag='moduli ')
        ctx.log('user-supplied moduli SecInt(64[, p]) arrays %s: %d cases in %.1fs' % (cfg, len(cases), time.time() - t1))


def run(ctx):
    ok = ctx.build() and ctx.check_props()
    try:
        from mpyc.numpy import np
    except Exception:  # pragma: no cover
        np = None
    if not np:
        ctx.unproved('numpy unavailable', {'detail': 'mpyc.numpy.np is falsy: secure arrays need NumPy; run under '
                                                     '/verif/.venv-np (see /verif/setup.sh)'})
        return
    T = ops_table()
    ctx.rule = ('case = (operation, element type in secint16/secfxp16:8/secfld GF(101), shapes (size<=24, rank<=3, broadcast '
                'pairs), values (boundary-heavy), public parameter, (m,t,prss)); inputs are genuinely shared (mpc.input by '
                'different parties); compared with NumPy, with the secure-scalar computation, and with the Coq model where it '
                'has one; non-trivial when rank >= 2, a broadcast, or more than one element')
    ctx.explanation = ('index-map/lifting/matmul theorems over all shapes; secure arrays, secure scalars, NumPy and the '
                       'vm_compute model run on the same inputs; thresha np_* functions vs list versions exactly')
    thresha_checks(ctx, np)
    thresha_ext_checks(ctx, np)
    import mpyc.finfields as FF
    ctx.log('thresha np_* vs list versions: %d exact agreements' % ctx.extra.get('thresha_exact_agreements', 0))
    configs = [(1, 0, False, ctx.n(6, 20)), (3, 1, False, ctx.n(3, 10)), (3, 1, True, ctx.n(2, 6)), (1, 0, True, ctx.n(2, 6)),
               # option --mix32-64bit: arrays are sent as fixed-width byte strings and opened arrays rebuilt by field.array()
               (3, 1, False, ctx.n(1, 4), ('--mix32-64bit',)), (3, 1, True, ctx.n(1, 2), ('--mix32-64bit',))]
    model_items = []
    for cf in configs:
        (m, t, no_prss, per_op) = cf[:4]
        extra = cf[4] if len(cf) > 4 else ()
        t1 = time.time()
        cases = gen_cases(ctx, T, per_op)
        res = run_cases(ctx, m, t, no_prss, cases, make_case_coro(T), seed=ctx.seed + 13 * m + no_prss, extra=extra)
        cfg = 'm=%d t=%d%s%s' % (m, t, ' no-prss' if no_prss else '', ' ' + ' '.join(extra) if extra else '')
        for case, got in zip(cases, res):
            judge_case(ctx, T, case, got, cfg, model_items)
        ctx.log('%s: %d cases in %.1fs' % (cfg, len(cases), time.time() - t1))
    ext_stream(ctx, FF)
    alias_stream(ctx)
    workers_stream(ctx, T)
    moduli_stream(ctx, T)
    # (iii) Coq model
    if ok and model_items:
        res = ctx.coq_eval(['MPyC.Arrays'], [e for (_, _, e) in model_items], chunk=100)
        mism = 0
        for (case, got, e), r in zip(model_items, res):
            flat = got[2] if got[0] == 'arr' else [got[1]]
            if isinstance(r, list):
                r = [v % P for v in r] if case[1] == 'fld' else r
            if r != flat:
                mism += 1
                ctx.broken.append({'kind': 'correspondence', 'what': 'Arrays.' + case[0], 'expr': e[:300], 'model': str(r)[:300], 'impl': str(flat)[:300]})
        ctx.extra['traces_validated_against_impl'] = len(model_items) - mism
        ctx.log('model/implementation comparisons: %d, disagreements: %d' % (len(model_items), mism))
    if ctx.broken and not ctx.violations:
        ctx.unproved('C37 model/proof', {'broken': ctx.broken[:5]})
