(** Model of thresha.random_split / recombine (list and array variants) and the
    split/recombine theorems over an abstract field. *)
Require Import MPyC.Base MPyC.Field MPyC.Poly MPyC.Lagrange.

Section ShamirDefs.
Variable K : Ops.
Variable inj : nat -> K.          (* field image of a nonnegative integer: field(x).value *)
Notation "0" := (f0 K).
Infix "+" := (fadd K). Infix "*" := (fmul K).

(** share of secret s for x-coordinate i1 under coefficient list c (as drawn: c[0] first):
      y = 0; for c_j in c: y = (y + c_j) * i1;  share = y + s *)
Definition share_at (c : list K) (s : K) (i1 : nat) : K := horner_code c (inj i1) + s.

Definition split_col (c : list K) (s : K) (m : nat) : list K := map (share_at c s) (seq 1 m).

(** the tape is consumed t values per secret, in the order of the secrets *)
Fixpoint split_cols (tape : list K) (ss : list K) (t m : nat) : list (list K) :=
  match ss with
  | [] => []
  | s :: ss' => split_col (firstn t tape) s m :: split_cols (skipn t tape) ss' t m
  end.

Definition transpose_cols (cols : list (list K)) (m : nat) : list (list K) :=
  map (fun i => map (fun col => nth i col 0) cols) (seq 0 m).

(** random_split(field, s, t, m) with secrets.randbelow replaced by the tape: one row per party *)
Definition random_split (tape ss : list K) (t m : nat) : list (list K) :=
  transpose_cols (split_cols tape ss t m) m.

(** np_random_split: C = tape reshaped (t, n); shares = V @ [s; C], V Vandermonde increasing *)
Definition np_col (tape : list K) (n t h : nat) : list K :=
  map (fun j => nth (j * n + h) tape 0) (seq 0 t).
Definition np_random_split (tape ss : list K) (t m : nat) : list (list K) :=
  let n := length ss in
  map (fun i => map (fun h => eval (nth h ss 0 :: np_col tape n t h) (inj (S i))) (seq 0 n)) (seq 0 m).

(** recombine(field, points, x_r) for one recombination point x_r (given as its field image):
    points = [(x, row of shares)] *)
Definition recombine (points : list (nat * list K)) (xr : K) : list K :=
  let xs := map (fun pt => inj (fst pt)) points in
  let n := length (snd (hd (O, []) points)) in
  map (fun h => recombine_at xs (map (fun pt => nth h (snd pt) 0) points) xr) (seq 0 n).

(** np_recombine computes vector @ shares: the same sums *)
Definition np_recombine (points : list (nat * list K)) (xr : K) : list K :=
  let xs := map (fun pt => inj (fst pt)) points in
  let vec := recomb_vector xs xr in
  let n := length (snd (hd (O, []) points)) in
  map (fun h => fsum (map (fun i => nth i vec 0 * nth h (snd (nth i points (O, []))) 0)
                          (seq 0 (length points)))) (seq 0 n).

(** the m parties' shares sigma form a sharing of a of degree <= d *)
Definition Sharing (m d : nat) (sigma : list K) (a : K) : Prop :=
  length sigma = m /\
  exists f, length f <= S d /\ eval f 0 = a /\ forall i, i < m -> nth i sigma 0 = eval f (inj (S i)).

End ShamirDefs.
Arguments share_at {K}. Arguments split_col {K}. Arguments split_cols {K}. Arguments transpose_cols {K}.
Arguments random_split {K}. Arguments np_col {K}. Arguments np_random_split {K}.
Arguments recombine {K}. Arguments np_recombine {K}. Arguments Sharing {K}.

Section Shamir.
Variable K : FieldT.
Add Field KF : (fth K).
Notation "0" := (f0 K). Notation "1" := (f1 K).
Infix "+" := (fadd K). Infix "*" := (fmul K). Infix "-" := (fsub K). Infix "/" := (fdiv K).
Variable inj : nat -> K.
Variable m : nat.
(** m < |F| in the code's assert: the images of 0..m are pairwise distinct, and 0 maps to 0 *)
Hypothesis inj_inj : forall i j, i <= m -> j <= m -> inj i = inj j -> i = j.
Hypothesis inj_0 : inj O = 0.

Lemma share_at_eval (c : list K) (s : K) i1 : share_at inj c s i1 = eval (s :: rev c) (inj i1).
Proof. unfold share_at. apply horner_code_eval. Qed.

Lemma NoDup_map_inj (I : list nat) : NoDup I -> (forall i, In i I -> i <= m) -> NoDup (map inj I).
Proof.
  induction I as [|a I IH]; simpl; intros Hnd Hr; [constructor|].
  inversion Hnd as [|? ? Hnotin Hnd']; subst. constructor.
  - intros Hin. apply in_map_iff in Hin. destruct Hin as [b [E Hb]].
    apply inj_inj in E; [subst; contradiction| |]; apply Hr; auto.
  - apply IH; auto.
Qed.

(** C12, main statement: ANY set I of more than t distinct parties (x-coordinates in 1..m)
    recombines the shares of s — at any field point x — to the sharing polynomial's value. *)
Theorem recombine_split_at (c : list K) (s : K) (I : list nat) (x : K) :
  NoDup I -> (forall i, In i I -> i <= m) -> length c < length I ->
  recombine_at (map inj I) (map (share_at inj c s) I) x = eval (s :: rev c) x.
Proof.
  intros Hnd Hr Hlen.
  rewrite (map_ext _ (fun i1 => eval (s :: rev c) (inj i1)) (share_at_eval c s)).
  rewrite <- (map_map inj (eval (s :: rev c))).
  apply lagrange_eval.
  - apply NoDup_map_inj; auto.
  - rewrite map_length. simpl. rewrite rev_length. lia.
Qed.

Corollary recombine_split_secret (c : list K) (s : K) (I : list nat) :
  NoDup I -> (forall i, In i I -> i <= m) -> length c < length I ->
  recombine_at (map inj I) (map (share_at inj c s) I) (inj O) = s.
Proof.
  intros. rewrite recombine_split_at by auto. rewrite inj_0. simpl. ring.
Qed.

(** the row/column plumbing of random_split and recombine *)
Lemma nth_split_col (c : list K) (s : K) i : i < m -> nth i (split_col inj c s m) 0 = share_at inj c s (S i).
Proof. intros Hi. unfold split_col. rewrite nth_map_seq by exact Hi. reflexivity. Qed.

Lemma split_cols_nth (tape ss : list K) t i h : i < m -> h < length ss ->
  nth i (nth h (split_cols inj tape ss t m) []) 0
  = share_at inj (firstn t (skipn (h * t) tape)) (nth h ss 0) (S i).
Proof.
  intros Hi. revert tape h. induction ss as [|s ss IH]; intros tape h Hh; simpl in *; [lia|].
  destruct h as [|h]; simpl.
  - apply nth_split_col; auto.
  - rewrite IH by lia. rewrite skipn_skipn'. reflexivity.
Qed.

Lemma split_cols_length (tape ss : list K) t : length (split_cols inj tape ss t m) = length ss.
Proof. revert tape; induction ss as [|s ss IH]; intros tape; simpl; auto. Qed.

Lemma random_split_entry (tape ss : list K) t i h : i < m -> h < length ss ->
  nth h (nth i (random_split inj tape ss t m) []) 0
  = share_at inj (firstn t (skipn (h * t) tape)) (nth h ss 0) (S i).
Proof.
  intros Hi Hh. unfold random_split, transpose_cols.
  rewrite nth_map_seq by exact Hi. simpl.
  rewrite (nth_map_in _ _ _ _ []) by (rewrite split_cols_length; exact Hh).
  apply split_cols_nth; auto.
Qed.

Lemma random_split_length (tape ss : list K) t : length (random_split inj tape ss t m) = m.
Proof. unfold random_split, transpose_cols. apply map_seq_length. Qed.

(** Every party's row of random_split is the value of ONE polynomial of degree <= t per secret *)
Theorem random_split_sharing (tape ss : list K) t h : h < length ss ->
  Sharing inj m t (map (fun row => nth h row 0) (random_split inj tape ss t m)) (nth h ss 0).
Proof.
  intros Hh. split.
  - rewrite map_length. apply random_split_length.
  - exists (nth h ss 0 :: rev (firstn t (skipn (h * t) tape))). split; [|split].
    + simpl. rewrite rev_length, firstn_length. lia.
    + simpl. ring.
    + intros i Hi.
      rewrite (nth_map_in _ _ _ _ []) by (rewrite random_split_length; exact Hi).
      rewrite random_split_entry by auto. apply share_at_eval.
Qed.

(** array variant = list variant on a permuted tape: column h uses (s_h :: C[0][h] .. C[t-1][h]) *)
Theorem np_split_eq_split (tape ss : list K) t i h : i < m -> h < length ss ->
  nth h (nth i (np_random_split inj tape ss t m) []) 0
  = share_at inj (rev (np_col tape (length ss) t h)) (nth h ss 0) (S i).
Proof.
  intros Hi Hh. unfold np_random_split.
  rewrite nth_map_seq by exact Hi. rewrite nth_map_seq by exact Hh. simpl.
  rewrite share_at_eval, rev_involutive. reflexivity.
Qed.

(** np_recombine = recombine (same recombination vector, same sums) *)
Theorem np_recombine_eq (points : list (nat * list K)) xr :
  np_recombine inj points xr = recombine inj points xr.
Proof.
  unfold np_recombine, recombine. apply map_ext_in. intros h Hh.
  unfold recombine_at, recomb_vector. rewrite !map_length.
  apply fsum_map_ext. intros i Hi. apply in_seq in Hi.
  rewrite nth_map_seq by lia. simpl.
  rewrite (nth_map_in _ _ _ _ (O, [])) by lia.
  ring.
Qed.

End Shamir.
