Require Import MPyC.Gmpy.
From Coq Require Import ZArith Znumtheory Lia List Bool Zpow_facts.
Import ListNotations.
Local Open Scope Z_scope.

(** * basic loop facts *)
Lemma loop_stop : forall fuel g s s1 t t1,
  gcdext_loop fuel g 0 s s1 t t1 = Some (g, s, t).
Proof. intros. destruct fuel; reflexivity. Qed.

Lemma loop_step : forall fuel g f s s1 t t1 r,
  f <> 0 -> gcdext_loop fuel g f s s1 t t1 = Some r ->
  exists k, fuel = S k /\
    gcdext_loop k f (g mod f) s1 (s - g / f * s1) t1 (t - g / f * t1) = Some r.
Proof.
  intros fuel g f s s1 t t1 r Hf H. destruct fuel as [|k]; cbn [gcdext_loop] in H;
    destruct (Z.eqb_spec f 0) as [E|E]; try contradiction; try discriminate.
  exists k. split; [reflexivity|exact H].
Qed.

Definition neg3 (x : Z * Z * Z) : Z * Z * Z := let '(g, s, t) := x in (- g, s, t).

Lemma loop_opp : forall fuel g f s s1 t t1,
  gcdext_loop fuel (- g) (- f) s s1 t t1 = option_map neg3 (gcdext_loop fuel g f s s1 t t1).
Proof.
  induction fuel as [|k IH]; intros g f s s1 t t1; cbn [gcdext_loop].
  - destruct (Z.eqb_spec f 0) as [E|E].
    + subst f. cbn. reflexivity.
    + destruct (Z.eqb_spec (- f) 0) as [E'|E']; [lia|]. reflexivity.
  - destruct (Z.eqb_spec f 0) as [E|E].
    + subst f. cbn. reflexivity.
    + destruct (Z.eqb_spec (- f) 0) as [E'|E']; [lia|].
      cbv zeta. rewrite Z.div_opp_opp by assumption. rewrite Z.mod_opp_opp by assumption.
      apply IH.
Qed.

Lemma loop_abs : forall fuel g f s s1 t t1 g' s' t',
  g <> 0 -> (0 < g -> 0 <= f) -> (g < 0 -> f <= 0) ->
  gcdext_loop fuel g f s s1 t t1 = Some (g', s', t') ->
  gcdext_loop fuel (Z.abs g) (Z.abs f) s s1 t t1 = Some (Z.sgn g * g', s', t').
Proof.
  intros fuel g f s s1 t t1 g' s' t' Hg Hp Hn H.
  destruct (Z.lt_trichotomy g 0) as [L|[L|L]]; [|lia|].
  - rewrite (Z.abs_neq g), (Z.abs_neq f) by lia. rewrite loop_opp, H. cbn.
    rewrite Z.sgn_neg by assumption. repeat f_equal; lia.
  - rewrite (Z.abs_eq g), (Z.abs_eq f) by lia. rewrite H.
    rewrite Z.sgn_pos by assumption. repeat f_equal; lia.
Qed.

(** * the key invariant on the s-cofactors *)
Lemma loop_key : forall fuel g f s s1 t t1 g' s' t',
  0 <= f < g -> s * s1 <= 0 -> s1 <> 0 ->
  gcdext_loop fuel g f s s1 t t1 = Some (g', s', t') ->
  0 < g' /\
  (f = 0 -> g' = g /\ s' = s /\ t' = t) /\
  (f <> 0 -> 2 * g' * Z.abs s' <= g * Z.abs s1 + f * Z.abs s /\
     (2 * g' * Z.abs s' = g * Z.abs s1 + f * Z.abs s -> s = 0 /\ g = 2 * g')).
Proof.
  induction fuel as [|k IH]; intros g f s s1 t t1 g' s' t' Hfg Hss Hs1 H.
  - cbn [gcdext_loop] in H. destruct (Z.eqb_spec f 0) as [E|E]; [|discriminate].
    injection H as <- <- <-. repeat split; try lia.
  - destruct (Z.eq_dec f 0) as [E|E].
    + subst f. rewrite loop_stop in H. injection H as <- <- <-. repeat split; try lia.
    + apply loop_step in H; [|assumption]. destruct H as (k' & Ek & H).
      injection Ek as <-.
      assert (0 < f) as Hf by lia.
      pose proof (Z.div_mod g f E) as Hdm.
      pose proof (Z.mod_pos_bound g f Hf) as Hr.
      set (q := g / f) in *. set (r := g mod f) in *.
      assert (1 <= q) as Hq by nia.
      assert (s1 > 0 /\ s <= 0 \/ s1 < 0 /\ s >= 0) as Hsg by nia.
      assert (Z.abs (s - q * s1) = Z.abs s + q * Z.abs s1) as Habs.
      { destruct Hsg as [[A1 A2]|[A1 A2]].
        - assert (0 < q * s1) by nia. lia.
        - assert (q * s1 < 0) by nia. lia. }
      assert (s1 * (s - q * s1) <= 0) as Hss'.
      { assert (0 <= q * (s1 * s1)) by nia. nia. }
      assert (s - q * s1 <> 0) as Hs1' by lia.
      apply IH in H; [|lia|assumption|assumption].
      destruct H as (Hg' & Hz & Hnz).
      split; [assumption|]. split; [intros; contradiction|]. intros _.
      assert (f * Z.abs (s - q * s1) + r * Z.abs s1 = g * Z.abs s1 + f * Z.abs s) as HB.
      { rewrite Habs. rewrite Hdm at 1. ring. }
      destruct (Z.eq_dec r 0) as [Er|Er].
      * destruct (Hz Er) as (-> & -> & ->).
        assert (g = f * q) as Hgq by lia.
        assert (2 <= q) as Hq2 by nia.
        assert (0 <= Z.abs s1) as N1 by lia. assert (0 <= Z.abs s) as N2 by lia.
        assert (0 < Z.abs s1) as N3 by lia.
        rewrite Hgq.
        assert (0 <= f * (q - 2) * Z.abs s1) as N4 by nia.
        assert (0 <= f * Z.abs s) as N5 by nia.
        split; [nia|]. intros Heq.
        assert (f * (q - 2) * Z.abs s1 = 0 /\ f * Z.abs s = 0) as [Z1 Z2] by nia.
        assert (Z.abs s = 0) by nia. assert (q - 2 = 0) by nia. split; lia.
      * destruct (Hnz Er) as [Hle Heq]. rewrite HB in Hle, Heq.
        split; [assumption|]. intros Heq'. apply Heq in Heq'. lia.
Qed.

(** * Prop reading of [gmp_normal] *)
Definition gmp_normal_P (a b g s t : Z) : Prop :=
  (a = 0 /\ b = 0 -> g = 0 /\ s = 0 /\ t = 0) /\
  (~ (a = 0 /\ b = 0) -> Z.abs a = g /\ Z.abs b = g -> s = 0 /\ t = Z.sgn b) /\
  (~ (a = 0 /\ b = 0) -> ~ (Z.abs a = g /\ Z.abs b = g) ->
     ((b = 0 \/ Z.abs b = 2 * g) -> s = Z.sgn a) /\ (~ (b = 0 \/ Z.abs b = 2 * g) -> 2 * g * Z.abs s < Z.abs b) /\
     ((a = 0 \/ Z.abs a = 2 * g) -> t = Z.sgn b) /\ (~ (a = 0 \/ Z.abs a = 2 * g) -> 2 * g * Z.abs t < Z.abs a)).

Ltac boolP H :=
  repeat first
    [ rewrite andb_true_iff in H | rewrite andb_false_iff in H
    | rewrite orb_true_iff in H | rewrite orb_false_iff in H
    | rewrite Z.eqb_eq in H | rewrite Z.eqb_neq in H
    | rewrite Z.ltb_lt in H | rewrite Z.ltb_ge in H ].

Lemma gmp_normal_iff : forall a b g s t,
  gmp_normal a b g s t = true <-> gmp_normal_P a b g s t.
Proof.
  intros a b g s t. unfold gmp_normal, PH.gmp_normal, gmp_normal_P.
  remember (2 * g * Z.abs s) as X eqn:EX. remember (2 * g * Z.abs t) as Y eqn:EY.
  clear EX EY.
  destruct ((a =? 0) && (b =? 0)) eqn:C1; boolP C1.
  { rewrite !andb_true_iff, !Z.eqb_eq. tauto. }
  destruct ((Z.abs a =? g) && (Z.abs b =? g)) eqn:C2; boolP C2.
  { rewrite !andb_true_iff, !Z.eqb_eq. tauto. }
  destruct ((b =? 0) || (Z.abs b =? 2 * g)) eqn:C3; boolP C3;
  destruct ((a =? 0) || (Z.abs a =? 2 * g)) eqn:C4; boolP C4;
  rewrite !andb_true_iff, ?Z.eqb_eq, ?Z.ltb_lt;
  tauto.
Qed.

(** * algebra for the three cases *)

Lemma caseA_alg : forall a' b' s t,
  a' * s + b' * t = 1 -> 3 <= Z.abs b' -> 2 * Z.abs s <= Z.abs b' - 1 -> a' <> 0 ->
  (Z.abs a' = 2 -> t = Z.sgn b') /\ (Z.abs a' <> 2 -> 2 * Z.abs t < Z.abs a').
Proof.
  intros a' b' s t HB Hb Hs Ha.
  assert (Z.abs b' * Z.abs t <= 1 + Z.abs a' * Z.abs s) as HT.
  { rewrite <- !Z.abs_mul. replace (b' * t) with (1 - a' * s) by (rewrite <- HB; ring).
    pose proof (Z.abs_triangle 1 (- (a' * s))) as Tr.
    rewrite Z.abs_opp in Tr. replace (1 + - (a' * s)) with (1 - a' * s) in Tr by ring.
    simpl (Z.abs 1) in Tr. exact Tr. }
  assert (HAS : Z.abs (a' * s) = Z.abs a' * Z.abs s) by apply Z.abs_mul.
  assert (HBT : Z.abs (b' * t) = Z.abs b' * Z.abs t) by apply Z.abs_mul.
  remember (Z.abs a') as A eqn:EA. remember (Z.abs b') as B eqn:EB.
  remember (Z.abs s) as S eqn:ES. remember (Z.abs t) as T eqn:ET.
  assert (0 <= S) by lia. assert (0 <= T) by lia. assert (1 <= A) by lia.
  split.
  - intros A2. subst A. rewrite A2 in *.
    assert (T <= 1) as T1 by nia.
    assert (T <> 0) as T0.
    { intros Z. assert (t = 0) by lia. subst t. rewrite Z.mul_0_r, Z.add_0_r in HB.
      rewrite HB in HAS. simpl in HAS. lia. }
    assert (T = 1) as TT by lia.
    destruct (Z.eq_dec t (Z.sgn b')) as [E|E]; [exact E|exfalso].
    assert (b' * t = - B) as Ebt by (subst B; nia).
    assert (a' * s = 1 + B) by lia.
    lia.
  - intros A2.
    destruct (Z.eq_dec A 1) as [A1|A1].
    + rewrite A1 in *. assert (T = 0) by nia. lia.
    + assert (3 <= A) by lia.
      destruct (Z_lt_le_dec (2 * T) A) as [L|L]; [exact L|exfalso].
      assert (0 <= B * (2 * T - A)) by nia.
      assert (0 <= A * (B - 1 - 2 * S)) by nia.
      nia.
Qed.

Lemma abs_mul_pos : forall x g, 0 < g -> Z.abs (x * g) = Z.abs x * g.
Proof. intros. rewrite Z.abs_mul, (Z.abs_eq g) by lia. reflexivity. Qed.

Lemma sgn_mul_pos : forall x g, 0 < g -> Z.sgn (x * g) = Z.sgn x.
Proof. intros. rewrite Z.sgn_mul, (Z.sgn_pos g) by lia. ring. Qed.

Lemma caseA : forall a b g s t,
  0 < g -> (g | a) -> (g | b) -> a * s + b * t = g ->
  a <> 0 -> b <> 0 -> Z.abs b <> g -> Z.abs b <> 2 * g ->
  2 * g * Z.abs s < Z.abs b ->
  gmp_normal_P a b g s t.
Proof.
  intros a b g s t Hg [a' Ea] [b' Eb] HB Ha Hb Hb1 Hb2 Hs.
  assert (Z.abs a = Z.abs a' * g) as EAa by (subst a; apply abs_mul_pos; assumption).
  assert (Z.abs b = Z.abs b' * g) as EAb by (subst b; apply abs_mul_pos; assumption).
  assert (Z.sgn b = Z.sgn b') as ESb by (subst b; apply sgn_mul_pos; assumption).
  assert (a' <> 0) as Ha' by (intros ->; lia).
  assert (3 <= Z.abs b') as Hb3.
  { assert (Z.abs b' <> 0) by (intros Z; rewrite Z in EAb; lia).
    assert (Z.abs b' <> 1) by (intros Z; rewrite Z in EAb; lia).
    assert (Z.abs b' <> 2) by (intros Z; rewrite Z in EAb; lia). lia. }
  assert (2 * Z.abs s <= Z.abs b' - 1) as Hs'.
  { rewrite EAb in Hs. assert (2 * Z.abs s < Z.abs b') by (apply (Z.mul_lt_mono_pos_r g); lia). lia. }
  assert (a' * s + b' * t = 1) as HB'.
  { subst a b. assert (g * (a' * s + b' * t) = g * 1) as HH by lia.
    apply Z.mul_reg_l in HH; [exact HH|lia]. }
  destruct (caseA_alg a' b' s t HB' Hb3 Hs' Ha') as [K1 K2].
  unfold gmp_normal_P. split; [intros [_ ?]; contradiction|].
  split; [intros _ [_ ?]; contradiction|]. intros _ _.
  split; [intros [?|?]; contradiction|]. split; [intros _; exact Hs|].
  split.
  - intros [?|E2]; [contradiction|]. rewrite ESb. apply K1. rewrite EAa in E2. apply (Z.mul_reg_r _ _ g); [lia|exact E2].
  - intros N. assert (Z.abs a' <> 2) as N2 by (intros Z; apply N; right; rewrite EAa, Z; ring).
    specialize (K2 N2). rewrite EAa.
    assert (2 * Z.abs t * g < Z.abs a' * g) by (apply Z.mul_lt_mono_pos_r; lia). lia.
Qed.

(** the loop result in case b | a *)
Lemma caseDiv : forall a b, b <> 0 -> a mod b = 0 ->
  gmp_normal_P a b (Z.abs b) 0 (Z.sgn b).
Proof.
  intros a b Hb Hr.
  pose proof (Z.div_mod a b Hb) as Hdm. rewrite Hr, Z.add_0_r in Hdm.
  set (q := a / b) in *.
  assert (Z.abs a = Z.abs b * Z.abs q) as EA by (rewrite Hdm; apply Z.abs_mul).
  assert (0 < Z.abs b) as Hab by lia.
  unfold gmp_normal_P. split; [intros [_ ?]; contradiction|].
  split; [intros _ _; split; reflexivity|]. intros _ N.
  split; [intros [?|?]; [contradiction|lia]|]. split; [intros _; lia|].
  split; [intros _; reflexivity|]. intros N2.
  assert (Z.abs q <> 0) by (intros Z; apply N2; left; rewrite Z in EA; lia).
  assert (Z.abs q <> 1) by (intros Z; apply N; rewrite Z in EA; lia).
  assert (Z.abs q <> 2) by (intros Z; apply N2; right; rewrite Z in EA; lia).
  assert (Z.abs (Z.sgn b) = 1) as E1 by lia.
  rewrite EA, E1.
  assert (Z.abs b * 3 <= Z.abs b * Z.abs q) by (apply Z.mul_le_mono_nonneg_l; lia). lia.
Qed.

Lemma P_of_B : forall a b g s t,
  b <> 0 -> 0 < g -> Z.abs b = 2 * g -> a <> 0 -> Z.abs a <> 2 * g ->
  s = Z.sgn a -> 2 * g * Z.abs t < Z.abs a -> gmp_normal_P a b g s t.
Proof.
  intros a b g s t Hb Hg Hb2 Ha Ha2 Hs Ht. unfold gmp_normal_P.
  split; [intros [? _]; contradiction|]. split; [intros _ [_ ?]; lia|]. intros _ _.
  split; [intros _; exact Hs|]. split; [intros N; exfalso; apply N; right; exact Hb2|].
  split; [intros [?|?]; contradiction|]. intros _; exact Ht.
Qed.

Definition opp_sign (a b : Z) : bool := (a <? 0) && (0 <? b) || (b <? 0) && (0 <? a).

Lemma opp_sign_true : forall a b, (a < 0 /\ 0 < b) \/ (b < 0 /\ 0 < a) -> opp_sign a b = true.
Proof.
  intros a b H. unfold opp_sign.
  destruct (Z.ltb_spec a 0); destruct (Z.ltb_spec 0 b); destruct (Z.ltb_spec b 0);
    destruct (Z.ltb_spec 0 a); try reflexivity; exfalso; lia.
Qed.

Lemma opp_sign_false : forall a b, (0 < a /\ 0 < b) \/ (a < 0 /\ b < 0) -> opp_sign a b = false.
Proof.
  intros a b H. unfold opp_sign.
  destruct (Z.ltb_spec a 0); destruct (Z.ltb_spec 0 b); destruct (Z.ltb_spec b 0);
    destruct (Z.ltb_spec 0 a); try reflexivity; exfalso; lia.
Qed.

Lemma caseB : forall a b g s t,
  b <> 0 -> a mod b <> 0 -> 0 < g -> Z.abs (a mod b) = g -> Z.abs b = 2 * g ->
  (opp_sign a b = true -> s = - Z.sgn b /\ t = Z.sgn b * - (a / b) - Z.sgn b * (Z.abs a / g)) ->
  (opp_sign a b = false -> s = Z.sgn b /\ t = Z.sgn b * - (a / b)) ->
  gmp_normal_P a b g s t.
Proof.
  intros a b g s t Hb Hr Hg Hrg Hb2 Ht Hf.
  pose proof (Z.div_mod a b Hb) as Hdm.
  set (q := a / b) in *. set (r := a mod b) in *.
  destruct (Z.lt_trichotomy b 0) as [Lb|[Lb|Lb]]; [|contradiction|].
  - (* b < 0 *)
    pose proof (Z.mod_neg_bound a b Lb) as Hrb. fold r in Hrb.
    assert (r = - g) as Er by lia. assert (b = - (2 * g)) as Eb by lia.
    assert (a = - (g * (2 * q + 1))) as Ea by (rewrite Hdm, Er, Eb; ring).
    rewrite (Z.sgn_neg b Lb) in *.
    destruct (Z_lt_le_dec q 0) as [Lq|Lq].
    + assert (g * (2 * q + 1) < 0) as Hn by (apply Z.mul_pos_neg; lia).
      assert (0 < a) as Hap by lia.
      assert (Z.abs a = (- (2 * q + 1)) * g) as EA by (rewrite Z.abs_eq by lia; rewrite Ea; ring).
      destruct (Ht (opp_sign_true a b ltac:(lia))) as [-> ->].
      rewrite EA, Z.div_mul by lia.
      apply P_of_B; [assumption|assumption|assumption|lia| | | ].
      * rewrite EA. intros E. assert (- (2 * q + 1) = 2) by (apply (Z.mul_reg_r _ _ g); lia). lia.
      * rewrite Z.sgn_pos by assumption. reflexivity.
      * replace (-1 * - q - -1 * - (2 * q + 1)) with (- (q + 1)) by ring.
        rewrite EA, Z.abs_opp, Z.abs_neq by lia. lia.
    + assert (0 < g * (2 * q + 1)) as Hn by (apply Z.mul_pos_pos; lia).
      assert (a < 0) as Hap by lia.
      assert (Z.abs a = (2 * q + 1) * g) as EA by (rewrite Z.abs_neq by lia; rewrite Ea; ring).
      destruct (Hf (opp_sign_false a b ltac:(lia))) as [-> ->].
      apply P_of_B; [assumption|assumption|assumption|lia| | | ].
      * rewrite EA. intros E. assert (2 * q + 1 = 2) by (apply (Z.mul_reg_r _ _ g); lia). lia.
      * rewrite Z.sgn_neg by assumption. reflexivity.
      * replace (-1 * - q) with q by ring. rewrite EA, Z.abs_eq by lia. lia.
  - (* 0 < b *)
    pose proof (Z.mod_pos_bound a b Lb) as Hrb. fold r in Hrb.
    assert (r = g) as Er by lia. assert (b = 2 * g) as Eb by lia.
    assert (a = g * (2 * q + 1)) as Ea by (rewrite Hdm, Er, Eb; ring).
    rewrite (Z.sgn_pos b Lb) in *.
    destruct (Z_lt_le_dec q 0) as [Lq|Lq].
    + assert (g * (2 * q + 1) < 0) as Hn by (apply Z.mul_pos_neg; lia).
      assert (a < 0) as Hap by lia.
      assert (Z.abs a = (- (2 * q + 1)) * g) as EA by (rewrite Z.abs_neq by lia; rewrite Ea; ring).
      destruct (Ht (opp_sign_true a b ltac:(lia))) as [-> ->].
      rewrite EA, Z.div_mul by lia.
      apply P_of_B; [assumption|assumption|assumption|lia| | | ].
      * rewrite EA. intros E. assert (- (2 * q + 1) = 2) by (apply (Z.mul_reg_r _ _ g); lia). lia.
      * rewrite Z.sgn_neg by assumption. reflexivity.
      * replace (1 * - q - 1 * - (2 * q + 1)) with (q + 1) by ring.
        rewrite EA, Z.abs_neq by lia. lia.
    + assert (0 < g * (2 * q + 1)) as Hn by (apply Z.mul_pos_pos; lia).
      assert (0 < a) as Hap by lia.
      assert (Z.abs a = (2 * q + 1) * g) as EA by (rewrite Z.abs_eq by lia; rewrite Ea; ring).
      destruct (Hf (opp_sign_false a b ltac:(lia))) as [-> ->].
      apply P_of_B; [assumption|assumption|assumption|lia| | | ].
      * rewrite EA. intros E. assert (2 * q + 1 = 2) by (apply (Z.mul_reg_r _ _ g); lia). lia.
      * rewrite Z.sgn_pos by assumption. reflexivity.
      * replace (1 * - q) with (- q) by ring. rewrite EA, Z.abs_opp, Z.abs_eq by lia. lia.
Qed.

Lemma m1_mul : forall x, -1 * x = - x.
Proof. intros; lia. Qed.

Lemma fix_form : forall a b g0 s0 t0, b <> 0 -> 0 < Z.sgn b * g0 ->
  gcdext_fix a b (g0, s0, t0) =
  if opp_sign a b && (Z.abs b =? 2 * (Z.sgn b * g0))
  then (Z.sgn b * g0, - (Z.sgn b * s0), Z.sgn b * t0 - Z.sgn b * s0 * (Z.abs a / (Z.sgn b * g0)))
  else (Z.sgn b * g0, Z.sgn b * s0, Z.sgn b * t0).
Proof.
  intros a b g0 s0 t0 Hb Hg. unfold gcdext_fix, opp_sign.
  destruct (Z.lt_trichotomy b 0) as [Lb|[Lb|Lb]]; [|contradiction|].
  - rewrite (Z.sgn_neg b Lb) in *. rewrite (m1_mul g0), (m1_mul s0), (m1_mul t0).
    destruct (Z.ltb_spec g0 0) as [L|L]; [reflexivity|lia].
  - rewrite (Z.sgn_pos b Lb) in *. rewrite !Z.mul_1_l.
    destruct (Z.ltb_spec g0 0) as [L|L]; [lia|].
    destruct (Z.eqb_spec g0 0) as [L0|L0]; [lia|reflexivity].
Qed.

Lemma abs_mod_lt : forall a b, b <> 0 -> Z.abs (a mod b) < Z.abs b.
Proof.
  intros a b Hb. destruct (Z.lt_trichotomy b 0) as [Lb|[Lb|Lb]]; [|contradiction|].
  - pose proof (Z.mod_neg_bound a b Lb). lia.
  - pose proof (Z.mod_pos_bound a b Lb). lia.
Qed.

Lemma abs_sgn_mul : forall b x, b <> 0 -> Z.abs (Z.sgn b * x) = Z.abs x.
Proof. intros b x Hb. rewrite Z.abs_mul. assert (Z.abs (Z.sgn b) = 1) as -> by lia. ring. Qed.

Theorem gcdext_gmp_normal_P : forall a b g s t,
  gcdext a b = Ok (g, s, t) -> gmp_normal_P a b g s t.
Proof.
  intros a b g s t H.
  destruct (gcdext_spec a b g s t H) as [HG HBz].
  unfold gcdext in H.
  destruct (gcdext_loop (euclid_fuel b) a b 1 0 0 1) as [[[g0 s0] t0]|] eqn:E; [|discriminate].
  assert (gcdext_fix a b (g0, s0, t0) = (g, s, t)) as H' by congruence.
  clear H. rename H' into H.
  destruct (Z.eq_dec b 0) as [Eb|Nb].
  - (* b = 0 *)
    subst b. rewrite loop_stop in E. injection E as <- <- <-.
    unfold gcdext_fix in H. change (0 <? 0) with false in H. change (Z.abs 0) with 0 in H.
    rewrite andb_false_r in H. cbn [andb orb] in H.
    unfold gmp_normal_P.
    destruct (Z.ltb_spec a 0) as [L|L].
    + injection H as <- <- <-. repeat split; intros; lia.
    + destruct (Z.eqb_spec a 0) as [L0|L0]; injection H as <- <- <-; repeat split; intros; lia.
  - (* b <> 0 : first step *)
    apply loop_step in E; [|assumption]. destruct E as (k & _ & E).
    set (q0 := a / b) in *. set (r := a mod b) in *.
    replace (1 - q0 * 0) with 1 in E by ring. replace (0 - q0 * 1) with (- q0) in E by ring.
    pose proof (abs_mod_lt a b Nb) as Hrb. fold r in Hrb.
    apply loop_abs in E; [|assumption| |].
    2:{ intros Lb. pose proof (Z.mod_pos_bound a b Lb). fold r in H0. lia. }
    2:{ intros Lb. pose proof (Z.mod_neg_bound a b Lb). fold r in H0. lia. }
    pose proof E as E'.
    apply loop_key in E; [|lia|lia|lia].
    destruct E as (Hgam & Hz & Hnz).
    rewrite fix_form in H by assumption.
    remember (Z.sgn b * g0) as gam eqn:Egam.
    assert (Z.gcd a b = gam) as HGg.
    { rewrite <- HG. destruct (opp_sign a b && (Z.abs b =? 2 * gam)); injection H as <- _ _; reflexivity. }
    assert (g = gam) as Egg by lia. clear HG. rewrite Egg in H, HBz |- *. clear Egg g.
    destruct (Z.eq_dec r 0) as [Er|Nr].
    + (* b | a *)
      destruct (Hz ltac:(lia)) as (Hg1 & -> & ->).
      assert ((Z.abs b =? 2 * gam) = false) as C by (apply Z.eqb_neq; lia).
      rewrite C, andb_false_r in H. injection H as <- <-.
      rewrite Hg1, Z.mul_0_r, Z.mul_1_r. apply caseDiv; assumption.
    + specialize (Hnz ltac:(lia)). clear Hz.
      change (Z.abs 1) with 1 in Hnz. change (Z.abs 0) with 0 in Hnz.
      rewrite Z.mul_1_r, Z.mul_0_r, Z.add_0_r in Hnz. destruct Hnz as [Hle Heq].
      assert (gam | a) as Da by (rewrite <- HGg; apply Z.gcd_divide_l).
      assert (gam | b) as Db by (rewrite <- HGg; apply Z.gcd_divide_r).
      destruct (Z.eq_dec (Z.abs b) (2 * gam)) as [B2|B2].
      * (* |b| = 2 gcd *)
        assert (gam | r) as Dr.
        { replace r with (a - b * q0) by (pose proof (Z.div_mod a b Nb); subst q0 r; lia).
          apply Z.divide_sub_r; [assumption|]. apply Z.divide_mul_l; assumption. }
        assert (Z.abs r = gam) as Hrg.
        { destruct Dr as [c Ec]. assert (Z.abs r = Z.abs c * gam) as Ea by (rewrite Ec; apply abs_mul_pos; assumption).
          assert (Z.abs c < 2) by (apply (Z.mul_lt_mono_pos_r gam); lia).
          assert (Z.abs c <> 0) by (intros Z; rewrite Z in Ea; lia).
          assert (Z.abs c = 1) as E1 by lia. rewrite Ea, E1. ring. }
        apply loop_step in E'; [|lia]. destruct E' as (k' & _ & E').
        replace (Z.abs b mod Z.abs r) with 0 in E'
          by (rewrite B2, Hrg; symmetry; apply Z_mod_mult).
        rewrite loop_stop in E'. injection E' as _ <- <-.
        rewrite (proj2 (Z.eqb_eq _ _) B2), andb_true_r in H.
        subst q0 r. apply caseB; try assumption.
        -- intros Ho. rewrite Ho in H. injection H as <- <-. split; ring.
        -- intros Ho. rewrite Ho in H. injection H as <- <-. split; ring.
      * (* |b| <> 2 gcd *)
        rewrite (proj2 (Z.eqb_neq _ _) B2), andb_false_r in H. injection H as <- <-.
        apply caseA; try assumption.
        -- intros ->. apply Nr. apply Z.mod_0_l. assumption.
        -- intros Eg. apply Nr. apply Z.mod_divide; [assumption|].
           apply Z.divide_abs_l. rewrite Eg. assumption.
        -- rewrite abs_sgn_mul by assumption. lia.
Qed.

Theorem gcdext_gmp_normal : forall a b g s t,
  gcdext a b = Ok (g, s, t) -> gmp_normal a b g s t = true.
Proof. intros. apply gmp_normal_iff. apply gcdext_gmp_normal_P. assumption. Qed.

Theorem gcdext_gmp_normal_prop : forall a b g s t, gcdext a b = Ok (g, s, t) ->
  (a = 0 /\ b = 0 -> g = 0 /\ s = 0 /\ t = 0) /\
  (~ (a = 0 /\ b = 0) -> Z.abs a = g /\ Z.abs b = g -> s = 0 /\ t = Z.sgn b) /\
  (~ (a = 0 /\ b = 0) -> ~ (Z.abs a = g /\ Z.abs b = g) ->
     ((b = 0 \/ Z.abs b = 2 * g) -> s = Z.sgn a) /\ (~ (b = 0 \/ Z.abs b = 2 * g) -> 2 * g * Z.abs s < Z.abs b) /\
     ((a = 0 \/ Z.abs a = 2 * g) -> t = Z.sgn b) /\ (~ (a = 0 \/ Z.abs a = 2 * g) -> 2 * g * Z.abs t < Z.abs a)).
Proof. intros a b g s t H. exact (gcdext_gmp_normal_P a b g s t H). Qed.

