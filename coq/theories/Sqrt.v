(** C21 — model of PrimeFieldElement._sqrt / _is_sqr (mpyc/finfields.py) with the gmpy stubs
    legendre = jacobi (binary-free Euclid-style loop of mpyc/gmpy.py), powmod, invert underneath. *)
Require Import MPyC.Field MPyC.Zp MPyC.FinField.
From Coq Require Import ZArith Znumtheory Lia Bool List.
Import ListNotations.
Local Open Scope Z_scope.

(** ** gmpy.jacobi(x, y), y > 0 odd (ValueError otherwise); legendre(x, y) = jacobi(x, y)
      j = 1
      while True:
          x, y = y, x % y
          if y == 0: break
          t = (y & -y).bit_length() - 1
          if t&1 and (x&7 == 3 or x&7 == 5): j = -j
          y = y >> t
          if y&3 != 1 and x&3 != 1: j = -j
      if x != 1: j = 0 *)
Fixpoint jacobi_loop (fuel : nat) (x y j : Z) : option Z :=
  match fuel with
  | O => None
  | S f =>
      let x' := y in
      let y' := x mod y in
      if y' =? 0 then Some (if x' =? 1 then j else 0)
      else
        let t := Z.log2 (Z.land y' (- y')) in
        let j1 := if (Z.land t 1 =? 1) && ((Z.land x' 7 =? 3) || (Z.land x' 7 =? 5)) then - j else j in
        let y'' := Z.shiftr y' t in
        let j2 := if negb (Z.land y'' 3 =? 1) && negb (Z.land x' 3 =? 1) then - j1 else j1 in
        jacobi_loop f x' y'' j2
  end.

Definition jacobi_fuel (y : Z) : nat := (2 * Z.to_nat (Z.log2_up y) + 4)%nat.

Definition jacobi (x y : Z) : result Z :=
  if negb ((0 <? y) && (Z.land y 1 =? 1)) then Err ValueE
  else match jacobi_loop (jacobi_fuel y) x y 1 with Some j => Ok j | None => Err Fuel end.

Definition legendre := jacobi.

(** ** _is_sqr *)
Definition is_sqr (p a : Z) : result bool :=
  if p =? 2 then Ok true
  else bind (legendre a p) (fun l => Ok (negb (l =? -1))).

(** ** _sqrt *)
(** b = 1; while legendre(b*b - 4*a, p) != -1: b += 1   ([None]: fuel exhausted / legendre failed) *)
Fixpoint find_b (fuel : nat) (p a b : Z) : option Z :=
  match fuel with
  | O => None
  | S f => match legendre (b * b - 4 * a) p with
           | Ok l => if l =? -1 then Some b else find_b f p a (b + 1)
           | Err _ => None
           end
  end.
Definition find_b_fuel (p : Z) : nat := (64 + 8 * Z.to_nat (Z.log2_up p))%nat.

(** one ladder step on u*X + v in GF(p)[X]/(X^2 - b*X + a): squaring, and multiplication by X *)
Definition lad_sq (p a b : Z) (uv : Z * Z) : Z * Z :=
  let '(u, v) := uv in
  let u2 := (u * u) mod p in
  ((Z.shiftl u 1 * v + b * u2) mod p, (v * v - a * u2) mod p).
Definition lad_mx (p a b : Z) (uv : Z * Z) : Z * Z :=
  let '(u, v) := uv in ((v + b * u) mod p, (- a * u) mod p).

(** for i in range(e.bit_length()-1, -1, -1): square; if bit i of e: multiply by X   (from (0, 1)) *)
Fixpoint ladder (p a b : Z) (e : positive) : Z * Z :=
  match e with
  | xH => lad_mx p a b (lad_sq p a b (0, 1))
  | xO e' => lad_sq p a b (ladder p a b e')
  | xI e' => lad_mx p a b (lad_sq p a b (ladder p a b e'))
  end.

Definition sqrt_ (p a : Z) (INV : bool) : result Z :=      (* classmethod _sqrt on raw values *)
  if a =? 0 then (if INV then Err ZeroDiv else Ok a)
  else if p =? 2 then Ok a
  else if Z.land p 3 =? 3 then
    let p4 := if INV then Z.shiftr (p * 3 - 5) 2 else Z.shiftr (p + 1) 2 in
    powmod a p4 p
  else
    match find_b (find_b_fuel p) p a 1 with
    | None => Err Fuel
    | Some b =>
        match Z.shiftr (p + 1) 1 with
        | Zpos e => let '(u, v) := ladder p a b e in
                    if INV then reciprocal_ p v else Ok v
        | _ => Err Fuel
        end
    end.

Definition sqrt (p a : Z) (INV : bool) : result Z := bind (sqrt_ p a INV) (fun r => Ok (mk p r)).

(** entry points for the correspondence run *)
Definition codeb (r : result bool) : Z := code (bind r (fun b => Ok (b2z b))).
Definition sqrt_table (p : Z) : list (Z * Z * Z) :=
  map (fun a => (code (sqrt p a false), code (sqrt p a true), codeb (is_sqr p a))) (zrange p).
Definition sqrt_row (p : Z) (l : list Z) : list (Z * Z * Z) :=
  map (fun a => (code (sqrt p a false), code (sqrt p a true), codeb (is_sqr p a))) l.
Definition legendre_row (p : Z) (l : list Z) : list Z := map (fun a => code (legendre a p)) l.
