(** C19 — parties outside the receivers get no message from an output / a transfer.
    Only statements; definitions and proofs are in theories/Routing.v. *)
Require Import MPyC.Base MPyC.Routing.
Local Open Scope nat_scope.

(** output(x, receivers=R, threshold=t'): a share is only ever sent to a member of R — for
    every m, every threshold (no side condition at all), every sender p *)
Theorem C19_output_sends_within_receivers :
  forall (m t : nat) (R : list nat) (p r : nat), In r (out_sends m t R p) -> In r R.
Proof. exact output_sends_within_receivers. Qed.
Print Assumptions C19_output_sends_within_receivers .

(** so a party q outside R is sent nothing by anybody, and itself waits for nothing *)
Theorem C19_output_nonreceiver_silent :
  forall (m t : nat) (R : list nat) (q : nat),
    ~ In q R -> (forall p, ~ In q (out_sends m t R p)) /\ out_recvs m t R q = [].
Proof. exact output_nonreceiver_silent. Qed.
Print Assumptions C19_output_nonreceiver_silent .

(** nobody sends its share to itself *)
Theorem C19_output_sends_not_self :
  forall (m t : nat) (R : list nat) (p : nat), p < m -> ~ In p (out_sends m t R p).
Proof. exact output_sends_not_self. Qed.
Print Assumptions C19_output_sends_not_self .

(** transfer, all three argument forms: party i writes a frame to j only if (i,j) is a
    designated arc of the graph ... *)
Theorem C19_transfer_sends_within_receivers :
  forall (G : Graph) (i j : nat), wf G -> In j (transfer_sends G i) -> arc G i j.
Proof. exact transfer_sends_within_receivers. Qed.
Print Assumptions C19_transfer_sends_within_receivers .

(** ... so a party j that is nobody's designated receiver is sent nothing, whoever the sender *)
Theorem C19_transfer_nonreceiver_silent :
  forall (G : Graph) (j : nat), wf G -> (forall i, ~ arc G i j) ->
    (forall i, ~ In j (transfer_sends G i)) /\ transfer_recvs G j = [].
Proof.
  intros G j Hwf H. split.
  - intros i Hj. apply (H i). eapply transfer_sends_within_receivers; eauto.
  - apply transfer_nonreceiver. exact H.
Qed.
Print Assumptions C19_transfer_nonreceiver_silent .

(** non-vacuity: m = 5, threshold 3, R = [1;4]: only 1 and 4 are ever addressed; the graph
    {0:[2], 1:[2;0], 2:[]} addresses only 2 and 0 *)
Example C19_nonvacuous :
  map (out_sends 5 3 [1; 4]) [0; 1; 2; 3; 4] = [[1]; [4]; [4]; [1; 4]; [1]] /\
  map (transfer_sends (Dict [(0, [2]); (1, [2; 0]); (2, [])])) [0; 1; 2] = [[2]; [2; 0]; []] /\
  map (transfer_recvs (Dict [(0, [2]); (1, [2; 0]); (2, [])])) [0; 1; 2] = [[1]; []; [0; 1]].
Proof. vm_compute. auto. Qed.
