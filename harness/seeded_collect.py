#!/usr/bin/env python3
"""Collect confirmed seeded changes into /verif/seeded/<id>/ from /tmp/seed/<P>_out/mutK and the logs of
seeded_verify.sh / seeded_run.sh (usage: seeded_collect.py <log files...>)."""
import sys, os, re, json, shutil
VERIF = os.path.dirname(os.path.dirname(os.path.abspath(__file__)))
cur = None
res = {}
for log in sys.argv[1:]:
    for line in open(log):
        m = re.match(r'== (C\d+) mut(\d+)', line)
        if m:
            cur = (m.group(1), int(m.group(2)))
            res.setdefault(cur, {})
            for k in ('violation_lines', 'check_exit', 'check_violations'):
                res[cur].pop(k, None)               # a later run of the same change replaces the earlier result
            continue
        if cur is None:
            continue
        m = re.match(r'RESULT (\S+) tests_rc=(\d+) demo_clean_rc=(\d+) demo_mutated_rc=(\d+)\s+\((.*)\)', line)
        if m:
            res[cur].update(src=m.group(1), tests_rc=int(m.group(2)), demo_clean_rc=int(m.group(3)),
                            demo_mutated_rc=int(m.group(4)), tests_tail=m.group(5))
        if 'patch-does-not-apply' in line or 'patch does not apply' in line:
            res[cur]['applies'] = False
        m = re.search(r'done: .*violations=(\d+) known=(\d+)', line)
        if m:
            res[cur]['check_violations'] = int(m.group(1))
        m = re.match(r'check_exit=(\d+)', line)
        if m:
            res[cur]['check_exit'] = int(m.group(1))
        if line.startswith('VIOLATION property=%s ' % cur[0]):
            res[cur].setdefault('violation_lines', []).append(line.strip()[:200])
for (p, k), r in sorted(res.items()):
    src = r.get('src') or '/tmp/seed/%s_out/mut%d' % (p, k)
    confirmed = r.get('tests_rc') == 0 and r.get('demo_clean_rc') == 0 and r.get('demo_mutated_rc', 0) != 0
    sid = '%s-mut%d' % (p, k)
    dst = os.path.join(VERIF, 'seeded', sid)
    if not os.path.isdir(src) and os.path.exists(os.path.join(dst, 'patch.diff')):
        src = dst                                   # scratch copy already removed: keep what was collected
    if not confirmed or not os.path.isdir(src):
        print(sid, 'NOT CONFIRMED', r)
        continue
    os.makedirs(dst, exist_ok=True)
    for f in ('patch.diff', 'demo.py'):
        if src != dst:
            shutil.copy(os.path.join(src, f), os.path.join(dst, f))
    try:
        meta0 = json.load(open(os.path.join(src, 'meta.json')))
        if src == dst:
            meta0 = {'summary': meta0.get('summary'), 'needs': meta0.get('needs'), 'ran': meta0.get('author_ran')}
    except Exception:
        meta0 = {}
    old = {}
    if os.path.exists(os.path.join(dst, 'meta.json')):
        old = json.load(open(os.path.join(dst, 'meta.json')))
    meta = {
        'id': sid, 'property': p,
        'summary': meta0.get('summary'), 'needs': meta0.get('needs'),
        'author_ran': meta0.get('ran'),
        'confirmed': {'how': 'harness/seeded_verify.sh in a scratch worktree of /repo: package test suite with the patch, demo '
                             'with and without the patch', 'tests_with_patch': r.get('tests_tail'),
                      'demo_exit_without_patch': r.get('demo_clean_rc'), 'demo_exit_with_patch': r.get('demo_mutated_rc')},
        'check_result': {'how': 'harness/seeded_run.sh %s patch.diff quick (patch applied in a scratch worktree, check pointed at it)' % p,
                         'exit': r.get('check_exit'), 'violations': r.get('check_violations'),
                         'detected': r.get('check_exit') == 1,
                         'violation_lines': r.get('violation_lines', [])[:3]},
    }
    if old.get('history'):
        meta['history'] = old['history']
    for k in ('also_detected_by', 'also_detected_how'):
        if old.get(k):
            meta[k] = old[k]
    if old.get('check_result') and old['check_result'].get('detected') != meta['check_result']['detected']:
        meta.setdefault('history', []).append({'earlier_check_result': old['check_result']})
    json.dump(meta, open(os.path.join(dst, 'meta.json'), 'w'), indent=1)
    print(sid, 'detected' if meta['check_result']['detected'] else 'MISSED', 'exit', r.get('check_exit'))
