"""C27 — every finite group family obeys the group laws in all coordinate systems.

Proof: coq/props/C27.v (theories Group.v, Sym.v, Curves.v).  Tie: the executable Gallina models of
operation / operation2 / inversion / equality / normalize / repeat are evaluated by vm_compute on
the same points as mpyc.fingroups (built-in curves in every coordinate system, toy curves, Sym(n),
QR/Schnorr groups) and compared exactly.  Independently, the property itself (group laws, repeat =
n-fold application, coordinate systems agree, generator order, decode(encode(m)) = m) is checked on
the implementation for ALL families, including class groups and hyperelliptic curves, for which
no Coq model exists.
"""
import itertools
import threading
from lib.core import zlit

MANIFEST = {
    'text': 'Coq: the generic double-and-add repeat (loop form proved equal to the positive-recursion form) equals the n-fold '
            'iterated operation for EVERY integer n in any structure with the monoid laws up to an equivalence (covers all '
            'families using FiniteGroupElement.repeat); Sym(n): closure, associativity, identity, inverse for all n; QR/Schnorr: '
            'multiplication mod prime p is a group on the units, squares / order-q elements closed, field-power repeat = n-fold '
            'product, decode(encode(m)) = m under the coded range; curves over an abstract field: projective/extended Edwards '
            'addition, doubling, inversion, normalize, equality refine the affine law, Jacobian addition (generic, same-point and '
            'opposite-point branches) and Jacobian/projective doubling refine the affine Weierstrass law, affine commutativity/'
            'identity/inverse/closure; full group laws and cross-coordinate agreement by exhaustive computation on toy curves '
            'over Z_p, p <= 17. The models are run against mpyc.fingroups on identical inputs every run.',
    'note': 'PARTIAL: class groups (NUCOMP/NUDUPL) and hyperelliptic-curve divisors (Cantor, Costello-Lauter) are NOT modelled; '
            'they are covered only by implementation-level law sampling in this check. Associativity of curve addition is proved '
            'only on toy curves (exhaustively); the general refinement theorems assume nonvanishing denominators (completeness '
            'of Edwards addition for non-square d is a hypothesis); projective Weierstrass ADDITION (Renes et al.) refinement is '
            'not proved in general (only doubling; addition exhaustively on toy curves of odd order); BN256_twist (field GF(p^2)) '
            'has no executable model instance and is covered by the oracle only. Python pow/invert/legendre are primitives '
            '(powmod modelled by square-and-multiply, legendre an oracle argument). Trusted: Coq kernel + vm_compute, harness.',
    'technique': 'Coq proof (induction on binary expansion; field/nsatz identities; exhaustive vm_compute on toy curves) + '
                 'vm_compute correspondence + implementation-level group-law oracle',
}


# ----------------------------------------------------------------------------------------------
# helpers

def fval(x):
    return int(x.value)


def pvals(P):
    """coordinates of an elliptic-curve point as a tuple of ints; Weierstrass affine identity -> None"""
    v = P.value
    if len(v) == 0:
        return None
    return tuple(fval(c) for c in v)


def clit(v):
    """Python value -> Coq literal (Z scope open)"""
    if v is None:
        return 'None'
    if isinstance(v, bool):
        return 'true' if v else 'false'
    if isinstance(v, int):
        return '(%d)' % v
    if isinstance(v, tuple):
        return '(' + ', '.join(clit(c) for c in v) + ')'
    raise TypeError(v)


def olit(v):
    """option point literal for Weierstrass affine"""
    return 'None' if v is None else '(Some %s)' % clit(v)


def from_coq(r, opt=False):
    """parsed Coq value -> same canonical form as pvals"""
    if opt:
        if r is None:
            return None
        if isinstance(r, tuple) and r and r[0] == 'Some':
            return tuple(r[1])
        return ('BAD', r)
    return tuple(r) if isinstance(r, (tuple, list)) else r


def make_toy(fg, GF, base, p, **par):
    gf = GF(p)
    name = 'toy%s_%d_%s' % (base.__name__, p, '_'.join('%s%d' % kv for kv in sorted(par.items())))
    EC = type(name, (base,), {'__slots__': ()})
    EC.field = gf
    for k, v in par.items():
        setattr(EC, k, gf(v))
    EC.identity = EC(check=False)
    EC.curvename = name
    return EC


def ed_points(p, a, d):
    return [(x, y) for x in range(p) for y in range(p) if (a * x * x + y * y - 1 - d * x * x * y * y) % p == 0]


def w_points(p, a, b):
    return [(x, y) for x in range(p) for y in range(p) if (y * y - x ** 3 - a * x - b) % p == 0]


# textbook affine laws on plain integers (independent oracle)
def ref_ed_add(p, a, d, P, Q):
    (x1, y1), (x2, y2) = P, Q
    t = d * x1 * x2 * y1 * y2 % p
    return ((x1 * y2 + y1 * x2) * pow(1 + t, -1, p) % p, (y1 * y2 - a * x1 * x2) * pow(1 - t, -1, p) % p)


def ref_w_add(p, a, P, Q):
    if P is None:
        return Q
    if Q is None:
        return P
    (x1, y1), (x2, y2) = P, Q
    if x1 == x2 and (y1 + y2) % p == 0:
        return None
    if P == Q:
        lam = (3 * x1 * x1 + a) * pow(2 * y1, -1, p) % p
    else:
        lam = (y2 - y1) * pow(x2 - x1, -1, p) % p
    x3 = (lam * lam - x1 - x2) % p
    return (x3, (lam * (x1 - x3) - y1) % p)


def ref_mul(add, P, n, zero, neg):
    if n < 0:
        P, n = neg(P), -n
    R = zero
    while n:
        if n & 1:
            R = add(R, P)
        P = add(P, P)
        n >>= 1
    return R


class Fam:
    """one curve class in one coordinate system + how to talk to the Coq model"""

    def __init__(self, E, kind, p, a=None, b=None, d=None, toy=False):
        self.E, self.kind, self.p, self.a, self.b, self.d, self.toy = E, kind, p, a, b, d, toy
        self.name = E.__name__

    # affine view (ints) of an implementation point
    def affine(self, P):
        v = pvals(P)
        p = self.p
        if self.kind in ('eda',):
            return v
        if self.kind == 'wa':
            return v
        if self.kind in ('edp', 'ede'):
            zi = pow(v[2], -1, p)
            return (v[0] * zi % p, v[1] * zi % p)
        if self.kind == 'wp':
            if v[2] == 0:
                return None
            zi = pow(v[2], -1, p)
            return (v[0] * zi % p, v[1] * zi % p)
        if self.kind == 'wj':
            if v[2] == 0:
                return None
            zi = pow(v[2], -1, p)
            return (v[0] * zi * zi % p, v[1] * zi * zi * zi % p)

    def lit(self, v):
        return olit(v) if self.kind == 'wa' else clit(v)

    def conv(self, r):
        return from_coq(r, opt=self.kind == 'wa')

    def coq(self, what, *args):
        p, k = self.p, self.kind
        par = {'eda': '%d %d' % (self.a or 0, self.d or 0), 'edp': '%d %d' % (self.a or 0, self.d or 0),
               'ede': '%d' % (self.d or 0), 'wa': '%d' % (self.a or 0), 'wp': '%d' % (self.b or 0), 'wj': ''}[k]
        if what == 'add':
            return 'z_%s_add %d %s %s %s' % (k, p, par, self.lit(args[0]), self.lit(args[1]))
        if what == 'dbl':
            if k in ('eda', 'edp'):
                return 'z_%s_add %d %s %s %s' % (k, p, par, self.lit(args[0]), self.lit(args[0]))
            return 'z_%s_dbl %d %s %s' % (k, p, par, self.lit(args[0]))
        if what == 'inv':
            return 'z_%s_inv %d %s' % (k, p, self.lit(args[0]))
        if what == 'eq':
            return 'z_%s_eq %d %s %s' % (k, p, self.lit(args[0]), self.lit(args[1]))
        if what == 'norm':
            return 'z_%s_norm %d %s' % (k, p, self.lit(args[0]))
        if what == 'rep':
            return 'z_%s_rep %d %s %s (%d)' % (k, p, par, self.lit(args[0]), args[1])
        raise ValueError(what)


def run(ctx):
    from mpyc import fingroups as fg
    from mpyc.finfields import GF
    ok = ctx.build(['MPyC.Curves', 'MPyC.Sym', 'MPyC.Group']) and ctx.check_props()
    rng = ctx.rng
    ctx.rule = ('correspondence case = (group family/coordinate system, operands, exponent); operands are multiples of the '
                'generator (non-normalised projective representatives), identity, equal and opposite points, all points of toy '
                'curves with random scalings; exponents 0, +-1, +-2, +-2^k, order, order+-1, random of full size; oracle case = '
                'random triples / exponents / messages per family incl. class groups and hyperelliptic curves')
    ctx.explanation = ('theorems: repeat = n-fold operation for every integer n (generic), Sym(n) group laws for all n, '
                       'mul mod p group, coordinate refinements by field/nsatz, toy curves exhaustively; models compared '
                       'exactly with fingroups on the same inputs')
    FGE = fg.FiniteGroupElement

    def violation(sig, detail):
        ctx.violation(sig, detail)

    # ------------------------------------------------------------------------------------------
    # 1. families
    fams = []
    builtin = {}
    for name in ('Ed25519', 'Ed448'):
        for co, kind in (('affine', 'eda'), ('projective', 'edp'), ('extended', 'ede')):
            E = fg.EllipticCurve(name, co)
            f = Fam(E, kind, E.field.modulus, a=fval(E.a), d=fval(E.d))
            fams.append(f)
            builtin[(name, co)] = f
    for name in ('secp256k1', 'BN256'):
        for co, kind in (('affine', 'wa'), ('projective', 'wp'), ('jacobian', 'wj')):
            E = fg.EllipticCurve(name, co)
            f = Fam(E, kind, E.field.modulus, a=fval(E.a), b=fval(E.b))
            fams.append(f)
            builtin[(name, co)] = f
    toy_ed = [(13, 1, 2), (13, 12, 2), (17, 16, 3), (11, 1, 2)]
    toy_w = [(7, 0, 3), (13, 0, 7), (13, 0, 2), (13, 2, 4), (13, 1, 1), (13, 0, 1)]
    toys = []
    for (p, a, d) in toy_ed:
        toys.append(Fam(make_toy(fg, GF, fg.EdwardsAffine, p, a=a, d=d), 'eda', p, a=a, d=d, toy=True))
        toys.append(Fam(make_toy(fg, GF, fg.EdwardsProjective, p, a=a, d=d), 'edp', p, a=a, d=d, toy=True))
        if a == p - 1:
            toys.append(Fam(make_toy(fg, GF, fg.EdwardsExtended, p, a=a, d=d), 'ede', p, a=a, d=d, toy=True))
    for (p, a, b) in toy_w:
        toys.append(Fam(make_toy(fg, GF, fg.WeierstrassAffine, p, a=a, b=b), 'wa', p, a=a, b=b, toy=True))
        if a == 0:
            toys.append(Fam(make_toy(fg, GF, fg.WeierstrassJacobian, p, a=a, b=b), 'wj', p, a=a, b=b, toy=True))
            if (p, a, b) != (13, 0, 1):   # complete formulas need odd order
                toys.append(Fam(make_toy(fg, GF, fg.WeierstrassProjective, p, a=a, b=b), 'wp', p, a=a, b=b, toy=True))

    def toy_point(f, A, scale=True):
        """implementation point for affine ints A (None = identity) with a random projective scaling"""
        E, p, gf = f.E, f.p, f.E.field
        z = rng.randrange(1, p) if scale else 1
        if f.kind == 'eda':
            return E((gf(A[0]), gf(A[1])))
        if f.kind == 'wa':
            return E.identity if A is None else E((gf(A[0]), gf(A[1])))
        if f.kind == 'edp':
            return E((gf(A[0] * z), gf(A[1] * z), gf(z)))
        if f.kind == 'ede':
            return E((gf(A[0] * z), gf(A[1] * z), gf(z), gf(A[0] * A[1] * z)))
        if f.kind == 'wp':
            return E((gf(0), gf(z), gf(0))) if A is None else E((gf(A[0] * z), gf(A[1] * z), gf(z)))
        if f.kind == 'wj':
            return E((gf(z * z), gf(z * z * z), gf(0))) if A is None else E((gf(A[0] * z * z), gf(A[1] * z ** 3), gf(z)))

    exprs, metas = [], []          # light expressions
    heavy_exprs, heavy_metas = [], []

    def add_case(f, what, args_impl, impl_val, coq_args, heavy=False, key=None):
        e = f.coq(what, *coq_args)
        m = {'fam': f.name, 'kind': f.kind, 'what': what, 'args': [str(a) for a in coq_args], 'impl': impl_val}
        (heavy_exprs if heavy else exprs).append(e)
        (heavy_metas if heavy else metas).append((f, what, m))

    def ref_add(f, A, B):
        return ref_ed_add(f.p, f.a, f.d, A, B) if f.kind[0] == 'e' else ref_w_add(f.p, f.a, A, B)

    def ref_neg(f, A):
        if A is None:
            return None
        return ((-A[0]) % f.p, A[1]) if f.kind[0] == 'e' else (A[0], (-A[1]) % f.p)

    def ref_zero(f):
        return (0, 1) if f.kind[0] == 'e' else None

    known_bad = set()   # families where the oracle already failed (avoid thousands of replays)

    def check_pair(f, P, Q, n, heavy=False, do_rep=True):
        """run implementation on (P, Q, n), check against textbook oracle, queue model expressions"""
        E = f.E
        vP, vQ = pvals(P), pvals(Q)
        aP, aQ = f.affine(P), f.affine(Q)
        S = E.operation(P, Q)
        D = E.operation2(P)
        I = E.inversion(P)
        eq = bool(E.equality(P, Q))
        N = P.normalize()
        # oracle (textbook affine law on integers)
        bad = []
        if f.affine(S) != ref_add(f, aP, aQ):
            bad.append('operation')
        if f.affine(D) != ref_add(f, aP, aP):
            bad.append('operation2')
        if f.affine(I) != ref_neg(f, aP):
            bad.append('inversion')
        if eq != (aP == aQ):
            bad.append('equality')
        if f.affine(N) != aP or (f.kind not in ('eda', 'wa') and aP is not None and fval(N.value[2]) != 1):
            bad.append('normalize')
        if (P @ Q) != S or (P @ P) != D or (~P) != I:
            bad.append('operator-plumbing')
        add_case(f, 'add', None, pvals(S), (vP, vQ))
        add_case(f, 'dbl', None, pvals(D), (vP,))
        add_case(f, 'inv', None, pvals(I), (vP,))
        add_case(f, 'eq', None, eq, (vP, vQ))
        if f.kind not in ('eda', 'wa'):
            add_case(f, 'norm', None, pvals(N), (vP,))
        if do_rep:
            R = FGE.repeat(P, n)
            if f.affine(R) != ref_mul(lambda A, B: ref_add(f, A, B), aP, n, ref_zero(f), lambda A: ref_neg(f, A)):
                bad.append('repeat')
            if (P ^ n) != R or n * P != R:
                bad.append('operator-plumbing-repeat')
            add_case(f, 'rep', None, pvals(R), (vP, n), heavy=heavy)
        ctx.case({'fam': f.name, 'P': vP, 'Q': vQ, 'n': n}, nontrivial=vP != vQ or True, kind=f.kind + ('-toy' if f.toy else ''))
        for b in bad:
            sig = 'curve-oracle %s %s %s' % (f.name, f.kind, b)
            if sig not in known_bad:
                known_bad.add(sig)
                violation(sig, {'family': f.name, 'coordinates': f.kind, 'P': vP, 'Q': vQ, 'n': n, 'failed': b})

    # ---- built-in curves
    small_n = [0, 1, -1, 2, -2, 3, -4, 8, -8, 5, -7, 16, -16, 31, -32]
    nfull = 0
    for f in fams:
        E = f.E
        G = E.generator
        order = E.order
        big = f.p.bit_length() > 300
        ncases = ctx.n(3 if big else 5, 12)
        ks = [rng.randrange(1, order) for _ in range(ncases)]
        pts = [FGE.repeat(G, k) for k in ks]
        pairs = [(pts[i], pts[(i + 1) % len(pts)]) for i in range(len(pts))]
        # special pairs: identity, same point in another representation, opposite point, same object
        P = pts[0]
        P2 = E.operation(E.operation(P, G), E.inversion(G))        # same point, different representative
        specials = [(E.identity, P), (P, E.identity), (P, P), (P, P2), (P, E.inversion(P2)), (E.identity, E.identity),
                    (G, G), (E.operation(P, E.inversion(P2)), G)]
        if big:
            specials = specials[:5]
        for (A, B) in pairs + specials:
            n = rng.choice(small_n)
            check_pair(f, A, B, n)
        # full-size exponents via the model: a few (each takes 20-60 s of vm_compute)
        if ctx.tier == 'thorough' or (f.kind in ('ede', 'wj') and not big and 'BN256' not in f.name):
            nfull += 1
            n = rng.choice([order, order - 1, order + 1, -rng.randrange(order), rng.randrange(order), -(1 << (order.bit_length() - 2))]) \
                if ctx.tier == 'thorough' else rng.choice([order + 1, -rng.randrange(order), -(1 << (order.bit_length() - 2))])
            check_pair(f, pts[1], pts[2], n, heavy=True)
    # Ed448 in extended coordinates vs affine is checked by check_pair's oracle (formulas assume a = -1)

    # ---- toy curves: every point (random scalings), order-related exponents
    exhaustive_pairs = 0
    for f in toys:
        p = f.p
        if f.kind[0] == 'e':
            A = ed_points(p, f.a, f.d)
            order = len(A)
        else:
            A = [None] + w_points(p, f.a, f.b)
            order = len(A)
        ns = [0, 1, -1, 2, -2, order, order - 1, order + 1, -order, -order - 1, -4, -8, 4, 7, -(1 << 5), 1 << 6,
              rng.randrange(-10 ** 6, 10 ** 6), -rng.randrange(1, 1 << 40)]
        pairs = list(itertools.product(A, A))
        if ctx.tier == 'quick' and len(pairs) > 24:
            pairs = rng.sample(pairs, 18) + [(a, a) for a in rng.sample(A, min(3, len(A)))] + \
                    [(a, ref_neg(f, a)) for a in rng.sample(A, min(3, len(A)))]
        else:
            exhaustive_pairs += 1
        for i, (a, b) in enumerate(pairs):
            P, Q = toy_point(f, a), toy_point(f, b)
            check_pair(f, P, Q, ns[i % len(ns)], do_rep=(i < 2 * len(ns) or ctx.tier == 'thorough'))
        # same object (exercises `self is other` -> operation2)
        P = toy_point(f, A[-1])
        if (P @ P) != f.E.operation2(P):
            violation('curve-oracle %s matmul-same-object' % f.name, {'family': f.name, 'P': pvals(P)})
    ctx.extra['toy_families_with_all_pairs'] = exhaustive_pairs

    # ---- constructor check agrees with the curve equation on toy curves (all (x, y))
    for f in toys:
        if f.kind not in ('eda', 'wa'):
            continue
        on = set(ed_points(f.p, f.a, f.d) if f.kind == 'eda' else w_points(f.p, f.a, f.b))
        for x in range(f.p):
            for y in range(f.p):
                try:
                    f.E((x, y))
                    acc = True
                except ValueError:
                    acc = False
                if acc != ((x, y) in on):
                    violation('curve-oracle %s constructor-check' % f.name, {'family': f.name, 'xy': [x, y], 'accepted': acc})

    # ------------------------------------------------------------------------------------------
    # 2. Sym(n)
    sym_exprs, sym_metas = [], []

    def nl(p):
        return '[' + '; '.join('%d%%nat' % x for x in p) + ']'

    def sym_case(n, p, q, e):
        S = fg.SymmetricGroup(n)
        P, Q = S(tuple(p)), S(tuple(q))
        op = tuple(S.operation(P, Q).value)
        inv = tuple(S.inversion(P).value)
        eq = bool(S.equality(P, Q))
        rp = tuple(FGE.repeat(P, e).value)
        # oracle: textbook composition "first p then q", inverse, power
        want_op = tuple(q[p[i]] for i in range(n))
        want_inv = tuple(sorted(range(n), key=lambda i: p[i]))
        bad = []
        if op != want_op:
            bad.append('operation')
        if inv != want_inv:
            bad.append('inversion')
        if eq != (tuple(p) == tuple(q)):
            bad.append('equality')
        base = tuple(p) if e >= 0 else want_inv
        acc = tuple(range(n))
        for _ in range(abs(e)):
            acc = tuple(base[acc[i]] for i in range(n))
        if rp != acc:
            bad.append('repeat')
        if tuple((P ^ e).value) != rp or tuple((P @ Q).value) != op or tuple((~P).value) != inv:
            bad.append('operator-plumbing')
        for b in bad:
            violation('sym-oracle n=%d %s' % (n, b), {'n': n, 'p': list(p), 'q': list(q), 'e': e, 'failed': b})
        sym_exprs.append('(operation %s %s, inversion %s, equality %s %s, repeat_loop operation (fun c => operation c c) '
                         'inversion (ident %d%%nat) %s (%d)%%Z, validb %d%%nat %s)' % (nl(p), nl(q), nl(p), nl(p), nl(q), n, nl(p), e, n, nl(p)))
        sym_metas.append(({'n': n, 'p': list(p), 'q': list(q), 'e': e}, (list(op), list(inv), eq, list(rp), True)))
        ctx.case({'sym': n, 'p': list(p), 'q': list(q), 'e': e}, nontrivial=n >= 2, kind='Sym(%d)' % n)

    es = [0, 1, -1, 2, -2, 3, -3, 4, -4, 6, -8, 12, 24, 23, 25, -24, -16, 5]
    cnt = 0
    for n in range(0, 5):
        perms = list(itertools.permutations(range(n)))
        for p in perms:
            for q in perms:
                if n == 4 and ctx.tier == 'quick' and (perms.index(p) * 7 + perms.index(q)) % 4:
                    continue
                sym_case(n, p, q, es[cnt % len(es)])
                cnt += 1
    ctx.extra['exhaustive'] = ctx.tier == 'thorough'    # Sym(n), n <= 3 always; Sym(4) all pairs in the thorough tier
    ctx.extra['sym_all_pairs_upto_n'] = ctx.n(3, 4)
    for _ in range(ctx.n(60, 400)):
        n = rng.randrange(5, 9)
        p = list(range(n))
        q = list(range(n))
        rng.shuffle(p)
        rng.shuffle(q)
        sym_case(n, p, q, rng.choice(es + [rng.randrange(-1000, 1000)]))
    # constructor check: invalid tuples rejected (model validb)
    for bad in ([0, 0], [1, 2], [0, 2, 1, 1], [3, 1, 2], [0]):
        n = len(bad) if bad != [0] else 2
        try:
            fg.SymmetricGroup(n)(tuple(bad))
            acc = True
        except ValueError:
            acc = False
        if acc:
            violation('sym-oracle constructor accepts invalid', {'n': n, 'value': bad})
        sym_exprs.append('validb %d%%nat %s' % (n, nl(bad)))
        sym_metas.append(({'n': n, 'invalid': bad}, False))

    # ------------------------------------------------------------------------------------------
    # 3. QR / Schnorr
    mg_exprs, mg_metas = [], []

    def leg(x, p):
        return pow(x % p, (p - 1) // 2, p) == 1

    groups = []
    for l in (8, 16, 64):
        groups.append(('QR', fg.QuadraticResidues(l=l)))
    for (l, n) in ((8, 4), (16, 8), (64, 32)):
        groups.append(('SG', fg.SchnorrGroup(l=l, n=n)))
    for tag, Gp in groups:
        p = Gp.field.modulus
        order = Gp.order
        g = Gp.generator
        if (g ^ order) != Gp.identity:
            violation('mulgrp-oracle %s generator order' % Gp.__name__, {'group': Gp.__name__})
        ns = [0, 1, -1, 2, -2, order, order - 1, order + 1, -order, -(1 << 3), 1 << 5, rng.randrange(order), -rng.randrange(1, order),
              rng.randrange(order), -(1 << (order.bit_length() - 1))]
        for i in range(ctx.n(15, 60)):
            a = g ^ rng.randrange(order)
            b = g ^ rng.randrange(order)
            n = ns[i % len(ns)]
            va, vb = fval(a.value), fval(b.value)
            op = fval(Gp.operation(a, b).value)
            inv = fval(Gp.inversion(a).value)
            rp = fval(Gp.repeat(a, n).value)
            rg = fval(FGE.repeat(a, n).value)
            bad = []
            if op != va * vb % p:
                bad.append('operation')
            if inv * va % p != 1:
                bad.append('inversion')
            if rp != pow(va, n, p) or rg != rp or fval((a ^ n).value) != rp or fval((a ** n).value) != rp:
                bad.append('repeat')
            if bool(a == b) != (va == vb):
                bad.append('equality')
            if fval((a * b).value) != op or fval((1 / a).value) != inv or fval((a / b).value) != va * pow(vb, -1, p) % p:
                bad.append('operator-plumbing')
            for bb in bad:
                violation('mulgrp-oracle %s %s' % (Gp.__name__, bb), {'group': Gp.__name__, 'a': va, 'b': vb, 'n': n, 'failed': bb})
            mg_exprs.append('(mul_mod %d %d %d, inv_mod %d %d, powmod %d %d (%d), mulgrp_repeat_generic %d %d (%d))' % (
                p, va, vb, p, va, p, va, n, p, va, n))
            mg_metas.append(({'group': Gp.__name__, 'a': va, 'b': vb, 'n': n}, (op, inv, rp, rg)))
            ctx.case({'group': Gp.__name__, 'a': va, 'b': vb, 'n': n}, kind=tag)
        # encode / decode
        if tag == 'QR':
            gap = Gp.gap
            mmax = p // gap - 1
            ms = sorted({m for m in [0, 1, 2, mmax, mmax - 1, mmax // 2] + [rng.randrange(0, max(1, mmax + 1)) for _ in range(8)] if 0 <= m <= mmax})
            for m in ms:
                try:
                    M, Zz = Gp.encode(m)
                    dec = Gp.decode(M, Zz)
                    enc = (fval(M.value), fval(Zz.value))
                except ValueError:
                    enc, dec = None, None
                if enc is not None and dec != m:
                    violation('mulgrp-oracle %s decode(encode(m))' % Gp.__name__, {'group': Gp.__name__, 'm': m, 'got': dec})
                cands = [i for i in range(1, gap) if leg(i, p)]
                legset = [x for x in sorted(set(cands + [m * gap + i for i in cands])) if leg(x, p)]
                mg_exprs.append('(qr_encode (fun x => existsb (Z.eqb x) %s) %d %d %d, %s)' % (
                    '[' + '; '.join(str(x) for x in legset) + ']', p, gap, m,
                    'None' if enc is None else 'Some (qr_decode %d %d %d %d)' % (p, gap, enc[0], enc[1])))
                mg_metas.append(({'group': Gp.__name__, 'encode': m}, (None if enc is None else ('Some', enc), None if enc is None else ('Some', dec))))
                ctx.case({'group': Gp.__name__, 'encode': m}, kind='QR-encode')
        else:
            for m in sorted({0, 1, 2, min(order - 1, 1023), min(order - 1, 1023) - 1, rng.randrange(min(order, 1024))}):
                if m < 0:
                    continue
                M, Zz = Gp.encode(m)
                dec = Gp.decode(M, Zz)
                if dec != m:
                    violation('mulgrp-oracle %s decode(encode(m))' % Gp.__name__, {'group': Gp.__name__, 'm': m, 'got': dec})
                mg_exprs.append('(sg_encode %d %d %d, sg_decode %d %d %d)' % (p, fval(g.value), m, p, fval(g.value), fval(M.value)))
                mg_metas.append(({'group': Gp.__name__, 'encode': m}, (fval(M.value), dec)))
                ctx.case({'group': Gp.__name__, 'encode': m}, kind='SG-encode')

    # ------------------------------------------------------------------------------------------
    # launch Coq evaluation in the background, run the implementation-level oracle meanwhile
    results = {}

    def coq_job(tag, reqs, ex, chunk, pre):
        if ex:
            results[tag] = ctx.coq_eval(reqs, ex, preamble=pre, chunk=chunk, tag='C27' + tag, jobs=6)
        else:
            results[tag] = []

    threads = []
    if ok:
        pre = 'Open Scope Z_scope.\n'
        jobs = [('heavy', ['MPyC.Curves'], heavy_exprs, 1, pre),
                ('curves', ['MPyC.Curves'], exprs, 120, pre),
                ('sym', ['MPyC.Group', 'MPyC.Sym'], sym_exprs, 200, ''),
                ('mg', ['MPyC.Group'], mg_exprs, 80, pre)]
        ctx.log('evaluating %d + %d (full-size repeat) curve, %d Sym, %d QR/Schnorr model expressions in Coq' % (
            len(exprs), len(heavy_exprs), len(sym_exprs), len(mg_exprs)))
        for j in jobs:
            t = threading.Thread(target=coq_job, args=j)
            t.start()
            threads.append(t)

    crash = None
    try:
        oracle_all_families(ctx, fg, FGE, violation)
    except Exception:  # noqa  (join the Coq jobs before reporting)
        import traceback
        crash = traceback.format_exc()
    ctx.log('implementation-level oracle done')
    for t in threads:
        t.join()
    if crash:
        ctx.log('oracle crashed:\n' + crash)
        ctx.unproved('harness-crash in oracle', {'traceback': crash[-3000:]})
    if ok:
        mism = 0

        def broken(what, key, model, impl):
            nonlocal mism
            mism += 1
            if len(ctx.broken) < 40:
                ctx.broken.append({'kind': 'correspondence', 'what': what, 'case': key, 'model': str(model)[:300], 'impl': str(impl)[:300]})

        for tag, ms in (('curves', metas), ('heavy', heavy_metas)):
            for r, (f, what, m) in zip(results[tag], ms):
                if isinstance(r, tuple) and r and r[0] == 'ERROR':
                    broken('coq evaluation failed', m, r[1], None)
                    continue
                got = r if what == 'eq' else f.conv(r)
                if got != m['impl']:
                    broken('%s %s' % (f.kind, what), m, got, m['impl'])
        for r, (key, want) in zip(results['sym'], sym_metas):
            if isinstance(want, bool):
                if r != want:
                    broken('Sym validb', key, r, want)
                continue
            got = (list(r[0]), list(r[1]), r[2], list(r[3]), r[4]) if isinstance(r, tuple) and len(r) == 5 else r
            if got != want:
                broken('Sym', key, got, want)
        for r, (key, want) in zip(results['mg'], mg_metas):
            got = r
            if 'encode' in key and isinstance(r, tuple) and len(r) == 2 and (r[0] is None or (isinstance(r[0], tuple) and r[0][0] == 'Some')):
                got = (None if r[0] is None else ('Some', tuple(r[0][1])), r[1])
            if got != want:
                broken('QR/Schnorr', key, got, want)
        ntot = len(metas) + len(heavy_metas) + len(sym_metas) + len(mg_metas)
        ctx.extra['traces_validated_against_impl'] = ntot - mism
        ctx.log('model/implementation comparisons: %d, disagreements: %d' % (ntot, mism))
    ctx.notes.append('class groups and hyperelliptic curves: implementation-level law sampling only (no Coq model)')
    ctx.notes.append('BN256_twist (GF(p^2)): oracle only')
    if ctx.broken and not ctx.violations:
        ctx.unproved('C27 model/proof', {'broken': ctx.broken[:5]})


# --------------------------------------------------------------------------------------------------
def oracle_all_families(ctx, fg, FGE, violation):
    """Group laws on the implementation itself, for every family."""
    rng = ctx.rng

    def naive_pow(G, a, n):
        if n < 0:
            a, n = G.inversion(a), -n
        c = G.identity
        for _ in range(n):
            c = G.operation(c, a)
        return c

    def laws(G, name, elems, samples, exps_small, exps_big, kind):
        bad = set()

        def fail(what, detail):
            sig = 'law-oracle %s %s' % (name, what)
            if sig not in bad:
                bad.add(sig)
                detail = dict(detail)
                detail['group'] = name
                violation(sig, detail)

        e = G.identity
        for _ in range(samples):
            a, b, c = (rng.choice(elems) for _ in range(3))
            if not G.equality(G.operation(G.operation(a, b), c), G.operation(a, G.operation(b, c))):
                fail('associativity', {'a': repr(a), 'b': repr(b), 'c': repr(c)})
            if not (G.equality(G.operation(a, e), a) and G.equality(G.operation(e, a), a)):
                fail('identity', {'a': repr(a)})
            ia = G.inversion(a)
            if not (G.equality(G.operation(a, ia), e) and G.equality(G.operation(ia, a), e)):
                fail('inverse', {'a': repr(a)})
            if not G.equality(G.operation2(a), G.operation(a, a)):
                fail('operation2', {'a': repr(a)})
            if G.is_abelian and not G.equality(G.operation(a, b), G.operation(b, a)):
                fail('commutativity', {'a': repr(a), 'b': repr(b)})
            n = rng.choice(exps_small)
            if not G.equality(G.repeat(a, n), naive_pow(G, a, n)):
                fail('repeat-vs-iterated n=%d' % n, {'a': repr(a), 'n': n})
            if not G.equality(FGE.repeat(a, n), naive_pow(G, a, n)):
                fail('generic-repeat-vs-iterated n=%d' % n, {'a': repr(a), 'n': n})
            n1, n2 = rng.choice(exps_big), rng.choice(exps_big)
            if not G.equality(G.operation(G.repeat(a, n1), G.repeat(a, n2)), G.repeat(a, n1 + n2)):
                fail('repeat-additive', {'a': repr(a), 'n1': n1, 'n2': n2})
            if not G.equality(G.repeat(G.repeat(a, n1), -1), G.repeat(a, -n1)):
                fail('repeat-negative', {'a': repr(a), 'n1': n1})
            if not G.equality(a ^ n1, G.repeat(a, n1)):
                fail('xor-operator', {'a': repr(a), 'n1': n1})
            ctx.case({'group': name, 'a': repr(a)[:80], 'b': repr(b)[:80], 'c': repr(c)[:80], 'n': [n, n1, n2]}, kind=kind)

    small = [0, 1, -1, 2, -2, 3, -3, 4, -4, 5, 7, -8, 8, 9, 15, -16, 16, 17, -31, 32]

    def bigs(order):
        m = order if order else 1 << 64
        return [0, 1, -1, m, m - 1, m + 1, -m, -(1 << 7), 1 << 9, -(1 << (m.bit_length() - 1)), 1 << m.bit_length()] + \
               [rng.randrange(-m, m + 1) for _ in range(6)]

    def gen_elems(G, k, extra=()):
        g = G.generator
        out = [G.identity, g, G.inversion(g)]
        for _ in range(k):
            out.append(G.repeat(g, rng.randrange(0, G.order or 1 << 64)))
        return out + list(extra)

    S = ctx.n(12, 60)
    # symmetric groups
    for n in (0, 1, 2, 3, 5, 8):
        G = fg.SymmetricGroup(n)
        elems = [G.identity]
        for _ in range(8):
            p = list(range(n))
            rng.shuffle(p)
            elems.append(G(tuple(p)))
        laws(G, G.__name__, elems, S, small, bigs(G.order), 'law-Sym')
    # QR / Schnorr
    for l in (2, 3, 8, 16, 64, ctx.n(128, 1024)):
        G = fg.QuadraticResidues(l=l)
        laws(G, G.__name__, gen_elems(G, 8), S, small, bigs(G.order), 'law-QR')
        if not G.equality(G.repeat(G.generator, G.order), G.identity):
            violation('law-oracle %s generator-order' % G.__name__, {'group': G.__name__})
    for kw in (dict(l=8, n=4), dict(l=16, n=8), dict(l=64, n=32), dict(l=ctx.n(128, 1024), n=ctx.n(64, 160))):
        G = fg.SchnorrGroup(**kw)
        laws(G, G.__name__, gen_elems(G, 8), S, small, bigs(G.order), 'law-Schnorr')
        if not G.equality(G.repeat(G.generator, G.order), G.identity):
            violation('law-oracle %s generator-order' % G.__name__, {'group': G.__name__})
    # elliptic curves: all names, all coordinate systems; cross-coordinate agreement; generator order; encode/decode
    for name in ('Ed25519', 'Ed448', 'secp256k1', 'BN256', 'BN256_twist'):
        coords = ('affine', 'projective', 'extended') if name.startswith('Ed') else ('affine', 'projective', 'jacobian')
        Es = [fg.EllipticCurve(name, co) for co in coords]
        ks = [rng.randrange(1, Es[0].order) for _ in range(ctx.n(3, 10))] + [1, 2, Es[0].order - 1]
        ref = None
        for E, co in zip(Es, coords):
            gname = '%s %s' % (name, co)
            laws(E, gname, gen_elems(E, 5), ctx.n(5, 25), small, bigs(E.order), 'law-EC')
            if not E.equality(E.repeat(E.generator, E.order), E.identity):
                violation('law-oracle %s generator-order' % gname, {'group': gname})
            # affine view of k*G and of sums, compared across coordinate systems
            view = []
            for k in ks:
                P = E.repeat(E.generator, k).normalize()
                view.append(tuple(str(c) for c in P.value[:2]))
            Q = E.operation(E.repeat(E.generator, ks[0]), E.repeat(E.generator, ks[1])).normalize()
            view.append(tuple(str(c) for c in Q.value[:2]))
            if ref is None:
                ref = view
            elif view != ref:
                violation('law-oracle %s coordinates-disagree-with-affine' % gname, {'group': gname, 'ks': ks})
            # encode / decode
            for m in [0, 1, 2, 255, 2 ** 32 + 1, rng.randrange(1 << 64), (E.field.order // E.gap) // 3][:ctx.n(4, 7)]:
                try:
                    M, Zz = E.encode(m)
                except (ValueError, TypeError, AttributeError) as ex:
                    if name == 'BN256_twist':
                        break       # encode is for prime fields only (documented TODO in the code)
                    violation('law-oracle %s encode-raises' % gname, {'group': gname, 'm': m, 'error': repr(ex)})
                    continue
                M2 = E.operation(E.operation(M, E.generator), E.inversion(E.generator))   # non-normalised representative
                d1, d2 = E.decode(M, Zz), E.decode(M2, Zz)
                if d1 != m or d2 != m:
                    violation('law-oracle %s decode(encode(m))' % gname, {'group': gname, 'm': m, 'got': [d1, d2]})
                ctx.case({'group': gname, 'encode': m}, kind='EC-encode')
    # class groups
    for kw in (dict(Delta=-3), dict(Delta=-7), dict(Delta=-11), dict(Delta=-23), dict(Delta=-31), dict(l=8), dict(l=16), dict(l=24),
               dict(l=32), dict(l=64), dict(l=128), dict(l=ctx.n(256, 1024))):
        G = fg.ClassGroup(**kw)
        name = G.__name__
        elems = gen_elems(G, 6)
        # forms from encode and from small primes a with (D/a) = 1
        D = G.discriminant
        for a in range(2, 60):
            for b in range(-a + 1, a + 1):
                if (b * b - D) % (4 * a) == 0:
                    c = (b * b - D) // (4 * a)
                    from math import gcd
                    if gcd(gcd(a, b), c) == 1:
                        try:
                            elems.append(G((a, b, c)))
                        except ValueError:
                            pass
                        break
        laws(G, name, elems[:40], ctx.n(10, 40), small, bigs(G.order), 'law-Cl')
        if G.order is not None:
            for a in elems[:10]:
                if not G.equality(G.repeat(a, G.order), G.identity):
                    violation('law-oracle %s element^order' % name, {'group': name, 'a': repr(a)})
        # reducedness invariant of results
        for a in elems[:10]:
            x = G.operation(a, elems[1])
            A, B, C = x.value
            if not (-A < B <= A <= C and (A != C or B >= 0) and B * B - 4 * A * C == D):
                violation('law-oracle %s result-not-reduced' % name, {'group': name, 'a': repr(a), 'result': repr(x)})
        # encode / decode over the allowed range: (m+1)*gap <= isqrt(-D)/2
        from math import isqrt
        mmax = (isqrt(-D) // 2) // G.gap - 2      # one below the (float) bound asserted by encode
        for m in sorted({m for m in (0, 1, 2, mmax, mmax // 2, rng.randrange(0, max(1, mmax + 1))) if 0 <= m <= mmax}):
            try:
                M, Zz = G.encode(m)
            except ValueError:
                continue     # 'try larger gap' is a documented failure mode
            if G.decode(M, Zz) != m:
                violation('law-oracle %s decode(encode(m))' % name, {'group': name, 'm': m, 'got': G.decode(M, Zz)})
            ctx.case({'group': name, 'encode': m}, kind='Cl-encode')
    # hyperelliptic curves
    hcs = [dict(l=2, genus=1), dict(l=3, genus=1), dict(l=3, genus=2), dict(l=5, genus=1), dict(l=5, genus=2), dict(l=5, genus=3),
           dict(l=8, genus=2), dict(l=8, genus=3), dict(l=16, genus=3), dict(l=16, genus=4), dict(l=ctx.n(64, 127), genus=2),
           dict(l=8, genus=2, coordinates='extended'), dict(l=ctx.n(32, 96), genus=2, coordinates='extended'),
           dict(curvename='kummer1271')]
    for kw in hcs:
        try:
            G = fg.HyperellipticCurve(**kw)
        except Exception as ex:  # noqa
            violation('law-oracle HC constructor %s' % sorted(kw.items()), {'kw': kw, 'error': repr(ex)})
            continue
        name = 'HC %s' % sorted(kw.items())
        elems = gen_elems(G, 6)
        laws(G, name, elems, ctx.n(6, 30), small, bigs(G.order), 'law-HC')
        if G.order is not None and not G.equality(G.repeat(G.generator, G.order), G.identity):
            violation('law-oracle %s generator-order' % name, {'group': name})
        if G.field.modulus.bit_length() >= 16:
            # allowed range: the encoded coefficient must not wrap modulo p
            # (affine: u[0] = m*gap+i < p; Costello-Lauter: u[1] = 2*(m*gap+i) < p)
            ext = kw.get('coordinates') == 'extended' or kw.get('curvename') == 'kummer1271'
            mmax = G.field.modulus // (G.gap * (2 if ext else 1)) - 2
            for m in (0, 1, 2, 77, min(mmax, (1 << 44) - 1), rng.randrange(1, mmax)):
                try:
                    enc = G.encode(m)
                except ValueError:
                    continue
                if enc is None:
                    continue
                M, Zz = enc
                if G.decode(M, Zz) != m:
                    big = ' m*gap>=2^53' if (m + 1) * G.gap * (2 if ext else 1) >= 1 << 53 else ''
                    violation('law-oracle %s decode(encode(m))%s' % (name, big), {'group': name, 'm': m, 'got': G.decode(M, Zz)})
                ctx.case({'group': name, 'encode': m}, kind='HC-encode')
