(** C33 — value-level model of mpyc/random.py as deterministic functions of a BIT TAPE.

    The tape is the list of values (0/1) returned by successive calls of runtime.random_bits,
    in the order drawn.  Every function returns [Some (result, remaining tape)]; [None] means
    that the tape (or the fuel of a restart loop) was exhausted.  Values are plain integers
    (secint: the value; secfxp: the scaled integer for [random]/[uniform], the integer value
    otherwise; secfld GF(p): the representative, for results that stay below p). *)
From Coq Require Import ZArith List Lia Bool Permutation.
Import ListNotations.
Open Scope Z_scope.

Definition tape := list Z.

(** [runtime.random_bits(sectype, n)]: the next n tape entries. *)
Definition draw (n : nat) (tp : tape) : option (list Z * tape) :=
  if (length tp <? n)%nat then None else Some (firstn n tp, skipn n tp).

(** [runtime.from_bits]: little endian. *)
Fixpoint from_bits (x : list Z) : Z :=
  match x with [] => 0 | a :: r => a + 2 * from_bits r end.

(** Python's int.bit_length (of |z|). *)
Definition bit_length (z : Z) : nat :=
  if z =? 0 then O else Z.to_nat (Z.log2 (Z.abs z) + 1).

Definition is01 (a : Z) : Prop := a = 0 \/ a = 1.
Definition bits (l : list Z) : Prop := Forall is01 l.

Definition zsum (l : list Z) : Z := fold_right Z.add 0 l.
Definition zprod (l : list Z) : Z := fold_right Z.mul 1 l.

Fixpoint vsub (a b : list Z) : list Z :=
  match a, b with x :: a', y :: b' => (x - y) :: vsub a' b' | _, _ => [] end.
Fixpoint vadd (a b : list Z) : list Z :=
  match a, b with x :: a', y :: b' => (x + y) :: vadd a' b' | _, _ => [] end.
Fixpoint in_prod (a b : list Z) : Z :=
  match a, b with x :: a', y :: b' => x * y + in_prod a' b' | _, _ => 0 end.

(** ** getrandbits *)
Definition getrandbits (k : nat) (tp : tape) : option (Z * tape) :=
  match draw k tp with None => None | Some (x, tp') => Some (from_bits x, tp') end.

(** ** _randbelow — the while loop of random.py:75-82, one iteration per unit of fuel.
    State: bit list x (length k), h, i.  [b = n-1]. *)
Fixpoint rb_loop (fuel : nat) (b : Z) (k t : nat) (x : list Z) (h : Z) (i : nat) (tp : tape)
  : option (list Z * tape) :=
  match fuel with
  | O => None
  | S fuel' =>
    if (i <? t)%nat then Some (x, tp)                    (* while i >= t *)
    else
      let i' := (i - 1)%nat in                           (* i -= 1 *)
      if Z.testbit b (Z.of_nat i') then                  (* if (b >> i) & 1: h *= x[i] *)
        rb_loop fuel' b k t x (h * nth i' x 0) i' tp
      else if h * nth i' x 0 =? 0 then                   (* elif await output(h * x[i]): *)
        rb_loop fuel' b k t x h i' tp
      else                                               (* restart, keeping x[:i] *)
        match draw (k - i') tp with
        | None => None
        | Some (nb, tp') => rb_loop fuel' b k t (firstn i' x ++ nb) h k tp'
        end
  end.

(** bits of the result (bits=True) *)
Definition randbelow_bits (fuel : nat) (n : Z) (tp : tape) : option (list Z * tape) :=
  let b := n - 1 in
  let k := bit_length b in
  if Z.land n b =? 0 then draw k tp                      (* fast path: powers of two (and n = 0) *)
  else
    match draw k tp with
    | None => None
    | Some (x, tp') =>
      let t := bit_length (Z.land n (- n)) in
      rb_loop fuel b k t x 1 k tp'
    end.

Definition randbelow (fuel : nat) (n : Z) (tp : tape) : option (Z * tape) :=
  match randbelow_bits fuel n tp with
  | None => None
  | Some (x, tp') => Some (from_bits x, tp')
  end.

(** One pass of the loop without the restart: [inl x] accepted, [inr i] rejected at bit i. *)
Fixpoint rb_pass (b : Z) (t : nat) (x : list Z) (h : Z) (steps : nat) (i : nat) : option nat :=
  match steps with
  | O => None
  | S s =>
    if (i <? t)%nat then None
    else
      let i' := (i - 1)%nat in
      if Z.testbit b (Z.of_nat i') then rb_pass b t x (h * nth i' x 0) s i'
      else if h * nth i' x 0 =? 0 then rb_pass b t x h s i'
      else Some i'
  end.

(** ** random_unit_vector — the while loop of random.py:105-119. *)
Definition smul (c : Z) (u : list Z) : list Z := map (Z.mul c) u.

Fixpoint uv_loop (fuel : nat) (b : Z) (k : nat) (x u : list Z) (i : nat) (tp : tape)
  : option (list Z * tape) :=
  match fuel with
  | O => None
  | S fuel' =>
    match i with
    | O => Some (u, tp)                                  (* while i: *)
    | S i' =>                                            (* i -= 1 *)
      let v := smul (nth i' x 0) u in                    (* v = scalar_mul(x[i], u) *)
      if Z.testbit b (Z.of_nat i') then
        uv_loop fuel' b k x (v ++ vsub u v) i' tp        (* v.extend(u - v); u = v *)
      else if hd 0 v =? 0 then                           (* not output(v[0]) *)
        let v' := tl v in
        uv_loop fuel' b k x (hd 0 u :: v' ++ vsub (tl u) v') i' tp
      else                                               (* restart, keeping x[:i] *)
        match draw (k - i') tp with
        | None => None
        | Some (nb, tp') =>
          let x' := firstn i' x ++ nb in
          let top := nth (k - 1) x' 0 in
          uv_loop fuel' b k x' [top; 1 - top] (k - 1) tp'
        end
    end
  end.

Definition random_unit_vector (fuel : nat) (n : Z) (tp : tape) : option (list Z * tape) :=
  if n =? 1 then Some ([1], tp)
  else
    let b := n - 1 in
    let k := bit_length b in
    match draw k tp with
    | None => None
    | Some (x, tp') =>
      let top := nth (k - 1) x 0 in
      uv_loop fuel b k x [top; 1 - top] (k - 1) tp'
    end.

(** ** randrange / randint *)
Definition range_len (start stop step : Z) : Z :=
  if 0 <? step then Z.max 0 ((stop - start + step - 1) / step)
  else if step <? 0 then Z.max 0 ((start - stop - step - 1) / (- step))
  else 0.

(** [None] also for the ValueError of an empty range. *)
Definition randrange (fuel : nat) (start stop step : Z) (tp : tape) : option (Z * tape) :=
  let n := range_len start stop step in
  if n =? 0 then None
  else match randbelow fuel n tp with
       | None => None
       | Some (r, tp') => Some (start + r * step, tp')
       end.

Definition randint (fuel : nat) (a b : Z) (tp : tape) := randrange fuel a (b + 1) 1 tp.

(** ** choice / choices *)
Definition choice (fuel : nat) (seq : list Z) (tp : tape) : option (Z * tape) :=
  match seq with
  | [] => None                                           (* IndexError *)
  | _ => match random_unit_vector fuel (Z.of_nat (length seq)) tp with
         | None => None
         | Some (u, tp') => Some (in_prod u seq, tp')
         end
  end.

Fixpoint repeat_draw {A} (f : tape -> option (A * tape)) (k : nat) (tp : tape) : option (list A * tape) :=
  match k with
  | O => Some ([], tp)
  | S k' => match f tp with
            | None => None
            | Some (a, tp') =>
              match repeat_draw f k' tp' with
              | None => None
              | Some (r, tp'') => Some (a :: r, tp'')
              end
            end
  end.

Fixpoint accumulate (acc : Z) (w : list Z) : list Z :=
  match w with [] => [] | a :: r => (acc + a) :: accumulate (acc + a) r end.

Definition gcd_list (l : list Z) : Z := fold_right Z.gcd 0 l.

Definition b2z (b : bool) : Z := if b then 1 else 0.

(** one weighted choice for reduced cumulative weights cw (random.py:215-221) *)
Definition weighted_choice (fuel : nat) (cw pop : list Z) (tp : tape) : option (Z * tape) :=
  match randbelow fuel (last cw 0) tp with
  | None => None
  | Some (r, tp') =>
    let h := map (fun a => b2z (r <? a)) (removelast cw) in
    let u := vsub (h ++ [1]) (0 :: h) in
    Some (in_prod u pop, tp')
  end.

Definition choices_cum (fuel : nat) (pop cum : list Z) (k : nat) (tp : tape) : option (list Z * tape) :=
  let g := gcd_list cum in
  let cw := map (fun a => a / g) cum in
  repeat_draw (weighted_choice fuel cw pop) k tp.

Definition choices_weights (fuel : nat) (pop w : list Z) (k : nat) (tp : tape) :=
  choices_cum fuel pop (accumulate 0 w) k tp.

Definition choices_plain (fuel : nat) (pop : list Z) (k : nat) (tp : tape) :=
  repeat_draw (choice fuel pop) k tp.

(** ** shuffle (numbers): [steps] iterations of the body of random.py:239-244 on the suffix. *)
Definition shuffle_step (x u : list Z) : list Z :=
  let xu := in_prod x u in                               (* x_u = in_prod(x[i:], u) *)
  let d := smul (hd 0 x - xu) u in                       (* d = (x[i] - x_u) * u *)
  vadd (xu :: tl x) d.                                   (* x[i] = x_u; x[i:] += d *)

Fixpoint shuffle_from (fuel : nat) (steps : nat) (x : list Z) (tp : tape) : option (list Z * tape) :=
  match steps with
  | O => Some (x, tp)
  | S s =>
    match random_unit_vector fuel (Z.of_nat (length x)) tp with
    | None => None
    | Some (u, tp') =>
      match shuffle_step x u with
      | [] => Some ([], tp')
      | y :: rest =>
        match shuffle_from fuel s rest tp' with
        | None => None
        | Some (r, tp'') => Some (y :: r, tp'')
        end
      end
    end
  end.

Definition shuffle (fuel : nat) (x : list Z) (tp : tape) := shuffle_from fuel (length x - 1) x tp.

(** random_permutation(x) for a list; for an int n use [seqZ n]. *)
Definition random_permutation := shuffle.
Definition seqZ (n : nat) : list Z := map Z.of_nat (seq 0 n).

(** ** shuffle for lists of lists (rows), random.py:252-257 *)
Definition row_comb (u : list Z) (rows : list (list Z)) (w : nat) : list Z :=
  fold_right (fun ur acc => vadd (smul (fst ur) (snd ur)) acc) (repeat 0 w) (combine u rows).

Definition shuffle_rows_step (w : nat) (x : list (list Z)) (u : list Z) : list (list Z) :=
  let xu := row_comb u x w in
  let dv := vsub (hd [] x) xu in
  map (fun ur => vadd (snd ur) (smul (fst ur) dv)) (combine u (xu :: tl x)).

Fixpoint shuffle_rows_from (fuel steps w : nat) (x : list (list Z)) (tp : tape)
  : option (list (list Z) * tape) :=
  match steps with
  | O => Some (x, tp)
  | S s =>
    match random_unit_vector fuel (Z.of_nat (length x)) tp with
    | None => None
    | Some (u, tp') =>
      match shuffle_rows_step w x u with
      | [] => Some ([], tp')
      | y :: rest =>
        match shuffle_rows_from fuel s w rest tp' with
        | None => None
        | Some (r, tp'') => Some (y :: r, tp'')
        end
      end
    end
  end.

Definition shuffle_rows (fuel : nat) (x : list (list Z)) (tp : tape) :=
  shuffle_rows_from fuel (length x - 1) (length (hd [] x)) x tp.

(** ** random_derangement: shuffle y in place until prod(y - x) <> 0 (random.py:286-290). *)
Fixpoint derange_loop (rounds fuel : nat) (x y : list Z) (tp : tape) : option (list Z * tape) :=
  match rounds with
  | O => None
  | S r =>
    match shuffle fuel y tp with
    | None => None
    | Some (y', tp') =>
      if zprod (vsub y' x) =? 0 then derange_loop r fuel x y' tp' else Some (y', tp')
    end
  end.

Definition random_derangement (rounds fuel : nat) (x : list Z) (tp : tape) := derange_loop rounds fuel x x tp.

(** ** sample *)
(** range branch (random.py:314-323) *)
Fixpoint sample_range_loop (rounds fuel : nat) (start stop step : Z) (k : nat) (x : list Z) (tp : tape)
  : option (list Z * tape) :=
  match rounds with
  | O => None
  | S rd =>
    if (length x <? k)%nat then
      match randrange fuel start stop step tp with
      | None => None
      | Some (r, tp') =>
        match x with
        | [] => sample_range_loop rd fuel start stop step k [r] tp'
        | _ => if zprod (map (fun a => r - a) x) =? 0
               then sample_range_loop rd fuel start stop step k x tp'
               else sample_range_loop rd fuel start stop step k (x ++ [r]) tp'
        end
      end
    else Some (x, tp)
  end.

Definition sample_range (rounds fuel : nat) (start stop step : Z) (k : nat) (tp : tape) :=
  sample_range_loop rounds fuel start stop step k [] tp.

(** population branch (random.py:325-335): k Fisher-Yates steps, first k elements *)
Definition sample_pop (fuel : nat) (pop : list Z) (k : nat) (tp : tape) : option (list Z * tape) :=
  match shuffle_from fuel k pop tp with
  | None => None
  | Some (x, tp') => Some (firstn k x, tp')
  end.

(** ** random / uniform, on scaled integers (value = result * 2^-f) *)
Definition random_fxp (f : nat) (tp : tape) : option (Z * tape) := getrandbits f tp.

(** a, b given as scaled integers (exact multiples of 2^-f); s = copysign(1, b - a) *)
Definition uniform_fxp (fuel : nat) (a b : Z) (tp : tape) : option (Z * tape) :=
  let s := if b - a <? 0 then -1 else 1 in
  match randbelow fuel (Z.abs (a - b)) tp with
  | None => None
  | Some (r, tp') => Some (a + r * s, tp')
  end.

(** fuel that always suffices for the restart loops on a given tape: every restart draws >= 1 bit *)
Definition fuel_for (tp : tape) : nat := ((length tp + 2) * 70)%nat.

(** compact tape literals for the correspondence harness: the [len] low bits of z, little endian *)
Fixpoint tape_of (len : nat) (z : Z) : tape :=
  match len with O => [] | S l => (z mod 2) :: tape_of l (z / 2) end.
Fixpoint pbits (p : positive) : list Z :=
  match p with xH => [] | xO q => 0 :: pbits q | xI q => 1 :: pbits q end.
Fixpoint split_tapes (cnt : nat) (l : list Z) : list tape :=
  match cnt with
  | O => []
  | S c => let len := Z.to_nat (from_bits (firstn 6 l)) in
           let l1 := skipn 6 l in
           firstn len l1 :: split_tapes c (skipn len l1)
  end.
(** z = sentinel 1 above the concatenation of (6-bit length, bits) records *)
Definition tapes_of (cnt : nat) (z : Z) : list tape :=
  match z with Zpos p => split_tapes cnt (pbits p) | _ => [] end.
Definition on_tapes {A} (f : tape -> A) (cnt : nat) (z : Z) : list A := map f (tapes_of cnt z).
