"""C05 — secure floating-point arithmetic approximates float arithmetic.

Proof: coq/props/C05.v over the value-level model coq/theories/Flt.v (pairs (S, e), value S*2^(e-f),
truncation masks as tape).  Tie: the REAL SecFlt operations are run (m=1 in-process for volume; the
multi-party simulator for (3,1) PRSS on/off and (2,0)), every operand and result is opened as an exact
integer pair (S, e) and must be a member of the model's set of possible results over all truncation
tapes (flt_add_all / flt_mul_all / flt_cmp_all / flt_input / flt_output evaluated by vm_compute).
Oracle: the property's bounds with exact fractions.Fraction arithmetic on the implementation outputs.
"""
import math, re
from fractions import Fraction as Fr
from lib.core import zlit

MANIFEST = {
    'text': 'Coq theorems over a value-level model of SecureFloat (pair (S,e), value S*2^(e-f), f=s-1, u=2^-f; truncation '
            'masks are universally quantified tapes 0<=r<2^f): normalisation invariant S=0 or 2^(f-1)<=|S|<=2^f established '
            'by the constructor and preserved by negation and multiplication (all f>=2, all exponents, all tapes); io_bound: '
            'constructor of x=M*2^q within u|x| (Python round-half-even modelled), _output exact with zero-exponent masking; '
            'mul_bound: product within 4u|xy| for every tape; add_zero_refuted: vm_compute witness that the unrestricted + '
            'bound is false of the model (F-C05). Every run the REAL SecFlt operations + - * / and six comparisons (m=1 for '
            'volume; simulator (3,1) PRSS on/off and (2,0)) are opened as exact (S,e) pairs, checked for membership in the '
            'model result set over all tapes (constructor, +, -, *, comparisons) and against the property bounds (2u, 16u, '
            'comparison band) with exact Fraction arithmetic; floats adjacent to powers of two, 2^k and +-2^1023 (float and int) are '
            'ordinary constructor cases compared with flt_input; outputs of secure floats (positive, negative, zero, tiny, huge, '
            'operation results, lists) to proper receiver subsets (int, [0], [2], [1,2], [2,0]) are checked for m=3 (PRSS on/off) and '
            'm=2: receivers get the exact masked value and agree, non-receivers get None. Multi-party inputs where every party '
            'contributes its own private value from mixes {0, +-1, +-2, +-0.5, +-2^k, 3.5, -0.1, random}, and single input() calls '
            'for lists with 0 or +-2^k first, followed by *, /, +, < and output at every party, go through the same model/oracle '
            'checks (also PRSS configurations m=7,t=3 and m=6,t=2 with a reduced budget in the quick tier); a source-form obligation (ast) requires SecureFloat.__init__ to build the significand with integral=False.',
    'note': 'PARTIAL: no Coq theorem for addition/subtraction/comparisons (flt_add is modelled and tied by the correspondence '
            'run, but its invariant/add_bound/cmp_exact_outside_band are not proved) nor for division (runtime._rec Newton '
            'iteration not modelled; / is covered by the implementation oracle only). Harness: every run uses a fresh simulator/event '
            'loop; there is no wall-clock verdict (7200 s last-resort guard, iteration-based idle detection); an unfinished batch keeps '
            'its completed prefix, the first unfinished job is re-run alone in a fresh simulator and reported with the real exception '
            'captured from the loop exception handler. Trusted: Coq kernel+vm_compute; '
            'hand-written model Flt.v at value level (sharing, resharing, to_bits/find/unit_vector modelled by their specified '
            'results; secint exponent comparisons assumed exact, which holds while |e1-e2| < 2^E and f <= 2^E). The model uses '
            'exact ceil(log2|x|) = log2_up|M|+q, as the constructor does since fix 21d2986 (math.frexp / int.bit_length; '
            'F-C05-2 fixed). Proved constants 1 '
            '(I/O) and 4 (mul) are smaller than the 2 / 16 of the property. Open known findings: F-C05-5 reciprocal of a significand exactly 1/2 not renormalised (output assert, tape-dependent), F-C05-1 exact-zero operand with '
            'larger exponent, F-C05-3 cancellation zero whose exponent '
            'leaves the exponent type, F-C05-4 types with f > 2^E (e.g. SecFlt(8)).',
    'technique': 'Coq proof (Z/Q arithmetic, tape-quantified) + vm_compute set-membership correspondence + exact Fraction oracle '
                 'on real multi-party runs',
}

CMPS = ['lt', 'le', 'eq', 'ge', 'gt', 'ne']
BINOPS = ['add', 'sub', 'mul', 'div'] + CMPS


# ------------------------------------------------------------------------------------------------
# implementation driver (runs inside each party)

def _apply(op, x, y):
    if op == 'add':
        return x + y
    if op == 'sub':
        return x - y
    if op == 'mul':
        return x * y
    if op == 'div':
        return x / y
    if op == 'lt':
        return x < y
    if op == 'le':
        return x <= y
    if op == 'eq':
        return x == y
    if op == 'ge':
        return x >= y
    if op == 'gt':
        return x > y
    if op == 'ne':
        return x != y
    raise ValueError(op)


def make_prog(s, E, jobs, sink=None):
    f = s - 1

    async def prog(mpc, mods, pid):
        secflt = mpc.SecFlt(s=s, e=E)
        out = sink.setdefault(pid, []) if sink is not None else []   # progress is visible to the driver

        async def opn(z):
            S = await mpc.output(z.share[0])
            e = await mpc.output(z.share[1])
            return [int(S * 2**f), int(e)]

        def mk(a):
            return mpc.input(secflt(a), senders=0)

        async def rec(op, x, y, z):
            r = {'op': op, 'x': await opn(x), 'y': (await opn(y)) if y is not None else None,
                 'z': await opn(z)}
            Sz = abs(r['z'][0])
            if Sz != 0 and not (1 << (f - 1)) <= Sz <= (1 << f):
                # unnormalised result: SecureFloat._output would raise its AssertionError inside an MPyC coroutine, which
                # stops this party's event loop; the checker reports 'not-normalised' from the opened pair instead
                r['out'] = None
                return r
            o = await mpc.output(z)
            r['out'] = o.hex() if isinstance(o, float) else repr(o)
            return r

        for job in jobs:
            kind = job[0]
            recs = []
            try:
                if kind == 'io':
                    x = mk(job[1])
                    r = {'op': 'io', 'a': job[1].hex() if isinstance(job[1], float) else job[1], 'z': await opn(x)}
                    o = await mpc.output(x)
                    r['out'] = o.hex()
                    recs.append(r)
                elif kind == 'bin':
                    _, a, b, ops = job[:4]
                    x, y = mk(a), mk(b)
                    for op in ops:
                        recs.append(await rec(op, x, y, _apply(op, x, y)))
                elif kind == 'chain':
                    _, a, b, c, op1, op2, side = job
                    x, y, w = mk(a), mk(b), mk(c)
                    z = _apply(op1, x, y)
                    recs.append(await rec(op1, x, y, z))
                    if side == 'l':
                        recs.append(await rec(op2, z, w, _apply(op2, z, w)))
                    else:
                        recs.append(await rec(op2, w, z, _apply(op2, w, z)))
                elif kind == 'rop':
                    _, a, b, op, side = job       # b is a public Python number
                    x = mk(a)
                    yb = secflt(b)                # what __add__/__mul__ build from the public operand
                    if side == 'r':
                        recs.append(await rec(op, x, yb, _apply(op, x, b)))
                    else:
                        recs.append(await rec(op, yb, x, _apply(op, b, x)))
                elif kind in ('mix', 'lst'):
                    if kind == 'mix':        # every party inputs ITS OWN private value (all parties are senders)
                        _, vals, ops = job[:3]
                        xs = mpc.input(secflt(vals[pid]))
                    else:                    # one input() call for a list, from one sender
                        _, vals, ops, sender = job[:4]
                        xs = mpc.input([secflt(v) for v in vals], senders=sender)
                    for v, xv in zip(vals, xs):
                        r = {'op': 'io', 'a': v.hex() if isinstance(v, float) else v, 'z': await opn(xv)}
                        r['out'] = (await mpc.output(xv)).hex()
                        recs.append(r)
                    for (op, i, j) in ops:
                        recs.append(await rec(op, xs[i], xs[j], _apply(op, xs[i], xs[j])))
                elif kind == 'un':
                    _, a, op = job
                    x = mk(a)
                    z = -x if op == 'neg' else abs(x) if op == 'abs' else +x
                    recs.append(await rec(op, x, None, z))
            except AssertionError as exc:
                recs.append({'op': 'EXC', 'exc': 'Assert', 'msg': repr(exc)[:200]})
            except Exception as exc:  # noqa
                recs.append({'op': 'EXC', 'exc': type(exc).__name__, 'msg': repr(exc)[:200]})
            out.append(recs)
        return out
    return prog


GUARD_S = 7200     # last-resort wall-clock guard (never a verdict by itself: the job is re-run in a fresh simulator)


def run_once(m, t, no_prss, seed, factory, jobs):
    """One fresh simulator (fresh event loop, fresh party copies) running factory(jobs, sink).
    Returns (per-party results or None on failure, sink = per-party completed prefix, captured exceptions)."""
    import asyncio, traceback
    from lib.sim import Sim
    sink, captured = {}, []
    sim = Sim(m=m, t=t, no_prss=no_prss, seed=seed, log_messages=False, track_tasks=False)
    try:
        sim.start()

        def handler(loop, context):       # exceptions raised inside MPyC coroutines end up here (asyncoro._reconcile
            exc = context.get('exception')  # re-raises them in a done-callback and STOPS the loop)
            tb = ''.join(traceback.format_exception(type(exc), exc, exc.__traceback__))[-1500:] if exc is not None else ''
            captured.append({'exc': type(exc).__name__ if exc is not None else 'None', 'repr': repr(exc)[:300],
                             'message': str(context.get('message'))[:200], 'traceback': tb})
        sim.loop.set_exception_handler(handler)
        prog = factory(jobs, sink)
        if m == 1:
            # no network: drive the single party directly (Sim.run's idle detection needs traffic)
            try:
                res = [sim.loop.run_until_complete(asyncio.wait_for(prog(sim.mpcs[0], sim.mods[0], 0), GUARD_S))]
            except BaseException as exc:  # noqa   (loop stopped by MPyC after an exception in a coroutine, or the guard)
                if isinstance(exc, (KeyboardInterrupt, SystemExit)):
                    raise
                captured.append({'exc': type(exc).__name__, 'repr': repr(exc)[:300], 'message': 'driver', 'traceback': ''})
                res = None
        else:
            res = sim.run(prog, idle_limit=20000)       # idle_limit counts delivery rounds without traffic, not time
            if not all(isinstance(r, list) for r in res):
                captured.append({'exc': 'Incomplete', 'repr': repr([r if not isinstance(r, list) else 'ok' for r in res])[:300],
                                 'message': 'driver', 'traceback': ''})
                res = None
        if res is not None:
            sim.shutdown()
    finally:
        sim.close()
    return res, sink, captured


def run_jobs(ctx, m, t, no_prss, seed, factory, jobs, exc_record):
    """Run all jobs; when a run does not complete, keep the completed prefix, re-run the first unfinished job ALONE in a
    fresh simulator (so neither leftover state nor a wall-clock guard can decide), record the real exception if it
    reproduces, and continue with the remaining jobs in another fresh simulator.  Returns per-party result lists."""
    per_party = [[] for _ in range(m)]
    start = 0
    rerun = 0
    while start < len(jobs):
        res, sink, cap = run_once(m, t, no_prss, seed + 1009 * rerun, factory, jobs[start:])
        if res is not None:
            for p in range(m):
                per_party[p].extend(res[p])
            break
        rerun += 1
        k = min(len(sink.get(p, [])) for p in range(m))
        for p in range(m):
            per_party[p].extend(sink.get(p, [])[:k])
        bad = jobs[start + k]
        real0 = [c for c in cap if c['message'] != 'driver']
        res1, _, cap1 = run_once(m, t, no_prss, seed + 1009 * rerun + 1, factory, [bad])
        if real0:
            # an exception raised by the implementation inside an MPyC coroutine (asyncoro._reconcile stops the loop):
            # a real, possibly tape-dependent failure of this job -- reported with the real exception
            info = dict(real0[0], repr=real0[0]['repr'] + (' [completes alone on another tape]' if res1 is not None
                                                             else ' [reproduced alone in a fresh simulator]'))
            ctx.log('job %r raised inside the implementation: %s' % (bad, info['repr']))
            for p in range(m):
                per_party[p].append(exc_record(info))
        elif res1 is not None:
            ctx.notes.append('job %r did not complete inside a batch but completed alone in a fresh simulator (batch exception: %s)' % (
                bad, [c['repr'] for c in cap][:2]))
            for p in range(m):
                per_party[p].extend(res1[p])
        else:
            real = [c for c in cap1 if c['message'] != 'driver'] or [c for c in cap if c['message'] != 'driver'] or cap1
            info = real[0]
            ctx.log('job %r fails reproducibly: %s' % (bad, info['repr']))
            for p in range(m):
                per_party[p].append(exc_record(info))
        start += k + 1
    return per_party


def _exc_recs(info):
    return [{'op': 'EXC', 'exc': 'Assert' if info['exc'] == 'AssertionError' else info['exc'], 'msg': info['repr'],
             'traceback': info['traceback']}]


def run_config(ctx, m, t, no_prss, s, E, jobs, seed):
    return run_jobs(ctx, m, t, no_prss, seed, lambda js, sink: make_prog(s, E, js, sink), jobs, _exc_recs)


# ------------------------------------------------------------------------------------------------
# generators

def ceil_log2(x):
    """exact ceil(log2 |x|) for a nonzero Fraction"""
    x = abs(Fr(x))
    n, d = x.numerator, x.denominator
    k = n.bit_length() - d.bit_length()
    while Fr(2)**k < x:
        k += 1
    while Fr(2)**(k - 1) >= x:
        k -= 1
    return k


class Gen:
    def __init__(self, rng, s, E):
        self.rng, self.s, self.E, self.f = rng, s, E, s - 1
        self.emin, self.emax = -(1 << (E - 1)), (1 << (E - 1)) - 1

    def mant(self):
        """odd/even integer mantissa of assorted widths (1.. 53 bits)"""
        r = self.rng
        w = r.choice([1, 1, 2, 3, self.f, self.s, self.s, self.s + 1, self.s + 1, self.s + 3, 40, 53])
        w = max(1, min(w, 53))
        k = r.random()
        if k < 0.15:
            M = (1 << w) - 1                       # all ones: rounds up to 1.0
        elif k < 0.25:
            M = (1 << (w - 1)) + 1 if w > 1 else 1   # 1.0...01
        elif k < 0.35 and w > 2:
            M = (1 << (w - 1)) | (1 << (w - 2))
        else:
            M = r.getrandbits(w) | (1 << (w - 1))
        return M

    def flt(self, e=None, sign=None):
        """float with ceil(log2|x|) == e (e in the exponent range)"""
        r = self.rng
        if e is None:
            e = r.choice([self.emin, self.emin + 1, self.emax, self.emax - 1, 0, 1, -1] +
                         [r.randint(self.emin, self.emax) for _ in range(8)])
        M = self.mant()
        w = M.bit_length()
        if M & (M - 1) == 0:          # power of two: ceil(log2) = w-1
            x = math.ldexp(1.0, e)
        else:
            x = math.ldexp(M, e - w)  # 2^(e-1) < x < 2^e
        if sign is None:
            sign = r.random() < 0.4
        return -x if sign else x

    def fits(self, x):
        return x == 0 or self.emin <= ceil_log2(Fr(x)) <= self.emax

    def pair(self):
        r = self.rng
        f, u = self.f, Fr(1, 2**self.f)
        k = r.random()
        if k < 0.22:
            return self.flt(), self.flt(), 'random'
        if k < 0.42:
            a = self.flt()
            ea = ceil_log2(Fr(a))
            de = r.choice([0, 0, 1, -1, 2, -2, f - 1, f, f + 1, f + 2, -(f - 1), -f, -(f + 1), -(f + 2), r.randint(-f - 3, f + 3)])
            eb = max(self.emin, min(self.emax, ea + de))
            return a, self.flt(e=eb), 'exp-delta'
        if k < 0.60:
            a = self.flt()
            j = r.choice([0, 1, 2, 3, f - 2, f - 1, f, f + 1, r.randint(0, f + 2)])
            eps = Fr(r.choice([1, 1, 3, 5, 15, 16, 17, 31, 33]), 2**(j + 4))
            b = float(-Fr(a) * (1 + r.choice([1, -1]) * eps))
            if r.random() < 0.5:
                b = -b                          # close values of equal sign (for comparisons)
            if b == 0 or not self.fits(b):
                b = -a
            return a, b, 'near-cancel'
        if k < 0.68:
            a = self.flt()
            return a, r.choice([a, -a]), 'equal'
        if k < 0.80:
            a = self.flt()
            z = r.choice([0.0, 0.0, -0.0, 0])
            return (a, z, 'zero') if r.random() < 0.6 else (z, a, 'zero')
        if k < 0.83:
            return 0.0, 0.0, 'zero-zero'
        if k < 0.95:
            i, j = r.randint(self.emin, self.emax), r.randint(self.emin, self.emax)
            if r.random() < 0.3:
                j = i
            return (r.choice([1, -1]) * math.ldexp(1.0, i), r.choice([1, -1]) * math.ldexp(1.0, j), 'pow2')
        # comparison band edge: y = x (1 + c u), c around 16
        a = self.flt()
        c = r.choice([15, 16, 17, 18, 20, 33])
        b = float(Fr(a) * (1 + c * u))
        if not self.fits(b):
            b = float(Fr(a) * (1 - c * u))
        return a, b, 'band-edge'

    def ops_for(self, a, b, nops):
        """operations whose exact result exponent fits the exponent type"""
        ops = ['add', 'sub'] + CMPS
        A, B = Fr(a), Fr(b)
        if A * B == 0 or self.emin + 1 <= ceil_log2(A) + ceil_log2(B) <= self.emax:
            ops.append('mul')
        if B != 0 and (A == 0 or (self.emin + 1 <= ceil_log2(A) - ceil_log2(B) and ceil_log2(A) - ceil_log2(B) + 1 <= self.emax)):
            ops.append('div')
        if nops is not None and len(ops) > nops:
            ops = self.rng.sample(ops, nops)
            ops.sort(key=BINOPS.index)
        return ops


# ------------------------------------------------------------------------------------------------
# oracle

def val(p, f):
    S, e = p
    return Fr(S) * Fr(2)**(e - f)


def exact(op, vx, vy):
    if op == 'add':
        return vx + vy
    if op == 'sub':
        return vx - vy
    if op == 'mul':
        return vx * vy
    if op == 'div':
        return vx / vy
    return {'lt': vx < vy, 'le': vx <= vy, 'eq': vx == vy, 'ge': vx >= vy, 'gt': vx > vy, 'ne': vx != vy}[op]


def classify(op, x, y, E, f):
    """failure class of an addition-like operation (for the violation signature); 'domain' = a NONZERO operand
    whose exponent does not fit the exponent type (outside the property's quantifier)"""
    emin, emax = -(1 << (E - 1)), (1 << (E - 1)) - 1
    (S1, e1), (S2, e2) = x, y
    for (S, e) in (x, y):
        if S != 0 and not emin <= e <= emax:
            return 'domain'
    if op in ('add', 'sub') or op in CMPS:
        if (S1 == 0 and not emin <= e1 <= emax) or (S2 == 0 and not emin <= e2 <= emax):
            return 'add zero-operand-exponent-out-of-range'
        if (S1 == 0 and S2 != 0 and e1 > e2) or (S2 == 0 and S1 != 0 and e2 > e1):
            return 'add zero-operand-larger-exponent'
    return None


class Checker:
    def __init__(self, ctx, s, E, cfg, narrow=False):
        self.ctx, self.s, self.E, self.f, self.cfg = ctx, s, E, s - 1, cfg
        self.u = Fr(1, 2**(s - 1))
        self.narrow = narrow
        self.exprs, self.meta = [], []
        self.maxrel = {}

    def viol(self, cls, what, detail):
        tname = 'SecFlt(s=%d,e=%d)' % (self.s, self.E)
        if self.narrow:
            sig = 'narrow-exponent-type f>2^e %s' % tname
        elif cls:
            sig = '%s [%s] %s' % (cls, what, tname)
        else:
            sig = '%s %s' % (what, tname)
        detail = dict(detail, type=tname, config=self.cfg)
        self.ctx.violation(sig, detail)

    def pair_lit(self, p):
        return '(%s, %s)' % (zlit(p[0]), zlit(p[1]))

    def norm_ok(self, p):
        S = abs(p[0])
        return S == 0 or (1 << (self.f - 1)) <= S <= (1 << self.f)

    def track(self, op, rel):
        if rel > self.maxrel.get(op, 0):
            self.maxrel[op] = rel

    def check_job(self, job, recs):
        f, u = self.f, self.u
        F = zlit(f)
        fresh = {}
        if job[0] in ('bin', 'rop'):
            fresh = {'x': job[1], 'y': job[2]}
            if job[0] == 'rop' and job[4] == 'l':
                fresh = {'x': job[2], 'y': job[1]}
        for ri, r in enumerate(recs):
            op = r['op']
            if op == 'EXC':
                mm = re.match(r"AssertionError\(\(\[(-?[0-9.e+-]+)\], \[(-?\d+)\]\)\)", r.get('msg', ''))
                has_div = (job[0] == 'bin' and 'div' in job[3]) or (job[0] == 'rop' and job[3] == 'div')
                if mm and has_div and 1 < abs(Fr(float(mm.group(1)))) <= 1 + 4 * u:
                    self.viol('div reciprocal-not-normalised', 'output-assert', {'job': repr(job), 'rec': r})
                else:
                    self.viol(None, 'exception %s in %s' % (r['exc'], job[0]), {'job': repr(job), 'rec': r})
                continue
            z = tuple(r['z'])
            vz = val(z, f)
            # output = masked value, exact (skipped by the driver for unnormalised results, reported below)
            if r['out'] is not None and Fr(float.fromhex(r['out'])) != vz:
                self.viol(None, 'output-not-exact', {'job': repr(job), 'rec': r})
            if op == 'io':
                a = float.fromhex(r['a']) if isinstance(r['a'], str) else r['a']
                A = Fr(a)
                if abs(vz - A) > 2 * u * abs(A):
                    self.viol(None, 'io-bound', {'job': repr(job), 'rec': r})
                if A != 0:
                    self.track('io', abs(vz - A) / abs(A) / u)
                if not self.norm_ok(z):
                    self.viol(None, 'not-normalised io', {'job': repr(job), 'rec': r})
                n, d = A.numerator, A.denominator
                q = -(d.bit_length() - 1)
                self.exprs.append('[flt_input %s %s %s]' % (F, zlit(n), zlit(q)))
                self.meta.append(('set', job, r, list(z)))
                continue
            x = tuple(r['x'])
            vx = val(x, f)
            if op in ('neg', 'abs', 'pos'):
                want = {'neg': (-x[0], x[1]), 'abs': (abs(x[0]), x[1]), 'pos': x}[op]
                if z != want:
                    self.viol(None, 'unary-' + op, {'job': repr(job), 'rec': r})
                continue
            y = tuple(r['y'])
            vy = val(y, f)
            cls = classify(op, x, y, self.E, f)
            if cls == 'domain':
                self.ctx.extra['operand_exponent_out_of_domain_skipped'] = self.ctx.extra.get('operand_exponent_out_of_domain_skipped', 0) + 1
                continue
            ex = exact(op, vx, vy)
            det = {'job': repr(job), 'rec': r, 'vx': str(vx), 'vy': str(vy), 'got': str(vz), 'exact': str(ex)}
            if op in CMPS:
                bit = z[0] >> f if z[0] in (0, 1 << f) and z[1] == 0 else None
                if bit is None:
                    self.viol(cls, 'cmp-not-a-bit ' + op, det)
                elif abs(vx - vy) > 16 * u * max(abs(vx), abs(vy)) and bool(bit) != ex:
                    self.viol(cls, 'cmp-wrong-outside-band', det)
                # w.r.t. the original float inputs
                if fresh and bit is not None:
                    A, B = Fr(fresh['x']), Fr(fresh['y'])
                    if abs(A - B) > 16 * u * max(abs(A), abs(B)) and bool(bit) != exact(op, A, B):
                        self.viol(cls, 'cmp-wrong-outside-band', dict(det, wrt='float inputs'))
                if cls is None and not self.narrow:
                    self.exprs.append('map (fun l => nth %d l false) (flt_cmp_all %s %s %s)' % (
                        CMPS.index(op), F, self.pair_lit(x), self.pair_lit(y)))
                    self.meta.append(('set', job, r, bool(bit)))
                continue
            if not self.norm_ok(z):
                if op == 'div' and abs(y[0]) == 1 << (f - 1) and (1 << f) < abs(z[0]) <= (1 << f) + 4:
                    # divisor significand exactly 1/2: reciprocal() returns 1 + ulp for some truncation tapes
                    self.viol('div reciprocal-not-normalised', 'not-normalised', det)
                else:
                    self.viol(cls, 'not-normalised ' + op, det)
            if op in ('add', 'sub'):
                bound = 16 * u * max(abs(vx), abs(vy))
                if abs(vz - ex) > bound:
                    self.viol(cls, 'addsub-bound', det)
                elif max(abs(vx), abs(vy)) != 0:
                    self.track(op, abs(vz - ex) / max(abs(vx), abs(vy)) / u)
                if fresh:
                    A, B = Fr(fresh['x']), Fr(fresh['y'])
                    exf = A + B if op == 'add' else A - B
                    if abs(vz - exf) > 16 * u * max(abs(A), abs(B)):
                        self.viol(cls, 'addsub-bound', dict(det, wrt='float inputs'))
                if cls is None and not self.narrow:
                    self.exprs.append('flt_%s_all %s %s %s' % (op, F, self.pair_lit(x), self.pair_lit(y)))
                    self.meta.append(('set', job, r, list(z)))
            else:
                if abs(vz - ex) > 16 * u * abs(ex):
                    self.viol(cls, op + '-bound', det)
                elif ex != 0:
                    self.track(op, abs(vz - ex) / abs(ex) / u)
                if fresh:
                    A, B = Fr(fresh['x']), Fr(fresh['y'])
                    exf = A * B if op == 'mul' else A / B
                    if abs(vz - exf) > 16 * u * abs(exf):
                        self.viol(cls, op + '-bound', dict(det, wrt='float inputs'))
                if op == 'mul' and not self.narrow:
                    self.exprs.append('flt_mul_all %s %s %s' % (F, self.pair_lit(x), self.pair_lit(y)))
                    self.meta.append(('set', job, r, list(z)))


def to_py(v):
    """Coq (a, b) parsed as tuple -> list"""
    if isinstance(v, tuple):
        return [to_py(a) for a in v]
    if isinstance(v, list):
        return [to_py(a) for a in v]
    return v


# ------------------------------------------------------------------------------------------------

def gen_jobs(g, npairs, nops, nio, nchain, nrop):
    rng = g.rng
    jobs = []
    for _ in range(nio):
        a = g.flt()
        if rng.random() < 0.1:
            a = rng.choice([0.0, -0.0, 0, 1, -1, 3, 1.0, 0.5, -0.5, 2.0])
        jobs.append(('io', a))
    for _ in range(npairs):
        a, b, kind = g.pair()
        ops = g.ops_for(a, b, nops)
        jobs.append(('bin', a, b, ops, kind))
    for _ in range(nchain):
        a = g.flt()
        k = rng.random()
        if k < 0.4:      # x - x + c : zero carrying x's exponent
            b, op1 = a, 'sub'
        elif k < 0.6:
            b, op1 = g.flt(), rng.choice(['add', 'sub', 'mul'])
            if op1 == 'mul' and 'mul' not in g.ops_for(a, b, None):
                op1 = 'add'
        else:            # comparison result used as operand
            b, op1 = g.flt(), rng.choice(CMPS)
        c = g.flt()
        op2 = rng.choice(['add', 'sub', 'mul', 'lt', 'ge', 'eq'])
        if op2 == 'mul':
            # keep the product exponent in range
            c = g.flt(e=rng.choice([0, 1, -1]))
        jobs.append(('chain', a, b, c, op1, op2, rng.choice(['l', 'r'])))
    for _ in range(nrop):
        a = g.flt(e=rng.randint(-3, 4))
        b = rng.choice([2, 3, -1, 0.5, 1.5, -0.75, 1, 7, 0.1])
        jobs.append(('rop', a, b, rng.choice(['add', 'sub', 'mul', 'div', 'lt', 'ge']), rng.choice(['l', 'r'])))
    for _ in range(max(1, nio // 6)):
        jobs.append(('un', g.flt(), rng.choice(['neg', 'abs', 'pos'])))
    return jobs


def subset_specs(m):
    if m == 2:
        return [0, 1, [0], [1]]
    return [0, m - 1, [0], [2], [1, 2], [2, 0]] + ([[1, 3, 0]] if m > 3 else [])


def make_out_prog(s, E, items, specs, sink=None):
    f = s - 1

    async def prog(mpc, mods, pid):
        secflt = mpc.SecFlt(s=s, e=E)
        out = sink.setdefault(pid, []) if sink is not None else []
        for item in items:
            try:
                a, b, op = item
                x = mpc.input(secflt(a), senders=0)
                if op is not None:
                    y = mpc.input(secflt(b), senders=len(mpc.parties) - 1)
                    x = -x if op == 'neg' else _apply(op, x, y)
                S = await mpc.output(x.share[0])
                e = await mpc.output(x.share[1])
                rec = {'ref': [int(S * 2**f), int(e)], 'outs': []}
                for spec in specs:
                    o = await mpc.output(x, receivers=spec)
                    rec['outs'].append(None if o is None else o.hex() if isinstance(o, float) else repr(o))
                # a list of two secure floats to the last spec
                o2 = await mpc.output([x, -x], receivers=specs[-1])
                rec['list'] = [None if o is None else o.hex() if isinstance(o, float) else repr(o) for o in o2]
                out.append(rec)
            except Exception as exc:  # noqa
                out.append({'exc': type(exc).__name__, 'msg': repr(exc)[:200]})
        return out
    return prog


def check_subset_outputs(ctx, m, t, no_prss, s, E):
    rng = ctx.rng
    g = Gen(rng, s, E)
    f, u = s - 1, Fr(1, 2**(s - 1))
    tiny, huge = math.ldexp(1.5, g.emin), math.ldexp(1.75, g.emax - 1)
    items = [(3.5, None, None), (-3.5, None, None), (0.0, None, None), (-0.0, None, None), (tiny, None, None), (-tiny, None, None),
             (huge, None, None), (-huge, None, None), (-1.0, None, None), (0.5, None, None), (-0.1, None, None),
             (1.5, -2.25, 'add'), (-1.5, 1.25, 'mul'), (2.5, 2.5, 'sub'), (-tiny, tiny, 'add'), (1.0, 3.0, 'div'),
             (-3.0, 2.0, 'lt'), (3.0, 2.0, 'lt'), (-2.75, None, 'neg'), (-6.0, 7.0, 'sub')]
    for _ in range(ctx.n(4, 20)):
        items.append((g.flt(), None, None))
        a, b = g.flt(e=rng.randint(-2, 2)), g.flt(e=rng.randint(-2, 2))
        items.append((a, b, rng.choice(['add', 'sub', 'mul'])))
    items = [(a, 0.0 if b is None and op == 'neg' else b, op) for (a, b, op) in items]
    specs = subset_specs(m)
    cfg = 'm=%d t=%d %s' % (m, t, 'no-prss' if no_prss else 'prss')
    tname = 'SecFlt(s=%d,e=%d)' % (s, E)
    res = run_jobs(ctx, m, t, no_prss, ctx.seed + 7 * m + s, lambda its, sink: make_out_prog(s, E, its, specs, sink), items,
                   lambda info: {'exc': info['exc'], 'msg': info['repr'], 'traceback': info['traceback']})
    nchk = 0
    for ii, item in enumerate(items):
        recs = [res[p][ii] for p in range(m)]
        det = {'type': tname, 'config': cfg, 'item': repr(item), 'per_party': recs}
        if any('exc' in r for r in recs):
            ctx.violation('output-subset exception %s' % tname, det)
            continue
        if any(r['ref'] != recs[0]['ref'] for r in recs):
            ctx.violation('output-subset parties-disagree %s' % tname, det)
            continue
        v = val(tuple(recs[0]['ref']), f)
        a, b, op = item
        for si, spec in enumerate(specs):
            rset = {spec} if isinstance(spec, int) else set(spec)
            for p in range(m):
                o = recs[p]['outs'][si]
                nchk += 1
                if p in rset:
                    ok = isinstance(o, str) and o.startswith(('0x', '-0x')) and Fr(float.fromhex(o)) == v
                    if ok and op is None and abs(Fr(float.fromhex(o)) - Fr(a)) > 2 * u * abs(Fr(a)):
                        ok = False
                    if not ok:
                        ctx.violation('output-subset receiver-wrong-value %s' % tname, dict(det, receivers=repr(spec), party=p, got=o, want=str(v)))
                elif o is not None:
                    ctx.violation('output-subset non-receiver-got-value %s' % tname, dict(det, receivers=repr(spec), party=p, got=o))
        rset = {specs[-1]} if isinstance(specs[-1], int) else set(specs[-1])
        for p in range(m):
            o2 = recs[p]['list']
            want = [v, -v]
            if p in rset:
                if not (all(isinstance(o, str) for o in o2) and [Fr(float.fromhex(o)) for o in o2] == want):
                    ctx.violation('output-subset receiver-wrong-value %s' % tname, dict(det, receivers=repr(specs[-1]), party=p, got=o2, form='list'))
            elif any(o is not None for o in o2):
                ctx.violation('output-subset non-receiver-got-value %s' % tname, dict(det, receivers=repr(specs[-1]), party=p, got=o2, form='list'))
        ctx.case([s, E, cfg, 'out-subset', recs[0]['ref'], repr(item)], kind='output to receiver subsets m=%d' % m)
    ctx.extra['subset_output_checks'] = ctx.extra.get('subset_output_checks', 0) + nchk
    ctx.log('%s %s: outputs of %d values to receiver subsets %s: %d party-level checks' % (tname, cfg, len(items), specs, nchk))


def gen_mix_jobs(g, m, nmix, nlst):
    """inputs of value mixes {0, +-1, +-2, +-0.5, +-2^k, 3.5, -0.1, random}: each party its own private value ('mix', m > 1),
    and single input() calls for lists whose first element is 0 or +-2^k ('lst'); then *, /, +, < on the shared values"""
    rng = g.rng
    klo, khi = max(g.emin + 3, -6), min(g.emax - 3, 6)

    def special():
        return rng.choice([0.0, 1.0, -1.0, 2.0, -2.0, 0.5, -0.5, 1, -2, 0,
                           math.ldexp(1.0, rng.randint(klo, khi)), -math.ldexp(1.0, rng.randint(klo, khi))])

    def other():
        return rng.choice([3.5, -0.1, 1.5, -2.75, 0.3, g.flt(e=rng.randint(-2, 3)), g.flt(e=rng.randint(-2, 3))])

    def ops_on(vals):
        pairs = [(i, j) for i in range(len(vals)) for j in range(len(vals)) if i != j]
        cand = [(op, i, j) for (i, j) in pairs for op in ('mul', 'div', 'add', 'sub', 'lt')
                if op in g.ops_for(vals[i], vals[j], None)]
        rng.shuffle(cand)
        return sorted(cand[:6], key=lambda o: (o[1], o[2], o[0]))

    jobs = []
    for _ in range(nmix if m > 1 else 0):
        vals = [other() if rng.random() < 0.5 else special() for _ in range(m)]
        vals[rng.randrange(m)] = special()
        k = rng.randrange(m)
        vals[k] = other() if all(Fr(v) == 0 or abs(Fr(v)).numerator & (abs(Fr(v)).numerator - 1) == 0 and
                                 abs(Fr(v)).denominator & (abs(Fr(v)).denominator - 1) == 0 for v in vals) else vals[k]
        jobs.append(('mix', vals, ops_on(vals)))
    for _ in range(nlst):
        n = rng.choice([2, 3, 3, 4])
        vals = [special()] + [other() if rng.random() < 0.7 else special() for _ in range(n - 1)]
        jobs.append(('lst', vals, ops_on(vals), rng.randrange(m)))
    return jobs


def source_form_obligation(ctx):
    """Fail-closed source-form obligation: inside SecureFloat.__init__ every construction of the significand from a value
    (self.significand_type(<not None>, ...)) passes integral=False; anything else is a broken obligation."""
    import ast
    from lib.core import REPO
    path = REPO + '/mpyc/sectypes.py'
    found, bad = 0, []
    try:
        tree = ast.parse(open(path).read())
        cls = next(n for n in tree.body if isinstance(n, ast.ClassDef) and n.name == 'SecureFloat')
        init = next(n for n in cls.body if isinstance(n, ast.FunctionDef) and n.name == '__init__')
        for node in ast.walk(init):
            if isinstance(node, ast.Call) and isinstance(node.func, ast.Attribute) and node.func.attr == 'significand_type' \
                    and isinstance(node.func.value, ast.Name) and node.func.value.id == 'self':
                if len(node.args) == 1 and isinstance(node.args[0], ast.Constant) and node.args[0].value is None and not node.keywords:
                    continue        # placeholder significand_type(None)
                found += 1
                kw = {k.arg: k.value for k in node.keywords}
                if not (len(node.args) == 1 and set(kw) == {'integral'} and isinstance(kw['integral'], ast.Constant)
                        and kw['integral'].value is False):
                    bad.append('line %d: %s' % (node.lineno, ast.unparse(node)))
        # no other way to build the significand in __init__ (e.g. through an alias of the type)
        for node in ast.walk(init):
            if isinstance(node, ast.Attribute) and node.attr == 'significand_type' and not (
                    isinstance(node.value, ast.Name) and node.value.id == 'self'):
                bad.append('line %d: significand_type reached through %s' % (node.lineno, ast.unparse(node)))
        if found != 1:
            bad.append('expected exactly 1 significand construction from a value in SecureFloat.__init__, found %d' % found)
    except Exception as exc:  # noqa
        bad.append('cannot analyse %s: %r' % (path, exc))
    ctx.obligations += 1
    if bad:
        ctx.broken.append({'kind': 'source-form', 'what': 'SecureFloat.__init__ must construct the significand with integral=False',
                           'detail': bad})
        ctx.log('source-form obligation BROKEN: %s' % bad)
    else:
        ctx.discharged += 1
    return not bad


FC05 = [(11, 5, 1e-4), (24, 8, 1e-9)]


def run(ctx):
    ok = ctx.build(['MPyC.Flt']) and ctx.check_props()
    source_form_obligation(ctx)
    rng = ctx.rng
    ctx.rule = ('case = (type (s,e), party config, op, operand pairs); operands: floats at exponent extremes, exponent deltas '
                'around f, near-cancellation pairs, equal values, zero operands, powers of two, comparison-band edges, random '
                'mantissas of 1..53 bits; chained ops (x-x+c, comparison results as operands); every record distinct by its '
                'opened (S,e) operands')
    ctx.explanation = ('theorems for all f, exponents and tapes over the value-level model; every opened result of the real '
                       'implementation must lie in the model result set over all truncation tapes, and satisfy the property '
                       'bounds by exact Fraction arithmetic')
    types = [(11, 5), (24, 8), (5, 4), (8, 5)]
    plan = []   # (m, t, no_prss, s, E, jobs-params)
    for (s, E) in types:
        big = s > 11
        plan.append((1, 0, False, s, E, dict(npairs=ctx.n(36, 500) if not big else ctx.n(24, 350), nops=None,
                                             nio=ctx.n(24, 150), nchain=ctx.n(14, 80), nrop=ctx.n(6, 30))))
    plan.append((1, 0, False, 53, 11, dict(npairs=ctx.n(6, 30), nops=4, nio=6, nchain=2, nrop=2)))
    for (m, t, np_) in [(3, 1, False), (3, 1, True), (2, 0, False)]:
        for (s, E) in [(11, 5), (24, 8), (5, 4)]:
            small = (s == 24)
            plan.append((m, t, np_, s, E, dict(npairs=ctx.n(6 if small else 9, 40), nops=3, nio=ctx.n(3, 10),
                                               nchain=ctx.n(2, 8), nrop=ctx.n(1, 4))))
    # large PRSS configurations (the conversion masks are sums of comb(m,t) pseudorandom terms): reduced budget in quick
    for (m, t, np_) in [(7, 3, False), (6, 2, False)]:
        for (s, E) in [(24, 8), (11, 5)]:
            if ctx.tier == 'thorough':
                plan.append((m, t, np_, s, E, dict(npairs=9, nops=3, nio=3, nchain=2, nrop=1, nmix=5, nlst=2)))
            else:
                plan.append((m, t, np_, s, E, dict(npairs=1, nops=3, nio=0, nchain=0, nrop=0, nmix=2 if m == 7 else 1, nlst=0,
                                                   lite=True)))
    if ctx.tier == 'thorough':
        for (m, t, np_) in [(4, 1, False), (5, 2, True), (2, 0, True)]:
            plan.append((m, t, np_, 11, 5, dict(npairs=20, nops=3, nio=6, nchain=4, nrop=2)))
    checkers = []
    for (m, t, np_, s, E, jp) in plan:
        g = Gen(rng, s, E)
        if E > 9:       # keep |x| well inside the Python float range (output computes s * 2**e in floats)
            g.emin, g.emax = -300, 300
        jp = dict(jp)
        nmix, nlst, lite = jp.pop('nmix', ctx.n(5, 20)), jp.pop('nlst', ctx.n(3, 10) if m > 1 or s <= 24 else 1), jp.pop('lite', False)
        jobs = gen_jobs(g, **jp)
        jobs += gen_mix_jobs(g, m, nmix, nlst)
        if (s, E) == (24, 8) and (m == 1 or (m == 3 and not np_)):
            # reviewer's case: cancellation zero keeps the exponent 100 - f = 77 (in range) and the following + aligns 1.0
            # to it (class F-C05-1: exact-zero operand with the larger exponent); 1.8e16 instead of 1.0
            jobs.append(('chain', 2.0**100, 2.0**100, 1.0, 'sub', 'add', 'l'))
        # F-C05 replay inputs in every configuration of the matching type
        for (fs, fE, x) in FC05:
            if (fs, fE) == (s, E) and not lite:
                jobs.append(('bin', x, 0.0, ['add', 'sub', 'gt', 'eq'], 'zero'))
                jobs.append(('bin', 0.0, x, ['add', 'lt'], 'zero'))
        if m == 1 and (s, E) == (24, 8):
            # powers of two and their float neighbours (the class of the fixed finding F-C05-2): ordinary I/O cases
            for k in range(-100, 101):
                p2 = math.ldexp(1.0, k)
                jobs.append(('io', math.nextafter(p2, math.inf) * rng.choice([1, -1])))
                if k % ctx.n(4, 1) == 0:
                    jobs.append(('io', p2 * rng.choice([1, -1])))
                    jobs.append(('io', math.nextafter(p2, 0.0) * rng.choice([1, -1])))
        if m == 1 and (s, E) == (53, 11):
            # extremes of the 11-bit exponent type, float and int
            for v in (2.0**1023, -2.0**1023, 2**1023, -(2**1023), math.nextafter(2.0**1023, 0.0), math.nextafter(2.0**1022, math.inf),
                      2.0**-1022, -math.nextafter(2.0**-1021, 0.0), 2**1023 - 2**970, 2**60 + 1, -(2**53 + 1)):
                jobs.append(('io', v))
        if m == 1 and E <= 8:
            # divisors whose significand is exactly 1/2 (floats just above a power of two), dividends with |significand| = 1
            for _ in range(ctx.n(12, 60)):
                kx, ky = rng.randint(-2, 2), rng.randint(-2, 2)
                yv = math.ldexp(1.0 + 2.0**-(s + 2), ky) * rng.choice([1, -1])
                xv = rng.choice([math.ldexp(1.0, kx), -math.ldexp(1.0, kx), g.flt(e=kx)])
                jobs.append(('bin', xv, yv, ['div'], 'recip-half'))
        if (s, E) == (11, 5) and not lite:      # F-C05-3 replay: cancellation zero with exponent -23 outside the 5-bit exponent type
            jobs.append(('chain', 1e-4, 1e-4, 30000.0, 'sub', 'add', 'l'))
        cfg = 'm=%d t=%d %s' % (m, t, 'no-prss' if np_ else 'prss')
        res = run_config(ctx, m, t, np_, s, E, jobs, ctx.seed + 31 * m + s)
        ck = Checker(ctx, s, E, cfg)
        checkers.append(ck)
        if any(r != res[0] for r in res[1:]):
            ck.viol(None, 'parties-disagree', {'results': [repr(r)[:300] for r in res]})
        nrec = 0
        for job, recs in zip(jobs, res[0]):
            ck.check_job(job, recs)
            for r in recs:
                nrec += 1
                key = [s, E, cfg, r['op'], r.get('x'), r.get('y'), r.get('a')]
                ctx.case(key, nontrivial=r['op'] != 'EXC', kind='%s %s' % (r['op'], 'm=%d' % m))
        ctx.log('SecFlt(s=%d,e=%d) %s: %d jobs, %d records; max rel err /u: %s' % (
            s, E, cfg, len(jobs), nrec, {k: round(float(v), 2) for k, v in sorted(ck.maxrel.items())}))
        for k, v in ck.maxrel.items():
            key = 'max_rel_err_over_u_' + k
            ctx.extra[key] = max(ctx.extra.get(key, 0), round(float(v), 3))

    # ---- output of secure floats to PROPER SUBSETS of the parties (SecureFloat._output, leader-masking branch)
    for (m, t, np_) in [(3, 1, False), (3, 1, True), (2, 0, False)] + ([(4, 1, False), (5, 2, True)] if ctx.tier == 'thorough' else []):
        for (s, E) in [(11, 5), (5, 4)] + ([(24, 8)] if (m, np_) == (3, False) or ctx.tier == 'thorough' else []):
            check_subset_outputs(ctx, m, t, np_, s, E)

    import importlib
    importlib.import_module('mpyc.runtime')      # fresh m=1 copy (Sim.close() removed the party copies)

    # ---- narrow exponent types (f > 2^E): e.g. the default SecFlt(8) = SecFlt(s=6, e=2)
    for (s, E) in [(6, 2), (12, 3)]:
        jobs = [('bin', 1.0, 1.0, ['add', 'sub', 'mul', 'lt'], 'pow2'), ('bin', 1.5, 1.25, ['add', 'sub', 'ge'], 'random'),
                ('bin', 0.75, -0.625, ['add', 'mul'], 'random'), ('bin', 1.0, 0.5, ['add', 'div'], 'pow2')]
        res = run_config(ctx, 1, 0, False, s, E, jobs, ctx.seed)
        ck = Checker(ctx, s, E, 'm=1 t=0 prss', narrow=True)
        for job, recs in zip(jobs, res[0]):
            ck.check_job(job, recs)
            for r in recs:
                ctx.case([s, E, 'narrow', r['op'], r.get('x'), r.get('y')], kind='narrow-exponent type')

    # ---- correspondence with the Coq model
    exprs = [e for ck in checkers for e in ck.exprs]
    meta = [(ck, mt) for ck in checkers for mt in ck.meta]
    ctx.log('evaluating %d model expressions in Coq' % len(exprs))
    if ok:
        # group expressions of equal result type (list flt / list bool) into one Eval each
        groups = {}
        for i, (e, (ck, mt)) in enumerate(zip(exprs, meta)):
            groups.setdefault(isinstance(mt[3], bool), []).append(i)
        gexprs, gidx = [], []
        for _, idx in sorted(groups.items()):
            for j in range(0, len(idx), 25):
                part = idx[j:j + 25]
                gexprs.append('[' + '; '.join(exprs[i] for i in part) + ']')
                gidx.append(part)
        gres = ctx.coq_eval(['MPyC.Flt'], gexprs, chunk=max(4, len(gexprs) // 12 + 1))
        res = [None] * len(exprs)
        for r, part in zip(gres, gidx):
            for k, i in enumerate(part):
                res[i] = r if (isinstance(r, tuple) and r and r[0] == 'ERROR') else r[k]
        mism = 0
        for r, (ck, (mode, job, rec, got)) in zip(res, meta):
            if isinstance(r, tuple) and r and r[0] == 'ERROR':
                mism += 1
                ctx.broken.append({'kind': 'correspondence', 'what': 'coq evaluation failed', 'detail': r[1]})
                continue
            r = to_py(r)
            good = got in r
            if not good:
                mism += 1
                if len(ctx.broken) < 50:
                    ctx.broken.append({'kind': 'correspondence', 'what': rec['op'], 'type': [ck.s, ck.E], 'config': ck.cfg,
                                       'job': repr(job), 'rec': rec, 'model': repr(r)[:300], 'impl': got})
        ctx.extra['traces_validated_against_impl'] = len(exprs) - mism
        ctx.log('model/implementation disagreements: %d of %d' % (mism, len(exprs)))
    ctx.notes.append('division: implementation oracle only (reciprocal not modelled)')
    if ctx.broken and not ctx.violations:
        ctx.unproved('C05 model/proof', {'broken': ctx.broken[:5]})
