"""C03 — fixed-point integrality flags are never wrong; results never depend on a false mark.

1. The flag-rule table is REGENERATED from /repo's source (harness/gen_flag_rules.py ->
   coq/gen/FlagRules.v) and the generated obligations are compiled by coqc:
     gen/FlagOblig.v  rule_no_other (every flag expression recognised) and modelled_* (the
                      rules proved sound in theories/Fxp.v are the rules in the source);
     gen/FlagCover.v  rule_consults_all = forallb site_ok: a rule setting the flags of a result (i) consults
                      ALL elements of every list it reads, (ii) consults EVERY secret operand of the
                      result (the parameters passed to gather; an operand is exempt only if every caller
                      guards its integrality), (iii) is evaluated on the operands as they are when
                      their shares are taken (no assignment mixing another parameter into an operand
                      between the rule and the gather).
2. Proofs: coq/props/C03.v (flag soundness per scalar operation, skip_trunc_safe, ...).
3. SEARCH: for every site failing rule_consults_all, the minimal program is synthesised from the
   rule (list with integral elements exactly at the consulted indices, through that operation,
   then a multiplication) and run on the implementation: flag true with a non-whole value, or a
   wrong product, is the failing input.
   Also: every party inputs its OWN value (flags must not depend on the local value), and rules
   granting integrality to public-int list operands are run with public ints.
   Exhaustive streams (quick tier): ALL 2^n whole/fractional layouts, n = 1..7, of prod / sum /
   in_prod (n <= 5: min, max, vector_add/sub, schur_prod, scalar_mul, if_else on lists), value and
   flag checked; constructor stream secfxp(k +- d) (d around 2^-(f+1), 2^-f, 1e-9 k, ...) on six
   types: flag => stored value whole, stored = round(v 2^f), following products right; the
   constructor's inference source must be the recognised (int -> True, float -> is_integer()) form.
   NumPy sites: the np_* rules are in the table (np_left_shift tied to the proved rule); a NumPy
   stream (subprocess under /verif/.venv-np, m=1 and m=3) runs shifts by arrays of mixed amounts,
   elementwise ops, update/concatenate/stack/fromlist/tolist/sum/... on whole/fractional/mixed arrays,
   each followed by a multiplication by a fraction.  random_bits(secfxp, n, signed) is checked to be
   exactly 0/1 resp. +-1, marked integral, at m=1 and m=3 with PRSS on/off.
   Secure floats: SecureFloat.__init__ must build the significand with integral=False (table entry
   tied by gen/FlagOblig.v); construction stream and own-value inputs at m=3 (marks at every party).
4. Random fixed-point programs over scalars and MIXED-integrality lists through the
   flag-setting operations: after each result, flag true => whole number (value opened), value
   against an exact oracle; flags and values of the modelled operations are compared with the
   Coq model (vm_compute) exactly (value = model for one of the two rounding bits).
"""
import os, re, json
from fractions import Fraction as Fr
from lib.core import zlit, blit, sh, COQ, COQFLAGS, BuildLock

MANIFEST = {
    'text': 'Coq: for neg/pos/add/sub/mul(secure|int|float)/lshift/sum/in_prod the integrality rule of the source implies '
            '2^f | result when consulted operand flags are sound (flag_sound_op, sound_mul), and with sound flags the in-place '
            '>>f that replaces a truncation is the exact division (skip_trunc_safe, rsh_exact, in_prod_skip_safe); elementwise '
            'list operations are sound under an all-elements rule and refuted under the first-element rule '
            '(first_rule_refuted, false_mark_changes_product). Tie: the rule table of all 90+ flag-setting sites is regenerated '
            'from the source by an ast translator each run; Coq checks that the modelled rules equal the table entries and that '
            'every list-valued site consults all elements (after repairs 9bcd50d/4609d39 only runtime._distribute fails); failing '
            'sites are turned into concrete failing programs.',
    'note': 'Trusted: Coq kernel+vm_compute; ast translator (fail-closed: unrecognised expressions become Other and fail '
            'rule_no_other); scaled-integer model of mul/trunc (field wrap-around excluded by in-range hypotheses). NumPy array '
            'sites are translated (one flag per array) but not executed (/venv has no NumPy). Sites with constant-true rules '
            '(sgn, lsb, to_bits, random bits, unit vectors, indexOf) are checked dynamically only. Guards (raise unless '
            'integral) are listed, not part of the list obligation. prod (per-level integrality list) is not modelled in Coq: '
            'all 2^n whole/fractional layouts for n<=7 are enumerated against the exact product instead; pow chains, division: '
            'dynamic only. The constructor inference is checked by source form + a value stream around whole numbers. '
            'flag_sound_prog (induction over whole programs) is not stated: soundness is proved per operation (sound_mul etc. are '
            'preservation lemmas). Findings: F-C03-2..10 (first-element rule at _reshare, vector_add, vector_sub, scalar_mul, '
            '_if_else_list, _if_swap_list, schur_prod, matrix_prod, random_derangement) repaired in /repo by 9bcd50d; F-C03-12/13 '
            '(vector_add/vector_sub adding public ints unscaled while marking the result integral) repaired by 4609d39; their table '
            'entries are now all-elements rules and vector_add/vector_sub are checked against the proved rule. OPEN: F-C03-14 (np_sum '
            'ignores the integrality of `initial`; NumPy path, probed under /verif/.venv-np), F-C03-1 '
            '(mpc.input/_distribute still takes the flag of every list element from x[0]) and F-C03-11 (mpc.input takes the flag of '
            'all received sharings from the local party\'s own value, parties disagree).',
    'technique': 'Coq proof over scaled-integer model + regenerated rule table with compiled coverage obligation + synthesised witness programs',
}

TYPES = [(32, 16), (16, 8), (24, 5), (64, 32), (8, 4)]


def quiet_close(sim):
    """close() cancels tasks of never-awaited intermediate results; keep their tracebacks out of the log"""
    try:
        sim.loop.set_exception_handler(lambda loop, context: None)
    except Exception:  # noqa
        pass
    sim.close()


def run_limited(sim, prog, secs, **kw):
    """sim.run with a wall-clock limit (an exception inside an MPyC coroutine can leave the simulator's
    round loop spinning); returns None on timeout."""
    import signal

    def onalarm(signum, frame):
        raise TimeoutError('sim.run exceeded %ds' % secs)
    old = signal.signal(signal.SIGALRM, onalarm)
    signal.alarm(secs)
    try:
        return sim.run(prog, **kw)
    except TimeoutError:
        return None
    finally:
        signal.alarm(0)
        signal.signal(signal.SIGALRM, old)


def flatten(z):
    if isinstance(z, (list, tuple)):
        out = []
        for a in z:
            out += flatten(a)
        return out
    return [z]


def expr_names(e, kind):
    if not isinstance(e, (tuple, list)):
        return []
    out = []
    if e[0] == kind:
        out.append(tuple(e[1:]))
    for x in e[1:]:
        if isinstance(x, (tuple, list)):
            out += expr_names(x, kind)
    return out


# --------------------------------------------------------------------------------------------
# SEARCH: synthesise the minimal program of a failing site

def site_reasons(site):
    """Why a site fails the obligation (python mirror of Fxp.site_ok, used for signatures and synthesis):
    list of ('elements', x) | ('operand', p) | ('late', p, q)."""
    e = site['expr']
    out = []
    names = {x for (x, k) in expr_names(e, 'Idx')}
    alls = {x for (x,) in expr_names(e, 'AllOf')}
    lit = site['dims'][-1] if site['dims'] and isinstance(site['dims'][-1], int) and site['dims'][-1] > 0 else None
    for x in sorted(names - alls):
        ks = {k for (y, k) in expr_names(e, 'Idx') if y == x}
        if not (lit and all(i in {k % lit for k in ks} for i in range(lit))):
            out.append(('elements', x))
    reads = bool(expr_names(e, 'Idx') or expr_names(e, 'AllOf') or expr_names(e, 'Elem') or expr_names(e, 'Other'))
    if reads:
        mentioned = names | alls | {a for (a,) in expr_names(e, 'Elem')}
        for p in site['operands']:
            if p not in site['exempt'] and p not in mentioned:
                out.append(('operand', p))
    for lt in site['late']:
        p, q = lt.split('<-')
        out.append(('late', p, q))
    return out


def _input_delegate():
    """Name of the private Runtime method that Runtime.input hands its values to (`_distribute` in the pinned source).
    Findings at that site are identified by the public call site (mpc.input), so that renaming the private helper
    does not turn a listed finding into a new one.  None unless Runtime.input calls exactly one private method."""
    import ast
    from lib.core import REPO
    try:
        tree = ast.parse(open(os.path.join(REPO, 'mpyc', 'runtime.py')).read())
        cls = next(n for n in tree.body if isinstance(n, ast.ClassDef) and n.name == 'Runtime')
        fn = next(n for n in cls.body if isinstance(n, (ast.FunctionDef, ast.AsyncFunctionDef)) and n.name == 'input')
        methods = {n.name for n in cls.body if isinstance(n, (ast.FunctionDef, ast.AsyncFunctionDef))}
        called = {c.func.attr for c in ast.walk(fn) if isinstance(c, ast.Call) and isinstance(c.func, ast.Attribute)
                  and isinstance(c.func.value, ast.Name) and c.func.value.id == 'self'
                  and c.func.attr.startswith('_') and c.func.attr in methods}
        return called.pop() if len(called) == 1 else None
    except Exception:
        return None


INPUT_DELEGATE = _input_delegate()
INPUT_SITE = 'input/delegate' if INPUT_DELEGATE else '_distribute'


def site_label(fn):
    return INPUT_SITE if INPUT_DELEGATE and fn == INPUT_DELEGATE else fn


def site_sig(site, reasons):
    fn = site_label(site['func'].split('.')[-1])
    r = reasons[0] if reasons else ('elements', '?')
    if r[0] == 'elements':
        first_only = all(k == 0 for (_, k) in expr_names(site['expr'], 'Idx'))
        return ('flag-first-element site=%s' % fn) if first_only else \
            ('flag-partial-elements site=%s idx=%s' % (fn, sorted({k for (_, k) in expr_names(site['expr'], 'Idx')})))
    if r[0] == 'operand':
        return 'flag-operand-not-consulted site=%s operand=%s' % (fn, r[1])
    return 'flag-before-modification site=%s operand=%s by=%s' % (fn, r[1], r[2])


def synth_args(site, secfxp, f, variant, bad=(), sval=1, badkind='secure'):
    """Arguments for the site's function: list operands get integral elements exactly at the
    consulted indices (so the rule says 'integral'), non-integral elsewhere; operands in `bad`
    (not consulted by the rule / mixed in after the rule was evaluated) are fractional; scalar
    operands of unknown role (e.g. a condition) take the value sval."""
    idx = {}
    for (x, k) in expr_names(site['expr'], 'Idx'):
        idx.setdefault(x, set()).add(k)
    allof = {x for (x,) in expr_names(site['expr'], 'AllOf')}
    elems = {a for (a,) in expr_names(site['expr'], 'Elem')}
    n = 2 + variant
    lists = [p for p in site['params'] if p in idx or p in allof]
    depth0 = max([site['depth'].get(p, 1) for p in lists] or [0])
    args, kwargs, desc = [], {}, []
    for pj, pname in enumerate(site['params']):
        eps = (3 + 4 * pj) * 2.0 ** -f
        required = pname in site['required']
        if pname == 'self':
            continue
        if pname in bad:
            if lists and pname in site.get('listlike', []):
                val = [eps * (i + 1) + 0.25 for i in range(n)]
                if depth0 >= 2:
                    val = [[eps * (i + j + 1) + 0.25 for j in range(n)] for i in range(n)]
                    obj = [[secfxp(v) for v in r] for r in val]
                else:
                    obj = [secfxp(v) for v in val]
            else:
                val = 0.25 + eps
                obj = secfxp(val) if badkind == 'secure' else val
            desc.append((pname, val if isinstance(val, list) or badkind != 'secure' else 'secfxp(%r)' % val))
            if required:
                args.append(obj)
            else:
                kwargs[pname] = obj
            continue
        if not required:
            continue
        if pname in idx:
            ks = {k % n for k in idx[pname]}
            depth = site['depth'].get(pname, 1)
            row = [2.0 if i in ks else eps * (i + 1) for i in range(n)]
            if depth >= 2:
                val = [[(2.0 if (i in ks and j in ks) else eps * (i + j + 1)) for j in range(n)] for i in range(n)]
                args.append([[secfxp(v) for v in r] for r in val])
            else:
                val = row
                args.append([secfxp(v) for v in row])
            desc.append((pname, val))
        elif pname in allof:
            if depth0 >= 2 or site['depth'].get(pname, 1) >= 2:
                val = [[2.0, 1.0, 3.0][:n] for _ in range(n)]
                args.append([[secfxp(v) for v in r] for r in val])
            else:
                val = [2.0, 1.0, 3.0][:n]
                args.append([secfxp(v) for v in val])
            desc.append((pname, val))
        elif pname in elems:
            args.append(secfxp(sval))
            desc.append((pname, sval))
        elif pname == 'senders':
            args.append([0])
            desc.append((pname, [0]))
        elif pname in ('sectype', 'sftype', 'stype'):
            args.append(secfxp)
            desc.append((pname, 'secfxp'))
        else:   # unknown role: an integral scalar (e.g. the condition of _if_else_list)
            args.append(secfxp(sval))
            desc.append((pname, sval))
    return args, kwargs, desc


NP_PROBE = r'''
import sys, json
repo, fn, l, f, arrs, bad = sys.argv[1], sys.argv[2], int(sys.argv[3]), int(sys.argv[4]), json.loads(sys.argv[5]), json.loads(sys.argv[6])
sys.argv = ['x', '--no-log']
sys.path.insert(0, repo)
from mpyc.runtime import mpc
import numpy as np
mpc.run(mpc.start())
secfxp = mpc.SecFxp(l, f)
kw = {p: secfxp.array(np.array([1.0, 2.0])) for p in arrs}
kw.update({p: 0.25 + 3 * 2.0 ** -f for p in bad})
z = getattr(mpc, fn)(**kw)
flag = bool(z.integral)
v = mpc.run(mpc.output(z, raw=True))
vals = [int(x) for x in (v.flatten().tolist() if hasattr(v, 'flatten') else [v])] if not isinstance(v, list) else [int(x) for x in v]
print('RESULT ' + json.dumps({'flag': flag, 'vals': [int(getattr(x, 'value', x)) for x in vals], 'kw': {p: str(kw[p])[:40] for p in kw}}))
'''


def np_probe(site, bad):
    """NumPy-array site: run the operation in the NumPy interpreter (/verif/.venv-np): consulted array
    operands whole, the operands in `bad` a public fraction. Returns (hit-detail | None, problem | None)."""
    import subprocess
    from lib.core import PYNP, REPO
    if not os.path.exists(PYNP):
        return None, 'no NumPy interpreter at %s' % PYNP
    fn = site['func'].split('.')[-1]
    arrs = [a for (a,) in expr_names(site['expr'], 'Elem') if a in site['params']]
    l, f = 32, 16
    try:
        p = subprocess.run([PYNP, '-c', NP_PROBE, REPO, fn, str(l), str(f), json.dumps(arrs), json.dumps(sorted(bad))],
                           stdout=subprocess.PIPE, stderr=subprocess.PIPE, text=True, timeout=120)
    except Exception as exc:  # noqa
        return None, repr(exc)[:200]
    line = [x for x in p.stdout.split('\n') if x.startswith('RESULT ')]
    if p.returncode or not line:
        return None, (p.stderr or p.stdout)[-300:]
    r = json.loads(line[-1][7:])
    wrong = [v for v in r['vals'] if r['flag'] and v % 2 ** f]
    if wrong:
        return {'site': site['key'], 'function': site['func'], 'rule': site['expr'], 'type': [l, f],
                'inputs': {**{a: 'secfxp.array([1., 2.])' for a in arrs}, **{b: 0.25 + 3 * 2.0 ** -f for b in bad}},
                'result_scaled': r['vals'], 'result_flag': r['flag'], 'wrong': 'flag true, value not whole'}, None
    return None, 'probe ran without a wrong flag: %s' % r


def run_search(ctx, Sim, failing, sites):
    """For each failing site: synthesise + run; returns {key: found_bool}."""
    found = {}
    for key in failing:
        site = next(s for s in sites if s['key'] == key)
        fn = site['func'].split('.')[-1]
        modname = 'mpyc.' + site['file'][:-3]
        reasons = site_reasons(site)
        sig = site_sig(site, reasons)
        bad = {r[1] for r in reasons if r[0] == 'operand'} | {r[2] for r in reasons if r[0] == 'late'}
        hit = None
        problems = []
        if fn.startswith('np_') or fn.startswith('_np_'):
            hit, prob = np_probe(site, bad)
            ctx.case({'search': key, 'np': True}, nontrivial=True, kind='search')
            if prob:
                problems.append(prob)
            variants = []
        else:
            variants = [(l, f, variant, sval, badkind) for (l, f) in [(32, 16), (16, 8)] for variant in (0, 1)
                        for sval in ((1, 0) if (bad or not reasons) else (1,))
                        for badkind in (('float', 'secure') if bad else ('secure',))]
        for (l, f, variant, sval, badkind) in variants:
            rec = {}

            async def prog(mpc, mods, pid, l=l, f=f, variant=variant, sval=sval, badkind=badkind, rec=rec):
                secfxp = mpc.SecFxp(l, f)
                args, kwargs, desc = synth_args(site, secfxp, f, variant, bad, sval, badkind)
                rec['desc'] = desc
                target = getattr(mpc, fn, None) if site['func'].startswith('Runtime.') else \
                    getattr(mods[modname], fn, None)
                if target is None:
                    rec['nosynth'] = 'function %s not reachable' % site['func']
                    return
                try:
                    z = target(*args, **kwargs)
                    if hasattr(z, '__await__') and not isinstance(z, list):
                        z = await z
                    zs = [a for a in flatten(z) if isinstance(a, mpc.SecureFixedPoint)]
                    half = secfxp(secfxp.field(2 ** (f - 1) + 1), integral=False)
                    outs = []
                    for a in zs:
                        v = int(await mpc.output(a, raw=True))
                        w = None
                        if abs(v) < 2 ** (l - 2):
                            w = int(await mpc.output(a * half, raw=True))
                        outs.append((v, bool(a.integral), w))
                    rec['outs'] = outs
                except Exception as exc:  # noqa
                    rec['exc'] = repr(exc)[:200]
            sim = Sim(m=1, t=0, seed=ctx.seed)
            try:
                sim.start()
                r = run_limited(sim, prog, 600, idle_limit=3000, spins=20)
            finally:
                quiet_close(sim)
            ctx.case({'search': key, 'type': [l, f], 'variant': [variant, sval, badkind]}, nontrivial=True, kind='search')
            if r is None or 'nosynth' in rec or 'exc' in rec or r[0] is not None:
                problems.append({k: rec.get(k) for k in ('nosynth', 'exc')} | {'run': str(r and r[0])[:200]})
                continue
            for (v, flag, w) in rec['outs']:
                bad_flag = flag and v % 2 ** f != 0
                bad_prod = w is not None and abs(w * 2 ** f - v * (2 ** (f - 1) + 1)) >= 2 ** f
                if bad_flag or bad_prod:
                    hit = {'site': key, 'function': site['func'], 'rule': site['expr'], 'reasons': reasons, 'type': [l, f],
                           'inputs': rec['desc'], 'result_scaled': v, 'result_flag': flag,
                           'times_(0.5+2^-f)_scaled': w, 'times_exact_scaled': str(Fr(v * (2 ** (f - 1) + 1), 2 ** f)),
                           'wrong': 'flag true, value not whole' if bad_flag else 'product wrong'}
                    break
            if hit:
                break
        if hit:
            ctx.violation(sig, hit)
            found[key] = True
            ctx.log('search: %s %s -> failing input found (%s)' % (key, reasons, hit['wrong']))
        else:
            found[key] = False
            ctx.broken.append({'kind': 'obligation', 'what': 'rule_consults_all fails at %s %s' % (key, reasons),
                               'search': problems[:3] or 'synthesised programs ran without a wrong flag/product'})
            ctx.log('search: %s %s -> no failing input (%s)' % (key, reasons, problems[:1]))
    return found


# --------------------------------------------------------------------------------------------
# random programs

class _Skip(Exception):
    pass


def in_range(l, f, op, ins, extra):
    """Every operand, every difference fed to a comparison and every (intermediate) result of the
    operation stays inside the documented range of SecFxp(l,f): operands and results |X| < 2^(l-2)
    (so |a - b| < 2^(l-1)), raw products < 2^(l-2) * 2^f."""
    U = 2 ** f
    lim = 2 ** (l - 2)
    if any(abs(v) >= lim for v, _ in leaves(ins)):
        return False
    exp = oracle({'t': [l, f], 'op': op, 'ins': ins, 'extra': extra})
    for kind, x in (exp or []):
        if kind == 'exact' and abs(x) >= lim:
            return False
        if kind == 'unit' and abs(x) >= lim * U:
            return False
        if kind == 'pow':
            X, n = x
            if max(U, abs(X)) ** n >= lim * U ** n:
                return False
        if kind == 'prod':
            p = 1
            for t in x:
                p *= max(U, abs(t))
            if p >= lim * U ** len(x):
                return False
    if op in ('in_prod', 'matrix_prod', 'schur_prod', 'scalar_mul'):     # sums of absolute products as well
        vs = [abs(v) for v, _ in leaves(ins)]
        if sum(vs) * max(vs + [U]) >= lim * U:
            return False
    return True


def make_prog(l, f, seed, nops, records, use_input):
    import random as _random
    U = 2 ** f
    LIM = 2 ** (l - 2)

    async def prog(mpc, mods, pid):
        rng = _random.Random(seed)      # one generator per party, same seed: parties stay in lockstep
        secfxp = mpc.SecFxp(l, f)
        secint = mpc.SecInt(l)
        seclist = mods['mpyc.seclists'].seclist
        mrandom = mods['mpyc.random']
        rec_on = pid == 0

        async def op_out(name, ins, z, extra=None):
            zs = flatten(z)
            zs = [a for a in zs]
            vals, flags = [], []
            for a in zs:
                vals.append(int(await mpc.output(a, raw=True)))
                flags.append(bool(a.integral))
            if rec_on:
                records.append({'t': [l, f], 'op': name, 'ins': ins, 'vals': vals, 'flags': flags, 'extra': extra})
            return [(a, v, fl) for a, v, fl in zip(zs, vals, flags)]

        def fresh_scalar():
            kind = rng.random()
            mag = rng.choice([m_ for m_ in (1, 2, 3, 7) if m_ * U < 2 ** (l - 3)] or [1])
            if kind < 0.4:
                v = rng.randint(-mag, mag)
                return secfxp(v), v * U, True
            if kind < 0.55:
                v = float(rng.randint(-mag, mag))
                return secfxp(v), int(v) * U, True
            k = rng.randint(-mag * U, mag * U)
            if rng.random() < 0.3:
                k = rng.choice([1, -1, 3, U - 1, U + 1, -U - 1])
            v = k / U
            a = secfxp(v)
            return a, k, (k % U == 0)

        pool = []      # (obj, scaled value, flag)
        for _ in range(6):
            a, v, fl = fresh_scalar()
            if use_input:
                a = mpc.input(a, senders=0)
            got = await op_out('new', [[v, fl]], a)
            pool.append(got[0])

        def pick():
            c = rng.choice(pool)
            return c

        def pick_list(n, mixed=None):
            xs = []
            for i in range(n):
                c = pick()
                xs.append(c)
            if mixed:
                ints = [c for c in pool if c[2]]
                nons = [c for c in pool if not c[2] and c[1] % U]
                if ints and nons:
                    xs[0] = rng.choice(ints)
                    xs[rng.randrange(1, n)] = rng.choice(nons)
                    if rng.random() < 0.5:
                        xs.reverse()
            return xs

        def small(c, b=8):
            return abs(c[1]) <= b * U

        def guard(op_, ins_, extra_=None):
            if not in_range(l, f, op_, ins_, extra_):
                raise _Skip()

        for step in range(nops):
            op = rng.choice(OPS)
            if os.environ.get('C03_DEBUG'):
                print('op', step, op, flush=True)
            try:
                new = []
                if op in ('neg', 'pos', 'abs', 'sgn', 'lsb_flag', 'is_zero'):
                    a = pick()
                    guard(op, [[a[1], a[2]]])
                    z = {'neg': lambda: -a[0], 'pos': lambda: +a[0], 'abs': lambda: mpc.abs(a[0]),
                         'sgn': lambda: mpc.sgn(a[0]), 'lsb_flag': lambda: mpc.lsb(a[0]),
                         'is_zero': lambda: mpc.is_zero(a[0])}[op]()
                    new = await op_out(op, [[a[1], a[2]]], z)
                elif op in ('add', 'sub', 'mul', 'lt', 'eq', 'ge', 'min2', 'max2', 'if_else', 'if_swap'):
                    a, b = pick(), pick()
                    if rng.random() < 0.15:
                        b = a
                    if op == 'mul' and not (small(a) and small(b)):
                        continue
                    guard(op, [[a[1], a[2]], [b[1], b[2]]])
                    if op in ('if_else', 'if_swap'):
                        c = a[0] < b[0]
                        z = mpc.if_else(c, a[0], b[0]) if op == 'if_else' else mpc.if_swap(c, a[0], b[0])
                    else:
                        z = {'add': lambda: a[0] + b[0], 'sub': lambda: a[0] - b[0], 'mul': lambda: a[0] * b[0],
                             'lt': lambda: a[0] < b[0], 'eq': lambda: a[0] == b[0], 'ge': lambda: a[0] >= b[0],
                             'min2': lambda: mpc.min(a[0], b[0]), 'max2': lambda: mpc.max(a[0], b[0])}[op]()
                    new = await op_out(op, [[a[1], a[2]], [b[1], b[2]]], z)
                elif op in ('add_int', 'mul_int', 'rmul_int', 'rsub_int'):
                    a = pick()
                    n = rng.choice([0, 1, -1, 2, 3, -5])
                    if op != 'add_int' and op != 'rsub_int' and not small(a, 64):
                        continue
                    guard(op, [[a[1], a[2]]], n)
                    z = {'add_int': lambda: a[0] + n, 'mul_int': lambda: a[0] * n, 'rmul_int': lambda: n * a[0],
                         'rsub_int': lambda: n - a[0]}[op]()
                    new = await op_out(op, [[a[1], a[2]]], z, extra=n)
                elif op in ('mul_float', 'add_float'):
                    a = pick()
                    if not small(a, 64):
                        continue
                    b = rng.choice([0.5, 0.375, 2.0, -3.0, 0.1, 1 / 3, 1.0, 0.0, 2.0 ** -f, 1.25, -0.75, 3 * 2.0 ** -f])
                    guard(op, [[a[1], a[2]]], round(b * U))
                    z = a[0] * b if op == 'mul_float' else a[0] + b
                    new = await op_out(op, [[a[1], a[2]]], z, extra=round(b * U))
                elif op == 'lshift':
                    a = pick()
                    k = rng.choice([0, 1, 2, f - 1, f, f + 1])
                    if abs(a[1]) * 2 ** k >= LIM:
                        continue
                    guard(op, [[a[1], a[2]]], k)
                    new = await op_out(op, [[a[1], a[2]]], mpc.lshift(a[0], k), extra=k)
                elif op == 'pow':
                    a = pick()
                    n = rng.choice([1, 2, 3, 4, 5])
                    if not small(a, 2):
                        continue
                    guard(op, [[a[1], a[2]]], n)
                    new = await op_out(op, [[a[1], a[2]]], a[0] ** n, extra=n)
                elif op in ('sum', 'prod', 'min', 'max', 'sorted'):
                    xs = pick_list(rng.randint(2, 4), mixed=rng.random() < 0.6)
                    if os.environ.get('C03_DEBUG'):
                        print('  list', [(c[1], c[2], id(c[0])) for c in xs], flush=True)
                    if op == 'prod' and not all(small(c, 3) for c in xs):
                        continue
                    guard(op, [[c[1], c[2]] for c in xs])
                    z = {'sum': mpc.sum, 'prod': mpc.prod, 'min': mpc.min, 'max': mpc.max, 'sorted': mpc.sorted}[op]([c[0] for c in xs])
                    new = await op_out(op, [[c[1], c[2]] for c in xs], z)
                elif op in ('in_prod', 'vector_add', 'vector_sub', 'schur_prod', 'if_else_list', 'if_swap_list'):
                    n = rng.randint(2, 3)
                    mixed = rng.random() < 0.6
                    xs, ys = pick_list(n, mixed), pick_list(n, mixed and rng.random() < 0.5)
                    if rng.random() < 0.15:
                        ys = xs
                    if op in ('in_prod', 'schur_prod') and not all(small(c) for c in xs + ys):
                        continue
                    guard('vector_add' if op.startswith('if_') else op, [[[c[1], c[2]] for c in xs], [[c[1], c[2]] for c in ys]])
                    X, Y = [c[0] for c in xs], [c[0] for c in ys]
                    ex = None
                    if op in ('if_else_list', 'if_swap_list'):
                        a, b = pick(), pick()
                        guard('lt', [[a[1], a[2]], [b[1], b[2]]])
                        c = a[0] < b[0]
                        ex = int(a[1] < b[1])
                        z = mpc.if_else(c, X, Y) if op == 'if_else_list' else mpc.if_swap(c, X, Y)
                    else:
                        z = getattr(mpc, op)(X, Y)
                    new = await op_out(op, [[[c[1], c[2]] for c in xs], [[c[1], c[2]] for c in ys]], z, extra=ex)
                elif op == 'scalar_mul':
                    a = pick()
                    xs = pick_list(rng.randint(2, 3), mixed=rng.random() < 0.6)
                    if not (small(a) and all(small(c) for c in xs)):
                        continue
                    guard(op, [[a[1], a[2]], [[c[1], c[2]] for c in xs]])
                    z = mpc.scalar_mul(a[0], [c[0] for c in xs])
                    new = await op_out(op, [[a[1], a[2]], [[c[1], c[2]] for c in xs]], z)
                elif op == 'matrix_prod':
                    A = [pick_list(2, mixed=rng.random() < 0.6) for _ in range(2)]
                    B = [pick_list(2, mixed=rng.random() < 0.4) for _ in range(2)]
                    if not all(small(c) for r in A + B for c in r):
                        continue
                    guard(op, [[[[c[1], c[2]] for c in r] for r in A], [[[c[1], c[2]] for c in r] for r in B]])
                    z = mpc.matrix_prod([[c[0] for c in r] for r in A], [[c[0] for c in r] for r in B])
                    new = await op_out(op, [[[[c[1], c[2]] for c in r] for r in A], [[[c[1], c[2]] for c in r] for r in B]], z)
                elif op == 'input_list':
                    vals = []
                    objs = []
                    for _ in range(rng.randint(2, 3)):
                        a, v, fl = fresh_scalar()
                        objs.append(a)
                        vals.append([v, fl])
                    if rng.random() < 0.6:
                        objs[0], vals[0] = secfxp(2), [2 * U, True]
                        objs[-1], vals[-1] = secfxp(3 / U), [3, False]
                        if rng.random() < 0.5:
                            objs.reverse()
                            vals.reverse()
                    z = mpc.input(objs, senders=0)
                    new = await op_out(op, [vals], z)
                elif op == 'convert':
                    nmax = max(1, min(9, 2 ** (l - f - 2) - 1))
                    n = rng.randint(-nmax, nmax)
                    z = mpc.convert(mpc.input(secint(n), senders=0), secfxp)
                    new = await op_out(op, [], z, extra=n)
                elif op == 'to_bits':
                    a = pick()
                    guard('neg', [[a[1], a[2]]])
                    bits = mpc.to_bits(a[0])
                    new = await op_out(op, [[a[1], a[2]]], bits)
                    nb = max(1, min(6, l - f - 3))        # integer bits only, value below 2^(l-f-3)
                    z = mpc.from_bits(bits[f:f + nb])
                    new2 = await op_out('from_bits', [[c[1], c[2]] for c in new[f:f + nb]], z)
                    new = new2
                elif op == 'seclist_get':
                    xs = pick_list(3, mixed=rng.random() < 0.6)
                    guard('sum', [[c[1], c[2]] for c in xs])
                    i = rng.randrange(3)
                    s = seclist([c[0] for c in xs], secfxp)
                    z = s[mpc.input(secfxp(i), senders=0)]
                    new = await op_out(op, [[c[1], c[2]] for c in xs], z, extra=i)
                elif op == 'random':
                    which = rng.choice(['randrange', 'unit', 'bits', 'getrandbits'])
                    if which == 'randrange':
                        z = mrandom.randrange(secfxp, 1, min(7, 2 ** (l - f - 2)))
                    elif which == 'unit':
                        z = mrandom.random_unit_vector(secfxp, 4)
                    elif which == 'bits':
                        z = mpc.random_bits(secfxp, 3)
                    else:
                        z = mrandom.getrandbits(secfxp, min(3, l - f - 3))
                    new = await op_out(op, [], z, extra=which)
                else:
                    continue
                for c in new:
                    sound = (not c[2]) or c[1] % U == 0
                    if sound and abs(c[1]) < min(64 * U, 2 ** (l - 3)) and len(pool) < 40:
                        pool.append(c)
            except _Skip:
                continue
            except Exception as exc:  # noqa
                if rec_on:
                    records.append({'t': [l, f], 'op': op, 'exc': repr(exc)[:200]})
        return len(records)
    return prog


OPS = ['neg', 'pos', 'abs', 'sgn', 'lsb_flag', 'is_zero', 'add', 'sub', 'mul', 'mul', 'lt', 'eq', 'ge', 'min2', 'max2',
       'if_else', 'if_swap', 'add_int', 'mul_int', 'rmul_int', 'rsub_int', 'mul_float', 'mul_float', 'add_float', 'lshift',
       'pow', 'sum', 'prod', 'min', 'max', 'sorted', 'in_prod', 'in_prod', 'vector_add', 'vector_sub', 'schur_prod',
       'if_else_list', 'if_swap_list', 'scalar_mul', 'matrix_prod', 'input_list', 'convert', 'to_bits', 'seclist_get',
       'random']

# list operation (as named in the random programs) -> runtime function holding its flag rule
LIST_FN = {'vector_add': 'vector_add', 'vector_sub': 'vector_sub', 'schur_prod': 'schur_prod', 'scalar_mul': 'scalar_mul',
           'if_else_list': '_if_else_list', 'if_swap_list': '_if_swap_list', 'matrix_prod': 'matrix_prod',
           'input_list': INPUT_DELEGATE or '_distribute', 'sum': 'sum', 'prod': 'prod', 'in_prod': 'in_prod'}


def leaves(ins):
    """[(value, flag)] of all operands in a nested 'ins' description."""
    if isinstance(ins, list) and len(ins) == 2 and isinstance(ins[1], bool):
        return [tuple(ins)]
    out = []
    for x in ins:
        out += leaves(x)
    return out


def is_mixed_list(lst):
    fl = [x[1] for x in leaves(lst)]
    return len(set(fl)) > 1


def oracle(rec):
    """Exact expectation for one record: returns list of (lo, hi) bounds on value*2^f ... or None.
    Each entry: ('exact', v) | ('unit', num) meaning |val*U - num| < U | None (flag check only)."""
    l, f = rec['t']
    U = 2 ** f
    op, ins, ex = rec['op'], rec['ins'], rec.get('extra')
    g = lambda i: ins[i][0]
    if op in ('new',):
        return [('exact', g(0))]
    if op == 'neg':
        return [('exact', -g(0))]
    if op == 'pos':
        return [('exact', g(0))]
    if op == 'abs':
        return [('exact', abs(g(0)))]
    if op == 'sgn':
        return [('exact', U * ((g(0) > 0) - (g(0) < 0)))]
    if op == 'is_zero':
        return [('exact', U * int(g(0) == 0))]
    if op == 'lsb_flag':
        return [('bit', None)]
    if op == 'add':
        return [('exact', g(0) + g(1))]
    if op == 'sub':
        return [('exact', g(0) - g(1))]
    if op == 'mul':
        return [('unit', g(0) * g(1))]
    if op == 'lt':
        return [('exact', U * int(g(0) < g(1)))]
    if op == 'eq':
        return [('exact', U * int(g(0) == g(1)))]
    if op == 'ge':
        return [('exact', U * int(g(0) >= g(1)))]
    if op in ('min2', 'if_else'):
        return [('exact', min(g(0), g(1)))]
    if op == 'max2':
        return [('exact', max(g(0), g(1)))]
    if op == 'if_swap':   # if_swap(a<b, a, b) -> (b, a) if a<b else (a, b): larger first
        return [('exact', max(g(0), g(1))), ('exact', min(g(0), g(1)))]
    if op == 'add_int':
        return [('exact', g(0) + ex * U)]
    if op == 'rsub_int':
        return [('exact', ex * U - g(0))]
    if op in ('mul_int', 'rmul_int'):
        return [('exact', g(0) * ex)]
    if op == 'mul_float':
        return [('unit', g(0) * ex)]
    if op == 'add_float':
        return [('exact', g(0) + ex)]
    if op == 'lshift':
        return [('exact', g(0) * 2 ** ex)]
    if op == 'pow':
        return [('pow', (g(0), ex))]
    if op in ('sum', 'sum_start'):
        return [('exact', sum(x[0] for x in ins))]
    if op == 'min':
        return [('exact', min(x[0] for x in ins))]
    if op == 'max':
        return [('exact', max(x[0] for x in ins))]
    if op == 'sorted':
        return [('exact', v) for v in sorted(x[0] for x in ins)]
    if op == 'prod':
        return [('prod', [x[0] for x in ins])]
    if op == 'in_prod':
        return [('unit', sum(a[0] * b[0] for a, b in zip(ins[0], ins[1])))]
    if op == 'vector_add':
        return [('exact', a[0] + b[0]) for a, b in zip(ins[0], ins[1])]
    if op == 'vector_sub':
        return [('exact', a[0] - b[0]) for a, b in zip(ins[0], ins[1])]
    if op == 'schur_prod':
        return [('unit', a[0] * b[0]) for a, b in zip(ins[0], ins[1])]
    if op == 'if_else_list':
        return [('exact', (a if ex else b)[0]) for a, b in zip(ins[0], ins[1])]
    if op == 'if_swap_list':
        xs = [a[0] for a in ins[0]]
        ys = [b[0] for b in ins[1]]
        return [('exact', v) for v in ((ys + xs) if ex else (xs + ys))]
    if op == 'scalar_mul':
        return [('unit', ins[0][0] * x[0]) for x in ins[1]]
    if op == 'matrix_prod':
        A, B = ins
        return [('unit', sum(A[i][k][0] * B[k][j][0] for k in range(2))) for i in range(2) for j in range(2)]
    if op == 'input_list':
        return [('exact', x[0]) for x in ins[0]]
    if op == 'convert':
        return [('exact', ex * U)]
    if op == 'to_bits':
        a = g(0) % 2 ** l
        return [('exact', U * ((a >> i) & 1)) for i in range(l)]
    if op == 'from_bits':
        return [('exact', sum((x[0] // U) << i for i, x in enumerate(ins)) * U)]
    if op == 'seclist_get':
        return [('exact', ins[ex][0])]
    if op == 'random':
        return None
    return None


def check_record(ctx, rec, failing_fns):
    """Property oracle on one implementation record.  Returns number of problems."""
    l, f = rec['t']
    U = 2 ** f
    op = rec['op']
    bad = []
    for i, (v, fl) in enumerate(zip(rec['vals'], rec['flags'])):
        if fl and v % U:
            bad.append(('flag', i, v))
    exp = oracle(rec)
    if exp is not None and len(exp) == len(rec['vals']):
        for i, (e, v) in enumerate(zip(exp, rec['vals'])):
            kind, x = e
            if kind == 'exact' and v != x:
                bad.append(('value', i, v, x))
            elif kind == 'unit' and abs(v * U - x) >= U:
                bad.append(('value', i, v, str(Fr(x, U))))
            elif kind == 'bit' and v not in (0, U):
                bad.append(('value', i, v, 'bit'))
            elif kind == 'pow':
                X, n = x
                ex = Fr(X, U) ** n * U
                if abs(v - ex) > n * (1 + abs(Fr(X, U))) ** (n - 1):
                    bad.append(('value', i, v, str(ex)))
            elif kind == 'prod':
                ex = Fr(1)
                for t in x:
                    ex *= Fr(t, U)
                tol = len(x) * (1 + max(abs(Fr(t, U)) for t in x)) ** (len(x) - 1)
                if abs(v - ex * U) > tol:
                    bad.append(('value', i, v, str(ex * U)))
    elif exp is not None:
        bad.append(('shape', len(rec['vals']), len(exp)))
    if op == 'random':
        for v in rec['vals']:
            if v % U:
                bad.append(('value', 0, v, 'whole'))
    if bad:
        fn = LIST_FN.get(op)
        mixed = fn is not None and any(is_mixed_list(x) for x in rec['ins'] if isinstance(x, list) and x and isinstance(x[0], list)) \
            or (fn is not None and op in ('sum', 'prod', 'min', 'max') and is_mixed_list(rec['ins']))
        if fn in failing_fns and mixed:
            sig = failing_fns[fn]
        else:
            sig = 'flag-wrong op=%s kind=%s' % (op, bad[0][0])
        ctx.violation(sig, {'record': rec, 'problems': bad[:4]})
    return len(bad)


def model_expr(rec, p):
    """Coq expression for the modelled scalar ops: list of (val, flag) per rounding bit."""
    l, f = rec['t']
    op, ins, ex = rec['op'], rec['ins'], rec.get('extra')
    fx = lambda x: '(mkfx %s %s)' % (zlit(x[0]), blit(x[1]))
    out = lambda e: '(let r := %s in (val r, flg r))' % e
    both = lambda mk: '[%s; %s]' % (out(mk('false')), out(mk('true')))
    if op == 'neg' or op == 'pos':
        return '[%s]' % out('fneg (fneg %s)' % fx(ins[0]) if op == 'pos' else 'fneg %s' % fx(ins[0]))
    if op == 'add':
        return '[%s]' % out('fadd %s %s' % (fx(ins[0]), fx(ins[1])))
    if op == 'sub':
        return '[%s]' % out('fsub %s %s' % (fx(ins[0]), fx(ins[1])))
    if op == 'mul':
        return both(lambda b: 'mul %s %s %s %s (Sec %s)' % (zlit(p), zlit(f), b, fx(ins[0]), fx(ins[1])))
    if op in ('mul_int', 'rmul_int'):
        return both(lambda b: 'mul %s %s %s %s (PInt %s)' % (zlit(p), zlit(f), b, fx(ins[0]), zlit(ex)))
    if op == 'mul_float':
        return both(lambda b: 'mul %s %s %s %s (PFloat %s)' % (zlit(p), zlit(f), b, fx(ins[0]), zlit(ex)))
    if op == 'lshift':
        return '[%s]' % out('flshift %s %s %s' % (zlit(f), fx(ins[0]), zlit(ex)))
    if op in ('sum', 'sum_start'):
        return '[%s]' % out('fsum [%s]' % '; '.join(fx(x) for x in ins))
    if op == 'in_prod':
        return both(lambda b: 'in_prod %s %s %s [%s] [%s]' % (zlit(p), zlit(f), b, '; '.join(fx(x) for x in ins[0]),
                                                              '; '.join(fx(x) for x in ins[1])))
    if op == 'pow':
        return 'fpow_all %s %s %s %d%%positive' % (zlit(p), zlit(f), fx(ins[0]), ex)
    return None


def public_int_probe(ctx, Sim, sites):
    """Rules that grant integrality because a list operand consists of PUBLIC ints
    (Pub "isinstance(P[0], int)"): run the operation with public ints for P; flag => whole."""
    for site in sites:
        if site['kind'] == 'guard' or not site['func'].startswith('Runtime.'):
            continue
        pubs = [t for (t,) in expr_names(site['expr'], 'Pub')]
        ps = {m_.group(1) for t in pubs for m_ in [re.match(r'isinstance\((\w+)\[0\], int\)$', t)] if m_}
        ps &= set(site['required'])
        if not ps:
            continue
        fn = site['func'].split('.')[-1]
        for (l, f) in [(32, 16), (16, 8)]:
            rec = {}

            async def prog(mpc, mods, pid, l=l, f=f, rec=rec):
                secfxp = mpc.SecFxp(l, f)
                args = []
                for pname in site['required']:
                    if pname == 'self':
                        continue
                    args.append([2, 3] if pname in ps else [secfxp(1), secfxp(2)])
                try:
                    z = getattr(mpc, fn)(*args)
                    zs = [a for a in flatten(z) if isinstance(a, mpc.SecureFixedPoint)]
                    rec['outs'] = [(int(await mpc.output(a, raw=True)), bool(a.integral)) for a in zs]
                except Exception as exc:  # noqa
                    rec['exc'] = repr(exc)[:200]
            sim = Sim(m=1, t=0, seed=ctx.seed)
            try:
                sim.start()
                run_limited(sim, prog, 600, idle_limit=3000, spins=20)
            finally:
                quiet_close(sim)
            ctx.case({'public_int_probe': site['key'], 'type': [l, f]}, nontrivial=True, kind='public-int-operand')
            bad = [(v, fl) for (v, fl) in rec.get('outs', []) if fl and v % 2 ** f]
            if bad:
                ctx.violation('flag-public-int-operand site=%s' % fn,
                              {'site': site['key'], 'rule': site['expr'], 'type': [l, f],
                               'inputs': {p: ([2, 3] if p in ps else [1, 2]) for p in site['required'] if p != 'self'},
                               'results_scaled_and_flags': rec['outs'],
                               'wrong': 'public ints are added unscaled; result marked integral but not whole'})
                break


def input_flag_test(ctx, Sim):
    """Every party inputs its OWN value; the flags each party attaches to the m received sharings must
    be sound (flag => whole) at every party -- they may not depend on the local party's own value."""
    for (m, t, no_prss, vals) in [(3, 1, False, [0.5, 1.0, 1.5]), (4, 1, False, [0.25, 0.5, 0.75, 1.0]),
                                  (4, 1, True, [0.25, 0.5, 0.75, 1.0]), (3, 1, False, [2.0, 1.0, 3.0])]:
        l, f = 32, 16
        U = 2 ** f

        async def prog(mpc, mods, pid, vals=vals):
            secfxp = mpc.SecFxp(l, f)
            x = mpc.input(secfxp(vals[pid]))
            flags = [bool(a.integral) for a in x]
            opened = [int(await mpc.output(a, raw=True)) for a in x]
            return [flags, opened]
        sim = Sim(m=m, t=t, no_prss=no_prss, seed=ctx.seed + 5)
        try:
            sim.start()
            res = run_limited(sim, prog, 900, idle_limit=400) or ['TIMEOUT']
            ctx.case({'input_flags': vals, 'm': m, 'no_prss': no_prss}, nontrivial=True, kind='input-own-value')
            if any(not isinstance(r, list) for r in res):
                ctx.broken.append({'kind': 'run', 'what': 'input flag program did not complete', 'res': str(res)[:300]})
                continue
            flagsets = [r[0] for r in res]
            wrong = [(p, i) for p, r in enumerate(res) for i, (fl, v) in enumerate(zip(r[0], r[1])) if fl and v % U]
            detail = {'m': m, 't': t, 'no_prss': no_prss, 'own_values': vals, 'flags_per_party': flagsets,
                      'opened_scaled': res[0][1], 'wrong_(party,input)': wrong}
            if wrong:
                # what happens downstream: the product of two inputs (parties disagree on truncation)
                async def prog2(mpc, mods, pid, vals=vals):
                    secfxp = mpc.SecFxp(l, f)
                    x = mpc.input(secfxp(vals[pid]))
                    return int(await mpc.output(x[0] * x[1], raw=True))
                sim2 = Sim(m=m, t=t, no_prss=no_prss, seed=ctx.seed + 6)
                try:
                    sim2.start()
                    r2 = sim2.run(prog2, idle_limit=300)
                finally:
                    quiet_close(sim2)
                detail['product_x0_x1_per_party'] = [str(r)[:60] for r in r2]
                detail['product_exact_scaled'] = str(Fr(res[0][1][0] * res[0][1][1], U))
                differ = any(fs != flagsets[0] for fs in flagsets)
                ctx.violation(('flag-from-local-value site=%s' % INPUT_SITE) if differ else 'flag-wrong op=input-own-value', detail)
        finally:
            quiet_close(sim)


# --------------------------------------------------------------------------------------------
# exhaustive whole/fractional layouts of the n-ary operations

def layout_values(l, f, n, mask, shift=0):
    """Scaled values for one layout: bit i of mask set -> position i whole, else fractional.
    Small magnitudes so that every product of up to 7 factors stays in range."""
    U = 2 ** f
    W = [2, -1, 1, 1, -2, 1, 2, -1, 3]
    F = [U + U // 10 + 1, U - U // 10 - 1, -(U + U // 4) - 1, U - U // 4 + 1, U // 2 + 3, -(U - 3), U + 5, 3, U + U // 3]
    out = []
    for i in range(n):
        j = (i + shift) % len(W)
        out.append([W[j] * U, True] if (mask >> i) & 1 else [F[j], False])
    return out


def make_layout_prog(l, f, nmax_nary, nmax_list, records, shared=False, cfg=(1, 0)):
    """shared=True (multi-party): every element is genuinely shared by mpc.input (one scalar at a time,
    all parties pass the same public placeholder), and only the list if_else / sum-with-start /
    following-multiplication part is run."""
    U = 2 ** f
    HALF = U // 2 + 1                     # 0.5 + 2^-f, a fraction

    async def prog(mpc, mods, pid):
        secfxp = mpc.SecFxp(l, f)
        rec_on = pid == 0

        def mk(vf):
            v, fl = vf
            a = secfxp(v // U) if fl else secfxp(secfxp.field(v), integral=False)
            return mpc.input(a, senders=0) if shared else a

        async def emit(op, ins, z, extra=None):
            zs = flatten(z)
            vals = [int(v) for v in await mpc.output(zs, raw=True)]
            flags = [bool(a.integral) for a in zs]
            if rec_on:
                records.append({'t': [l, f], 'op': op, 'ins': ins, 'vals': vals, 'flags': flags,
                                'extra': extra, 'cfg': list(cfg), 'layout': True})
            return zs, vals, flags

        async def mul_after(res):
            """the operation that relies on the marks: multiply every result by a fraction"""
            zs, vals, flags = res
            half = mk([HALF, False])
            for a, v, fl in zip(zs, vals, flags):
                if abs(v) < 2 ** (l - 3):
                    await emit('mul', [[v, fl], [HALF, False]], a * half)
        for n in range(1, nmax_nary + 1):
            for mask in range(2 ** n):
                xs = layout_values(l, f, n, mask)
                ys = layout_values(l, f, n, (mask * 5 + 3) % (2 ** n), shift=3)
                try:
                    X, Y = [mk(v) for v in xs], [mk(v) for v in ys]
                    if not shared:
                        await emit('prod', xs, mpc.prod(X))
                        await emit('sum', xs, mpc.sum(X))
                        await emit('in_prod', [xs, ys], mpc.in_prod(X, Y))
                        await emit('in_prod', [xs, xs], mpc.in_prod(X, X))
                    if n <= nmax_list:
                        if not shared:
                            await emit('min', xs, mpc.min(X))
                            await emit('max', xs, mpc.max(X))
                            await emit('vector_add', [xs, ys], mpc.vector_add(X, Y))
                            await emit('vector_sub', [xs, ys], mpc.vector_sub(X, Y))
                            await emit('schur_prod', [xs, ys], mpc.schur_prod(X, Y))
                            a = ys[0]
                            await emit('scalar_mul', [a, xs], mpc.scalar_mul(mk(a), X))
                        # list if_else with BOTH conditions, both role assignments, then a multiplication
                        for c in (0, 1):
                            cc = mk([c * U, True])
                            await mul_after(await emit('if_else_list', [xs, ys], mpc.if_else(cc, X, Y), extra=c))
                            if mask in (0, 2 ** n - 1):     # x uniform: also the mirrored roles
                                await mul_after(await emit('if_else_list', [ys, xs], mpc.if_else(cc, Y, X), extra=c))
                        # sum with a start value of every kind
                        starts = [('int', 2, [2 * U, True]), ('float', 0.3, [round(0.3 * U), False]),
                                  ('secure-whole', None, [3 * U, True]), ('secure-fraction', None, [U // 4 + 1, False])]
                        for kind, pub, sv in starts:
                            st = pub if pub is not None else mk(sv)
                            await mul_after(await emit('sum_start', xs + [sv], mpc.sum(X, st), extra=kind))
                except Exception as exc:  # noqa
                    if rec_on:
                        records.append({'t': [l, f], 'op': 'layout n=%d mask=%d' % (n, mask), 'exc': repr(exc)[:200]})
        return len(records)
    return prog


def layout_stream(ctx, Sim, records):
    """ALL 2^n whole/fractional layouts, n = 1..7, of prod / sum / in_prod (n <= 5 also min, max and the
    elementwise list operations): the internal per-level integrality bookkeeping of prod must stay
    aligned with the values for every layout."""
    n0 = len(records)
    for (l, f, nn, nl) in [(32, 16, 7, 5), (64, 32, ctx.n(5, 7), ctx.n(3, 5)), (16, 8, ctx.n(4, 6), ctx.n(3, 4))]:
        recs = []
        sim = Sim(m=1, t=0, seed=ctx.seed + 11)
        try:
            sim.start()
            res = run_limited(sim, make_layout_prog(l, f, nn, nl, recs), 900, idle_limit=20000, spins=400) or ['TIMEOUT']
        finally:
            quiet_close(sim)
        if any(not isinstance(x, int) for x in res):
            ctx.broken.append({'kind': 'run', 'what': 'layout program did not complete', 'type': [l, f], 'res': str(res)[:300]})
        records += recs
    for (m, t, l, f, nn) in [(3, 1, 32, 16, ctx.n(2, 3)), (3, 1, 16, 8, ctx.n(2, 3))]:
        recs = []
        sim = Sim(m=m, t=t, seed=ctx.seed + 12)
        try:
            sim.start()
            res = run_limited(sim, make_layout_prog(l, f, nn, nn, recs, shared=True, cfg=(m, t)), 600, idle_limit=6000) or ['TIMEOUT']
        finally:
            quiet_close(sim)
        if any(not isinstance(x, int) for x in res):
            ctx.broken.append({'kind': 'run', 'what': 'shared layout program did not complete', 'cfg': [m, t, l, f], 'res': str(res)[:300]})
        records += recs
    ctx.extra['layout_records'] = len(records) - n0
    ctx.extra['exhaustive'] = True
    ctx.log('%d records from exhaustive whole/fractional layouts (n = 1..7)' % (len(records) - n0))


# --------------------------------------------------------------------------------------------
# constructor stream: flag inferred from a public value

def constructor_stream(ctx, Sim):
    """secfxp(v) for ints and floats v = k +- d around whole numbers: flag => stored scaled value is a
    multiple of 2^f; stored value = round(v * 2^f); a following multiplication is right."""
    import math
    nviol = 0
    for (l, f) in [(32, 16), (64, 32), (16, 8), (24, 5), (96, 48), (8, 4)]:
        U = 2 ** f
        top = 2 ** (l - f - 1)
        ks = [k for k in (0, 1, -1, 3, 7, -12, 100, 30000, 2 ** 20 + 1, 2 ** 30 - 1) if abs(k) < top // 2]
        ds = [0.0, 2.0 ** -(f + 1), 2.0 ** -f, 2.0 ** -(f - 1), 2.0 ** -(f + 2), 3 * 2.0 ** -(f + 1), 2.0 ** -(f + 8), 1e-6, 1e-9, 1e-12]
        cases = []
        for k in ks:
            cases.append(k)                        # exact integer (type int)
            for d in ds + [1e-9 * abs(k), 1e-12 * abs(k), 2e-10 * abs(k), 5e-7 * abs(k)]:
                for sgn in (1, -1):
                    cases.append(float(k) + sgn * d)
        cases += [0.5, -0.5, 1 / 3, 2.5, 1e-30, -1e-30, float(U), 0.1 + 0.2]
        seen, uniq = set(), []
        for v in cases:
            key = (type(v).__name__, v)
            if key not in seen and abs(v) < top // 2:
                seen.add(key)
                uniq.append(v)
        cases = uniq
        rec = []

        async def prog(mpc, mods, pid, l=l, f=f, cases=cases, rec=rec):
            secfxp = mpc.SecFxp(l, f)
            half = secfxp(secfxp.field(U // 2 + 1), integral=False)      # 0.5 + 2^-f, fractional
            for v in cases:
                try:
                    a = secfxp(v)
                    fl = bool(a.integral)
                    stored = int(await mpc.output(a, raw=True))
                    prodv = int(await mpc.output(a * half, raw=True))
                    sq = int(await mpc.output(a * a, raw=True)) if abs(stored) < 2 ** ((l + f) // 2 - 1) else None
                    rec.append((v, fl, stored, prodv, sq))
                except Exception as exc:  # noqa
                    rec.append((v, 'EXC', repr(exc)[:200]))
            return len(rec)
        sim = Sim(m=1, t=0, seed=ctx.seed + 13)
        try:
            sim.start()
            run_limited(sim, prog, 600, idle_limit=20000, spins=200)
        finally:
            quiet_close(sim)
        if len(rec) != len(cases):
            ctx.broken.append({'kind': 'run', 'what': 'constructor program did not complete', 'type': [l, f]})
        for r in rec:
            v = r[0]
            isint = isinstance(v, int)
            ctx.case({'ctor': [l, f], 'v': repr(v)}, nontrivial=not isint and float(v) != round(v), kind='ctor ' + ('int' if isint else 'float'))
            if r[1] == 'EXC':
                ctx.violation('exception op=ctor', {'type': [l, f], 'value': repr(v), 'exc': r[2]})
                continue
            _, fl, stored, prodv, sq = r
            want = v * U if isint else int(round(Fr(v) * U))          # Fraction round = ties to even, as Python's round
            detail = {'type': [l, f], 'value': repr(v), 'flag': fl, 'stored_scaled': stored, 'expected_scaled': want,
                      'times_(0.5+2^-f)_scaled': prodv, 'square_scaled': sq}
            if stored != want:
                ctx.violation('ctor-value type=%s' % ('int' if isint else 'float'), detail)
                nviol += 1
            elif fl and stored % U:
                ctx.violation('flag-wrong op=ctor type=%s' % ('int' if isint else 'float'), detail)
                nviol += 1
            elif abs(prodv * U - stored * (U // 2 + 1)) >= U or (sq is not None and abs(sq * U - stored * stored) >= U):
                ctx.violation('product-after-ctor type=%s' % ('int' if isint else 'float'), detail)
                nviol += 1
    return nviol


# --------------------------------------------------------------------------------------------
# NumPy part: runs the simulator under /verif/.venv-np in a subprocess (this check runs under /venv)

NP_SCRIPT = r'''
import sys, json, os
repo, hdir, job = sys.argv[1], sys.argv[2], json.loads(sys.argv[3])
os.environ['MPYC_REPO'] = repo
sys.path.insert(0, hdir)
sys.path.insert(0, repo)
import numpy as np
from lib.sim import Sim


def ints(z):
    # signed scaled integers of a raw output (field element, field array or list thereof)
    if isinstance(z, list):
        return [v for a in z for v in ints(a)]
    v = z.value
    p = (type(z).field.modulus if hasattr(type(z), 'field') and hasattr(z, 'shape') else type(z).modulus)
    flat = [int(x) for x in np.asarray(v, dtype=object).flatten().tolist()]
    return [x - p if x > p // 2 else x for x in flat]


def make_c02(l, f, A, B, C):
    async def prog(mpc, mods, pid):
        secfxp = mpc.SecFxp(l, f)
        U = 2 ** f
        def arr(xs):
            return mpc.input(secfxp.array(np.array([x / U for x in xs])), senders=0)
        out = []
        async def emit(op, y):
            out.append([op, ints(await mpc.output(y, raw=True))])
        try:
            a, b = arr(A), arr(B)
            ai = arr([U * (x // U) for x in A])               # whole numbers: skip-truncation path
            c = np.array(C)
            await emit('add', a + b)
            await emit('sub', a - b)
            await emit('mul', a * b)
            await emit('mul_int_arr', ai * b)
            await emit('mul_float', a * c)
            await emit('matmul', a.reshape(2, 3) @ b.reshape(3, 2))
            await emit('outer', np.outer(a[:3], b[:3]))
            await emit('lt', a < b)
            await emit('eq', a == a)
            await emit('trunc', mpc.np_trunc(a, f=f // 2))
        except Exception as exc:
            out.append(['EXC', repr(exc)[:300]])
        return out
    return prog


def make_c03(l, f, shared):
    async def prog(mpc, mods, pid):
        secfxp = mpc.SecFxp(l, f)
        U = 2 ** f
        FR = 0.5 + 2.0 ** -f
        def arr(xs, integral=None):
            a = secfxp.array(np.array(xs, dtype=float))
            return mpc.input(a, senders=0) if shared else a
        def sc(x):
            a = secfxp(x)
            return mpc.input(a, senders=0) if shared else a
        out = []
        async def emit(op, y, expect=None):
            # value, mark, and the operation that relies on the mark: multiplication by a fraction
            try:
                if isinstance(y, list):
                    flags = [bool(a.integral) for a in y]
                    vals = ints(await mpc.output(y, raw=True))
                    prods = ints(await mpc.output([a * sc(FR) for a in y], raw=True))
                    for fl, v, pv in zip(flags, vals, prods):
                        out.append([op, fl, [v], [pv], None])
                    return
                flag = bool(y.integral)
                vals = ints(await mpc.output(y, raw=True))
                if hasattr(y, 'shape'):
                    w = arr(np.full(y.shape, FR))
                else:
                    w = sc(FR)
                prods = ints(await mpc.output(y * w, raw=True))
                out.append([op, flag, vals, prods, expect])
            except Exception as exc:
                out.append([op, 'EXC', repr(exc)[:300], None, None])
        try:
            fr = [0.25, 0.5, 1.5]
            wh = [2.0, -1.0, 3.0]
            af, ai = arr(fr), arr(wh)
            for name, a, av in (('frac', af, fr), ('whole', ai, wh)):
                for sh in ([f, 1, 0], [0, f, f + 1], [f, f, f + 1], [1, 1, 2]):
                    await emit('left_shift %s by %s' % (name, sh), a << np.array(sh), [int(round(x * U)) * 2 ** k for x, k in zip(av, sh)])
                    await emit('np.left_shift %s by %s' % (name, sh), np.left_shift(a, np.array(sh)), [int(round(x * U)) * 2 ** k for x, k in zip(av, sh)])
                for k in (0, 1, f, f + 1):
                    await emit('left_shift %s by scalar %d' % (name, k), a << k, [int(round(x * U)) * 2 ** k for x in av])
            S = lambda xs: [int(round(x * U)) for x in xs]
            await emit('add whole+frac', ai + af, S([x + y for x, y in zip(wh, fr)]))
            await emit('add whole+whole', ai + ai, S([2 * x for x in wh]))
            await emit('sub whole-frac', ai - af, S([x - y for x, y in zip(wh, fr)]))
            await emit('neg frac', -af, S([-x for x in fr]))
            await emit('neg whole', -ai, S([-x for x in wh]))
            await emit('mul whole*frac', ai * af, S([x * y for x, y in zip(wh, fr)]))
            await emit('mul whole*whole', ai * ai, S([x * x for x in wh]))
            await emit('add whole+int', ai + 2, S([x + 2 for x in wh]))
            await emit('mul frac*int', af * 3, S([3 * x for x in fr]))
            await emit('mul whole*float2.0', ai * 2.0, S([2 * x for x in wh]))
            await emit('reshape', np.reshape(af, (3, 1)), S(fr))
            await emit('getitem frac', af[1], S(fr[1:2]))
            await emit('getitem whole', ai[1], S(wh[1:2]))
            await emit('getitem slice', af[1:], S(fr[1:]))
            await emit('update whole<-frac', mpc.np_update(arr(wh), 0, sc(0.5)), S([0.5] + wh[1:]))
            await emit('update whole<-whole', mpc.np_update(arr(wh), 0, sc(5)), S([5.0] + wh[1:]))
            await emit('concatenate whole,frac', np.concatenate((ai, af)), S(wh + fr))
            await emit('concatenate whole,whole', np.concatenate((ai, ai)), S(wh + wh))
            await emit('stack whole,frac', np.stack((ai, af)), S(wh + fr))
            await emit('hstack frac,whole', np.hstack((af, ai)), S(fr + wh))
            await emit('vstack whole,frac', np.vstack((ai, af)), S(wh + fr))
            await emit('fromlist mixed', mpc.np_fromlist([sc(2), sc(0.5)]), S([2, 0.5]))
            await emit('fromlist whole', mpc.np_fromlist([sc(2), sc(3)]), S([2, 3]))
            await emit('tolist frac', mpc.np_tolist(af))
            await emit('tolist whole', mpc.np_tolist(ai))
            await emit('sum whole', np.sum(ai), S([sum(wh)]))
            await emit('sum frac', np.sum(af), S([sum(fr)]))
            await emit('cumsum whole', np.cumsum(ai), S([2.0, 1.0, 4.0]))
            await emit('flip frac', np.flip(af), S(fr[::-1]))
            await emit('roll whole', np.roll(ai, 1), S([3.0, 2.0, -1.0]))
            await emit('transpose', np.transpose(np.reshape(af, (1, 3))), S(fr))
            await emit('sgn frac', mpc.np_sgn(af - 1), S([-1, -1, 1]))
            await emit('lt frac', af < ai, S([1, 0, 1]))
            await emit('matmul whole@frac', np.reshape(ai, (1, 3)) @ np.reshape(af, (3, 1)), S([sum(x * y for x, y in zip(wh, fr))]))
            await emit('outer whole,frac', np.outer(ai[:2], af[:2]), S([x * y for x in wh[:2] for y in fr[:2]]))
        except Exception as exc:
            out.append(['stream', 'EXC', repr(exc)[:300], None, None])
        return out
    return prog


res = []
for it in job['items']:
    m, t, noprss, l, f = it['cfg']
    sim = Sim(m=m, t=t, no_prss=noprss, seed=job.get('seed', 0))
    try:
        sim.start()
        if job['kind'] == 'c02':
            prog = make_c02(l, f, it['A'], it['B'], it['C'])
        else:
            prog = make_c03(l, f, m > 1)
        r = sim.run(prog, idle_limit=6000, spins=(300 if m == 1 else 1))
    finally:
        try:
            sim.loop.set_exception_handler(lambda loop, context: None)
        except Exception:
            pass
        sim.close()
    res.append({'cfg': it['cfg'], 'parties': [x if isinstance(x, list) else str(x)[:200] for x in r]})
print('RESULT ' + json.dumps(res))
'''


def run_np_job(job, timeout=400):
    "Run NP_SCRIPT under the NumPy interpreter; returns (list of results | None, problem text | None)."
    import subprocess
    from lib.core import PYNP, REPO
    if not os.path.exists(PYNP):
        return None, 'no NumPy interpreter at %s' % PYNP
    hdir = os.path.dirname(os.path.dirname(os.path.abspath(__file__)))
    env = dict(os.environ)
    env['PYTHONHASHSEED'] = '0'
    env.pop('PYTHONPATH', None)
    try:
        p = subprocess.run([PYNP, '-c', NP_SCRIPT, REPO, hdir, json.dumps(job)], stdout=subprocess.PIPE,
                           stderr=subprocess.PIPE, text=True, timeout=timeout, env=env)
    except Exception as exc:  # noqa
        return None, repr(exc)[:300]
    line = [x for x in p.stdout.split('\n') if x.startswith('RESULT ')]
    if p.returncode or not line:
        return None, (p.stderr or p.stdout)[-600:]
    return json.loads(line[-1][7:]), None


def np_flag_stream(ctx):
    "NumPy flag-setting operations (np_* sites of the table) on whole / fractional / mixed arrays, incl. shifts by arrays."
    l, f = 32, 16
    U = 2 ** f
    job = {'kind': 'c03', 'seed': ctx.seed, 'items': [{'cfg': [1, 0, False, l, f]}, {'cfg': [3, 1, False, l, f]}]}
    res, prob = run_np_job(job)
    if res is None:
        ctx.broken.append({'kind': 'run', 'what': 'NumPy flag stream did not run', 'detail': prob})
        return
    n = 0
    for item in res:
        cfg = item['cfg']
        parties = item['parties']
        if any(not isinstance(x, list) for x in parties):
            ctx.broken.append({'kind': 'run', 'what': 'NumPy flag program did not complete', 'cfg': cfg, 'res': str(parties)[:300]})
            continue
        if any(x != parties[0] for x in parties[1:]):
            ctx.violation('parties-disagree stream=np-flags', {'cfg': cfg})
        for (op, flag, vals, prods, expect) in parties[0]:
            n += 1
            ctx.case({'np': op, 'cfg': cfg}, nontrivial=True, kind='np ' + op.split(' ')[0])
            detail = {'cfg': cfg, 'type': [l, f], 'op': op, 'flag': flag, 'values_scaled': vals, 'times_(0.5+2^-f)_scaled': prods,
                      'expected_scaled': expect}
            if flag == 'EXC':
                ctx.violation('exception op=np %s' % op.split(' ')[0], detail)
                continue
            key = op.split(' ')[0]
            if flag and any(v % U for v in vals):
                ctx.violation('flag-wrong op=%s kind=flag' % key, detail)
            elif expect is not None and [abs(a - b) < (U if key in ('mul', 'matmul', 'outer') else 1) for a, b in zip(vals, expect)].count(False):
                ctx.violation('flag-wrong op=%s kind=value' % key, detail)
            elif any(abs(pv * U - v * (U // 2 + 1)) >= U for v, pv in zip(vals, prods)):
                ctx.violation('flag-wrong op=%s kind=product' % key, detail)
    ctx.extra['np_flag_records'] = n
    ctx.log('%d NumPy flag records (m=1, m=3)' % n)


def random_bits_stream(ctx, Sim):
    "random_bits(secfxp, n, signed): exactly 0/1 resp. +-1 as fixed-point numbers, marked integral, usable in products."
    for (m, t, noprss) in [(1, 0, False), (1, 0, True), (3, 1, False), (3, 1, True)]:
        for (l, f) in [(32, 16), (16, 8)]:
            U = 2 ** f
            out = {}

            async def prog(mpc, mods, pid, l=l, f=f, out=out):
                secfxp = mpc.SecFxp(l, f)
                half = mpc.input(secfxp(secfxp.field(U // 2 + 1), integral=False), senders=0)
                res = {}
                for signed in (False, True):
                    bits = mpc.random_bits(secfxp, 6, signed=signed) + [mpc.random_bit(secfxp, signed=signed)]
                    flags = [bool(b.integral) for b in bits]
                    vals = [int(v) for v in await mpc.output(bits, raw=True)]
                    prods = [int(v) for v in await mpc.output([b * half for b in bits], raw=True)]
                    res[str(signed)] = [flags, vals, prods]
                if pid == 0:
                    out.update(res)
                return res
            sim = Sim(m=m, t=t, no_prss=noprss, seed=ctx.seed + 21)
            try:
                sim.start()
                r = run_limited(sim, prog, 120, idle_limit=3000, spins=(100 if m == 1 else 1))
            finally:
                quiet_close(sim)
            if r is None or any(not isinstance(x, dict) for x in r):
                ctx.broken.append({'kind': 'run', 'what': 'random_bits program did not complete', 'cfg': [m, t, noprss], 'res': str(r)[:200]})
                continue
            for signed, (flags, vals, prods) in out.items():
                allowed = (-U, U) if signed == 'True' else (0, U)
                ctx.case({'random_bits': signed, 'cfg': [m, t, noprss], 't': [l, f]}, nontrivial=True, kind='random_bits signed=' + signed)
                bad = [i for i, (fl, v, pv) in enumerate(zip(flags, vals, prods))
                       if v not in allowed or (fl and v % U) or abs(pv * U - v * (U // 2 + 1)) >= U]
                if bad:
                    ctx.violation('flag-wrong op=random_bits signed=%s' % signed,
                                  {'cfg': [m, t, noprss], 'type': [l, f], 'signed': signed, 'flags': flags, 'values_scaled': vals,
                                   'allowed_scaled': list(allowed), 'times_(0.5+2^-f)_scaled': prods, 'wrong_positions': bad})


def secfloat_stream(ctx, Sim):
    """Secure floats: the significand is a secure fixed-point number; its mark must be sound at EVERY party
    (flag => whole), also for inputs of other senders, and products/sums must be right."""
    import math
    # construction (m=1): ints and floats incl. 0 and +-2^k
    vals1 = [0, 1, -1, 2, 4, -8, 3, 5, 1024, 0.0, 1.0, -2.0, 0.5, 0.25, 0.75, 3.0, -5.0, 2.5, 1e-3, 6.0, 2.0 ** 20, -2.0 ** -10]
    out = {}

    async def prog1(mpc, mods, pid):
        secflt = mpc.SecFlt()
        rec = []
        for v in vals1:
            a = secflt(v)
            s = a.share[0]
            rec.append([repr(v), bool(s.integral), int(await mpc.output(s, raw=True)), type(s).frac_length,
                        float(await mpc.output(a))])
        out['m1'] = rec
        return 1
    sim = Sim(m=1, t=0, seed=ctx.seed + 31)
    try:
        sim.start()
        r = run_limited(sim, prog1, 200, idle_limit=4000, spins=200)
    finally:
        quiet_close(sim)
    if r is None or r[0] != 1:
        ctx.broken.append({'kind': 'run', 'what': 'secure float construction program did not complete', 'res': str(r)[:200]})
    for (v, fl, sig, f, opened) in out.get('m1', []):
        ctx.case({'secflt': v}, nontrivial=True, kind='secflt ctor')
        if fl and sig % 2 ** f:
            ctx.violation('flag-wrong op=secflt-significand stream=ctor', {'value': v, 'flag': fl, 'significand_scaled': sig, 'f': f})
        elif abs(opened - float(eval(v))) > 1e-6 * abs(float(eval(v))):      # significand rounded to its bit length
            ctx.violation('flag-wrong op=secflt kind=value', {'value': v, 'opened': opened})
    # every party inputs its OWN secure float (m=3): marks at every party, then products and sums
    for vals in ([4.0, 3.0, 5.0], [0.75, -8.0, 0.0], [3, 1, 6.5]):
        res = {}

        async def prog3(mpc, mods, pid, vals=vals):
            secflt = mpc.SecFlt()
            x = mpc.input(secflt(vals[pid]))
            sigs = [a.share[0] for a in x]
            flags = [bool(s.integral) for s in sigs]
            sv = [int(v) for v in await mpc.output(sigs, raw=True)]
            return [flags, sv, type(sigs[0]).frac_length, None]

        async def prog3b(mpc, mods, pid, vals=vals):      # arithmetic, only run when all marks are sound at all parties
            secflt = mpc.SecFlt()
            x = mpc.input(secflt(vals[pid]))
            z = await mpc.output([x[0] * x[1], x[1] * x[2], x[0] + x[1]])
            return [float(v) for v in z]
        sim = Sim(m=3, t=1, seed=ctx.seed + 32)
        try:
            sim.start()
            r = run_limited(sim, prog3, 300, idle_limit=3000)
            if r is not None and all(isinstance(x, list) for x in r) and \
                    not any(fl and v % 2 ** x[2] for x in r for fl, v in zip(x[0], x[1])):
                rb = run_limited(sim, prog3b, 300, idle_limit=3000)
                if rb is None or any(not isinstance(x, list) for x in rb):
                    r = None
                else:
                    for x, zb in zip(r, rb):
                        x[3] = zb
        finally:
            quiet_close(sim)
        ctx.case({'secflt_input': [repr(v) for v in vals]}, nontrivial=True, kind='secflt input m=3')
        if r is None or any(not isinstance(x, list) for x in r):
            ctx.broken.append({'kind': 'run', 'what': 'secure float input program did not complete', 'vals': [repr(v) for v in vals],
                               'res': str(r)[:300]})
            continue
        wrong = [(p, j) for p, (flags, sv, f, z) in enumerate(r) for j, (fl, v) in enumerate(zip(flags, sv)) if fl and v % 2 ** f]
        detail = {'own_values': [repr(v) for v in vals], 'flags_per_party': [x[0] for x in r], 'significands_scaled': r[0][1],
                  'frac_length': r[0][2], 'wrong_(party,input)': wrong, 'results': r[0][3]}
        if wrong:
            ctx.violation('flag-wrong op=secflt-significand stream=input', detail)
            continue
        fv = [float(v) for v in vals]
        exp = [fv[0] * fv[1], fv[1] * fv[2], fv[0] + fv[1]]
        for p, x in enumerate(r):
            if any(abs(g - e) > 1e-5 * max(1.0, abs(e)) for g, e in zip(x[3], exp)):
                detail['expected'] = exp
                detail['party'] = p
                ctx.violation('flag-wrong op=secflt kind=value', detail)
                break


def field_modulus(Sim, seed):
    out = {}

    async def prog(mpc, mods, pid):
        for (l, f) in TYPES:
            out[(l, f)] = int(mpc.SecFxp(l, f).field.modulus)
    sim = Sim(m=1, t=0, seed=seed)
    try:
        sim.start()
        sim.run(prog)
    finally:
        quiet_close(sim)
    return out


def run(ctx):
    import gen_flag_rules as G
    from lib.sim import Sim
    # ---- 1. regenerate the table, compile obligations
    sites = G.collect()
    G.emit(sites)
    nsite = len(sites)
    ctx.extra['flag_sites'] = nsite
    ctx.extra['flag_sites_by_kind'] = {k: sum(1 for s in sites if s['kind'] == k) for k in ('return', 'ctor', 'assign', 'guard')}
    ctx.extra['constructor_inference'] = G.init_inference()
    ctor_src = sorted(i['src'] for i in ctx.extra['constructor_inference'] if i['class'] == 'SecureFixedPoint')
    ctor_unrecognised = ctor_src != ['integral = True', 'integral = value.is_integer()']
    ctx.log('translator: %d flag sites %s' % (nsite, ctx.extra['flag_sites_by_kind']))
    ok = ctx.build(['MPyC.Fxp'])
    ok = ok and ctx.check_props(extra_files=['gen/FlagRules.v', 'gen/FlagOblig.v'])
    n_ob = 1 + len(G.MODELLED)
    ctx.obligations += n_ob + 1
    if ok:
        ctx.discharged += n_ob
    failing, others = [], []
    if ok:
        res = ctx.coq_eval(['MPyC.Fxp', 'MPyCGen.FlagRules'],
                           ['failing_sites rules', 'other_sites rules',
                            'forallb site_ok (filter is_setting_site rules)'],
                           preamble='Open Scope string_scope.')
        if any(isinstance(r, tuple) and r and r[0] == 'ERROR' for r in res):
            ctx.broken.append({'kind': 'obligation', 'what': 'cannot evaluate failing_sites', 'detail': str(res)[:500]})
            cover_ok = False
        else:
            failing, others, cover_ok = list(res[0]), list(res[1]), res[2] is True
        if cover_ok:   # state it as a compiled theorem as well
            with BuildLock():
                rc, out = sh(['coqc', *COQFLAGS, 'gen/FlagCover.v'], cwd=COQ, timeout=600)
            if rc:
                cover_ok = False
                ctx.broken.append({'kind': 'obligation', 'what': 'gen/FlagCover.v does not compile', 'detail': out[-500:]})
        if cover_ok:
            ctx.discharged += 1
            ctx.theorems.append(('rule_consults_all', 'compiled (gen/FlagCover.v)'))
        ctx.log('rule_consults_all: %s; failing sites: %s' % ('holds' if cover_ok else 'FAILS', failing))
        if cover_ok != (not failing):
            ctx.broken.append({'kind': 'obligation', 'what': 'coverage obligation and failing_sites disagree'})
    ctx.extra['failing_rule_consults_all'] = failing
    ctx.extra['guard_sites_first_element'] = [s['key'] for s in sites if s['kind'] == 'guard'
                                              and expr_names(s['expr'], 'Idx') and not expr_names(s['expr'], 'AllOf')]
    # python-side mirror of the obligation: must agree with Coq; used alone only if Coq could not be consulted
    mirror = [s_['key'] for s_ in sites if s_['kind'] != 'guard' and site_reasons(s_)]
    if ok and sorted(mirror) != sorted(failing):
        ctx.broken.append({'kind': 'obligation', 'what': 'Coq failing_sites and the python mirror disagree',
                           'coq': failing, 'mirror': mirror})
    if not ok:
        failing = mirror
    ctx.extra['failing_reasons'] = {k: site_reasons(next(s_ for s_ in sites if s_['key'] == k)) for k in failing}
    # ---- 2. search at failing sites
    found = run_search(ctx, Sim, failing, sites)
    failing_fns = {}
    for k in failing:
        s_ = next(s for s in sites if s['key'] == k)
        failing_fns.setdefault(s_['func'].split('.')[-1], site_sig(s_, site_reasons(s_)))
    input_flag_test(ctx, Sim)
    public_int_probe(ctx, Sim, sites)
    # ---- 3. random programs
    ctx.rule = ('case = one operation instance inside a random fixed-point program (type, operation, opened operand values '
                'and flags); non-trivial when an operand list has mixed integrality or a truncation/skip decision is taken; '
                'plus one synthesised program per failing table site and type')
    ctx.explanation = ('every flag-setting site of the source is in the regenerated table; Coq proves the scalar rules sound and '
                       'checks list coverage; programs exercise the sites on mixed-integrality data with an exact oracle')
    moduli = field_modulus(Sim, ctx.seed)
    records = []
    plan = []
    for (l, f) in TYPES:
        reps = ctx.n(3, 12) if (l, f) == (32, 16) else ctx.n(1, 5)
        for r in range(reps):
            plan.append((1, 0, l, f, r, False))
    plan.append((3, 1, 32, 16, 100, True))
    plan.append((3, 1, 16, 8, 101, True))
    if ctx.tier == 'thorough':
        plan.append((5, 2, 32, 16, 102, True))
    nexc = 0
    for (m, t, l, f, r, use_input) in plan:
        recs = []
        sim = Sim(m=m, t=t, seed=ctx.seed * 131 + r)
        try:
            sim.start()
            res = run_limited(sim, make_prog(l, f, ctx.seed * 7907 + r * 31 + l, ctx.n(70, 200) if m == 1 else ctx.n(40, 120), recs, use_input),
                              600, idle_limit=4000, spins=(400 if m == 1 else 1)) or ['TIMEOUT']
        finally:
            quiet_close(sim)
        if any(not isinstance(x, int) for x in res):
            ctx.broken.append({'kind': 'run', 'what': 'random program did not complete', 'config': [m, t, l, f], 'res': str(res)[:300]})
        for rec in recs:
            rec['cfg'] = [m, t]
        records += recs
    ctx.log('%d operation records from %d programs' % (len(records), len(plan)))
    layout_stream(ctx, Sim, records)
    constructor_stream(ctx, Sim)
    random_bits_stream(ctx, Sim)
    secfloat_stream(ctx, Sim)
    np_flag_stream(ctx)
    exprs, meta = [], []
    nbad = 0
    for rec in records:
        if 'exc' in rec:
            nexc += 1
            # the only exceptions allowed are the integrality guards
            if not re.search(r'integral', rec['exc']):
                ctx.violation('exception op=%s' % rec['op'], rec)
            continue
        nb = check_record(ctx, rec, failing_fns)
        nbad += nb
        mixed = any(is_mixed_list(x) for x in rec['ins'] if isinstance(x, list) and x and isinstance(x[0], list)) or \
            (rec['op'] in ('sum', 'prod', 'min', 'max', 'sorted', 'seclist_get') and is_mixed_list(rec['ins']))
        ctx.case({'t': rec['t'], 'op': rec['op'], 'ins': rec['ins'], 'x': rec.get('extra')},
                 nontrivial=mixed or rec['op'] in ('mul', 'mul_float', 'in_prod', 'schur_prod', 'scalar_mul', 'matrix_prod', 'pow', 'prod'),
                 kind=rec['op'] + ('/mixed' if mixed else ''))
        if nb == 0:
            e = model_expr(rec, moduli[tuple(rec['t'])])
            if e is not None:
                exprs.append(e)
                meta.append(rec)
    ctx.extra['guard_exceptions'] = nexc
    # ---- 4. correspondence with the Coq model
    if ok and exprs:
        res = ctx.coq_eval(['MPyC.Fxp'], exprs, chunk=120)
        mism = 0
        for r, rec in zip(res, meta):
            got = (rec['vals'][0], rec['flags'][0])
            if isinstance(r, tuple) and r and r[0] == 'ERROR':
                mism += 1
                ctx.broken.append({'kind': 'correspondence', 'what': 'coq evaluation failed', 'detail': r[1][:300]})
                continue
            if got not in [tuple(x) for x in r]:
                mism += 1
                ctx.broken.append({'kind': 'correspondence', 'what': rec['op'], 'case': rec, 'model': str(r)[:300]})
        ctx.extra['traces_validated_against_impl'] = len(exprs) - mism
        ctx.log('model/implementation disagreements: %d of %d' % (mism, len(exprs)))
    ctx.notes.append('failing rule_consults_all sites: %s' % failing)
    ctx.notes.append('first-element guard sites (listed only): %s' % ctx.extra['guard_sites_first_element'])
    if ctor_unrecognised:
        ctx.broken.append({'kind': 'obligation', 'what': 'SecureFixedPoint.__init__ integrality inference is not the recognised '
                           '(int -> True, float -> value.is_integer()) form', 'source': ctor_src})
    # a failing obligation whose search found no failing input, or a broken proof/correspondence
    if ctx.broken and not ctx.violations:
        ctx.unproved('C03 obligation/correspondence', {'broken': ctx.broken[:5]})
