(** C10 — message framing tolerates any stream chunking and arrival order, including the opening
    handshake.  Only statements; models and proofs are in theories/Frame.v and theories/Buffers.v.

    [step no_prss subs s chunk] models one MessageExchanger.data_received call (state = peer_pid,
    self.bytes), [run] a sequence of calls; [encode] models MessageExchanger.send; [subs pid] is the
    list of PRSS subsets whose keys the peer [pid] sends (any function: the theorems do not depend
    on it); [runb] runs arrivals and receive() calls against the buffers dict. *)
From Coq Require Import ZArith List Lia Bool.
Import ListNotations.
Require Import MPyC.Frame MPyC.Buffers.
Local Open Scope Z_scope.

(** Codec round trip, with arbitrary bytes following the frame. *)
Theorem C10_decode_encode : forall pc payload rest,
  - 2 ^ 63 <= pc < 2 ^ 63 -> len payload < 2 ^ 32 ->
  try_frame (encode (pc, payload) ++ rest) = Some (pc, payload, rest).
Proof. exact decode_encode. Qed.
Print Assumptions C10_decode_encode.

(** Every chunking (empty chunks, empty payloads, splits inside headers, ...) of the byte stream of
    any message list delivers exactly these messages in order, and leaves no byte behind. *)
Theorem C10_chunking_irrelevant : forall (no_prss : bool) (subs : Z -> list (list nat)) pid msgs chunks,
  Forall wf_msg msgs ->
  concat chunks = concat (map encode msgs) ->
  run no_prss subs (Some pid, []) chunks = ((Some pid, []), deliveries msgs).
Proof. exact chunking_irrelevant. Qed.
Print Assumptions C10_chunking_irrelevant.

(** [run] is the left fold of [step] over the chunks. *)
Theorem C10_run_is_fold : forall no_prss subs chunks s,
  run_fold no_prss subs s chunks = run no_prss subs s chunks.
Proof. exact run_fold_eq. Qed.
Print Assumptions C10_run_is_fold.

(** Whatever was received so far (any prefix of any byte stream, chunked anyhow, in either phase)
    yields a prefix of the events of the whole stream.  (Reused by C36.) *)
Theorem C10_prefix_parse : forall (no_prss : bool) (subs : Z -> list (list nat)) s chunksP chunksF q,
  step no_prss subs s [] = (s, []) ->
  concat chunksF = concat chunksP ++ q ->
  exists later, snd (run no_prss subs s chunksF) = snd (run no_prss subs s chunksP) ++ later.
Proof. exact prefix_parse. Qed.
Print Assumptions C10_prefix_parse.

(** A stream cut inside a frame: all complete frames are delivered, the truncated one is not, its
    bytes stay in the buffer.  (Reused by C36.) *)
Theorem C10_truncated_not_delivered :
  forall (no_prss : bool) (subs : Z -> list (list nat)) pid msgs m partial q chunks,
  Forall wf_msg msgs -> wf_msg m ->
  partial ++ q = encode m -> q <> [] ->
  concat chunks = concat (map encode msgs) ++ partial ->
  run no_prss subs (Some pid, []) chunks = ((Some pid, partial), deliveries msgs).
Proof. exact truncated_not_delivered. Qed.
Print Assumptions C10_truncated_not_delivered.

(** Handshake with PRSS keys: pid and exactly 16 bytes per expected key are recovered from any
    chunking; the frames that follow (possibly in the same chunk) are all delivered. *)
Theorem C10_handshake_any_chunking : forall (subs : Z -> list (list nat)) pid keys msgs chunks,
  0 <= pid < 65536 -> wf_keys subs pid keys -> Forall wf_msg msgs ->
  concat chunks = hello pid keys ++ concat (map encode msgs) ->
  run false subs (None, []) chunks
  = ((Some pid, []), Handshake pid (combine (subs pid) keys) :: deliveries msgs).
Proof. exact handshake_any_chunking. Qed.
Print Assumptions C10_handshake_any_chunking.

Theorem C10_handshake_any_chunking_noprss : forall (subs : Z -> list (list nat)) pid msgs chunks,
  0 <= pid < 65536 -> Forall wf_msg msgs ->
  concat chunks = le_bytes 2 pid ++ concat (map encode msgs) ->
  run true subs (None, []) chunks = ((Some pid, []), Handshake pid [] :: deliveries msgs).
Proof. exact handshake_any_chunking_noprss. Qed.
Print Assumptions C10_handshake_any_chunking_noprss.

(** While the handshake packet is incomplete nothing is consumed and no event happens. *)
Theorem C10_handshake_waits : forall (subs : Z -> list (list nat)) pid keys partial q chunks,
  0 <= pid < 65536 -> wf_keys subs pid keys ->
  partial ++ q = hello pid keys -> q <> [] ->
  concat chunks = partial ->
  run false subs (None, []) chunks = ((None, partial), []).
Proof. exact handshake_waits. Qed.
Print Assumptions C10_handshake_waits.

(** Receives and arrivals commute: for any interleaving with pairwise distinct arrival labels and
    pairwise distinct receive labels, a receive obtains (pc, p) iff p arrived under pc and
    receive(pc) was called; the buffer holds exactly the unclaimed payloads and the futures still
    waiting. *)
Theorem C10_receive_commutes : forall acts,
  NoDup (arr_labels acts) -> NoDup (rcv_labels acts) ->
  let (b, got) := runb acts in
  (forall pc p, In (pc, p) got <-> In (Arr pc p) acts /\ In (Rcv pc) acts) /\
  (forall pc p, lookup pc b = Some (Payload p) <-> In (Arr pc p) acts /\ ~ In (Rcv pc) acts) /\
  (forall pc, lookup pc b = Some Waiting <-> In (Rcv pc) acts /\ ~ In pc (arr_labels acts)).
Proof. exact receive_commutes. Qed.
Print Assumptions C10_receive_commutes.

Theorem C10_receive_gets_own_payload : forall acts pc p,
  NoDup (arr_labels acts) -> NoDup (rcv_labels acts) ->
  In (Arr pc p) acts -> In (Rcv pc) acts ->
  In (pc, p) (snd (runb acts)) /\ forall p', In (pc, p') (snd (runb acts)) -> p' = p.
Proof. exact receive_gets_own_payload. Qed.
Print Assumptions C10_receive_gets_own_payload.

Theorem C10_buffer_empty_iff : forall acts,
  NoDup (arr_labels acts) -> NoDup (rcv_labels acts) ->
  (fst (runb acts) = [] <-> forall pc, In pc (arr_labels acts) <-> In pc (rcv_labels acts)).
Proof. exact buffer_empty_iff. Qed.
Print Assumptions C10_buffer_empty_iff.

(** End to end (parser + buffers): any message list with distinct labels, any chunking of its byte
    stream, any placement of distinct receive(pc) calls between the data_received calls: the parser
    ends with no byte left; a receive obtains (pc, p) iff (pc, p) was sent and receive(pc) was
    called; the buffer keeps exactly the unclaimed payloads and the receives never answered. *)
Theorem C10_framing_end_to_end : forall (np : bool) (subs : Z -> list (list nat)) pid msgs ins,
  Forall wf_msg msgs -> NoDup (map fst msgs) -> NoDup (rcvs_of ins) ->
  concat (chunks_of ins) = concat (map encode msgs) ->
  match sim_final np subs (Some pid, []) [] [] ins with
  | (sf, bf, got) =>
      sf = (Some pid, []) /\
      (forall pc p, In (pc, p) got <-> In (pc, p) msgs /\ In pc (rcvs_of ins)) /\
      (forall pc p, lookup pc bf = Some (Payload p) <-> In (pc, p) msgs /\ ~ In pc (rcvs_of ins)) /\
      (forall pc, lookup pc bf = Some Waiting <-> In pc (rcvs_of ins) /\ ~ In pc (map fst msgs))
  end.
Proof. exact framing_end_to_end. Qed.
Print Assumptions C10_framing_end_to_end.

(* ------------------------------------------------------------------------------------------- *)
(** Non-vacuity: concrete instances meeting the hypotheses. *)

Definition ex_msgs : list (Z * list Z) :=
  [(-1, [1; 2]); (5, []); (2 ^ 63 - 1, [255]); (- 2 ^ 63, [0; 0; 7])].

Lemma ex_msgs_wf : Forall wf_msg ex_msgs.
Proof. repeat constructor; cbv; congruence. Qed.

(** a chunking with empty chunks, a split inside the first header, one inside a payload *)
Definition ex_chunks : list (list Z) :=
  let s := concat (map encode ex_msgs) in
  [[]; firstn 3 s; []; firstn 10 (skipn 3 s); firstn 25 (skipn 13 s); skipn 38 s; []].

Example C10_nonvacuous_chunking :
  Forall wf_msg ex_msgs /\
  concat ex_chunks = concat (map encode ex_msgs) /\
  run false (matching 3 1 1) (Some 0, []) ex_chunks = ((Some 0, []), deliveries ex_msgs).
Proof. split; [exact ex_msgs_wf|]. split; vm_compute; reflexivity. Qed.

Example C10_nonvacuous_decode :
  (- 2 ^ 63 <= - 2 ^ 63 < 2 ^ 63) /\ len [9; 8] < 2 ^ 32 /\
  encode (- 2 ^ 63, [9; 8]) = [0; 0; 0; 0; 0; 0; 0; 128; 2; 0; 0; 0; 9; 8].
Proof. split; [lia|]. split; [cbv; reflexivity|vm_compute; reflexivity]. Qed.

(** prefix / truncation: stream cut 5 bytes into the third frame *)
Example C10_nonvacuous_truncated :
  let s := concat (map encode ex_msgs) in
  let partial := firstn 5 (encode (2 ^ 63 - 1, [255])) in
  let q := skipn 5 (encode (2 ^ 63 - 1, [255])) in
  wf_msg (2 ^ 63 - 1, [255]) /\ partial ++ q = encode (2 ^ 63 - 1, [255]) /\ q <> [] /\
  step false (matching 3 1 1) (Some 0, []) [] = ((Some 0, []), []) /\
  run false (matching 3 1 1) (Some 0, []) [firstn 7 s; firstn 24 (skipn 7 s)]
  = ((Some 0, partial), deliveries (firstn 2 ex_msgs)).
Proof.
  cbv zeta. split; [cbv; split; [split|]; congruence|].
  split; [vm_compute; reflexivity|]. split; [vm_compute; discriminate|].
  split; vm_compute; reflexivity.
Qed.

(** handshake: m = 4, t = 1, server party 2, client party 0 sends keys for {0,1,2}, {0,2,3} *)
Definition ex_keys : list (list Z) := [map Z.of_nat (seq 1 16); map Z.of_nat (seq 101 16)].

Example C10_nonvacuous_handshake :
  matching 4 1 2 0 = [[0; 1; 2]; [0; 2; 3]]%nat /\
  wf_keys (matching 4 1 2) 0 ex_keys /\
  let s := hello 0 ex_keys ++ concat (map encode ex_msgs) in
  run false (matching 4 1 2) (None, []) [firstn 1 s; firstn 20 (skipn 1 s); []; skipn 21 s]
  = ((Some 0, []), Handshake 0 (combine (matching 4 1 2 0) ex_keys) :: deliveries ex_msgs) /\
  run false (matching 4 1 2) (None, []) [firstn 1 s; firstn 32 (skipn 1 s)]
  = ((None, firstn 33 s), []).
Proof.
  split; [vm_compute; reflexivity|]. split.
  - split; [vm_compute; reflexivity|]. repeat constructor.
  - cbv zeta. split; vm_compute; reflexivity.
Qed.

(** buffers: receive before arrival (7), after arrival (-3), unmatched arrival (9) and receive (4) *)
Definition ex_acts : list action := [Rcv 7; Arr (-3) [1]; Arr 7 []; Rcv 4; Rcv (-3); Arr 9 [2; 2]].

Example C10_nonvacuous_buffers :
  NoDup (arr_labels ex_acts) /\ NoDup (rcv_labels ex_acts) /\
  runb ex_acts = ([(4, Waiting); (9, Payload [2; 2])], [(7, []); (-3, [1])]) /\
  runb (firstn 5 ex_acts ++ [Arr 4 [6]]) = ([], [(7, []); (-3, [1]); (4, [6])]).
Proof.
  split; [|split].
  - vm_compute. repeat constructor; simpl; intuition congruence.
  - vm_compute. repeat constructor; simpl; intuition congruence.
  - split; vm_compute; reflexivity.
Qed.

(** end to end: receive(5) before anything, receive(-1) after its frame, 2^63-1 never received,
    receive(77) never answered; chunk boundaries inside headers and payloads *)
Example C10_nonvacuous_end_to_end :
  let s := concat (map encode ex_msgs) in
  let ins := [Receive 5; Chunk (firstn 13 s); Chunk []; Chunk (firstn 20 (skipn 13 s)); Receive (-1);
              Receive 77; Chunk (skipn 33 s); Receive (- 2 ^ 63)] in
  NoDup (map fst ex_msgs) /\ NoDup (rcvs_of ins) /\
  concat (chunks_of ins) = concat (map encode ex_msgs) /\
  sim_final false (matching 3 1 1) (Some 0, []) [] [] ins
  = ((Some 0, []), [(77, Waiting); (2 ^ 63 - 1, Payload [255])],
     [(5, []); (-1, [1; 2]); (- 2 ^ 63, [0; 0; 7])]).
Proof.
  cbv zeta. split; [|split; [|split]].
  - vm_compute. repeat constructor; simpl; intuition congruence.
  - vm_compute. repeat constructor; simpl; intuition congruence.
  - vm_compute. reflexivity.
  - vm_compute. reflexivity.
Qed.
