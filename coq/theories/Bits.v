(** C30 — value-level model of the bit-level building blocks of mpyc/runtime.py:
    add_bits, from_bits, to_bits (secint / secfxp / GF(2^k) / GF(p) branches),
    trailing_zeros.  (find, gcp2 and unit_vector are in FindUnit.v.)

    The routines are written on top of secure numbers by operator overloading; at value level
    they are party independent, so they are modelled on [Z] values (a bit is the integer 0 or 1,
    [a*b] is AND, [a+b-2ab] is XOR, exactly the expressions of the code).  Field reduction is
    modelled only where the code opens a masked value ([c mod p]); everywhere else the values
    stay tiny (bits and sums of three bits), far below the field modulus. *)
From Coq Require Import ZArith List Lia Bool.
Require Import MPyC.Base.
Import ListNotations.
Local Open Scope Z_scope.

(* ------------------------------------------------------------------------------------- *)
(** * Bit vectors (least significant bit first) *)

Definition isbit (b : Z) : Prop := b = 0 \/ b = 1.
Definition allbits (x : list Z) : Prop := Forall isbit x.

Fixpoint value (x : list Z) : Z :=
  match x with [] => 0 | b :: x' => b + 2 * value x' end.

(** binary expansion of [a] in [l] bits; floor division, so two's complement for negative [a] *)
Fixpoint bits_of (a : Z) (l : nat) : list Z :=
  match l with O => [] | S l' => a mod 2 :: bits_of (a / 2) l' end.

(** the code's [(c >> i) & 1] *)
Definition bit_at (c : Z) (i : nat) : Z := Z.land (Z.shiftr c (Z.of_nat i)) 1.

(* ------------------------------------------------------------------------------------- *)
(** * add_bits

    [c] and [d] are the two shared arrays of the Python closure [f(i, j, high)]; they are
    modelled as functions [nat -> Z] that are updated functionally.  [fuel] bounds the
    recursion depth (the call [f(0, n)] is given fuel [n]). *)

Definition arr := nat -> Z.

Definition upd (c : arr) (i : nat) (v : Z) : arr :=
  fun k => if (k =? i)%nat then v else c k.

(** slice assignment  c[lo:hi] = [g k for k in range(lo, hi)]; as in Python the right-hand side
    list is built first (eagerly), then stored *)
Definition upd_range (c : arr) (lo hi : nat) (g : nat -> Z) : arr :=
  let rhs := map g (seq lo (hi - lo)) in
  fun k => if ((lo <=? k)%nat && (k <? hi)%nat)%bool then nth (k - lo) rhs 0 else c k.

Fixpoint ab_f (fuel : nat) (x y : arr) (i j : nat) (high : bool) (cd : arr * arr) : arr * arr :=
  match fuel with
  | O => cd
  | S fuel' =>
    let (c, d) := cd in
    let n := (j - i)%nat in
    if (n =? 1)%nat then
      let ci := x i * y i in                                   (* c[i] = x[i] * y[i] *)
      let c1 := upd c i ci in
      let d1 := if high then upd d i (x i + y i - ci * 2) else d in  (* d[i] = x[i] + y[i] - c[i]*2 *)
      (c1, d1)
    else
      let h := (i + n / 2)%nat in
      let cd1 := ab_f fuel' x y i h high (c, d) in              (* f(i, h, high=high) *)
      let (c2, d2) := ab_f fuel' x y h j true cd1 in            (* f(h, j, high=True) *)
      let ch := c2 (h - 1)%nat in
      (* c[h:j] = vector_add(c[h:j], scalar_mul(c[h-1], d[h:j])) *)
      let c3 := upd_range c2 h j (fun k => c2 k + ch * d2 k) in
      (* if high: d[h:j] = scalar_mul(d[h-1], d[h:j]) *)
      let d3 := if high then (let dh := d2 (h - 1)%nat in upd_range d2 h j (fun k => dh * d2 k)) else d2 in
      (c3, d3)
  end.

(** for i in range(n-1, -1, -1): c[i] = x[i] + y[i] - c[i]*2 + (c[i-1] if i > 0 else 0) *)
Definition ab_final (x y : arr) (n : nat) (c : arr) : arr :=
  fold_left (fun c i => upd c i (x i + y i - c i * 2 + (if (0 <? i)%nat then c (i - 1)%nat else 0)))
            (rev (seq 0 n)) c.

Definition arr_of (x : list Z) : arr := fun k => nth k x 0.

Definition add_bits (x y : list Z) : list Z :=
  let n := length x in
  let xf := arr_of x in
  let yf := arr_of y in
  let c0 : arr := fun _ => 0 in
  let c := if (1 <=? n)%nat then fst (ab_f n xf yf 0 n false (c0, c0)) else c0 in
  map (ab_final xf yf n c) (seq 0 n).

(* ------------------------------------------------------------------------------------- *)
(** * from_bits:  s = 0; for a in reversed(x): s <<= 1; s += a *)

Definition from_bits (x : list Z) : Z := fold_left (fun s a => s * 2 + a) (rev x) 0.

(* ------------------------------------------------------------------------------------- *)
(** * to_bits

    Secure integers and fixed-point numbers (the general branch).  [p] field modulus,
    [L] = stype.bit_length, [f] = stype.frac_length, [integral] = a.integral, [A] the (signed)
    integer carried by the field element of [a] (for secfxp: a * 2^f), [l] the number of bits
    requested.  Tape: [rbits] (result of random_bits, [l'] bits) and [rdivl] (the _random call).
    [a >> f] on a field element is division by 2^f in the field; it is only executed for integral
    [a] (2^f | A), where it equals the exact integer quotient used here. *)

Definition to_bits_num (p : Z) (L f : nat) (integral : bool) (A : Z) (l : nat)
                       (rbits : list Z) (rdivl : Z) : list Z :=
  let rshift := (negb (f =? 0)%nat && integral)%bool in
  if (rshift && (l <=? f)%nat)%bool then repeat 0 l
  else
    let l' := if rshift then (l - f)%nat else l in
    let r_modl := from_bits rbits in
    let A' := if rshift then A / 2 ^ Z.of_nat f else A in
    let c := (A' + (2 ^ Z.of_nat L + rdivl * 2 ^ Z.of_nat l' - r_modl)) mod p in
    let c := c mod 2 ^ Z.of_nat l' in
    let c_bits := map (bit_at c) (seq 0 l') in
    let a_bits := add_bits rbits c_bits in
    (if rshift then repeat 0 f else []) ++ a_bits.

(** binary fields: c = a + r_modl (XOR of the representations); bit i = r_i + ((c >> i) & 1) in GF(2^k) *)
Definition to_bits_gf2 (a : Z) (l : nat) (rbits : list Z) : list Z :=
  let r_modl := from_bits rbits in
  let c := Z.lxor a r_modl in
  map (fun i => Z.lxor (nth i rbits 0) (bit_at c i)) (seq 0 l).

(** prime fields: convert to SecInt(1 + bit_length) (modulus [p']), to_bits there, convert back.
    The conversions are value preserving for 0 <= a < p (unsigned field). *)
Definition to_bits_gfp (p' : Z) (bl : nat) (a : Z) (l : nat) (rbits : list Z) (rdivl : Z) : list Z :=
  to_bits_num p' (S bl) 0 false a l rbits rdivl.

(* ------------------------------------------------------------------------------------- *)
(** * trailing_zeros:  c = a + 2^L + (r_divl << l) + r_modl  opened, c mod 2^l,
      result [1 - r_i if (c >> i) & 1 else r_i] *)

Definition trailing_zeros (p : Z) (L : nat) (A : Z) (l : nat) (rbits : list Z) (rdivl : Z) : list Z :=
  let r_modl := from_bits rbits in
  let c := (A + (2 ^ Z.of_nat L + rdivl * 2 ^ Z.of_nat l + r_modl)) mod p in
  let c := c mod 2 ^ Z.of_nat l in
  map (fun i => let r := nth i rbits 0 in if (bit_at c i =? 0) then r else 1 - r) (seq 0 l).

(* ===================================================================================== *)
(** * Proofs *)

Local Arguments Z.mul : simpl never.
Local Arguments Z.add : simpl never.
Local Arguments Z.sub : simpl never.
Local Arguments Z.pow : simpl never.
Local Arguments Z.div : simpl never.
Local Arguments Z.modulo : simpl never.
Local Arguments Z.of_nat : simpl never.

Ltac Zify.zify_post_hook ::= Z.div_mod_to_equations.

Lemma upd_range_spec c lo hi g k :
  upd_range c lo hi g k = if ((lo <=? k)%nat && (k <? hi)%nat)%bool then g k else c k.
Proof.
  unfold upd_range.
  destruct (Nat.leb_spec lo k) as [H1|H1]; destruct (Nat.ltb_spec k hi) as [H2|H2]; cbn [andb]; try reflexivity.
  rewrite nth_map_seq by lia. f_equal. lia.
Qed.

Definition allbitsb (x : list Z) : bool := forallb (fun b => (b =? 0) || (b =? 1))%bool x.
Lemma allbitsb_correct x : allbitsb x = true -> allbits x.
Proof.
  unfold allbitsb. intros H. apply Forall_forall. intros b Hb.
  rewrite forallb_forall in H. specialize (H b Hb). unfold isbit. lia.
Qed.

Lemma isbit_cases b : isbit b -> b = 0 \/ b = 1. Proof. auto. Qed.

Lemma allbits_nth x k : allbits x -> isbit (nth k x 0).
Proof.
  intros H. destruct (Nat.lt_ge_cases k (length x)) as [Hk|Hk].
  - eapply Forall_forall; [exact H|]. apply nth_In; exact Hk.
  - rewrite nth_overflow by exact Hk. left; reflexivity.
Qed.

Lemma value_app x1 x2 : value (x1 ++ x2) = value x1 + 2 ^ Z.of_nat (length x1) * value x2.
Proof.
  induction x1 as [|b x1 IH]; cbn [length app value].
  - change (Z.of_nat 0) with 0. rewrite Z.pow_0_r. ring.
  - rewrite IH. rewrite Nat2Z.inj_succ, Z.pow_succ_r by lia. ring.
Qed.

Lemma value_bounds x : allbits x -> 0 <= value x < 2 ^ Z.of_nat (length x).
Proof.
  induction 1 as [|b x Hb Hx IH]; cbn [length value].
  - change (Z.of_nat 0) with 0. rewrite Z.pow_0_r. lia.
  - rewrite Nat2Z.inj_succ, Z.pow_succ_r by lia. destruct Hb; subst; lia.
Qed.

Lemma from_bits_value x : from_bits x = value x.
Proof.
  unfold from_bits.
  assert (G : forall l s, fold_left (fun s a => s * 2 + a) (rev l) s
                          = value l + 2 ^ Z.of_nat (length l) * s).
  { induction l as [|b l IH]; intros s; cbn [rev value length].
    - cbn [fold_left]. change (Z.of_nat 0) with 0. rewrite Z.pow_0_r. ring.
    - rewrite fold_left_app. cbn [fold_left]. rewrite IH.
      rewrite Nat2Z.inj_succ, Z.pow_succ_r by lia. ring. }
  rewrite G. ring.
Qed.

Lemma bits_of_length a l : length (bits_of a l) = l.
Proof. revert a; induction l as [|l IH]; intros a; simpl; auto. Qed.

Lemma bits_of_allbits a l : allbits (bits_of a l).
Proof.
  revert a; induction l as [|l IH]; intros a; cbn [bits_of]; constructor.
  - unfold isbit. lia.
  - apply IH.
Qed.

Lemma value_bits_of a l : value (bits_of a l) = a mod 2 ^ Z.of_nat l.
Proof.
  revert a; induction l as [|l IH]; intros a.
  - simpl. rewrite Z.mod_1_r. reflexivity.
  - simpl bits_of. simpl value. rewrite IH.
    rewrite Nat2Z.inj_succ, Z.pow_succ_r by lia.
    assert (H2 : 0 < 2 ^ Z.of_nat l) by (apply Z.pow_pos_nonneg; lia).
    rewrite Z.rem_mul_r by lia. ring.
Qed.

(** a bit vector is determined by its value and length *)
Lemma bits_of_value x : allbits x -> bits_of (value x) (length x) = x.
Proof.
  induction 1 as [|b x Hb Hx IH]; simpl; [reflexivity|].
  f_equal.
  - destruct Hb; subst; lia.
  - replace ((b + 2 * value x) / 2) with (value x) by (destruct Hb; subst; lia). exact IH.
Qed.

Lemma bits_of_mod a l : bits_of (a mod 2 ^ Z.of_nat l) l = bits_of a l.
Proof.
  rewrite <- (value_bits_of a l).
  rewrite <- (bits_of_length a l) at 2.
  apply bits_of_value. apply bits_of_allbits.
Qed.

Lemma bits_unique x a : allbits x -> value x = a mod 2 ^ Z.of_nat (length x) -> x = bits_of a (length x).
Proof.
  intros Hb Hv. rewrite <- bits_of_mod, <- Hv. symmetry. apply bits_of_value. exact Hb.
Qed.

Theorem from_to_bits a l : from_bits (bits_of a l) = a mod 2 ^ Z.of_nat l.
Proof. rewrite from_bits_value. apply value_bits_of. Qed.

Lemma nth_bits_of a l i : (i < l)%nat -> nth i (bits_of a l) 0 = (a / 2 ^ Z.of_nat i) mod 2.
Proof.
  revert a i; induction l as [|l IH]; intros a i Hi; [lia|].
  destruct i as [|i]; simpl bits_of; simpl nth.
  - simpl. rewrite Z.div_1_r. reflexivity.
  - rewrite IH by lia. rewrite Nat2Z.inj_succ, Z.pow_succ_r by lia.
    rewrite Z.div_div by (try apply Z.pow_pos_nonneg; lia). reflexivity.
Qed.

Lemma bit_at_spec c i : bit_at c i = (c / 2 ^ Z.of_nat i) mod 2.
Proof.
  unfold bit_at. rewrite Z.shiftr_div_pow2 by lia.
  change 1 with (Z.ones 1). rewrite Z.land_ones by lia. reflexivity.
Qed.

Lemma map_bit_at c l : map (bit_at c) (seq 0 l) = bits_of c l.
Proof.
  apply nth_ext with (d := 0) (d' := 0).
  - rewrite map_length, seq_length, bits_of_length. reflexivity.
  - intros i Hi. rewrite map_length, seq_length in Hi.
    rewrite nth_map_seq by exact Hi. rewrite nth_bits_of by exact Hi. apply bit_at_spec.
Qed.

(* ------------------------------------------------------------------------------------- *)
(** ** carry / propagate specification of the arrays c and d *)

Section Carry.
Variables x y : arr.

Definition gen (t : nat) : Z := x t * y t.
Definition prop (t : nat) : Z := x t + y t - gen t * 2.

(** carry out of the block of [m] positions starting at [i], carry-in 0 *)
Fixpoint cr (i m : nat) : Z :=
  match m with O => 0 | S m' => gen (i + m') + prop (i + m') * cr i m' end.
(** all [m] positions starting at [i] propagate *)
Fixpoint pp (i m : nat) : Z :=
  match m with O => 1 | S m' => prop (i + m') * pp i m' end.

Lemma cr_split i a b : cr i (a + b) = cr (i + a) b + cr i a * pp (i + a) b.
Proof.
  induction b as [|b IH].
  - rewrite Nat.add_0_r. simpl. ring.
  - rewrite Nat.add_succ_r. simpl. rewrite IH. rewrite Nat.add_assoc. ring.
Qed.

Lemma pp_split i a b : pp i (a + b) = pp i a * pp (i + a) b.
Proof.
  induction b as [|b IH].
  - rewrite Nat.add_0_r. simpl. ring.
  - rewrite Nat.add_succ_r. simpl. rewrite IH. rewrite Nat.add_assoc. ring.
Qed.

Lemma half_split (i j : nat) : (i < j)%nat -> (j - i <> 1)%nat -> (i < i + (j - i) / 2 < j)%nat.
Proof.
  intros. pose proof (Nat.div_mod (j - i) 2 ltac:(lia)).
  pose proof (Nat.mod_upper_bound (j - i) 2 ltac:(lia)). lia.
Qed.

Lemma ab_f_spec fuel : forall i j high c d, (i < j)%nat -> (j - i <= fuel)%nat ->
  let cd' := ab_f fuel x y i j high (c, d) in
  (forall k, (i <= k < j)%nat -> fst cd' k = cr i (k - i + 1)) /\
  (forall k, ~ (i <= k < j)%nat -> fst cd' k = c k) /\
  (high = true -> forall k, (i <= k < j)%nat -> snd cd' k = pp i (k - i + 1)) /\
  (forall k, ~ (i <= k < j)%nat -> snd cd' k = d k).
Proof.
  induction fuel as [|fuel IH]; intros i j high c d Hij Hfuel; [lia|].
  cbn [ab_f]. destruct (Nat.eqb_spec (j - i) 1) as [E|E].
  - (* leaf *)
    assert (j = S i) by lia. subst j. cbn [fst snd]. repeat split.
    + intros k Hk. assert (k = i) by lia. subst k. unfold upd. rewrite Nat.eqb_refl.
      replace (i - i + 1)%nat with 1%nat by lia. simpl. rewrite Nat.add_0_r. unfold gen. ring.
    + intros k Hk. unfold upd. destruct (Nat.eqb_spec k i); [lia|reflexivity].
    + intros Hh k Hk. subst high. assert (k = i) by lia. subst k. unfold upd. rewrite Nat.eqb_refl.
      replace (i - i + 1)%nat with 1%nat by lia. simpl. rewrite Nat.add_0_r. unfold prop, gen. ring.
    + intros k Hk. destruct high; [|reflexivity]. unfold upd. destruct (Nat.eqb_spec k i); [lia|reflexivity].
  - (* split *)
    set (h := (i + (j - i) / 2)%nat).
    assert (Hh : (i < h < j)%nat) by (unfold h; apply half_split; lia).
    clearbody h.
    assert (F1 : (h - i <= fuel)%nat) by lia.
    assert (F2 : (j - h <= fuel)%nat) by lia.
    pose proof (IH i h high c d (proj1 Hh) F1) as L. cbv zeta in L.
    destruct (ab_f fuel x y i h high (c, d)) as [c1 d1] eqn:E1. cbn [fst snd] in L.
    destruct L as (Lc & Lc' & Ld & Ld').
    pose proof (IH h j true c1 d1 (proj2 Hh) F2) as R. cbv zeta in R.
    destruct (ab_f fuel x y h j true (c1, d1)) as [c2 d2] eqn:E2. cbn [fst snd] in R.
    destruct R as (Rc & Rc' & Rd & Rd'). specialize (Rd eq_refl).
    cbn [fst snd].
    assert (Ch : c2 (h - 1)%nat = cr i (h - i)).
    { rewrite Rc' by lia. rewrite Lc by lia. f_equal. lia. }
    repeat split.
    + intros k Hk. rewrite upd_range_spec.
      destruct (Nat.leb_spec h k) as [Hhk|Hhk]; destruct (Nat.ltb_spec k j) as [Hkj|Hkj]; cbn [andb]; try lia.
      * rewrite Ch, Rc, Rd by lia.
        replace (k - i + 1)%nat with ((h - i) + (k - h + 1))%nat by lia.
        rewrite (cr_split i (h - i) (k - h + 1)). replace (i + (h - i))%nat with h by lia. ring.
      * rewrite Rc' by lia. apply Lc. lia.
    + intros k Hk. rewrite upd_range_spec.
      destruct (Nat.leb_spec h k) as [Hhk|Hhk]; destruct (Nat.ltb_spec k j) as [Hkj|Hkj]; cbn [andb]; try lia.
      * rewrite Rc' by lia. apply Lc'. lia.
      * rewrite Rc' by lia. apply Lc'. lia.
    + intros Hhigh k Hk. subst high. specialize (Ld eq_refl). rewrite upd_range_spec.
      destruct (Nat.leb_spec h k) as [Hhk|Hhk]; destruct (Nat.ltb_spec k j) as [Hkj|Hkj]; cbn [andb]; try lia.
      * rewrite Rd' by lia. rewrite Ld by lia. rewrite Rd by lia.
        replace (k - i + 1)%nat with ((h - i) + (k - h + 1))%nat by lia.
        rewrite (pp_split i (h - i) (k - h + 1)). replace (i + (h - i))%nat with h by lia.
        replace (h - 1 - i + 1)%nat with (h - i)%nat by lia. ring.
      * rewrite Rd' by lia. apply Ld. lia.
    + intros k Hk. destruct high.
      * rewrite upd_range_spec.
        destruct (Nat.leb_spec h k) as [Hhk|Hhk]; destruct (Nat.ltb_spec k j) as [Hkj|Hkj]; cbn [andb]; try lia.
        -- rewrite Rd' by lia. apply Ld'. lia.
        -- rewrite Rd' by lia. apply Ld'. lia.
      * rewrite Rd' by lia. apply Ld'. lia.
Qed.

(** the in-place descending loop computes the sum bits from the carries *)
Definition sumbit (c : arr) (k : nat) : Z :=
  x k + y k - c k * 2 + (if (0 <? k)%nat then c (k - 1)%nat else 0).

Lemma ab_final_spec n : forall c,
  (forall k, (k < n)%nat -> ab_final x y n c k = sumbit c k) /\
  (forall k, (n <= k)%nat -> ab_final x y n c k = c k).
Proof.
  unfold ab_final. induction n as [|n IH]; intros c.
  - simpl. split; intros; [lia|reflexivity].
  - rewrite seq_S, rev_app_distr. cbn [rev app fold_left Nat.add].
    set (c1 := upd c n _).
    destruct (IH c1) as [I1 I2]. split.
    + intros k Hk. destruct (Nat.eq_dec k n) as [->|Hne].
      * rewrite I2 by lia. unfold c1, upd. rewrite Nat.eqb_refl. reflexivity.
      * rewrite I1 by lia. unfold sumbit, c1, upd.
        destruct (Nat.eqb_spec k n); [lia|].
        destruct (Nat.ltb_spec 0 k); [|reflexivity].
        destruct (Nat.eqb_spec (k - 1) n); [lia|reflexivity].
    + intros k Hk. rewrite I2 by lia. unfold c1, upd. destruct (Nat.eqb_spec k n); [lia|reflexivity].
Qed.

(** value of the first n entries of an array *)
Fixpoint valf (f : arr) (n : nat) : Z :=
  match n with O => 0 | S n' => valf f n' + 2 ^ Z.of_nat n' * f n' end.

Definition sbit (k : nat) : Z := x k + y k - cr 0 (k + 1) * 2 + cr 0 k.

(** full-adder identity summed over all positions; pure ring reasoning, no bit hypothesis *)
Lemma sbit_sum n : valf sbit n = valf x n + valf y n - 2 ^ Z.of_nat n * cr 0 n.
Proof.
  induction n as [|n IH].
  - simpl. ring.
  - cbn [valf]. rewrite IH. unfold sbit at 1. rewrite Nat.add_1_r.
    rewrite Nat2Z.inj_succ, Z.pow_succ_r by lia. ring.
Qed.

Hypothesis xbits : forall k, isbit (x k).
Hypothesis ybits : forall k, isbit (y k).

Lemma cr_bit i m : isbit (cr i m).
Proof.
  induction m as [|m IH]; [left; reflexivity|].
  simpl. unfold prop, gen.
  destruct (xbits (i + m)%nat) as [-> | ->], (ybits (i + m)%nat) as [-> | ->], IH as [-> | ->];
    unfold isbit; lia.
Qed.

Lemma sbit_bit k : isbit (sbit k).
Proof.
  unfold sbit. rewrite Nat.add_1_r. simpl cr. unfold prop, gen.
  destruct (xbits k) as [-> | ->], (ybits k) as [-> | ->], (cr_bit 0 k) as [-> | ->];
    unfold isbit; lia.
Qed.

Lemma valf_bounds (f : arr) n : (forall k, isbit (f k)) -> 0 <= valf f n < 2 ^ Z.of_nat n.
Proof.
  intros Hf. induction n as [|n IH]; cbn [valf]; [simpl; lia|].
  rewrite Nat2Z.inj_succ, Z.pow_succ_r by lia.
  destruct (Hf n) as [-> | ->]; lia.
Qed.

Lemma sbit_value n : valf sbit n = (valf x n + valf y n) mod 2 ^ Z.of_nat n.
Proof.
  pose proof (sbit_sum n) as S. pose proof (valf_bounds sbit n sbit_bit) as B.
  assert (H2 : 0 < 2 ^ Z.of_nat n) by (apply Z.pow_pos_nonneg; lia).
  apply Z.mod_unique with (q := cr 0 n); [left; exact B|]. lia.
Qed.

End Carry.

Lemma value_map_seq (f : arr) n : value (map f (seq 0 n)) = valf f n.
Proof.
  induction n as [|n IH]; [reflexivity|].
  rewrite seq_S, map_app, value_app, IH. cbn [valf map value Nat.add].
  rewrite map_length, seq_length. ring.
Qed.

Lemma map_arr_of x : map (arr_of x) (seq 0 (length x)) = x.
Proof.
  apply nth_ext with (d := 0) (d' := 0).
  - rewrite map_length, seq_length. reflexivity.
  - intros i Hi. rewrite map_length, seq_length in Hi. rewrite nth_map_seq by exact Hi. reflexivity.
Qed.

Lemma valf_arr_of x : valf (arr_of x) (length x) = value x.
Proof. rewrite <- value_map_seq, map_arr_of. reflexivity. Qed.

(** the model's output, position by position *)
Lemma add_bits_eq x y :
  add_bits x y = map (sbit (arr_of x) (arr_of y)) (seq 0 (length x)).
Proof.
  unfold add_bits. apply map_ext_in. intros k Hk. apply in_seq in Hk.
  set (xf := arr_of x). set (yf := arr_of y). set (n := length x) in *.
  destruct (ab_final_spec xf yf n
              (if (1 <=? n)%nat then fst (ab_f n xf yf 0 n false (fun _ => 0, fun _ => 0)) else fun _ => 0))
    as [F1 _].
  rewrite F1 by lia. clear F1.
  destruct (Nat.leb_spec 1 n) as [Hn|Hn]; [|lia].
  pose proof (ab_f_spec xf yf n 0 n false (fun _ => 0) (fun _ => 0) ltac:(lia) ltac:(lia)) as S.
  cbv zeta in S. destruct S as (Sc & _).
  unfold sumbit, sbit. rewrite Sc by lia.
  replace (k - 0 + 1)%nat with (k + 1)%nat by lia.
  destruct (Nat.ltb_spec 0 k) as [Hk0|Hk0].
  - rewrite Sc by lia. replace (k - 1 - 0 + 1)%nat with k by lia. reflexivity.
  - assert (k = 0)%nat by lia. subst k. reflexivity.
Qed.

Lemma add_bits_length x y : length (add_bits x y) = length x.
Proof. rewrite add_bits_eq, map_length, seq_length. reflexivity. Qed.

(** ** add_bits is binary addition modulo 2^n, for all lengths n *)
Theorem add_bits_correct x y :
  length y = length x -> allbits x -> allbits y ->
  value (add_bits x y) = (value x + value y) mod 2 ^ Z.of_nat (length x)
  /\ allbits (add_bits x y) /\ length (add_bits x y) = length x.
Proof.
  intros Hlen Hx Hy.
  assert (Xb : forall k, isbit (arr_of x k)) by (intros k; apply allbits_nth; exact Hx).
  assert (Yb : forall k, isbit (arr_of y k)) by (intros k; apply allbits_nth; exact Hy).
  split; [|split].
  - rewrite add_bits_eq, value_map_seq, sbit_value by assumption.
    rewrite valf_arr_of.
    replace (valf (arr_of y) (length x)) with (value y)
      by (rewrite <- Hlen; symmetry; apply valf_arr_of).
    reflexivity.
  - rewrite add_bits_eq. apply Forall_forall. intros b Hb.
    apply in_map_iff in Hb. destruct Hb as [k [<- _]]. apply sbit_bit; assumption.
  - apply add_bits_length.
Qed.

Corollary add_bits_is_bits_of x y :
  length y = length x -> allbits x -> allbits y ->
  add_bits x y = bits_of (value x + value y) (length x).
Proof.
  intros Hlen Hx Hy. destruct (add_bits_correct x y Hlen Hx Hy) as (V & B & Ln).
  rewrite <- Ln. apply bits_unique; [exact B|]. rewrite Ln. exact V.
Qed.

(* ------------------------------------------------------------------------------------- *)
(** ** to_bits *)

Lemma pow2_pos n : 0 < 2 ^ Z.of_nat n.
Proof. apply Z.pow_pos_nonneg; lia. Qed.

(** a multiple of 2^f has f zero bits followed by the bits of the quotient *)
Lemma bits_of_shift f : forall A m, A mod 2 ^ Z.of_nat f = 0 ->
  bits_of A (f + m) = repeat 0 f ++ bits_of (A / 2 ^ Z.of_nat f) m.
Proof.
  induction f as [|f IH]; intros A m H.
  - cbn [Nat.add repeat app]. change (Z.of_nat 0) with 0. rewrite Z.pow_0_r, Z.div_1_r. reflexivity.
  - rewrite Nat2Z.inj_succ, Z.pow_succ_r in * by lia.
    pose proof (pow2_pos f) as Hp.
    rewrite Z.rem_mul_r in H by lia.
    assert (H0 : A mod 2 = 0) by lia.
    assert (H1 : (A / 2) mod 2 ^ Z.of_nat f = 0) by lia.
    cbn [Nat.add bits_of repeat app]. rewrite H0. f_equal.
    rewrite IH by exact H1. rewrite Z.div_div by lia. reflexivity.
Qed.

Lemma bits_of_zero_low f : forall A l, A mod 2 ^ Z.of_nat f = 0 -> (l <= f)%nat -> bits_of A l = repeat 0 l.
Proof.
  induction f as [|f IH]; intros A l H Hl.
  - assert (l = O) by lia. subst l. reflexivity.
  - destruct l as [|l]; [reflexivity|].
    rewrite Nat2Z.inj_succ, Z.pow_succ_r in H by lia.
    pose proof (pow2_pos f) as Hp.
    rewrite Z.rem_mul_r in H by lia.
    cbn [bits_of repeat]. f_equal; [lia|]. apply IH; lia.
Qed.

(** the masked-opening core: for EVERY tape (rbits, rdivl) that does not wrap around the field *)
Lemma to_bits_core p L A' l' rbits rdivl :
  (l' <= L)%nat -> length rbits = l' -> allbits rbits ->
  0 <= A' + (2 ^ Z.of_nat L + rdivl * 2 ^ Z.of_nat l' - value rbits) < p ->
  add_bits rbits
    (map (bit_at (((A' + (2 ^ Z.of_nat L + rdivl * 2 ^ Z.of_nat l' - from_bits rbits)) mod p) mod 2 ^ Z.of_nat l'))
         (seq 0 l'))
  = bits_of A' l'.
Proof.
  intros HlL Hlen Hb Hwrap.
  rewrite from_bits_value, map_bit_at.
  rewrite (Z.mod_small _ p) by exact Hwrap.
  set (M := 2 ^ Z.of_nat l') in *.
  assert (HM : 0 < M) by apply pow2_pos.
  assert (HL : 2 ^ Z.of_nat L = M * 2 ^ Z.of_nat (L - l')).
  { unfold M. rewrite <- Z.pow_add_r by lia. f_equal. lia. }
  rewrite add_bits_is_bits_of.
  - rewrite Hlen. rewrite value_bits_of. fold M. rewrite Z.mod_mod by lia.
    rewrite <- bits_of_mod. fold M. rewrite Zplus_mod_idemp_r.
    rewrite <- (bits_of_mod A'). fold M. f_equal.
    rewrite HL.
    replace (value rbits + (A' + (M * 2 ^ Z.of_nat (L - l') + rdivl * M - value rbits)))
      with (A' + (2 ^ Z.of_nat (L - l') + rdivl) * M) by ring.
    apply Z_mod_plus_full.
  - rewrite bits_of_length. symmetry. exact Hlen.
  - exact Hb.
  - apply bits_of_allbits.
Qed.

Definition rshift_f (f : nat) (integral : bool) : bool := (negb (f =? 0)%nat && integral)%bool.

(** ** to_bits on secure integers / fixed-point numbers returns the two's complement expansion
    of the integer A carried by a (A mod 2^l), for every l <= L (l - f <= L on the integral
    shortcut) and every tape satisfying the no-wrap condition of the masked opening. *)
Theorem to_bits_num_correct p L f integral A l rbits rdivl :
  let rs := rshift_f f integral in
  let l' := if rs then (l - f)%nat else l in
  let A' := if rs then A / 2 ^ Z.of_nat f else A in
  (rs = true -> A mod 2 ^ Z.of_nat f = 0) ->
  ((rs && (l <=? f)%nat)%bool = true \/
   ((l' <= L)%nat /\ length rbits = l' /\ allbits rbits /\
    0 <= A' + (2 ^ Z.of_nat L + rdivl * 2 ^ Z.of_nat l' - value rbits) < p)) ->
  to_bits_num p L f integral A l rbits rdivl = bits_of A l.
Proof.
  intros rs l' A' Hint H. unfold to_bits_num. fold (rshift_f f integral). fold rs.
  destruct (rs && (l <=? f)%nat)%bool eqn:Eearly.
  - apply andb_prop in Eearly. destruct Eearly as [Ers Elf]. apply Nat.leb_le in Elf.
    symmetry. apply bits_of_zero_low with (f := f); auto.
  - destruct H as [H|H]; [discriminate|]. destruct H as (HlL & Hlen & Hb & Hwrap).
    destruct rs eqn:Ers; subst l' A'.
    + cbn [andb] in Eearly. apply Nat.leb_gt in Eearly.
      rewrite to_bits_core by assumption.
      replace l with (f + (l - f))%nat at 2 by lia.
      symmetry. apply bits_of_shift. auto.
    + rewrite to_bits_core by assumption. reflexivity.
Qed.

(** secure integers (f = 0): the plain statement *)
Corollary to_bits_int_correct p L a l rbits rdivl :
  (l <= L)%nat -> length rbits = l -> allbits rbits ->
  0 <= a + (2 ^ Z.of_nat L + rdivl * 2 ^ Z.of_nat l - value rbits) < p ->
  to_bits_num p L 0 false a l rbits rdivl = bits_of a l.
Proof.
  intros. apply to_bits_num_correct; cbn; [discriminate|]. right. auto.
Qed.

(** the no-wrap condition follows from the ranges of the code: a in the L-bit signed range,
    r_divl >= 1 (or l < L), r_divl < 2^(L+k-l), and a field of more than L+k+1 bits *)
Lemma nowrap_from_ranges p L k a l rbits rdivl :
  (l <= L)%nat -> (1 <= k)%nat -> length rbits = l -> allbits rbits ->
  - 2 ^ Z.of_nat L <= 2 * a < 2 ^ Z.of_nat L ->
  0 <= rdivl < 2 ^ Z.of_nat (L + k - l) -> (1 <= rdivl \/ (l < L)%nat) ->
  2 ^ Z.of_nat (L + k + 1) <= p ->
  0 <= a + (2 ^ Z.of_nat L + rdivl * 2 ^ Z.of_nat l - value rbits) < p.
Proof.
  intros HlL Hk Hlen Hb Ha Hr Hr1 Hp.
  assert (E5 : 2 * 2 ^ Z.of_nat L <= 2 ^ Z.of_nat (L + k)).
  { rewrite <- Z.pow_succ_r by lia. apply Z.pow_le_mono_r; lia. }
  pose proof (value_bounds rbits Hb) as Vb. rewrite Hlen in Vb.
  pose proof (pow2_pos l) as Pl. pose proof (pow2_pos L) as PL.
  assert (E1 : 2 ^ Z.of_nat (L + k - l) * 2 ^ Z.of_nat l = 2 ^ Z.of_nat (L + k)).
  { rewrite <- Z.pow_add_r by lia. f_equal. lia. }
  assert (E2 : 2 ^ Z.of_nat (L + k + 1) = 2 * 2 ^ Z.of_nat (L + k)).
  { rewrite <- Z.pow_succ_r by lia. f_equal. lia. }
  assert (E3 : 2 ^ Z.of_nat L <= 2 ^ Z.of_nat (L + k)) by (apply Z.pow_le_mono_r; lia).
  assert (E4 : 2 ^ Z.of_nat l <= 2 ^ Z.of_nat L) by (apply Z.pow_le_mono_r; lia).
  split.
  - destruct Hr1 as [Hr1|Hr1].
    + assert (2 ^ Z.of_nat l <= rdivl * 2 ^ Z.of_nat l) by nia. lia.
    + assert (2 * 2 ^ Z.of_nat l <= 2 ^ Z.of_nat L).
      { rewrite <- Z.pow_succ_r by lia. apply Z.pow_le_mono_r; lia. }
      assert (0 <= rdivl * 2 ^ Z.of_nat l) by nia. lia.
  - assert ((rdivl + 1) * 2 ^ Z.of_nat l <= 2 ^ Z.of_nat (L + k - l) * 2 ^ Z.of_nat l)
      by (apply Z.mul_le_mono_nonneg_r; lia).
    lia.
Qed.

(** the statistical-error event: r_divl = 0, l = L and a + 2^L < r_modl wraps around the field
    and gives wrong bits (probability <= 2^-k over the tape) *)
Lemma to_bits_wrap_witness :
  to_bits_num 1099511627563 8 0 false (-128) 8 [1;1;1;1;1;1;1;1] 0 <> bits_of (-128) 8.
Proof. vm_compute. discriminate. Qed.

(** l > bit_length on a nonintegral fixed-point number: allowed by the code's assert
    (l <= bit_length + frac_length), no wrap, yet the result is not the expansion of A *)
Lemma to_bits_l_gt_bit_length_refuted :
  exists p L f A l rbits rdivl,
    (l <= L + f)%nat /\ length rbits = l /\ allbits rbits /\
    - 2 ^ Z.of_nat L <= 2 * A < 2 ^ Z.of_nat L /\
    0 <= A + (2 ^ Z.of_nat L + rdivl * 2 ^ Z.of_nat l - value rbits) < p /\
    to_bits_num p L f false A l rbits rdivl <> bits_of A l.
Proof.
  exists 17592186044423, 8%nat, 4%nat, 44, 12%nat, [1;0;1;1;0;1;1;0;0;1;0;1], 12345.
  split; [cbn; lia|]. split; [reflexivity|].
  split; [apply allbitsb_correct; reflexivity|].
  split; [vm_compute; split; [discriminate|reflexivity]|].
  split; [vm_compute; split; [discriminate|reflexivity]|].
  vm_compute. discriminate.
Qed.

(** prime fields: via SecInt(1 + bit_length) *)
Corollary to_bits_gfp_correct p' bl a l rbits rdivl :
  (l <= S bl)%nat -> length rbits = l -> allbits rbits ->
  0 <= a + (2 ^ Z.of_nat (S bl) + rdivl * 2 ^ Z.of_nat l - value rbits) < p' ->
  to_bits_gfp p' bl a l rbits rdivl = bits_of a l.
Proof. intros. unfold to_bits_gfp. apply to_bits_int_correct; assumption. Qed.

Lemma bitdiv_testbit c i : (c / 2 ^ Z.of_nat i) mod 2 = Z.b2z (Z.testbit c (Z.of_nat i)).
Proof. symmetry. apply Z.testbit_spec'. lia. Qed.

Lemma nth_allbits_testbit x i : allbits x -> (i < length x)%nat ->
  nth i x 0 = Z.b2z (Z.testbit (value x) (Z.of_nat i)).
Proof.
  intros Hb Hi. rewrite <- bitdiv_testbit, <- nth_bits_of with (l := length x) by exact Hi.
  rewrite bits_of_value by exact Hb. reflexivity.
Qed.

(** binary fields: for every tape the result is the binary expansion of (the representation of) a *)
Theorem to_bits_gf2_correct a l rbits :
  length rbits = l -> allbits rbits -> to_bits_gf2 a l rbits = bits_of a l.
Proof.
  intros Hlen Hb. unfold to_bits_gf2.
  apply nth_ext with (d := 0) (d' := 0).
  - rewrite map_length, seq_length, bits_of_length. reflexivity.
  - intros i Hi. rewrite map_length, seq_length in Hi.
    rewrite nth_map_seq by exact Hi. cbn [Nat.add].
    rewrite nth_bits_of by exact Hi. rewrite bit_at_spec, from_bits_value.
    rewrite nth_allbits_testbit by (try exact Hb; lia).
    rewrite !bitdiv_testbit. rewrite Z.lxor_spec.
    destruct (Z.testbit a (Z.of_nat i)), (Z.testbit (value rbits) (Z.of_nat i)); reflexivity.
Qed.

(* ------------------------------------------------------------------------------------- *)
(** ** trailing_zeros *)

Lemma mod_pow2_bit X l i : (i < l)%nat ->
  ((X mod 2 ^ Z.of_nat l) / 2 ^ Z.of_nat i) mod 2 = (X / 2 ^ Z.of_nat i) mod 2.
Proof.
  intros Hi. rewrite !bitdiv_testbit. f_equal. apply Z.mod_pow2_bits_low. lia.
Qed.

Lemma trailing_zeros_length p L A l rbits rdivl : length (trailing_zeros p L A l rbits rdivl) = l.
Proof. unfold trailing_zeros. rewrite map_length, seq_length. reflexivity. Qed.

Lemma trailing_zeros_allbits p L A l rbits rdivl :
  allbits rbits -> allbits (trailing_zeros p L A l rbits rdivl).
Proof.
  intros Hb. unfold trailing_zeros. apply Forall_forall. intros b Hin.
  apply in_map_iff in Hin. destruct Hin as [i [<- _]].
  pose proof (allbits_nth rbits i Hb) as Hr. cbv zeta.
  destruct (_ =? 0); destruct Hr as [-> | ->]; unfold isbit; lia.
Qed.

(** bit i of the result is bit i of A whenever all lower bits of A are 0, i.e. the result is
    correct up to and including the least significant 1 (all-zero if A mod 2^l = 0) *)
Theorem trailing_zeros_correct p L A l rbits rdivl :
  (l <= L)%nat -> length rbits = l -> allbits rbits ->
  0 <= A + (2 ^ Z.of_nat L + rdivl * 2 ^ Z.of_nat l + value rbits) < p ->
  forall i, (i < l)%nat -> A mod 2 ^ Z.of_nat i = 0 ->
    nth i (trailing_zeros p L A l rbits rdivl) 0 = (A / 2 ^ Z.of_nat i) mod 2.
Proof.
  intros HlL Hlen Hb Hwrap i Hi Hlow. unfold trailing_zeros.
  rewrite nth_map_seq by exact Hi. cbn [Nat.add]. cbv zeta.
  rewrite from_bits_value, bit_at_spec.
  rewrite (Z.mod_small _ p) by exact Hwrap.
  rewrite mod_pow2_bit by exact Hi.
  pose proof (pow2_pos i) as Pi.
  set (r := value rbits) in *.
  assert (Hri : nth i rbits 0 = (r / 2 ^ Z.of_nat i) mod 2).
  { unfold r. rewrite nth_allbits_testbit by (try exact Hb; lia). symmetry. apply bitdiv_testbit. }
  rewrite Hri.
  (* A + 2^L + rdivl 2^l + r = 2^i * (A/2^i + 2^(L-i) + rdivl 2^(l-i)) + r *)
  assert (EL : 2 ^ Z.of_nat L = 2 ^ Z.of_nat i * (2 * 2 ^ Z.of_nat (L - i - 1))).
  { rewrite <- Z.pow_succ_r, <- Z.pow_add_r by lia. f_equal. lia. }
  assert (El : 2 ^ Z.of_nat l = 2 ^ Z.of_nat i * (2 * 2 ^ Z.of_nat (l - i - 1))).
  { rewrite <- Z.pow_succ_r, <- Z.pow_add_r by lia. f_equal. lia. }
  assert (EA : A = 2 ^ Z.of_nat i * (A / 2 ^ Z.of_nat i)).
  { pose proof (Z.div_mod A (2 ^ Z.of_nat i) ltac:(lia)). lia. }
  set (A1 := A / 2 ^ Z.of_nat i) in *. clearbody A1.
  replace (A + (2 ^ Z.of_nat L + rdivl * 2 ^ Z.of_nat l + r))
    with (r + (A1 + 2 * 2 ^ Z.of_nat (L - i - 1) + rdivl * (2 * 2 ^ Z.of_nat (l - i - 1))) * 2 ^ Z.of_nat i)
    by (rewrite EL, El, EA; ring).
  rewrite Z.div_add by lia.
  set (q := r / 2 ^ Z.of_nat i).
  set (u := 2 ^ Z.of_nat (L - i - 1)). set (w := 2 ^ Z.of_nat (l - i - 1)).
  replace (q + (A1 + 2 * u + rdivl * (2 * w))) with (q + A1 + (u + rdivl * w) * 2) by ring.
  rewrite Z_mod_plus_full.
  assert (Hq : q mod 2 = 0 \/ q mod 2 = 1) by lia.
  assert (Ha : A1 mod 2 = 0 \/ A1 mod 2 = 1) by lia.
  rewrite Z.add_mod by lia.
  destruct Hq as [-> | ->], Ha as [-> | ->]; reflexivity.
Qed.

Corollary trailing_zeros_zero p L A l rbits rdivl :
  (l <= L)%nat -> length rbits = l -> allbits rbits ->
  0 <= A + (2 ^ Z.of_nat L + rdivl * 2 ^ Z.of_nat l + value rbits) < p ->
  A mod 2 ^ Z.of_nat l = 0 ->
  trailing_zeros p L A l rbits rdivl = repeat 0 l.
Proof.
  intros HlL Hlen Hb Hwrap H0.
  apply nth_ext with (d := 0) (d' := 0).
  - rewrite trailing_zeros_length, repeat_length. reflexivity.
  - intros i Hi. rewrite trailing_zeros_length in Hi.
    assert (El : 2 ^ Z.of_nat l = 2 ^ Z.of_nat i * (2 * 2 ^ Z.of_nat (l - i - 1))).
    { rewrite <- Z.pow_succ_r, <- Z.pow_add_r by lia. f_equal. lia. }
    pose proof (pow2_pos i) as Pi. pose proof (pow2_pos (l - i - 1)) as Pj.
    rewrite El in H0. rewrite Z.rem_mul_r in H0 by lia.
    pose proof (Z.mod_pos_bound A (2 ^ Z.of_nat i) Pi) as B1.
    pose proof (Z.mod_pos_bound (A / 2 ^ Z.of_nat i) (2 * 2 ^ Z.of_nat (l - i - 1)) ltac:(lia)) as B2.
    set (m1 := A mod 2 ^ Z.of_nat i) in *.
    set (m2 := (A / 2 ^ Z.of_nat i) mod (2 * 2 ^ Z.of_nat (l - i - 1))) in *.
    assert (M1 : m1 = 0) by nia.
    assert (M2 : m2 = 0) by nia.
    unfold m2 in M2. rewrite Z.rem_mul_r in M2 by lia.
    rewrite trailing_zeros_correct by assumption.
    rewrite nth_repeat.
    pose proof (Z.mod_pos_bound (A / 2 ^ Z.of_nat i) 2 ltac:(lia)) as B3.
    pose proof (Z.mod_pos_bound (A / 2 ^ Z.of_nat i / 2) (2 ^ Z.of_nat (l - i - 1)) Pj) as B4.
    lia.
Qed.
