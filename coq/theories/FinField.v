(** C20 — model of the scalar prime-field element class of mpyc/finfields.py
    (FiniteFieldElement / PrimeFieldElement) with the pure-Python gmpy stubs of mpyc/gmpy.py
    underneath (invert = iterative extended Euclid, powmod = builtin pow).

    An element of GF(p) is its reduced representative [value : Z] (class invariant
    "value is reduced w.r.t. modulus").  Every operator method is modelled as coded:
    the constructor reduces ([value.__mod__(modulus)]), in-place forms do [value op= x; value %= p].
    Python exceptions are an explicit [result] type. *)
Require Import MPyC.Field MPyC.Zp.
From Coq Require Import ZArith Znumtheory Lia Bool List.
Import ListNotations.
Local Open Scope Z_scope.

Inductive error := ZeroDiv | ValueE | TypeE | Fuel.
Inductive result (A : Type) := Ok (a : A) | Err (e : error).
Arguments Ok {A} a.
Arguments Err {A} e.
Definition bind {A B} (r : result A) (f : A -> result B) : result B :=
  match r with Ok a => f a | Err e => Err e end.

(** ** gmpy.py stubs *)

(** invert(x, m):  a, b = x, m; s, s1 = 1, 0
                   while b: a, (q, b) = b, divmod(a, b); s, s1 = s1, s - q*s1
    returns the final (a, s); [None] = fuel exhausted (excluded by [inv_loop_gcd]). *)
Fixpoint inv_loop (fuel : nat) (a b s s1 : Z) : option (Z * Z) :=
  match fuel with
  | O => None
  | S f => if b =? 0 then Some (a, s) else inv_loop f b (a mod b) s1 (s - (a / b) * s1)
  end.

Definition inv_fuel (m : Z) : nat := (2 * Z.to_nat (Z.log2_up m) + 4)%nat.

Definition invert (x m : Z) : result Z :=
  if m =? 0 then Err ZeroDiv else
  let m := Z.abs m in
  if m =? 1 then Ok 0 else
  match inv_loop (inv_fuel m) x m 1 0 with
  | None => Err Fuel
  | Some (a, s) => if a =? 1 then Ok (if s <? 0 then s + m else s) else Err ZeroDiv
  end.

(** powmod(x, y, m) = pow(x, y, m): left-to-right square-and-multiply on the binary exponent;
    a negative exponent inverts the base first (CPython raises ValueError when there is no inverse;
    gmpy2 proper would raise ZeroDivisionError). *)
Fixpoint pow_pos (m x : Z) (e : positive) : Z :=
  match e with
  | xH => x mod m
  | xO e' => let r := pow_pos m x e' in (r * r) mod m
  | xI e' => let r := pow_pos m x e' in ((r * r) mod m * x) mod m
  end.

Definition powmod (x y m : Z) : result Z :=
  match y with
  | Z0 => Ok (1 mod m)
  | Zpos e => Ok (pow_pos m x e)
  | Zneg e => match invert x m with
              | Ok xi => Ok (pow_pos m xi e)
              | Err ZeroDiv => Err ValueE
              | Err e' => Err e'
              end
  end.

(** Python's  v << n  on ints *)
Definition shl (v n : Z) : result Z := if n <? 0 then Err ValueE else Ok (Z.shiftl v n).

(** ** the element class *)
(** right operand: an element of the same field (its reduced value) or a Python int *)
Inductive operand := El (b : Z) | Int (n : Z).
Definition raw (o : operand) : Z := match o with El b => b | Int n => n end.

Section Elem.
Variable p : Z.

Definition mk (v : Z) : Z := v mod p.                       (* PrimeFieldElement.__init__ *)

Definition add (a : Z) (o : operand) : Z := mk (a + raw o).
Definition radd (a n : Z) : Z := mk (a + n).
Definition iadd (a : Z) (o : operand) : Z := (a + raw o) mod p.
Definition sub (a : Z) (o : operand) : Z := mk (a - raw o).
Definition rsub (a n : Z) : Z := mk (n - a).
Definition isub (a : Z) (o : operand) : Z := (a - raw o) mod p.
Definition neg (a : Z) : Z := mk (- a).
Definition pos (a : Z) : Z := mk a.
Definition mul (a : Z) (o : operand) : Z := mk (a * raw o).
Definition rmul (a n : Z) : Z := mk (a * n).
Definition imul (a : Z) (o : operand) : Z := (a * raw o) mod p.

Definition reciprocal_ (x : Z) : result Z := invert x p.     (* classmethod _reciprocal on raw values *)
Definition reciprocal (a : Z) : result Z := bind (reciprocal_ a) (fun r => Ok (mk r)).
Definition truediv (a : Z) (o : operand) : result Z :=
  bind (reciprocal_ (raw o)) (fun r => Ok (mul a (Int r))).   (* self * _reciprocal(other) *)
Definition rtruediv (a n : Z) : result Z :=
  bind (reciprocal a) (fun r => Ok (mul r (Int n))).          (* self.reciprocal() * other *)
Definition itruediv (a : Z) (o : operand) : result Z :=
  bind (reciprocal_ (raw o)) (fun r => Ok ((a * r) mod p)).

Definition pow (a n : Z) : result Z := bind (powmod a n p) (fun r => Ok (mk r)).

Definition lshift (a n : Z) : result Z := bind (shl a n) (fun v => Ok (mk v)).
Definition ilshift (a n : Z) : result Z := bind (shl a n) (fun v => Ok (v mod p)).
Definition reciprocal2 (n : Z) : result Z := bind (shl 1 n) reciprocal_.
Definition rshift (a n : Z) : result Z := bind (reciprocal2 n) (fun r => Ok (mk (a * r))).
Definition irshift (a n : Z) : result Z := bind (reciprocal2 n) (fun r => Ok ((a * r) mod p)).

Definition eq (a : Z) (o : operand) : bool :=
  match o with El b => a =? b | Int n => a =? n mod p end.
Definition truth (a : Z) : bool := negb (a =? 0).

(** reference notions used in the statements *)
Fixpoint pow_iter (a : Z) (n : nat) : Z :=                   (* 1 * a * a * ... * a, through [mul] *)
  match n with O => mk 1 | S n' => mul (pow_iter a n') (El a) end.
End Elem.

(** ** entry points for the correspondence run (no proofs below depend on these) *)
Inductive opc := OAdd | ORAdd | OIAdd | OSub | ORSub | OISub | OMul | ORMul | OIMul
               | ODiv | ORDiv | OIDiv | OPow | OLsh | OILsh | ORsh | OIRsh | OEq | ONeg | OPos
               | ORecip | OBool.
Inductive arg := AEl (b : Z) | AInt (n : Z) | ABad | ANone.

Definition b2z (b : bool) : Z := if b then 1 else 0.
Definition with_operand (x : arg) (f : operand -> result Z) : result Z :=
  match x with AEl b => f (El b) | AInt n => f (Int n) | _ => Err TypeE end.
Definition with_int (x : arg) (f : Z -> result Z) : result Z :=
  match x with AInt n => f n | _ => Err TypeE end.

Definition run (p : Z) (op : opc) (a : Z) (x : arg) : result Z :=
  match op with
  | OAdd => with_operand x (fun o => Ok (add p a o))
  | ORAdd => with_int x (fun n => Ok (radd p a n))
  | OIAdd => with_operand x (fun o => Ok (iadd p a o))
  | OSub => with_operand x (fun o => Ok (sub p a o))
  | ORSub => with_int x (fun n => Ok (rsub p a n))
  | OISub => with_operand x (fun o => Ok (isub p a o))
  | OMul => with_operand x (fun o => Ok (mul p a o))
  | ORMul => with_int x (fun n => Ok (rmul p a n))
  | OIMul => with_operand x (fun o => Ok (imul p a o))
  | ODiv => with_operand x (truediv p a)
  | ORDiv => with_int x (rtruediv p a)
  | OIDiv => with_operand x (itruediv p a)
  | OPow => with_int x (pow p a)
  | OLsh => with_int x (lshift p a)
  | OILsh => with_int x (ilshift p a)
  | ORsh => with_int x (rshift p a)
  | OIRsh => with_int x (irshift p a)
  | OEq => match x with AEl b => Ok (b2z (eq p a (El b))) | AInt n => Ok (b2z (eq p a (Int n)))
                      | _ => Ok 0 end
  | ONeg => Ok (neg p a)
  | OPos => Ok (pos p a)
  | ORecip => reciprocal p a
  | OBool => Ok (b2z (truth a))
  end.

(** results as integers: value, or -1 ZeroDivisionError, -2 ValueError, -3 TypeError, -4 fuel *)
Definition code (r : result Z) : Z :=
  match r with Ok v => v | Err ZeroDiv => -1 | Err ValueE => -2 | Err TypeE => -3 | Err Fuel => -4 end.

Definition zrange (n : Z) : list Z := map Z.of_nat (seq 0 (Z.to_nat n)).   (* harness tables only *)
Definition table_el (p : Z) (op : opc) : list (list Z) :=
  map (fun a => map (fun b => code (run p op a (AEl b))) (zrange p)) (zrange p).
Definition table_int (p : Z) (op : opc) (ns : list Z) : list (list Z) :=
  map (fun a => map (fun n => code (run p op a (AInt n))) ns) (zrange p).
Definition row (p : Z) (op : opc) (cases : list (Z * arg)) : list Z :=
  map (fun c => code (run p op (fst c) (snd c))) cases.

(** ** Proofs *)

(** *** invert: Bezout invariant, termination with logarithmic fuel, gcd *)
Lemma inv_loop_bezout x m : forall fuel a b s s1 g s',
  inv_loop fuel a b s s1 = Some (g, s') ->
  (exists k, s * x + k * m = a) -> (exists k, s1 * x + k * m = b) ->
  exists k, s' * x + k * m = g.
Proof.
  induction fuel as [|f IH]; intros a b s s1 g s' E [ka Ha] [kb Hb]; simpl in E; [discriminate|].
  destruct (b =? 0) eqn:Eb.
  - inversion E; subst. exists ka. reflexivity.
  - apply Z.eqb_neq in Eb. eapply IH; [exact E|exists kb; exact Hb|].
    exists (ka - (a / b) * kb). rewrite (Z.mod_eq a b Eb). rewrite <- Ha at 1. rewrite <- Hb at 2.
    rewrite <- Hb at 3. ring_simplify. rewrite <- Ha, <- Hb. ring.
Qed.

Lemma inv_loop_S f a b s s1 :
  inv_loop (S f) a b s s1 = if b =? 0 then Some (a, s) else inv_loop f b (a mod b) s1 (s - (a / b) * s1).
Proof. reflexivity. Qed.

Lemma inv_loop_gcd : forall (k : nat) fuel a b s s1,
  0 <= b < a -> a < 2 ^ Z.of_nat k -> (2 * k + 1 <= fuel)%nat ->
  exists s', inv_loop fuel a b s s1 = Some (Z.gcd a b, s').
Proof.
  induction k as [|k IH]; intros fuel a b s s1 Hab Ha Hf.
  - simpl in Ha. lia.
  - destruct fuel as [|[|fuel]]; try lia.
    destruct (Z.eq_dec b 0) as [E|E].
    { subst b. exists s. rewrite inv_loop_S, Z.eqb_refl, Z.gcd_0_r, Z.abs_eq by lia. reflexivity. }
    rewrite inv_loop_S. rewrite (proj2 (Z.eqb_neq b 0) E). rewrite inv_loop_S.
    assert (Hr1 : 0 <= a mod b < b) by (apply Z.mod_pos_bound; lia).
    assert (G1 : Z.gcd a b = Z.gcd b (a mod b)).
    { rewrite (Z.gcd_comm a b), (Z.gcd_comm b (a mod b)). symmetry. apply Z.gcd_mod. exact E. }
    destruct (Z.eq_dec (a mod b) 0) as [E1|E1].
    { rewrite E1. rewrite Z.eqb_refl. rewrite G1, E1, Z.gcd_0_r, Z.abs_eq by lia. eauto. }
    rewrite (proj2 (Z.eqb_neq (a mod b) 0) E1).
    assert (G2 : Z.gcd b (a mod b) = Z.gcd (a mod b) (b mod (a mod b))).
    { rewrite (Z.gcd_comm b), (Z.gcd_comm (a mod b) (b mod _)). symmetry. apply Z.gcd_mod. exact E1. }
    rewrite G1, G2. apply IH.
    + apply Z.mod_pos_bound; lia.
    + assert (2 * (a mod b) < a).
      { destruct (Z_le_gt_dec (2 * b) a).
        - lia.
        - assert (a / b = 1). { symmetry. apply Z.div_unique with (a - b); lia. }
          pose proof (Z.div_mod a b E). lia. }
      rewrite Nat2Z.inj_succ, Z.pow_succ_r in Ha by lia. lia.
    + lia.
Qed.

Lemma invert_run p x : 2 <= p ->
  exists s', inv_loop (inv_fuel p) x p 1 0 = Some (Z.gcd p (x mod p), s')
             /\ exists k, s' * x + k * p = Z.gcd p (x mod p).
Proof.
  intros Hp2.
  assert (Hr : 0 <= x mod p < p) by (apply Z.mod_pos_bound; lia).
  set (L := Z.to_nat (Z.log2_up p)).
  assert (HL : p < 2 ^ Z.of_nat (S L)).
  { unfold L. rewrite Nat2Z.inj_succ, Z.pow_succ_r by lia.
    rewrite Z2Nat.id by apply Z.log2_up_nonneg.
    pose proof (Z.log2_up_spec p ltac:(lia)). lia. }
  destruct (inv_loop_gcd (S L) (2 * L + 3)%nat p (x mod p) 0 (1 - x / p * 0) Hr HL ltac:(lia))
    as [s' Hs'].
  exists s'. assert (E : inv_loop (inv_fuel p) x p 1 0 = Some (Z.gcd p (x mod p), s')).
  { unfold inv_fuel. fold L. replace (2 * L + 4)%nat with (S (2 * L + 3)) by lia.
    rewrite inv_loop_S. rewrite (proj2 (Z.eqb_neq p 0)) by lia. exact Hs'. }
  split; [exact E|].
  eapply (inv_loop_bezout x p); [exact E| |].
  - exists 0. ring.
  - exists 1. ring.
Qed.

Lemma gcd_prime_mod p x : prime p -> Z.gcd p (x mod p) = if x mod p =? 0 then p else 1.
Proof.
  intros Hp. pose proof (prime_ge_2 p Hp).
  destruct (x mod p =? 0) eqn:E.
  - apply Z.eqb_eq in E. rewrite E, Z.gcd_0_r. lia.
  - apply Z.eqb_neq in E. apply Zgcd_1_rel_prime. apply prime_rel_prime; auto.
    intros Hd. apply E. apply Zdivide_mod in Hd. rewrite Z.mod_mod in Hd by lia. exact Hd.
Qed.

(** nonzero residues have an inverse, and the loop finds it *)
Lemma invert_ok p x : prime p -> x mod p <> 0 ->
  exists y, invert x p = Ok y /\ (x * y) mod p = 1.
Proof.
  intros Hp Hx. pose proof (prime_ge_2 p Hp) as Hp2.
  destruct (invert_run p x Hp2) as [s' [E [k Hk]]].
  rewrite gcd_prime_mod in E, Hk by exact Hp.
  rewrite (proj2 (Z.eqb_neq _ _) Hx) in E, Hk.
  unfold invert. rewrite (proj2 (Z.eqb_neq p 0)) by lia. rewrite Z.abs_eq by lia.
  rewrite (proj2 (Z.eqb_neq p 1)) by lia. rewrite E. cbn [Z.eqb Pos.eqb].
  eexists; split; [reflexivity|].
  assert (H1 : (x * s') mod p = 1).
  { replace (x * s') with (1 + (- k) * p) by lia. rewrite Z.mod_add by lia. apply Z.mod_1_l. lia. }
  destruct (s' <? 0); [|exact H1].
  replace (x * (s' + p)) with (x * s' + x * p) by ring. rewrite Z.mod_add by lia. exact H1.
Qed.

(** zero (any multiple of p) has none: ZeroDivisionError *)
Lemma invert_zero p x : prime p -> x mod p = 0 -> invert x p = Err ZeroDiv.
Proof.
  intros Hp Hx. pose proof (prime_ge_2 p Hp) as Hp2.
  destruct (invert_run p x Hp2) as [s' [E _]].
  rewrite gcd_prime_mod in E by exact Hp. rewrite Hx in E. cbn [Z.eqb] in E.
  unfold invert. rewrite (proj2 (Z.eqb_neq p 0)) by lia. rewrite Z.abs_eq by lia.
  rewrite (proj2 (Z.eqb_neq p 1)) by lia. rewrite E.
  rewrite (proj2 (Z.eqb_neq p 1)) by lia. reflexivity.
Qed.

