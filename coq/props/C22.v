(** C22 — field elements survive serialisation.  Statements over coq/theories/Serial.v
    (to_bytes / from_bytes / byte_length / signed_ / unsigned_ / __int__ of mpyc/finfields.py). *)
Require Import MPyC.Serial.
From Coq Require Import ZArith List.
Import ListNotations.
Local Open Scope nat_scope.

(** decoding the byte encoding returns the original values: every width r >= 1, every list length
    (0 included), every list of values in [0, 256^r); the encoding has r bytes per value *)
Theorem C22_from_bytes_to_bytes : forall r vs, 0 < r ->
  Forall (fun v => 0 <= v < 256 ^ Z.of_nat r)%Z vs ->
  exists data, to_bytes r vs = Some data /\ length data = r * length vs /\
               (forall b, In b data -> 0 <= b < 256)%Z /\ from_bytes r data = vs.
Proof. exact from_bytes_to_bytes. Qed.
Print Assumptions C22_from_bytes_to_bytes.

(** a value that does not fit is rejected (OverflowError), never truncated *)
Theorem C22_to_bytes_rejects : forall r vs,
  (exists v, In v vs /\ ~ (0 <= v < 256 ^ Z.of_nat r)%Z) -> to_bytes r vs = None.
Proof. exact to_bytes_rejects. Qed.
Print Assumptions C22_to_bytes_rejects.

(** byte_length = (order.bit_length() + 7) >> 3 is >= 1 and wide enough for every value below the order *)
Theorem C22_byte_length_fits : forall q, (1 <= q)%Z ->
  (q <= 256 ^ Z.of_nat (byte_length q))%Z /\ 1 <= byte_length q.
Proof. exact byte_length_fits. Qed.
Print Assumptions C22_byte_length_fits.

(** hence: every list of reduced values of a field of any order q round-trips *)
Theorem C22_field_roundtrip : forall q vs, (1 <= q)%Z -> Forall (fun v => 0 <= v < q)%Z vs ->
  exists data, to_bytes (byte_length q) vs = Some data /\ from_bytes (byte_length q) data = vs.
Proof. exact field_roundtrip. Qed.
Print Assumptions C22_field_roundtrip.

(** signed_ is the representative of v in (-p/2, p/2], unsigned_ is v itself *)
Theorem C22_signed_unsigned : forall p v, (2 <= p)%Z -> (0 <= v < p)%Z ->
  (signed p v mod p = v /\ - p < 2 * signed p v <= p /\ unsigned p v = v /\
   (signed p v = v \/ signed p v = v - p))%Z.
Proof. exact signed_unsigned. Qed.
Print Assumptions C22_signed_unsigned.

(** __int__ (either signedness) converts back to the same element *)
Theorem C22_int_view : forall p v b, (2 <= p)%Z -> (0 <= v < p)%Z -> (to_int b p v mod p = v)%Z.
Proof. exact int_view. Qed.
Print Assumptions C22_int_view.

(** pickle: __reduce__ recreates the field from (p, n, root); with GF() reducing w modulo p before the cached
    pGF call this is the same cache key (hence the same class object) as the creating call, for EVERY w;
    GF((p,n,w)) and GF((p,n,w mod p)) share the key; the state restores the value *)
Theorem C22_pickle_same_field : forall p n w v, (p <> 0)%Z ->
  pickle_roundtrip true p n w v = (gf_key true p n w, v) /\
  gf_key true p n w = gf_key true p n (w mod p)%Z.
Proof. exact pickle_same_field. Qed.
Print Assumptions C22_pickle_same_field.

(** without that normalisation (the code before /repo 35f6b0f) the statement is false: w = -1, p = 7 gives another key *)
Theorem C22_pickle_unnormalised_refuted :
  exists p n w v, (p <> 0)%Z /\ fst (pickle_roundtrip false p n w v) <> gf_key false p n w.
Proof. exact pickle_unnormalised_refuted. Qed.
Print Assumptions C22_pickle_unnormalised_refuted.

Theorem C22_pickle_unnormalised_iff : forall p n w v, (p <> 0)%Z ->
  (fst (pickle_roundtrip false p n w v) = gf_key false p n w <-> (w mod p = w)%Z).
Proof. exact pickle_unnormalised_iff. Qed.
Print Assumptions C22_pickle_unnormalised_iff.

(** Non-vacuity: GF(257) has byte_length 2; [256; 0; 1] <-> 00 01 00 00 01 00; signed 200 = -57. *)
Example C22_nonvacuous :
  byte_length 257 = 2 /\ to_bytes 2 [256; 0; 1]%Z = Some [0; 1; 0; 0; 1; 0]%Z /\
  from_bytes 2 [0; 1; 0; 0; 1; 0]%Z = [256; 0; 1]%Z /\ to_bytes 2 [] = Some [] /\ from_bytes 2 [] = [] /\
  signed 257 200 = (-57)%Z /\ signed 257 128 = 128%Z /\ signed 2 1 = 1%Z /\ to_bytes 1 [256]%Z = None /\
  pickle_roundtrip true 7 2 (-1) 3 = ((7, 2, 6), 3)%Z /\ gf_key true 7 2 (-1) = (7, 2, 6)%Z /\
  pickle_roundtrip false 7 2 (-1) 3 = ((7, 2, 6), 3)%Z /\ gf_key false 7 2 (-1) = (7, 2, -1)%Z.
Proof. vm_compute. repeat split. Qed.
