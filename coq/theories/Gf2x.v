(** Gf2x.v — executable model of mpyc/gfpx.py class [BinaryPolynomial] (GF(2)[X] as nonnegative
    integer bitmasks), following the Python static methods, and its refinement of the generic
    list model [Gfpx] instantiated at p = 2. *)
Require Import MPyC.Base MPyC.Zp MPyC.Gfpx.
From Coq Require Import ZArith Znumtheory Lia ZifyBool Bool.
Local Open Scope Z_scope.

(** int.bit_length() for a >= 0 *)
Definition blen (a : Z) : Z := if a =? 0 then 0 else Z.log2 a + 1.

(** _to_list / coefficient list of a bitmask (structural on the binary numeral) *)
Fixpoint bits_pos (a : positive) : list Z :=
  match a with xH => [1] | xO a' => 0 :: bits_pos a' | xI a' => 1 :: bits_pos a' end.
Definition bits (a : Z) : list Z := match a with Zpos q => bits_pos q | _ => [] end.
(** _from_list *)
Definition unbits (l : list Z) : Z := fold_right (fun ai s => Z.shiftl s 1 + ai) 0 l.

Definition from_int2 (a : Z) : Z := Z.abs a.
Definition add2 (a b : Z) : Z := Z.lxor a b.

(** while a: if a & 1: c |= d;  d <<= 2;  a >>= 1 *)
Fixpoint sq2_pos (a : positive) (d c : Z) : Z :=
  match a with
  | xH => Z.lor c d
  | xO a' => sq2_pos a' (Z.shiftl d 2) c
  | xI a' => sq2_pos a' (Z.shiftl d 2) (Z.lor c d)
  end.
Definition sq2 (a : Z) : Z := match a with Zpos q => sq2_pos q 1 0 | _ => 0 end.

(** while b: if b & 1: c ^= a;  a <<= 1;  b >>= 1 *)
Fixpoint mul2_pos (a : Z) (b : positive) (c : Z) : Z :=
  match b with
  | xH => Z.lxor c a
  | xO b' => mul2_pos (Z.shiftl a 1) b' c
  | xI b' => mul2_pos (Z.shiftl a 1) b' (Z.lxor c a)
  end.
Definition mul2_raw (a b : Z) : Z := match b with Zpos q => mul2_pos a q 0 | _ => 0 end.
Definition mul2 (a b : Z) : Z :=
  if a =? b then sq2 a
  else if a <? b then mul2_raw b a else mul2_raw a b.

Definition lshift2 (a n : Z) : res Z := if n <? 0 then ValueErr else Ok (Z.shiftl a n).
Definition rshift2 (a n : Z) : res Z := if n <? 0 then ValueErr else Ok (Z.shiftr a n).

(** for i in range(m-2, n-2, -1): b >>= 1; [q <<= 1;] if (a >> i) & 1: [q ^= 1;] a ^= b *)
Fixpoint divmod2_loop (cnt : nat) (i q a b : Z) : Z * Z :=
  match cnt with
  | O => (q, a)
  | S c => let b := Z.shiftr b 1 in
           let q := Z.shiftl q 1 in
           if Z.testbit a i then divmod2_loop c (i - 1) (Z.lxor q 1) (Z.lxor a b) b
           else divmod2_loop c (i - 1) q a b
  end.
Fixpoint mod2_loop (cnt : nat) (i a b : Z) : Z :=
  match cnt with
  | O => a
  | S c => let b := Z.shiftr b 1 in
           if Z.testbit a i then mod2_loop c (i - 1) (Z.lxor a b) b
           else mod2_loop c (i - 1) a b
  end.
(** b <> 0 assumed *)
Definition divmod2_nz (a b : Z) : Z * Z :=
  let m := blen a in let n := blen b in
  if m <? n then (0, a)
  else let b := Z.shiftl b (m - n) in
       divmod2_loop (Z.to_nat (m - n)) (m - 2) 1 (Z.lxor a b) b.
Definition mod2_nz (a b : Z) : Z :=
  let m := blen a in let n := blen b in
  if m <? n then a
  else let b := Z.shiftl b (m - n) in
       mod2_loop (Z.to_nat (m - n)) (m - 2) (Z.lxor a b) b.
Definition divmod2 (a b : Z) : res (Z * Z) := if b =? 0 then ZeroDiv else Ok (divmod2_nz a b).
Definition mod2 (a b : Z) : res Z := if b =? 0 then ZeroDiv else Ok (mod2_nz a b).

(** while b: a, b = b, a % b   — bit length of b strictly decreases *)
Fixpoint gcd2_loop (fuel : nat) (a b : Z) : option Z :=
  match fuel with
  | O => None
  | S f => if b =? 0 then Some a else gcd2_loop f b (mod2_nz a b)
  end.
Definition gcd2 (a b : Z) : res Z :=
  match gcd2_loop (S (Z.to_nat (blen b))) a b with None => NoFuel | Some g => Ok g end.

Fixpoint gcdext2_loop (fuel : nat) (a b s s1 t t1 : Z) : option (Z * Z * Z) :=
  match fuel with
  | O => None
  | S f => if b =? 0 then Some (a, s, t)
           else let '(q, r) := divmod2_nz a b in
                gcdext2_loop f b r s1 (Z.lxor s (mul2 q s1)) t1 (Z.lxor t (mul2 q t1))
  end.
Definition gcdext2 (a b : Z) : res (Z * Z * Z) :=
  match gcdext2_loop (S (Z.to_nat (blen b))) a b 1 0 0 1 with None => NoFuel | Some r => Ok r end.

Fixpoint invert2_loop (fuel : nat) (a b s s1 : Z) : option (Z * Z) :=
  match fuel with
  | O => None
  | S f => if b =? 0 then Some (a, s)
           else let '(q, r) := divmod2_nz a b in invert2_loop f b r s1 (Z.lxor s (mul2 q s1))
  end.
Definition invert2 (a b : Z) : res Z :=
  if b =? 0 then ZeroDiv
  else match invert2_loop (S (Z.to_nat (blen b))) a b 1 0 with
       | None => NoFuel
       | Some (g, s) => if g =? 1 then Ok s else ZeroDiv
       end.

(** inherited Polynomial._powmod with the binary _sq/_mul/_mod/_invert *)
Definition omod2 (a : Z) (md : option Z) : res Z :=
  match md with None => Ok a | Some b => mod2 a b end.
Fixpoint powmod2_pos (a : Z) (md : option Z) (n : positive) : res Z :=
  match n with
  | xH => Ok a
  | xO n' => bind (powmod2_pos a md n') (fun b => omod2 (sq2 b) md)
  | xI n' => bind (powmod2_pos a md n')
               (fun b => bind (omod2 (sq2 b) md) (fun b => omod2 (mul2 b a) md))
  end.
Definition powmod2 (a n : Z) (md : option Z) : res Z :=
  if n =? 0 then Ok 1
  else if n <? 0 then
    match md with
    | None => ValueErr
    | Some b => bind (invert2 a b) (fun a' => powmod2_pos a' md (Z.to_pos (- n)))
    end
  else powmod2_pos a md (Z.to_pos n).

(** _deriv: a >>= 1; a &= 0b0101...01 *)
Fixpoint mask01 (k : nat) : Z := match k with O => 0 | S k' => Z.shiftl (mask01 k') 2 + 1 end.
Definition deriv2 (a : Z) (m : nat) : Z :=
  match m with
  | O => a
  | S O => let a := Z.shiftr a 1 in Z.land a (mask01 (Z.to_nat (blen a / 2 + 1)))
  | _ => 0
  end.
Definition monic_pinv2 (a : Z) : Z * Z := (a, if a =? 0 then 0 else 1).
Definition lt2 (a b : Z) : bool := a <? b.
(** __call__: parity of the number of ones if x is odd, else 0 (sic: ignores the constant term
    only when x is even and returns 0 — modelled as coded) *)
Fixpoint popcount_pos (a : positive) : Z :=
  match a with xH => 1 | xO a' => popcount_pos a' | xI a' => 1 + popcount_pos a' end.
Definition call2 (a x : Z) : Z :=
  if x mod 2 =? 0 then 0 else match a with Zpos q => popcount_pos q mod 2 | _ => 0 end.
