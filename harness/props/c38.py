"""C38 — secure polynomial arithmetic (mpyc/secpols.py) agrees with plain gfpx polynomial arithmetic,
and only the length bound is public.

Proof part: coq/props/C38.v over coq/theories/SecPoly.v (padded coefficient lists over an abstract field,
`strip` = normal form).  Tie: every operator/method of class secpoly is run in the multi-party simulator,
opened, and compared with (i) real gfpx polynomials and (ii) the executable Z_p instance of the Coq
model (padded result arrays, exactly) for the operations that have a theorem.
"""
import itertools, time
from lib.core import zlit, zlist, natlit

MANIFEST = {
    'text': 'Coq (abstract field, all padded lengths): for padded coefficient lists a, b (length = public bound, trailing '
            'zeros allowed) strip(add a b) = strip(add (strip a) (strip b)) and the same for sub, neg, scalar multiple, '
            'convolution product (commutes with stripping either operand), shifts <<, truncate; evaluation at any point '
            'is unchanged by stripping and the power-sum form used by __call__ equals Horner; degree = |strip a| - 1 and '
            'the oblivious degree formula (len - 1 - number of trailing zeros) equals it; coefficientwise equality test == '
            'decides equality of the stripped polynomials; length_bound_public: the padded length of add/sub/neg/scale/'
            'mul/lshift/rshift/truncate results is a function of the operand lengths only; powmod_correct: _powmod as coded '
            '(square-and-multiply with the n = 1 reduction) over the Gfpx model\'s normal-form mul/mod returns, for every n >= 1, a '
            'reduced normal form congruent to a^n modulo (p, b), by induction on the bit decomposition. Every run ties this to /repo: '
            'all operators and methods of secpoly are executed in the m-party simulator ((m,t)=(1,0),(3,1), PRSS on/off), '
            'opened and compared with gfpx polynomials (oracle) and, for the operations with theorems, with the Z_p '
            'instance of the Coq model on the padded arrays (vm_compute).',
    'note': 'The powmod theorem is about the normal-form model (Gfpx.mul, Gfpx.mod_nz; uniqueness of the remainder is not '
            'machine-checked, the result is characterised as reduced and congruent) and is tied to secpoly.powmod by a '
            'vm_compute stream on the opened results; the secure _div protocol itself is not modelled. '
            'Oracle/correspondence-only (no Coq theorem): floordiv/mod/divmod, gcd, gcdext, invert, ** and negative powmod, '
            'is_irreducible, monic, reverse, lexicographic < <= > >=, if_else/if_swap, getitem, input/output; for these the '
            'opened result and its padded length are checked against gfpx and closed-form length functions on every case. '
            'Quick tier: GF(2) every pair of padded lists of length<=3 through every operation on m=1 (one public parameter '
            'each); GF(3) 500 pairs through add/sub/mul/==/neg, samples through the rest; GF(5) samples; GF(11), GF(101) '
            'random boundary-heavy lists of length<=8; m=3 (t=1, PRSS on and off) on samples over GF(5), GF(11), GF(101) only: '
            'mpc.SecFld(p) is a prime field only while m < p, so GF(2)/GF(3) cannot be run with three parties. In the small-field '
            'region (some padded length >= p; documented "p must be sufficiently large") explicit errors are counted, not '
            'violations, and operations that may not terminate there are run on one representative each; silent wrong values, '
            'hangs and escaped exceptions elsewhere are violations, confirmed in a fresh simulator before being reported. Open '
            'known findings are listed in known_findings/C38.json (F-C38-2 getitem beyond the array and F-C38-10 powmod n=1 were '
            'repaired in /repo and are ordinary cases again: f[i] with i >= padded length must give a secure 0 in the async '
            'simulator with m=1 and m=3), two of the open ones are defects of the gfpx oracle over GF(2) (evaluation and '
            'reverse are then checked against independent references). A concurrency stream (m=3, t=1) launches 3-6 divmod/floordiv/mod/gcd/gcdext/mul operations with '
            'operands of different padded lengths without awaiting, then issues 30 short awaited multiplications while they run, '
            'under RandomOrder/ReverseLinks/Hold delivery schedules, and compares all results with gfpx. Hangs are decided by '
            'simulator rounds (not seconds); incomplete cases are re-run alone in a fresh simulator. Further m=3 configurations: no PRSS '
            'over the tiny prime fields GF(5), GF(7), GF(11) with many coefficient inversions (monic, gcd, gcdext, invert, division by '
            'non-monic divisors: reciprocal() retries occur with probability 1/p per call), and option --mix32-64bit over GF(31), '
            'GF(101) where every opened coefficient must be a reduced field element. Message-size traces are compared for two runs with equal '
            'padded lengths and different values on one batch (p=101, m=3, operations without retry loops). Trusted: Coq kernel, '
            'simulator, gfpx as the specification.',
    'technique': 'Coq proof on padded coefficient lists + simulator-run differential check against gfpx and the vm_compute model',
}


# ------------------------------------------------------------------------------------------------
# robust batched execution of cases in the simulator (a hang or an exception inside an MPyC
# coroutine leaves the party PENDING; the batch is then resumed after the offending case)

ARITY = 5


class Watchdog(Exception):
    pass


ROUNDS_PER_CASE = 60000     # simulator rounds (event-loop spins + delivery calls) without a completed case => hang;
                             # load-independent; ordinary cases need < 6000 rounds (maximum observed is recorded in evidence)
ROUND_STATS = {'max_rounds_per_case': 0}


class WatchedFifo:
    """FIFO delivery; raises Watchdog when no case has completed for ROUNDS_PER_CASE simulator rounds (a deterministic
    measure: one round = one spin of the event loop plus one delivery call), or at once when an exception escaped an
    MPyC coroutine (the current case can then never complete)."""

    def __init__(self, errs, limit=None, inner=None):
        from lib.sim import Fifo
        self.fifo = inner or Fifo()      # the delivery schedule proper (FIFO unless another policy is given)
        self.errs = errs
        self.limit = limit or ROUNDS_PER_CASE
        self.n = 0
        self.last_n = 0

    def tick(self):
        d = self.n - self.last_n
        if d > ROUND_STATS['max_rounds_per_case']:
            ROUND_STATS['max_rounds_per_case'] = d
        self.last_n = self.n

    def deliver(self, net):
        self.n += 1
        if self.errs and any('CancelledError' not in e and 'InvalidState' not in e for e in self.errs):
            raise Watchdog()
        if self.n - self.last_n > self.limit:
            raise Watchdog()
        return self.fifo.deliver(net)


def run_batch(ctx, m, t, no_prss, cases, case_coro, seed, want_log=False, arity3=ARITY, policy=None, extra=()):
    """One pass: cases run in order in one simulator; at the first case that does not complete (hang / escaped
    exception) that simulator is discarded and the rest continues in a fresh one."""
    from lib.sim import Sim
    results = [None] * len(cases)
    logs = []
    incomplete = []
    i = 0
    restarts = 0
    while i < len(cases):
        sim = Sim(m, t, no_prss=no_prss, seed=seed, track_tasks=False, log_messages=want_log, extra=tuple(extra))
        errs = []
        sim.loop.set_exception_handler(lambda loop, c: errs.append(repr(c.get('exception'))[:200]))
        try:
            sim.start()
            if not sim.started:
                raise RuntimeError('simulator start failed')
            prog_res = [[None] * len(cases) for _ in range(m)]
            start = i
            pol = WatchedFifo(errs, inner=policy() if policy else None)

            async def prog(mpc, mods, pid, start=start, prog_res=prog_res, pol=pol):
                state = {}
                for j in range(start, len(cases)):
                    try:
                        r = await (case_coro(mpc, mods, pid, state, cases[j]) if arity3 == 5 else case_coro(mpc, mods, pid, cases[j]))
                    except Exception as e:  # synchronous exceptions (asserts, TypeError ...)
                        r = ('EXC', type(e).__name__)
                    prog_res[pid][j] = ('ok', r)
                    if pid == m - 1 or m == 1:
                        pol.tick()
                return True
            try:
                sim.run(prog, pol, idle_limit=50000 if m > 1 else 10**15, max_rounds=10**15)
                stopped = 'idle'
            except Watchdog:
                stopped = 'rounds'
            if want_log:
                logs.append([[(d, peer, size) for (d, peer, pc, size) in sim.msglog[k]] for k in range(m)])
            done = True
            for j in range(start, len(cases)):
                col = [prog_res[k][j] for k in range(m)]
                if all(c is not None for c in col):
                    vals = [c[1] for c in col]
                    results[j] = vals[0] if all(v == vals[0] for v in vals) else ('DIVERGE', vals)
                    i = j + 1
                else:
                    exc = [e for e in errs if 'CancelledError' not in e and 'InvalidState' not in e]
                    results[j] = ('EXC', exc[0].split('(')[0]) if exc else ('HANG', stopped)
                    incomplete.append(j)
                    i = j + 1
                    done = False
                    restarts += 1
                    break
            if done:
                try:
                    sim.shutdown()
                except Exception:
                    pass
        finally:
            sim.close()
    ctx.extra['sim_restarts'] = ctx.extra.get('sim_restarts', 0) + restarts
    return results, logs, incomplete


def run_cases(ctx, m, t, no_prss, cases, case_coro, seed, want_log=False, isolated=(), policy=None, extra=()):
    """cases: list of JSON-able case descriptions.  Returns per-case results: value | ('EXC', name) | ('HANG', how) |
    ('DIVERGE', per-party values).  Cases whose index is in `isolated` (predicted not to terminate) run alone in their own
    simulator.  Every case that did not complete (HANG / escaped EXC) in a shared simulator is re-run once alone in a
    fresh simulator and the outcome of that isolated run is what is reported."""
    isolated = set(isolated)
    shared = [j for j in range(len(cases)) if j not in isolated]
    results = [None] * len(cases)
    res, logs, inc = run_batch(ctx, m, t, no_prss, [cases[j] for j in shared], case_coro, seed, want_log, policy=policy, extra=extra)
    for j, r in zip(shared, res):
        results[j] = r
    redo = [] if want_log else [shared[q] for q in inc] + [j for j in shared if isinstance(results[j], tuple) and results[j][:1] == ('DIVERGE',)]
    for j in sorted(isolated) + redo:
        results[j] = run_batch(ctx, m, t, no_prss, [cases[j]], case_coro, seed, policy=policy, extra=extra)[0][0]
    if redo:
        ctx.extra['cases_rerun_in_isolation'] = ctx.extra.get('cases_rerun_in_isolation', 0) + len(redo)
    ctx.extra['max_rounds_per_case'] = ROUND_STATS['max_rounds_per_case']
    ctx.extra['hang_limit_rounds'] = ROUNDS_PER_CASE
    return (results, logs) if want_log else results


# ------------------------------------------------------------------------------------------------
# operations: name -> (needs_b, implementation thunk builder, oracle thunk builder, result kind)

def strip(a):
    a = list(a)
    while a and a[-1] == 0:
        a.pop()
    return a


SHIFTS = (0, 1, 3)
POWS = (0, 1, 2, 3)
PMODS = (-3, -1, 0, 1, 2, 5)


def op_table():
    """(name, arity, param list) — parameters are public."""
    T = []
    for nm in ('neg', 'pos', 'copy', 'degree', 'monic', 'reverse_none', 'is_irreducible', 'inout'):
        T.append((nm, 1, [None]))
    T.append(('lshift', 1, SHIFTS))
    T.append(('rshift', 1, SHIFTS))
    T.append(('truncate', 1, (0, 1, 2, 5)))
    T.append(('getitem', 1, (0, 1, 2, 9)))
    T.append(('pow', 1, POWS))
    T.append(('reverse_pub', 1, (-1, 0, 1, 2, 4)))
    T.append(('reverse_sec', 1, (-1, 0, 1, 2)))
    T.append(('call_pub', 1, (0, 1, 2, 7)))
    T.append(('call_sec', 1, (0, 1, 3)))
    T.append(('scale', 1, (0, 1, 2, 4)))
    for nm in ('add', 'add_pub', 'radd_pub', 's_add', 'sub', 'sub_pub', 'rsub_pub', 's_sub',
               'mul', 'mul_pub', 'rmul_pub', 's_mul', 'eq', 'ne', 'lt', 'le', 'gt', 'ge',
               'floordiv', 'floordiv_pub', 'rfloordiv_pub', 'mod', 'mod_pub', 'rmod_pub', 's_mod',
               'divmod', 'rdivmod_pub', 'gcd', 'gcdext', 'invert'):
        T.append((nm, 2, [None]))
    T.append(('powmod', 2, PMODS))
    T.append(('if_else', 2, (0, 1)))
    T.append(('if_swap', 2, (0, 1)))
    return T


RING = ('add', 'sub', 'mul', 'eq', 'neg')
MODEL_OPS = ('add', 'sub', 'neg', 'mul', 'scale', 'call_pub', 'degree', 'lshift', 'rshift', 'truncate', 'eq')


def eff_lens(p, a, b, op):
    """Operand lengths that are public: padded length of a secure operand, stripped length of a public gfpx operand."""
    la, lb = len(a), (len(b) if b is not None else 0)
    if op.endswith('_pub') and b is not None:
        if op[0] == 'r' and op != 'reverse_pub':
            la = len(strip(a))
        else:
            lb = len(strip(b))
    return la, lb


def expected_len(p, op, la, lb, k):
    """Closed form for the PADDED result length (None: not a polynomial result / no closed form checked)."""
    if op in ('add', 'add_pub', 'radd_pub', 's_add', 'sub', 'sub_pub', 'rsub_pub', 's_sub', 'if_else', 'gcd'):
        return max(la, lb)
    if op in ('mul', 'mul_pub', 'rmul_pub', 's_mul'):
        return 0 if la == 0 or lb == 0 else la + lb - 1
    if op == 'scale':
        return la if k % p else 0      # f * poly(0): the public operand is the empty array
    if op in ('neg', 'pos', 'copy', 'monic', 'inout', 'reverse_none', 'reverse_sec'):
        return la
    if op == 'lshift':
        return la + k if la else 0
    if op == 'rshift':
        return max(la - k, 0)
    if op == 'truncate':
        return min(la, k)
    if op in ('floordiv', 'floordiv_pub', 'rfloordiv_pub'):
        return la
    if op in ('mod', 'mod_pub', 'rmod_pub', 's_mod'):
        return lb - 1 if la else 0
    if op == 'reverse_pub':
        return k + 1
    if op == 'powmod':
        return 1 if k == 0 else (0 if la == 0 and k > 0 else lb - 1)     # every n != 0 ends with a reduction modulo b
    if op == 'pow':
        return 1 if k == 0 else (k * (la - 1) + 1 if la else 0)
    return None


def make_case_coro(p):
    """Coroutine computing one (pair, op, param) case for party `pid`; returns canonical result."""

    async def case_coro(mpc, mods, pid, state, case):
        (pi, a, b, op, k) = case
        np = mods['mpyc.numpy'].np
        secpoly = mods['mpyc.secpols'].secpoly
        poly = mods['mpyc.gfpx'].GFpX(p)
        secfld = mpc.SecFld(p)

        def share(lst):
            if not lst:
                return secpoly(np.array([], dtype=object), sectype=secfld)
            return secpoly(mpc.input(secfld.array(np.array(lst, dtype=object)), senders=0))
        if state.get('pair') != pi:
            state.clear()
            state['pair'] = pi
            state['fa'] = share(a)
        if b is not None and 'fb' not in state:
            state['fb'] = share(b)
        fa, fb = state['fa'], state.get('fb')
        pa = poly(strip(a))
        pb = poly(strip(b)) if b is not None else None

        def sbit(c):
            return mpc.input(secfld(c), senders=0)

        async def out_poly(f):
            arr = await mpc.output(f.share)
            padded = [int(x) for x in arr.value.tolist()] if len(f.share) else []
            return ('poly', padded)

        async def out_elt(x):
            return ('elt', int(await mpc.output(x)))

        if op == 'neg':
            return await out_poly(-fa)
        if op == 'pos':
            return await out_poly(+fa)
        if op == 'copy':
            return await out_poly(fa.copy())
        if op == 'degree':
            return await out_elt(fa.degree())
        if op == 'monic':
            return await out_poly(fa.monic())
        if op == 'reverse_none':
            return await out_poly(fa.reverse())
        if op == 'reverse_pub':
            return await out_poly(fa.reverse(k))
        if op == 'reverse_sec':
            return await out_poly(fa.reverse(mpc.input(secfld(k), senders=0)))
        if op == 'is_irreducible':
            return await out_elt(secpoly.is_irreducible(fa))
        if op == 'inout':
            # mpc.input takes the sender's private value: a polynomial known to party 0 (padded array as given)
            priv = secpoly(np.array(a, dtype=object), sectype=secfld) if a else secpoly(np.array([], dtype=object), sectype=secfld)
            x = mpc.input(priv, senders=0)
            y = await mpc.output(x)
            y2 = (await mpc.output([fa, fa]))[1]
            return ('poly2', [int(c) for c in y], [int(c) for c in y2], len(x.share))
        if op == 'lshift':
            return await out_poly(fa << k)
        if op == 'rshift':
            return await out_poly(fa >> k)
        if op == 'truncate':
            return await out_poly(fa.truncate(k))
        if op == 'getitem':
            return await out_elt(fa[k])
        if op == 'pow':
            return await out_poly(fa ** k)
        if op == 'call_pub':
            return await out_elt(fa(k))
        if op == 'call_sec':
            return await out_elt(fa(mpc.input(secfld(k), senders=0)))
        if op == 'scale':
            return await out_poly(fa * poly(k % p))
        if op == 'add':
            return await out_poly(fa + fb)
        if op == 'add_pub':
            return await out_poly(fa + pb)
        if op == 'radd_pub':
            return await out_poly(pa + fb)
        if op == 's_add':
            return await out_poly(secpoly.add(fa, fb))
        if op == 'sub':
            return await out_poly(fa - fb)
        if op == 'sub_pub':
            return await out_poly(fa - pb)
        if op == 'rsub_pub':
            return await out_poly(pa - fb)
        if op == 's_sub':
            return await out_poly(secpoly.sub(fa, fb))
        if op == 'mul':
            return await out_poly(fa * fb)
        if op == 'mul_pub':
            return await out_poly(fa * pb)
        if op == 'rmul_pub':
            return await out_poly(pa * fb)
        if op == 's_mul':
            return await out_poly(secpoly.mul(fa, fb))
        if op in ('eq', 'ne', 'lt', 'le', 'gt', 'ge'):
            import operator
            return await out_elt(getattr(operator, op)(fa, fb))
        if op == 'floordiv':
            return await out_poly(fa // fb)
        if op == 'floordiv_pub':
            return await out_poly(fa // pb)
        if op == 'rfloordiv_pub':
            return await out_poly(pa // fb)
        if op == 'mod':
            return await out_poly(fa % fb)
        if op == 'mod_pub':
            return await out_poly(fa % pb)
        if op == 'rmod_pub':
            return await out_poly(pa % fb)
        if op == 's_mod':
            return await out_poly(secpoly.mod(fa, fb))
        if op == 'divmod':
            q, r = divmod(fa, fb)
            return ('polys', [(await out_poly(q))[1], (await out_poly(r))[1]])
        if op == 'rdivmod_pub':
            q, r = divmod(pa, fb)
            return ('polys', [(await out_poly(q))[1], (await out_poly(r))[1]])
        if op == 'gcd':
            return await out_poly(secpoly.gcd(fa, fb))
        if op == 'gcdext':
            g, u, v = secpoly.gcdext(fa, fb)
            return ('polys', [(await out_poly(g))[1], (await out_poly(u))[1], (await out_poly(v))[1]])
        if op == 'invert':
            return await out_poly(secpoly.invert(fa, fb))
        if op == 'powmod':
            return await out_poly(secpoly.powmod(fa, k, fb))
        if op == 'if_else':
            return await out_poly(secpoly.if_else(sbit(k), fa, fb))
        if op == 'if_swap':
            x, y = secpoly.if_swap(sbit(k), fa, fb)
            return ('polys', [(await out_poly(x))[1], (await out_poly(y))[1]])
        raise KeyError(op)
    return case_coro


def oracle(G, p, a, b, op, k):
    """gfpx result, canonicalised: ('poly', stripped list) | ('polys', [...]) | ('elt', int) | ('EXC', name)
    | ('SKIP', why) when the operation's documented precondition does not hold."""
    poly = G.GFpX(p)
    pa = poly(strip(a))
    pb = poly(strip(b)) if b is not None else None

    def L(x):
        return [int(c) for c in x]
    try:
        if op == 'neg':
            return ('poly', L(-pa))
        if op in ('pos', 'copy'):
            return ('poly', L(+pa))
        if op == 'inout':
            return ('poly2', L(pa), L(pa), len(a))
        if op == 'degree':
            return ('elt', pa.degree() % p)
        if op == 'monic':
            return ('poly', L(pa.monic()))
        if op == 'reverse_none':
            return ('poly', L(pa.reverse()))
        if op == 'reverse_pub':
            return ('poly', L(pa.reverse(k)))
        if op == 'reverse_sec':
            if not (-1 <= k <= len(a) - 1):
                return ('SKIP', 'secret d outside -1..len-1')
            return ('poly', L(pa.reverse(k)))
        if op == 'is_irreducible':
            return ('elt', int(poly.is_irreducible(pa)))
        if op == 'lshift':
            return ('poly', L(pa << k))
        if op == 'rshift':
            return ('poly', L(pa >> k))
        if op == 'truncate':
            return ('poly', L(pa.truncate(k)))
        if op == 'getitem':
            return ('elt', int(pa[k]))
        if op == 'pow':
            return ('poly', L(pa ** k))
        if op in ('call_pub', 'call_sec'):
            return ('elt', int(pa(k)) % p)
        if op == 'scale':
            return ('poly', L(pa * poly(k % p)))
        if op in ('add', 'add_pub', 'radd_pub', 's_add'):
            return ('poly', L(pa + pb))
        if op in ('sub', 'sub_pub', 'rsub_pub', 's_sub'):
            return ('poly', L(pa - pb))
        if op in ('mul', 'mul_pub', 'rmul_pub', 's_mul'):
            return ('poly', L(pa * pb))
        if op in ('eq', 'ne', 'lt', 'le', 'gt', 'ge'):
            import operator
            return ('elt', int(getattr(operator, op)(pa, pb)))
        if op in ('floordiv', 'floordiv_pub', 'rfloordiv_pub', 'mod', 'mod_pub', 'rmod_pub', 's_mod', 'divmod',
                  'rdivmod_pub'):
            if not pb:
                return ('SKIP', 'division by the zero polynomial')
            if op.endswith('_pub') and op[0] != 'r' and False:
                pass
            if 'divmod' in op:
                q, r = divmod(pa, pb)
                return ('polys', [L(q), L(r)])
            return ('poly', L(pa // pb) if 'floordiv' in op else L(pa % pb))
        if op == 'gcd':
            return ('poly', L(poly.gcd(pa, pb)))
        if op == 'gcdext':
            g, u, v = poly.gcdext(pa, pb)
            return ('polys', [L(g), L(u), L(v)])
        if op == 'invert':
            if not pb or pb.degree() < 1 or poly.gcd(pa, pb) != 1:
                return ('SKIP', 'inverse does not exist')
            return ('poly', L(poly.invert(pa, pb)))
        if op == 'powmod':
            if not pb:
                return ('SKIP', 'zero modulus')
            if k < 0 and (pb.degree() < 1 or poly.gcd(pa, pb) != 1):
                return ('SKIP', 'inverse does not exist')
            return ('poly', L(poly.powmod(pa, k, pb)))
        if op == 'if_else':
            return ('poly', L(pa if k else pb))
        if op == 'if_swap':
            return ('polys', [L(pb), L(pa)] if k else [L(pa), L(pb)])
    except Exception as e:
        return ('EXC', type(e).__name__)
    raise KeyError(op)


DEGREE_OPS = ('degree', 'monic', 'reverse_none', 'reverse_sec', 'lt', 'le', 'gt', 'ge', 'floordiv', 'floordiv_pub',
              'rfloordiv_pub', 'mod', 'mod_pub', 'rmod_pub', 's_mod', 'divmod', 'rdivmod_pub', 'gcd', 'gcdext', 'invert',
              'powmod', 'is_irreducible')
HANG_PRONE = ('monic', 'gcd', 'gcdext', 'invert', 'powmod', 'is_irreducible', 'reverse_none', 'reverse_sec', 'floordiv',
              'floordiv_pub', 'rfloordiv_pub', 'mod', 'mod_pub', 'rmod_pub', 's_mod', 'divmod', 'rdivmod_pub',
              'lt', 'le', 'gt', 'ge')


def small_field(p, a, b, op, k):
    """secpols.py: 'for certain operations, p must be sufficiently large, in particular compared to (the public upper
    bound on) the degree of a given polynomial'.  Degrees -1..len-1 are encoded in GF(p) (explicit guard: _degree
    asserts len(a) <= p), so the degree-dependent operations need every intermediate padded length < p.  Returns True
    when (a conservative bound on) an intermediate padded length reaches p."""
    if op not in DEGREE_OPS:
        return False
    la, lb = len(a), (len(b) if b is not None else 0)
    n = max(la, lb)
    if op == 'powmod':
        if k == 0:
            return False
        n = 2 * max(la, lb)
    elif op == 'is_irreducible':
        n = max(2 * la - 2, 3)
    elif op in ('gcd', 'gcdext', 'invert'):
        n = n + 1
    return n >= p


DIV_OPS = ('floordiv', 'floordiv_pub', 'rfloordiv_pub', 'mod', 'mod_pub', 'rmod_pub', 's_mod', 'divmod', 'rdivmod_pub')


def known_class(p, a, b, op, k, want):
    """Input classes on which this check found the implementation to disagree with gfpx (known_findings/C38.json).
    The class name is part of the violation signature."""
    za = not strip(a) and len(a) > 0
    if b is not None and len(a) == 0 and len(b) == 0 and op in ('eq', 'ne', 'lt', 'le', 'gt', 'ge', 'gcdext', 'if_else', 'if_swap'):
        return 'empty-operands'           # F-C38-9
    if op == 'monic' and za:
        return 'zero-polynomial'          # F-C38-1: reciprocal(0) never terminates
    if op in ('gcd', 'gcdext') and not strip(a) and not strip(b or []) and max(len(a), len(b or [])) > 0:
        return 'zero-polynomial'          # F-C38-1
    if op == 'is_irreducible' and za and len(a) >= 2:
        return 'zero-polynomial'          # F-C38-3: division by the zero modulus
    if p == 2 and (op.endswith('_pub') or op == 'scale') and op not in ('call_pub', 'reverse_pub'):
        return 'gf2-public-operand'       # F-C38-8: secpoly(BinaryPolynomial) holds polynomial objects as coefficients
    if p == 2 and (op in DIV_OPS or (op == 'powmod' and k != 0) or (op == 'is_irreducible' and len(a) >= 3)):
        return 'gf2-division'             # F-C38-8: _div feeds lists to BinaryPolynomial._invert (int representation)
    if op == 'is_irreducible' and want == ('elt', 1) and len(a) - 1 >= 2 * (len(strip(a)) - 1):
        return 'padded-irreducible'       # F-C38-5: D//2 iterations with D the public bound
    if op == 'gcdext':
        return 'gcdext'                   # F-C38-7 candidates: cofactors (classified after comparison)
    return None


def ref_reverse(a, d):
    a = (strip(a)[:d + 1] + [0] * (d + 1))[:d + 1]
    return strip(a[::-1])


def horner(p, a, x):
    y = 0
    for c in reversed(a):
        y = (y * x + c) % p
    return y


def canon(res):
    """Implementation result -> same form as the oracle (polynomials stripped), plus padded lengths."""
    if not isinstance(res, tuple):
        return res, None
    if res[0] == 'poly':
        return ('poly', strip(res[1])), [len(res[1])]
    if res[0] == 'polys':
        return ('polys', [strip(x) for x in res[1]]), [len(x) for x in res[1]]
    if res[0] == 'poly2':
        return res, None
    return res, None


def all_lists(p, n):
    return [list(x) for k in range(n + 1) for x in itertools.product(range(p), repeat=k)]


def rand_list(rng, p, maxlen):
    kind = rng.randrange(9)
    n = rng.randint(0, maxlen)
    if kind == 0:
        return [0] * n
    if kind == 1:
        return [rng.randrange(p)] + [0] * rng.randint(0, max(0, n - 1))
    if kind == 2:
        return ([0, 1] + [0] * max(0, n - 2))[:max(n, 2)]
    a = [rng.choice([0, 1, p - 1, rng.randrange(p), rng.randrange(p)]) for _ in range(n)]
    if kind == 3 and a:
        a[-1] = 0
    if kind == 4 and a:
        a[-1] = 1
    if kind == 5 and len(a) >= 2:
        a[-1] = a[-2] = 0
    return a


def polymul(p, a, b):
    if not a or not b:
        return []
    c = [0] * (len(a) + len(b) - 1)
    for i, x in enumerate(a):
        for j, y in enumerate(b):
            c[i + j] = (c[i + j] + x * y) % p
    return c


def run(ctx):
    ok = ctx.build() and ctx.check_props()
    try:
        from mpyc.numpy import np
    except Exception:  # pragma: no cover
        np = None
    if not np:
        ctx.unproved('numpy unavailable', {'detail': 'mpyc.numpy.np is falsy: secure polynomials need NumPy; run under '
                                                     '/verif/.venv-np (see /verif/setup.sh)'})
        return
    import mpyc.gfpx as G
    rng = ctx.rng
    OPS = op_table()
    thorough = ctx.tier == 'thorough'
    ctx.rule = ('case = (p, padded list a, padded list b, operation, public parameter, (m,t,prss)); the secure result is '
                'opened (padded array) and compared with gfpx on the stripped polynomials; non-trivial when an operand has '
                'trailing zero padding or the operation is not a ring operation; GF(2): every pair of padded lists of length '
                '<= 3 through every operation (m=1); GF(3): every pair through add/sub/mul/==/neg, samples through the rest; '
                'GF(5), GF(11), GF(101): samples (boundary-heavy, length <= 3 resp. <= 8); m=3 (PRSS on and off) on samples')
    ctx.explanation = ('theorems on padded coefficient lists over an abstract field; executable Z_p instance and the real '
                       'secpoly class run on the same padded inputs and compared exactly; gfpx is the specification oracle')

    # ---- case generation: plan[(p, m, t, no_prss)] = list of (pair_index, a, b, op, k)
    def cases_for(pairs, ops, kmax=None):
        out = []
        for pi, (a, b) in enumerate(pairs):
            for (nm, ar, ks) in ops:
                ks = list(ks)
                if kmax is not None and len(ks) > kmax:
                    ks = rng.sample(ks, kmax)
                for k in ks:
                    out.append((pi, a, b, nm, k))
        return out

    ring_ops = [o for o in OPS if o[0] in RING]
    plan = []
    # GF(2): all pairs, all ops, m=1 (NB: mpc.SecFld(p) is a prime field only while m < p or t = 0; with m=3, t=1
    # SecFld(2) and SecFld(3) are extension fields, which secpols does not support: m=3 runs use p >= 5)
    L2 = all_lists(2, 3)
    pairs2 = [(a, b) for a in L2 for b in L2]
    plan.append((2, 1, 0, False, cases_for(pairs2, OPS, kmax=None if thorough else 1), True))
    L3 = all_lists(3, 3)
    pairs3 = [(a, b) for a in L3 for b in L3]
    plan.append((3, 1, 0, False, cases_for(pairs3 if thorough else rng.sample(pairs3, 500), ring_ops), thorough))
    plan.append((3, 1, 0, False, cases_for(rng.sample(pairs3, ctx.n(30, 400)), OPS, kmax=2), False))
    L5 = all_lists(5, 3)
    plan.append((5, 1, 0, False, cases_for([(rng.choice(L5), rng.choice(L5)) for _ in range(ctx.n(30, 1500))], OPS, kmax=2), False))

    def rand_pairs(p, cnt, maxlen):
        pairs = [([], []), ([0, 0], [0]), ([1, 1, 0], [2, 0, 1, 0, 0])]
        for _ in range(cnt):
            a, b = rand_list(rng, p, maxlen), rand_list(rng, p, maxlen)
            kind = rng.randrange(6)
            if kind == 0:
                b = list(a)
            elif kind == 1 and strip(b):
                a = polymul(p, strip(a)[:4], strip(b)[:4]) + [0] * rng.randint(0, 2)   # b | a
            elif kind == 2 and len(a) > 1:
                c = rand_list(rng, p, 3)
                a, b = polymul(p, strip(a)[:4], strip(c)), polymul(p, strip(b)[:4], strip(c)) + [0]   # common factor
            pairs.append((a, b))
        return pairs
    plan.append((11, 1, 0, False, cases_for(rand_pairs(11, ctx.n(12, 300), 8), OPS, kmax=2), False))
    plan.append((101, 1, 0, False, cases_for(rand_pairs(101, ctx.n(16, 300), 8), OPS, kmax=2), False))
    # m = 3
    plan.append((5, 3, 1, False, cases_for([(rng.choice(L5), rng.choice(L5)) for _ in range(ctx.n(5, 80))], OPS, kmax=1), False))
    plan.append((11, 3, 1, False, cases_for(rand_pairs(11, ctx.n(3, 80), 5), OPS, kmax=1), False))
    plan.append((101, 3, 1, False, cases_for(rand_pairs(101, ctx.n(4, 100), 6), OPS, kmax=1), False))
    plan.append((101, 3, 1, True, cases_for(rand_pairs(101, ctx.n(1, 40), 5), OPS, kmax=1), False))
    # no PRSS, three parties, TINY prime fields: many operations that invert secret coefficients (monic, gcd, gcdext, invert,
    # division by non-monic divisors): reciprocal() then retries (mask r = 0 with probability 1/p per call) along its
    # reshare-and-open path; lengths stay below the small-field region
    inv_ops = [o for o in OPS if o[0] in ('monic', 'gcd', 'gcdext', 'invert', 'floordiv', 'mod', 'divmod')]

    def tiny_pairs(p, cnt, maxlen):
        out = []
        for _ in range(cnt):
            a = [rng.randrange(p) for _ in range(rng.randint(1, maxlen))]
            b = [rng.randrange(p) for _ in range(rng.randint(1, maxlen))]
            a[rng.randrange(len(a))] = rng.randrange(1, p)       # nonzero polynomials, leading coefficients arbitrary
            b[rng.randrange(len(b))] = rng.randrange(1, p)
            out.append((a, b))
        return out
    plan.append((5, 3, 1, True, cases_for(tiny_pairs(5, ctx.n(12, 100), 3), inv_ops), False))
    plan.append((7, 3, 1, True, cases_for(tiny_pairs(7, ctx.n(24, 200), 4), inv_ops), False))
    plan.append((11, 3, 1, True, cases_for(tiny_pairs(11, ctx.n(10, 100), 5), inv_ops), False))
    # option --mix32-64bit (arrays travel as fixed-width byte strings, opened arrays are rebuilt by field.array()): every
    # opened coefficient must be a reduced field element
    plan.append((31, 3, 1, False, cases_for(rand_pairs(31, ctx.n(2, 40), 5), OPS, kmax=1), False, ('--mix32-64bit',)))
    plan.append((101, 3, 1, True, cases_for(rand_pairs(101, ctx.n(1, 20), 5), OPS, kmax=1), False, ('--mix32-64bit',)))

    model_cases = []
    powmod_cases = []
    precond = {}
    seen_cls = {}       # (class, op) -> number of representatives run
    lens_seen = {}      # (op, k, la, lb) -> {padded result lengths: witness}
    skipped = {}
    exhaustive_done = []
    confirmations = [0]

    def skip(why):
        skipped[why] = skipped.get(why, 0) + 1

    def judge(p, cfg, c, want, cls, sf, got):
        """-> ('ok', lens) | ('error-input',) | ('precond', class) | ('viol', sig, detail)"""
        (pi, a, b, op, k) = c
        la, lb = eff_lens(p, a, b, op)
        det = {'p': p, 'a': a, 'b': b, 'op': op, 'k': k, 'cfg': cfg}
        g, lens = canon(got)
        det.update({'got': g, 'want_gfpx': want})
        flat_vals = [x for part in (g[1] if isinstance(g, tuple) and g and g[0] == 'polys' else ([g[1]] if isinstance(g, tuple) and g and g[0] == 'poly' else [])) for x in part]
        if any(not (0 <= x < p) for x in flat_vals):
            return ('viol', 'secpoly-%s unreduced-coefficient GF(%d) %s' % (op, p, cfg), det, [])
        pre = []
        # gfpx is the specification, but two of its GF(2) methods are themselves wrong (BinaryPolynomial.__call__ at
        # even x, BinaryPolynomial._reverse after truncation): use independent references there, report the disagreement
        ref = None
        if op in ('call_pub', 'call_sec'):
            ref = ('elt', horner(p, strip(a), k))
        elif op == 'reverse_pub':
            ref = ('poly', ref_reverse(a, k))
        if ref is not None and ref != want:
            pre.append(('secpoly-%s differs-from-gfpx gfpx-%s-gf%d' % (op, op.split('_')[0], p), dict(det, reference=ref)))
            want = ref
        bad = isinstance(g, tuple) and len(g) > 0 and g[0] in ('EXC', 'HANG', 'DIVERGE')
        if bad and want[0] == 'EXC' and g[0] == 'EXC':
            return ('error-input', pre)
        if bad or want[0] == 'EXC' or g != want:
            outcome = g[0].lower() if bad else 'wrong'
            if cls == 'gcdext' and not bad and g[0] == 'polys' and g[1][0] == want[1][0]:
                u, v = g[1][1], g[1][2]
                lhs = strip([(x + y) % p for x, y in itertools.zip_longest(polymul(p, u, strip(a)), polymul(p, v, strip(b)), fillvalue=0)])
                cls = 'cofactors-differ bezout=%s' % (lhs == g[1][0])
            elif cls == 'gcdext':
                cls = None
            if sf and bad and g[0] != 'DIVERGE' and cls is None:
                return ('precond', '%s GF(%d) lens=(%d,%d): %s' % (op, p, la, lb, g[1] if g[0] == 'EXC' else 'no result'), pre)
            if cls is None and sf:
                cls = 'small-field'
            return ('viol', 'secpoly-%s %s%s GF(%d) lens=(%d,%d)' % (op, outcome, ' ' + cls if cls else '', p, la, lb), det, pre)
        if lens is not None:
            el = expected_len(p, op, la, lb, k)
            if el is not None and len(lens) == 1 and lens[0] != el:
                return ('viol', 'secpoly-length %s' % op, dict(det, padded_len=lens, expected=el, public_lens=[la, lb]), pre)
        return ('ok', lens, pre)

    for entry in plan:
        (p, m, t, no_prss, cases, exhaustive) = entry[:6]
        extra = entry[6] if len(entry) > 6 else ()
        t1 = time.time()
        todo, meta, iso = [], [], []
        for c in cases:
            (pi, a, b, op, k) = c
            arity2 = [o for o in OPS if o[0] == op][0][1] == 2
            bb = b if arity2 else None
            want = oracle(G, p, a, bb, op, k)
            if want[0] == 'SKIP':
                continue
            cls = known_class(p, a, bb, op, k, want)
            sf = small_field(p, a, bb, op, k)
            if '--mix32-64bit' in extra and m > 1 and cls in (None, 'gcdext'):
                la_, lb_ = eff_lens(p, a, bb, op)
                if expected_len(p, op, la_, lb_, k) == 0 or (op == 'inout' and not a) or (op in ('divmod', 'rdivmod_pub') and (la_ == 0 or lb_ == 1)) \
                        or (op == 'if_swap' and (la_ == 0 or lb_ == 0)) or (op == 'gcdext' and max(la_, lb_) == 0):
                    cls = 'mix32-empty-output'     # F-C38-11: opening an empty array with --mix32-64bit (m > 1) raises IndexError
                elif no_prss and la_ == 1 and (op in DIV_OPS or (op == 'powmod' and k != 0)):
                    cls = 'mix32-empty-output'     # F-C38-11 too: _div draws _np_randoms(.., m-1 = 0): an empty array is SHARED (random_split reads s[0])
            # keep the number of runs that end in a hang / escaped exception (each costs a simulator restart) small:
            # one representative per (known failing class, operation) and per small-field operation, on m=1 only
            costly = (cls in ('zero-polynomial', 'empty-operands', 'gf2-division', 'mix32-empty-output')) or \
                     (cls == 'gf2-public-operand' and op not in ('add_pub', 'radd_pub', 'sub_pub', 'rsub_pub', 'mul_pub', 'rmul_pub', 'scale')) or \
                     (sf and op in HANG_PRONE)
            if costly:
                tag = (cls if cls and cls != 'gcdext' else 'small-field', op if cls != 'mix32-empty-output' else 'any')
                if (m == 1 or cls == 'mix32-empty-output') and seen_cls.get(tag, 0) < (2 if cls == 'mix32-empty-output' else 1) and (cls == 'mix32-empty-output' or sum(seen_cls.values()) < 20):
                    seen_cls[tag] = seen_cls.get(tag, 0) + 1
                else:
                    skip(('known failing class %s' % cls) if cls and cls != 'gcdext' else
                         'small-field region (a padded length >= p): operation may not terminate')
                    continue
            if costly:
                iso.append(len(todo))      # predicted not to complete: runs alone in its own simulator
            todo.append((pi, a, bb, op, k))
            meta.append((want, cls, sf))
        coro = make_case_coro(p)
        seed = ctx.seed + p + 7 * m
        res = run_cases(ctx, m, t, no_prss, todo, coro, seed=seed, isolated=iso, extra=extra)
        cfg = 'm=%d%s%s' % (m, ' no-prss' if no_prss else '', ' ' + ' '.join(extra) if extra else '')
        for c, (want, cls, sf), got in zip(todo, meta, res):
            (pi, a, b, op, k) = c
            v = judge(p, cfg, c, want, cls, sf, got)
            if v[0] == 'viol' and confirmations[0] < 200 and (cls is None or cls == 'gcdext'):
                # confirm in isolation (fresh simulator): an earlier exception in the same batch must not be blamed on this case
                confirmations[0] += 1
                got = run_cases(ctx, m, t, no_prss, [c], coro, seed=seed, extra=extra)[0]
                v = judge(p, cfg, c, want, cls, sf, got)
            key = {'p': p, 'a': a, 'b': b, 'op': op, 'k': k, 'cfg': cfg}
            for (sig, det) in v[-1]:
                ctx.violation(sig, det)
            padded = (len(a) != len(strip(a))) or (b is not None and len(b) != len(strip(b)))
            kind = '%s GF(%d)%s' % (op, p, ' ' + cfg if m > 1 else '')
            if v[0] == 'error-input':
                ctx.case(key, nontrivial=False, kind='error-inputs GF(%d)' % p)
            elif v[0] == 'precond':
                precond[v[1]] = precond.get(v[1], 0) + 1
                ctx.case(key, nontrivial=False, kind='precondition-error GF(%d)' % p)
            elif v[0] == 'viol':
                ctx.violation(v[1], v[2])
                ctx.case(key, nontrivial=True, kind='failing ' + op)
            else:
                lens = v[1]
                if lens is not None:
                    la, lb = eff_lens(p, a, b, op)
                    s_ = lens_seen.setdefault((p if op == 'scale' else 0, op, k, la, lb), {})
                    s_.setdefault(tuple(lens), (a, b))
                    if len(s_) > 1:
                        ctx.violation('secpoly-length-leak %s' % op, dict(key, lengths_and_witnesses={str(x): y for x, y in s_.items()}))
                ctx.case(key, nontrivial=padded or op not in RING, kind=kind)
                if op in MODEL_OPS and got[0] in ('poly', 'elt') and (op != 'scale' or p != 2):
                    model_cases.append((op, p, a, b, k, got[1]))
                if op == 'powmod' and k >= 0 and p != 2 and got[0] == 'poly' and strip(b):
                    powmod_cases.append((op, p, a, b, k, got[1]))
        if exhaustive:
            exhaustive_done.append('GF(%d) m=%d: %d cases' % (p, m, len(todo)))
        ctx.log('GF(%d) m=%d t=%d no_prss=%s %s: %d cases in %.1fs' % (p, m, t, no_prss, ' '.join(extra), len(todo), time.time() - t1))
    ctx.extra['exhaustive'] = bool(exhaustive_done)
    ctx.extra['exhaustive_subspaces'] = exhaustive_done
    ctx.extra['padded_length_classes_checked'] = len(lens_seen)
    ctx.extra['skipped_cases'] = skipped
    ctx.extra['violations_confirmed_in_isolation'] = confirmations[0]
    if precond:
        ctx.notes.append('explicit errors / no result in the small-field region (a padded length >= p; documented '
                         'precondition, not violations), class: count = %s' % dict(sorted(precond.items())[:80]))

    malformed_stream(ctx)
    sync_mode_getitem(ctx)
    traffic_independence(ctx)
    concurrency_stream(ctx, G)
    model_compare(ctx, ok, model_cases, powmod_cases)
    if ctx.broken and not ctx.violations:
        ctx.unproved('C38 model/proof', {'broken': ctx.broken[:5]})


def malformed_stream(ctx):
    """secpoly([]) -> TypeError, mixed sectypes -> TypeError, reverse(-2) -> ValueError, getitem 1.0/-1 -> IndexError."""
    cases = ['ctor_list', 'mixed_add', 'mixed_sub', 'mixed_mul', 'reverse_-2', 'getitem_float', 'getitem_neg', 'neg_pow']
    want = ['TypeError', 'TypeError', 'TypeError', 'TypeError', 'ValueError', 'IndexError', 'IndexError', 'ValueError']

    async def coro(mpc, mods, pid, state, case):
        np = mods['mpyc.numpy'].np
        secpoly = mods['mpyc.secpols'].secpoly
        f = secpoly(np.array([1, 2]), sectype=mpc.SecFld(101))
        g = secpoly(np.array([1]), sectype=mpc.SecFld(257))
        if case == 'ctor_list':
            secpoly([])
        elif case == 'mixed_add':
            f + g
        elif case == 'mixed_sub':
            f - g
        elif case == 'mixed_mul':
            f * g
        elif case == 'reverse_-2':
            f.reverse(-2)
        elif case == 'getitem_float':
            f[1.0]
        elif case == 'getitem_neg':
            f[-1]
        elif case == 'neg_pow':
            f ** -1
        return 'no error'
    res = run_cases(ctx, 1, 0, False, cases, coro, seed=ctx.seed)
    for c, w, r in zip(cases, want, res):
        ctx.case({'malformed': c}, nontrivial=False, kind='malformed')
        if r != ('EXC', w):
            ctx.violation('secpoly-malformed %s' % c, {'case': c, 'got': r, 'want': w})


def sync_mode_getitem(ctx):
    """The simulator always runs the asynchronous mode (-M1 / m>1).  f[i] with i beyond the coefficient array is also
    run in the default synchronous single-party mode (no -M option): a fresh in-process copy of mpyc, mpc.run()."""
    import sys, importlib
    for k in [k for k in sys.modules if k == 'mpyc' or k.startswith('mpyc.')]:
        del sys.modules[k]
    argv = sys.argv
    sys.argv = ['c38-sync', '--no-log']
    try:
        rt = importlib.import_module('mpyc.runtime')
        mpc = rt.mpc
        np = importlib.import_module('mpyc.numpy').np
        secpoly = importlib.import_module('mpyc.secpols').secpoly
        for p in (5, 101):
            secfld = mpc.SecFld(p)
            for a in ([], [3], [1, 2, 0], [0, 0, 0, 4]):
                f = secpoly(np.array(a, dtype=object), sectype=secfld)
                for i in (0, len(a) - 1, len(a), len(a) + 1, 9):
                    if i < 0:
                        continue
                    key = {'sync': True, 'p': p, 'a': a, 'i': i}
                    try:
                        v = f[i]
                        got = int(mpc.run(mpc.output(v))) % p
                        okt = isinstance(v, secfld)
                    except Exception as e:
                        got, okt = ('EXC', type(e).__name__), True
                    want = a[i] if i < len(a) else 0
                    ctx.case(key, nontrivial=i >= len(a), kind='getitem sync mode GF(%d)' % p)
                    if got != want or not okt:
                        ctx.violation('secpoly-getitem sync-mode GF(%d) len=%d i=%d' % (p, len(a), i),
                                      dict(key, got=got, want=want, secure_type_ok=okt, mode_no_async=bool(mpc.options.no_async)))
        ctx.extra['sync_mode_no_async'] = bool(mpc.options.no_async)
    finally:
        sys.argv = argv
        for k in [k for k in sys.modules if k == 'mpyc' or k.startswith('mpyc.')]:
            del sys.modules[k]


def concurrency_stream(ctx, G):
    """Several secure polynomial operations in flight at once (launched without awaiting in between, operands of
    different padded lengths), followed by a run of short awaited multiplications while they are still running, m=3, t=1,
    under non-FIFO delivery schedules: the parties must keep the messages of the
    concurrently running sub-protocols (np_roll/_reshare inside _div, _gcd, _gcdext) apart.  Compared with gfpx."""
    import random
    from lib.sim import RandomOrder, ReverseLinks, Hold
    rng = ctx.rng
    OPS = ('divmod', 'floordiv', 'mod', 'gcd', 'gcdext', 'mul')
    trials = []
    for trial in range(ctx.n(12, 80)):
        p = rng.choice([11, 101, 101])
        k = rng.randint(3, 6)
        lens = rng.sample(range(1, 7), k) if k <= 6 else [rng.randint(1, 6) for _ in range(k)]
        ops = []
        for j in range(k):
            op = rng.choice(OPS)
            lb = lens[j]
            b = [rng.randrange(p) for _ in range(lb)]
            if not strip(b):
                b[0] = 1
            if rng.random() < 0.4:
                b = b + [0] * rng.randint(1, 2)          # padded divisor
            a = [rng.randrange(p) for _ in range(rng.randint(1, 7))]
            if rng.random() < 0.3 and len(a) > 1:
                a[-1] = 0
            if op in ('gcd', 'gcdext') and not strip(a):
                a[0] = 1
            ops.append((op, a, b))
        trials.append((p, ops))
    pol_names = ['RandomOrder', 'ReverseLinks', 'RandomOrder', 'Hold']

    async def coro(mpc, mods, pid, state, case):
        (p, ops) = case
        np = mods['mpyc.numpy'].np
        secpoly = mods['mpyc.secpols'].secpoly
        secfld = mpc.SecFld(p)
        fs = [(secpoly(mpc.input(secfld.array(np.array(a, dtype=object)), senders=j % 3)),
               secpoly(mpc.input(secfld.array(np.array(b, dtype=object)), senders=(j + 1) % 3))) for j, (op, a, b) in enumerate(ops)]
        launched = []
        for (op, a, b), (fa, fb) in zip(ops, fs):       # launch everything, await nothing
            if op == 'divmod':
                r = list(divmod(fa, fb))
            elif op == 'floordiv':
                r = [fa // fb]
            elif op == 'mod':
                r = [fa % fb]
            elif op == 'gcd':
                r = [secpoly.gcd(fa, fb)]
            elif op == 'gcdext':
                r = list(secpoly.gcdext(fa, fb))
            else:
                r = [fa * fb]
            launched.append([mpc.output(x.share) for x in r])
        # while these are in flight the main program keeps issuing short awaited operations: every one takes a fresh
        # program counter, racing with the sub-protocols (np_roll -> _reshare) of the polynomial operations
        chatter = []
        for q in range(30):
            chatter.append(int(await mpc.output(mpc.input(secfld(q % p), senders=q % 3) * mpc.input(secfld((q + 1) % p), senders=(q + 1) % 3))))
        if chatter != [q * (q + 1) % p for q in range(30)]:
            return ('CHATTER', chatter)
        out = []
        for futs in launched:
            res = []
            for f in futs:
                arr = await f
                res.append(strip([int(x) for x in arr.value.tolist()]))
            out.append(res)
        return out

    def want(p, ops):
        poly = G.GFpX(p)
        L = lambda x: [int(c) for c in x]
        out = []
        for (op, a, b) in ops:
            pa, pb = poly(strip(a)), poly(strip(b))
            if op == 'divmod':
                q, r = divmod(pa, pb)
                out.append([L(q), L(r)])
            elif op == 'floordiv':
                out.append([L(pa // pb)])
            elif op == 'mod':
                out.append([L(pa % pb)])
            elif op == 'gcd':
                out.append([L(poly.gcd(pa, pb))])
            elif op == 'gcdext':
                out.append([L(x) for x in poly.gcdext(pa, pb)])
            else:
                out.append([L(pa * pb)])
        return out
    nrun = 0
    for pi, pname in enumerate(pol_names):
        mine = [tr for j, tr in enumerate(trials) if j % len(pol_names) == pi]
        seeds = iter(range(10**6))

        def mk(pname=pname, base=ctx.seed * 977 + pi):
            if pname == 'RandomOrder':
                return RandomOrder(random.Random(base + next(seeds)))
            if pname == 'ReverseLinks':
                return ReverseLinks()
            return Hold({(0, 1), (2, 0), (1, 2)}, 40)
        res = run_cases(ctx, 3, 1, False, mine, coro, seed=ctx.seed + 31 + pi, policy=mk)
        for (p, ops), got in zip(mine, res):
            nrun += 1
            w = want(p, ops)
            key = {'concurrent': [(o, a, b) for (o, a, b) in ops], 'p': p, 'policy': pname}
            ctx.case(dict(key, trial=nrun), nontrivial=True, kind='concurrent ops m=3 %s' % pname)
            if got == w:
                continue
            # gcdext: accept the known non-reduced cofactors (F-C38-7) when the gcd agrees and Bezout holds
            bad = []
            if isinstance(got, list) and len(got) == len(w):
                for (op, a, b), g, x in zip(ops, got, w):
                    if g == x:
                        continue
                    if op == 'gcdext' and len(g) == 3 and g[0] == x[0]:
                        lhs = strip([(u + v) % p for u, v in itertools.zip_longest(polymul(p, g[1], strip(a)), polymul(p, g[2], strip(b)), fillvalue=0)])
                        if lhs == g[0]:
                            ctx.violation('secpoly-gcdext wrong cofactors-differ bezout=True GF(%d) lens=(%d,%d)' % (p, len(a), len(b)),
                                          {'p': p, 'a': a, 'b': b, 'got': g, 'want_gfpx': x, 'cfg': 'm=3 concurrent'})
                            continue
                    bad.append((op, a, b, g, x))
            else:
                bad.append(('all', None, None, got, None))
            if bad:
                ctx.violation('secpoly-concurrent %s m=3 policy=%s' % ('+'.join(sorted({b_[0] for b_ in bad})), pname),
                              dict(key, got=str(got)[:600], want=str(w)[:600], failing=str(bad)[:600]))
    ctx.extra['concurrent_trials'] = nrun


def traffic_independence(ctx):
    """Two 3-party runs, same seeds and padded lengths, different secret values: identical message-size traces."""
    p = 101
    rng = ctx.rng
    shapes = [(3, 2), (4, 4), (1, 3), (5, 0)]
    ops = [('add', None), ('sub', None), ('mul', None), ('lshift', 1), ('rshift', 1), ('call_pub', 3), ('call_sec', 2),
           ('eq', None), ('degree', None), ('neg', None), ('truncate', 2)]

    def mk(zero):
        out = []
        for pi, (la, lb) in enumerate(shapes):
            a = [0] * la if zero else [rng.randrange(1, p) for _ in range(la)]
            b = [0] * lb if zero else [rng.randrange(1, p) for _ in range(lb)]
            for (op, k) in ops:
                out.append((pi, a, b, op, k))
        return out
    r1, l1 = run_cases(ctx, 3, 1, False, mk(False), make_case_coro(p), seed=ctx.seed + 99, want_log=True)
    r2, l2 = run_cases(ctx, 3, 1, False, mk(True), make_case_coro(p), seed=ctx.seed + 99, want_log=True)
    same = l1 == l2
    ctx.extra['traffic_trace_messages'] = sum(len(x) for x in l1[0]) if l1 else 0
    ctx.case({'traffic': 'GF(101) m=3', 'ops': [o[0] for o in ops]}, nontrivial=True, kind='traffic-independence')
    if not same or any(isinstance(r, tuple) and r[0] in ('EXC', 'HANG', 'DIVERGE') for r in r1 + r2):
        ctx.violation('secpoly-traffic-leak', {'detail': 'message (direction, peer, size) traces differ between two runs with equal '
                                                         'padded lengths and different secret coefficients', 'ops': ops,
                                               'r1': str(r1)[:500], 'r2': str(r2)[:500]})


def model_compare(ctx, ok, model_cases, powmod_cases=()):
    """Evaluate the Coq model (Z_p instance of SecPoly.v) on the padded inputs; compare the padded outputs exactly."""
    if not ok:
        return
    rng = ctx.rng
    if len(model_cases) > ctx.n(700, 6000):
        model_cases = rng.sample(model_cases, ctx.n(700, 6000))
    powmod_cases = list(powmod_cases)
    if len(powmod_cases) > ctx.n(150, 1500):
        powmod_cases = rng.sample(powmod_cases, ctx.n(150, 1500))
    model_cases = list(model_cases) + powmod_cases
    exprs = []
    for (op, p, a, b, k, got) in model_cases:
        P, A = zlit(p), zlist(a)
        if op == 'add':
            e = 'zsp_add %s %s %s' % (P, A, zlist(b))
        elif op == 'sub':
            e = 'zsp_sub %s %s %s' % (P, A, zlist(b))
        elif op == 'mul':
            e = 'zsp_mul %s %s %s' % (P, A, zlist(b))
        elif op == 'eq':
            e = 'zsp_eq %s %s %s' % (P, A, zlist(b))
        elif op == 'neg':
            e = 'zsp_neg %s %s' % (P, A)
        elif op == 'scale':
            e = 'zsp_scale %s %s %s' % (P, zlit(k), A)
        elif op == 'call_pub':
            e = 'zsp_call %s %s %s' % (P, A, zlit(k))
        elif op == 'degree':
            e = 'zsp_degree %s %s' % (P, A)
        elif op == 'lshift':
            e = 'zsp_lshift %s %s %s' % (P, A, natlit(k))
        elif op == 'rshift':
            e = 'zsp_rshift %s %s %s' % (P, A, natlit(k))
        elif op == 'truncate':
            e = 'zsp_truncate %s %s %s' % (P, A, natlit(k))
        elif op == 'powmod':
            # _powmod as coded, on the normal forms (Gfpx model's mul / mod): compared with the stripped opened result
            e = 'sp_powmod %s %s %s %s' % (P, zlist(strip(b)), zlist(strip(a)), zlit(k))
        exprs.append(e)
    res = ctx.coq_eval(['MPyC.SecPoly'], exprs, chunk=150)
    mism = 0
    for (op, p, a, b, k, got), r in zip(model_cases, res):
        if op == 'degree' and isinstance(r, int):
            r = r % p                 # the secure degree is a field element: -1 is opened as p-1
        if op == 'eq':
            r = int(r) if isinstance(r, bool) else r
        if op == 'powmod':
            got = strip(got)
        if r != got:
            mism += 1
            ctx.broken.append({'kind': 'correspondence', 'what': 'SecPoly.' + op, 'case': [p, a, b, k],
                               'model': str(r)[:300], 'impl': str(got)[:300]})
    ctx.extra['traces_validated_against_impl'] = len(exprs) - mism
    ctx.extra['powmod_model_comparisons'] = len(powmod_cases)
    ctx.log('model/implementation comparisons: %d, disagreements: %d' % (len(exprs), mism))
