(** C17 — the PRF is deterministic and its outputs lie in range; n values / shape consistent
    with the scalar output.  Only statements; proofs are in theories/PRFModel.v.

    Determinism is definitional: the call is the Gallina function [prf_list xof keylen bound n]
    (resp. [prf_scalar], [prf_shape]) of its arguments, where [xof] is the SHAKE-128 output of
    (key + s) as a function of the requested length.  SHAKE-128 is an oracle. *)
From Coq Require Import ZArith List Lia.
Require Import MPyC.PRFModel.
Import ListNotations.
Local Open Scope Z_scope.

(** every output is in range(bound), for ANY digest bytes, slice width, count *)
Theorem C17_prf_range :
  forall (dk : list Z) (l : nat) (bound : Z) (n : nat), 1 <= bound ->
    Forall (fun v => 0 <= v < bound) (prf_out dk l bound n).
Proof. exact prf_range. Qed.
Print Assumptions C17_prf_range.

(** exactly n outputs; n = 0 gives none *)
Theorem C17_prf_length :
  forall (dk : list Z) (l : nat) (bound : Z) (n : nat),
    length (prf_out dk l bound n) = n /\ prf_out dk l bound 0 = [].
Proof. intros. split; [apply prf_length|apply prf_none]. Qed.
Print Assumptions C17_prf_length.

(** shape request: prod(shape) values (reshaped by NumPy), all in range *)
Theorem C17_prf_shape :
  forall (xof : nat -> list Z) (keylen bound : Z) (shape : list nat),
    length (prf_shape xof keylen bound shape) = prod_shape shape /\
    (1 <= bound -> Forall (fun v => 0 <= v < bound) (prf_shape xof keylen bound shape)).
Proof. intros. split; [apply prf_shape_length|intros; apply prf_list_range; assumption]. Qed.
Print Assumptions C17_prf_shape.

(** with the XOF prefix law: element i is independent of the number of values requested *)
Theorem C17_prf_prefix_consistent :
  forall (xof : nat -> list Z),
    (forall a b, (a <= b)%nat -> firstn a (xof b) = xof a) ->
    forall (keylen bound : Z) (n n' i : nat), (i < n)%nat -> (n <= n')%nat ->
      nth i (prf_list xof keylen bound n) 0 = nth i (prf_list xof keylen bound n') 0.
Proof. exact prf_prefix_consistent. Qed.
Print Assumptions C17_prf_prefix_consistent.

(** ... so the n = None result is element 0 of every n >= 1 (or shape) result, and in range *)
Theorem C17_prf_scalar_is_first :
  forall (xof : nat -> list Z),
    (forall a b, (a <= b)%nat -> firstn a (xof b) = xof a) ->
    forall (keylen bound : Z) (n : nat), (1 <= n)%nat ->
      prf_scalar xof keylen bound = nth 0 (prf_list xof keylen bound n) 0.
Proof. exact prf_scalar_is_first. Qed.
Print Assumptions C17_prf_scalar_is_first.

Theorem C17_prf_scalar_range :
  forall (xof : nat -> list Z) (keylen bound : Z), 1 <= bound ->
    0 <= prf_scalar xof keylen bound < bound.
Proof. exact prf_scalar_range. Qed.
Print Assumptions C17_prf_scalar_range.

(** bound = 1: byte_length 0 whatever the key, all zeros, digest unused *)
Theorem C17_prf_bound_one :
  forall (dk dk' : list Z) (keylen : Z) (n : nat),
    byte_length 1 keylen = 0 /\
    prf_out dk (Z.to_nat (byte_length 1 keylen)) 1 n = repeat 0 n /\
    prf_out dk (Z.to_nat (byte_length 1 keylen)) 1 n = prf_out dk' (Z.to_nat (byte_length 1 keylen)) 1 n.
Proof. exact prf_bound_one. Qed.
Print Assumptions C17_prf_bound_one.

(** byte_length: a slice can hold every value below bound *)
Theorem C17_byte_length_covers :
  forall bound keylen, 1 <= bound -> 0 <= keylen ->
    bound <= 256 ^ byte_length bound keylen /\ 0 <= byte_length bound keylen.
Proof. exact byte_length_covers. Qed.
Print Assumptions C17_byte_length_covers.

(** the test [bound & (bound-1)] is zero exactly for powers of two *)
Theorem C17_pow2_test_spec :
  forall b, 1 <= b -> (pow2_test b = true <-> exists k, 0 <= k /\ b = 2 ^ k).
Proof. exact pow2_test_spec. Qed.
Print Assumptions C17_pow2_test_spec.

(** powers of two: ceil(k/8) bytes and no extra bytes *)
Theorem C17_prf_pow2_no_extra :
  forall k keylen, 0 <= k -> byte_length (2 ^ k) keylen = (k + 7) / 8.
Proof. exact byte_length_pow2. Qed.
Print Assumptions C17_prf_pow2_no_extra.

(** other bounds: len(key) extra bytes, hence 256^l >= bound * 256^len(key) *)
Theorem C17_prf_extra_bytes :
  forall bound keylen, 1 <= bound -> 0 <= keylen ->
    (forall k, 0 <= k -> bound <> 2 ^ k) ->
    byte_length bound keylen = (bit_length (bound - 1) + 7) / 8 + keylen /\
    bound * 256 ^ keylen <= 256 ^ byte_length bound keylen.
Proof. exact byte_length_extra. Qed.
Print Assumptions C17_prf_extra_bytes.

(** little-endian decode/encode are inverse on l-byte strings / [0, 256^l) *)
Theorem C17_le_decode_encode :
  forall (l : nat) (x : Z), 0 <= x < 256 ^ Z.of_nat l ->
    le_decode (le_encode l x) = x /\ length (le_encode l x) = l /\
    Forall (fun b => 0 <= b < 256) (le_encode l x).
Proof. intros. split; [apply le_decode_encode; assumption|split; [apply le_encode_length|apply le_encode_bytes]]. Qed.
Print Assumptions C17_le_decode_encode.

Theorem C17_le_encode_decode :
  forall bs, Forall (fun b => 0 <= b < 256) bs ->
    le_encode (length bs) (le_decode bs) = bs /\ 0 <= le_decode bs < 256 ^ Z.of_nat (length bs).
Proof. intros. split; [apply le_encode_decode; assumption|apply le_decode_range; assumption]. Qed.
Print Assumptions C17_le_encode_decode.

(** Statelessness of the model: one PRF object is (per-input XOF, keylen, bound); the result of a call
    after ANY history of earlier calls on the same object is the plain function value, so two
    histories ending in the same call give the same result.  (Definitional in the model; the check
    searches the implementation for history dependence with call sequences on one object.) *)
Theorem C17_prf_history_independent :
  forall (S : Type) (xofs : S -> nat -> list Z) (keylen bound : Z) (h1 h2 : list (S * nat)) (s : S) (n : nat),
    last (prf_history S xofs keylen bound (h1 ++ [(s, n)])) [] = prf_list (xofs s) keylen bound n /\
    last (prf_history S xofs keylen bound (h1 ++ [(s, n)])) [] =
    last (prf_history S xofs keylen bound (h2 ++ [(s, n)])) [].
Proof. exact prf_history_independent. Qed.
Print Assumptions C17_prf_history_independent.

(** all results obtained for one input in a history agree on their common indices *)
Theorem C17_prf_history_prefix_family :
  forall (S : Type) (xofs : S -> nat -> list Z) (keylen bound : Z) (h : list (S * nat)) (s : S) (n n' i : nat),
    (forall a b, (a <= b)%nat -> firstn a (xofs s b) = xofs s a) ->
    In (s, n) h -> In (s, n') h -> (i < n)%nat -> (i < n')%nat ->
    nth i (prf_list (xofs s) keylen bound n) 0 = nth i (prf_list (xofs s) keylen bound n') 0.
Proof. exact prf_history_prefix_family. Qed.
Print Assumptions C17_prf_history_prefix_family.

(** Non-vacuity. An XOF satisfying [prefix]: the first k bytes of a fixed infinite stream. *)
Definition demo_xof (k : nat) : list Z := map (fun i => (Z.of_nat i * 37 + 11) mod 256) (seq 0 k).

Lemma demo_xof_prefix : forall a b, (a <= b)%nat -> firstn a (demo_xof b) = demo_xof a.
Proof.
  intros a b H. unfold demo_xof. rewrite firstn_map. f_equal.
  replace b with (a + (b - a))%nat by lia. rewrite seq_app, firstn_app, seq_length.
  replace (a - a)%nat with O by lia. rewrite firstn_O, app_nil_r.
  rewrite firstn_all2 by (rewrite seq_length; lia). reflexivity.
Qed.

Example C17_nonvacuous :
  (forall a b, (a <= b)%nat -> firstn a (demo_xof b) = demo_xof a) /\
  byte_length 100 16 = 17 /\ byte_length 256 16 = 1 /\ byte_length 257 0 = 2 /\
  prf_list demo_xof 2 1000 3 = [211; 247; 571] /\
  prf_scalar demo_xof 2 1000 = 211 /\
  prf_shape demo_xof 2 1000 [2; 3]%nat = [211; 247; 571; 391; 931; 215] /\
  (forall k, 0 <= k -> 100 <> 2 ^ k).
Proof.
  split; [exact demo_xof_prefix|].
  repeat (split; [vm_compute; reflexivity|]).
  intros k Hk E.
  assert (k < 7) by (apply (Z.pow_lt_mono_r_iff 2); [lia|lia|rewrite <- E; reflexivity]).
  assert (k = 0 \/ k = 1 \/ k = 2 \/ k = 3 \/ k = 4 \/ k = 5 \/ k = 6) by lia.
  repeat match goal with H : _ \/ _ |- _ => destruct H end; subst; discriminate.
Qed.
