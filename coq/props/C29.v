(** C29 — secure sorting and selection are correct for every input order.
    Only statements; proofs are in theories/SortNet.v and theories/Tournament.v. *)
Require Import MPyC.SortNet MPyC.Tournament.
From Coq Require Import List ZArith Arith Bool Lia Permutation Sorting.Sorted.
Import ListNotations.
Local Open Scope nat_scope.

(** Applying ANY comparator list (compare-exchange as coded: the smaller to position i, the larger to
    position j) returns a permutation of the input; all lengths, all networks. *)
Theorem C29_net_is_permutation :
  forall (net : list (nat * nat)) (xs : list Z), Permutation (apply_net net xs) xs.
Proof. exact net_is_permutation. Qed.
Print Assumptions C29_net_is_permutation.

Theorem C29_net_key_is_permutation :
  forall (A : Type) (key : A -> Z) (d : A) (net : list (nat * nat)) (xs : list A),
    Permutation (apply_key key d net xs) xs.
Proof. exact (@net_key_is_permutation). Qed.
Print Assumptions C29_net_key_is_permutation.

(** 0-1 principle: a comparator network that sorts every 0/1 input of length n sorts every integer
    input of length n. *)
Theorem C29_zero_one_principle :
  forall (net : list (nat * nat)) (n : nat),
    (forall bs : list Z, length bs = n -> Forall (fun b => b = 0%Z \/ b = 1%Z) bs ->
                         Sorted Z.le (apply_net net bs)) ->
    forall xs : list Z, length xs = n -> Sorted Z.le (apply_net net xs).
Proof. exact zero_one_principle. Qed.
Print Assumptions C29_zero_one_principle.

(** The bit-parallel truth-table run is sound: if it reports "sorted" for a network on n wires, the
    network sorts all 2^n 0/1 inputs (hence, with the 0-1 principle, all inputs). *)
Theorem C29_tt_check_sound :
  forall (net : list (nat * nat)) (n : nat), tt_check net n = true ->
    forall xs : list Z, length xs = n ->
      Sorted Z.le (apply_net net xs) /\ Permutation (apply_net net xs) xs.
Proof. exact tt_check_sorts. Qed.
Print Assumptions C29_tt_check_sound.

(** The comparators of the merge-exchange loop nest are in range (i < j < n), every n. *)
Theorem C29_merge_exchange_wf :
  forall n, Forall (fun c => fst c < snd c /\ snd c < n) (merge_exchange n).
Proof. exact merge_exchange_wf. Qed.
Print Assumptions C29_merge_exchange_wf.

(** Certificate: for every n <= 16 the comparator sequence of _sort sorts all 2^n 0/1 inputs
    (computed inside Coq), so runtime.sorted / seclist.sort are correct for every input of length
    <= 16.  PARTIAL with respect to the property (all n): Batcher's merge exchange for general n is
    not proved; the bound is part of the statement. *)
Lemma me_check_le_16 : forallb me_check (seq 0 17) = true.
Proof. vm_compute. reflexivity. Qed.

Theorem C29_sort_correct_le_N0_partial :
  forall n, n <= 16 -> forall xs : list Z, length xs = n ->
    Sorted Z.le (apply_net (merge_exchange n) xs) /\ Permutation (apply_net (merge_exchange n) xs) xs.
Proof.
  intros n Hn. apply tt_check_sorts.
  pose proof me_check_le_16 as H. rewrite forallb_forall in H. apply H. apply in_seq. lia.
Qed.
Print Assumptions C29_sort_correct_le_N0_partial.

(** sorted(x, reverse=...) at value level: ascending / descending and a permutation *)
Theorem C29_sorted_model_le_N0_partial :
  forall (xs : list Z), length xs <= 16 -> forall reverse : bool,
    (if reverse then Sorted Z.ge (sorted_model xs true) else Sorted Z.le (sorted_model xs false)) /\
    Permutation (sorted_model xs reverse) xs.
Proof.
  intros xs Hn. apply sorted_model_correct.
  pose proof me_check_le_16 as H. rewrite forallb_forall in H. apply H. apply in_seq. lia.
Qed.
Print Assumptions C29_sorted_model_le_N0_partial.

(** sorting with key= (only < on keys is used): keys of the result ascend, result is a permutation *)
Theorem C29_sort_key_le_N0_partial :
  forall n, n <= 16 -> forall (A : Type) (key : A -> Z) (d : A) (xs : list A), length xs = n ->
    Sorted Z.le (map key (apply_key key d (merge_exchange n) xs)) /\
    Permutation (apply_key key d (merge_exchange n) xs) xs.
Proof.
  intros n Hn A key d xs Hlen. apply (tt_check_sorts_key (merge_exchange n) n); [|exact Hlen].
  pose proof me_check_le_16 as H. rewrite forallb_forall in H. apply H. apply in_seq. lia.
Qed.
Print Assumptions C29_sort_key_le_N0_partial.

(** Tournament min / max: every non-empty list, any key: the result is an element with extreme key *)
Theorem C29_min_spec :
  forall (A : Type) (key : A -> Z) (x : list A), x <> [] ->
    exists m, min_model key x = Some m /\ In m x /\ forall a, In a x -> (key m <= key a)%Z.
Proof. exact (@min_model_spec). Qed.
Print Assumptions C29_min_spec.

Theorem C29_max_spec :
  forall (A : Type) (key : A -> Z) (x : list A), x <> [] ->
    exists m, max_model key x = Some m /\ In m x /\ forall a, In a x -> (key a <= key m)%Z.
Proof. exact (@max_model_spec). Qed.
Print Assumptions C29_max_spec.

Theorem C29_min_eq_fold :
  forall (a : Z) (l : list Z), min_model zid (a :: l) = Some (fold_left Z.min l a).
Proof. exact min_eq_fold. Qed.
Print Assumptions C29_min_eq_fold.

Theorem C29_max_eq_fold :
  forall (a : Z) (l : list Z), max_model zid (a :: l) = Some (fold_left Z.max l a).
Proof. exact max_eq_fold. Qed.
Print Assumptions C29_max_eq_fold.

(** min_max (pairwise pre-pass if_swap(key(a) >= key(b), a, b) over (i, n-1-i), then min of the lower
    half incl. the middle element, max of the upper half): for every key and every non-empty list both
    results are elements of the list, with minimal resp. maximal key *)
Theorem C29_min_max_key_spec :
  forall (A : Type) (key : A -> Z) (d : A) (x : list A), x <> [] ->
    exists m M, min_max_model key d x = (Some m, Some M) /\ In m x /\ In M x /\
      (forall a, In a x -> (key m <= key a)%Z) /\ (forall a, In a x -> (key a <= key M)%Z).
Proof. exact (@min_max_key_spec). Qed.
Print Assumptions C29_min_max_key_spec.

(** ... without key: both extremes, every length *)
Theorem C29_min_max_eq_fold :
  forall (a : Z) (l : list Z),
    min_max_model zid 0%Z (a :: l) = (Some (fold_left Z.min l a), Some (fold_left Z.max l a)).
Proof. exact min_max_eq_fold. Qed.
Print Assumptions C29_min_max_eq_fold.

(** argmin / argmax: index i of the FIRST extreme element together with that element; every
    non-empty list, any key *)
Theorem C29_argmin_first :
  forall (A : Type) (key : A -> Z) (d : A) (x : list A), x <> [] ->
    exists i m, argmin_model key x = Some (i, m) /\ i < length x /\ nth i x d = m /\
      (forall j, j < length x -> (key m <= key (nth j x d))%Z) /\
      (forall j, j < i -> (key m < key (nth j x d))%Z).
Proof. exact (@argmin_model_spec). Qed.
Print Assumptions C29_argmin_first.

Theorem C29_argmax_first :
  forall (A : Type) (key : A -> Z) (d : A) (x : list A), x <> [] ->
    exists i m, argmax_model key x = Some (i, m) /\ i < length x /\ nth i x d = m /\
      (forall j, j < length x -> (key (nth j x d) <= key m)%Z) /\
      (forall j, j < i -> (key (nth j x d) < key m)%Z).
Proof. exact (@argmax_model_spec). Qed.
Print Assumptions C29_argmax_first.

(** Non-vacuity *)
Example C29_nonvacuous_sort :
  merge_exchange_opt 5 = Some [(0, 4); (0, 2); (1, 3); (2, 4); (0, 1); (2, 3); (1, 4); (1, 2); (3, 4)] /\
  apply_net (merge_exchange 5) [3; 1; 3; -2; 0]%Z = [-2; 0; 1; 3; 3]%Z /\
  sorted_model [3; 1; 3; -2; 0]%Z true = [3; 3; 1; 0; -2]%Z /\
  tt_check (merge_exchange 5) 5 = true /\
  tt_check [(0, 1); (1, 2)] 3 = false.      (* the certificate rejects a non-sorting network *)
Proof. vm_compute. repeat split. Qed.

Example C29_nonvacuous_01 :   (* a network that sorts all 0/1 inputs of length 2 *)
  forall bs : list Z, length bs = 2 -> Forall (fun b => b = 0%Z \/ b = 1%Z) bs ->
    Sorted Z.le (apply_net [(0, 1)] bs).
Proof. apply tt_check_sound. vm_compute. reflexivity. Qed.

Example C29_nonvacuous_select :
  min_model zid [4; 2; 7; 2; 9; 9]%Z = Some 2%Z /\ max_model zid [4; 2; 7; 2; 9; 9]%Z = Some 9%Z /\
  argmin_model zid [4; 2; 7; 2; 9; 9]%Z = Some (1, 2%Z) /\ argmax_model zid [4; 2; 7; 2; 9; 9]%Z = Some (4, 9%Z) /\
  min_max_model zid 0%Z [4; 2; 7; 2; 9]%Z = (Some 2%Z, Some 9%Z) /\
  (* key = negation (the input of former finding F-C29-1, repaired in /repo by fb1729f) *)
  min_max_model Z.opp 0%Z [1; 2]%Z = (Some 2%Z, Some 1%Z) /\
  (* list elements compared by their second entry; which of several extreme elements is returned is fixed by the model *)
  min_max_model snd (0, 0)%Z [(0, 5); (1, 3); (2, 5); (3, 3)]%Z = (Some (1, 3)%Z, Some (2, 5)%Z).
Proof. vm_compute. repeat split. Qed.
