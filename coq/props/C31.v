(** C31 — secure lists behave like Python lists under any operation history.
    Only statements; the model and the proofs are in theories/SecList.v.

    Model: the opened contents of a seclist as [list Z]; methods transcribed from seclists.py at
    value level.  [uvec a n] is the specification of runtime.unit_vector(a, n) (tied by C30). *)
From Coq Require Import ZArith List Bool.
Require Import MPyC.SecList.
Import ListNotations.
Local Open Scope nat_scope.

(** ** The four kinds of secret index and when they are in range *)

Theorem C31_valid_secure_number :
  forall (a : Z) (n : nat), (0 <= a < Z.of_nat n)%Z -> valid_key (KNum a) n.
Proof. exact valid_key_num. Qed.
Print Assumptions C31_valid_secure_number.

Theorem C31_valid_unit_vector :
  forall a n, a < n -> valid_key (KVec (uvec (Z.of_nat a) n)) n.
Proof. exact valid_key_vec. Qed.
Print Assumptions C31_valid_unit_vector.

(** secindex(u, offset=off) denotes position off + (position of the 1 in u) *)
Theorem C31_valid_secindex :
  forall off b m, b < m -> valid_key (KSec off (uvec (Z.of_nat b) m)) (off + m).
Proof. exact valid_key_sec. Qed.
Print Assumptions C31_valid_secindex.

(** secindex.__add__: positions and offsets add; the sum's vector has length m + n - 1 *)
Theorem C31_valid_secindex_sum :
  forall o1 i m o2 j n, i < m -> j < n ->
    valid_key (KAdd o1 (uvec (Z.of_nat i) m) o2 (uvec (Z.of_nat j) n)) (o1 + o2 + (m + n - 1)) /\
    key_index (KAdd o1 (uvec (Z.of_nat i) m) o2 (uvec (Z.of_nat j) n)) = Z.of_nat (o1 + o2 + i + j).
Proof. exact valid_key_add_index. Qed.
Print Assumptions C31_valid_secindex_sum.

(** ** Every secret-index method refines the Python list operation, for all lists and all
       in-range secret indices of any kind *)

Theorem C31_get_refines :
  forall (xs : list Z) (k : key), valid_key k (length xs) ->
    getitem xs k = Ok (nth (Z.to_nat (key_index k)) xs 0%Z).
Proof. exact get_refines. Qed.
Print Assumptions C31_get_refines.

Theorem C31_set_refines :
  forall (xs : list Z) (k : key) (v : Z), valid_key k (length xs) ->
    setitem xs k v = Ok (upd xs (Z.to_nat (key_index k)) v).
Proof. exact set_refines. Qed.
Print Assumptions C31_set_refines.

Theorem C31_del_refines :
  forall (xs : list Z) (k : key), valid_key k (length xs) ->
    delitem xs k = Ok (remove_nth xs (Z.to_nat (key_index k))).
Proof. exact del_refines. Qed.
Print Assumptions C31_del_refines.

(** insert accepts positions 0..len (a secret index for a list one longer) *)
Theorem C31_insert_refines :
  forall (xs : list Z) (k : key) (v : Z), valid_key k (length xs + 1) ->
    insert_sec xs k v = Ok (insert_at xs (Z.to_nat (key_index k)) v).
Proof. exact insert_refines. Qed.
Print Assumptions C31_insert_refines.

Theorem C31_pop_refines :
  forall (xs : list Z) (k : key), valid_key k (length xs) ->
    pop_sec xs k = Ok (nth (Z.to_nat (key_index k)) xs 0%Z, remove_nth xs (Z.to_nat (key_index k))).
Proof. exact pop_refines. Qed.
Print Assumptions C31_pop_refines.

(** the form with a plain position a: secure number a, or the a-th unit vector *)
Theorem C31_get_number_and_unit_vector :
  forall (xs : list Z) (a : nat), a < length xs ->
    getitem xs (KNum (Z.of_nat a)) = Ok (nth a xs 0%Z) /\
    getitem xs (KVec (uvec (Z.of_nat a) (length xs))) = Ok (nth a xs 0%Z).
Proof. exact get_number_and_unit_vector. Qed.
Print Assumptions C31_get_number_and_unit_vector.

(** ** Searching *)

Theorem C31_count_refines : forall xs v, count xs v = py_count xs v.
Proof. exact count_refines. Qed.
Print Assumptions C31_count_refines.

Theorem C31_contains_refines : forall xs v, contains xs v = b2z (py_inb xs v).
Proof. exact contains_refines. Qed.
Print Assumptions C31_contains_refines.

(** the divide-and-conquer closure of runtime.find returns the FIRST occurrence, -1 if absent *)
Theorem C31_find_refines : forall xs v, find xs v = py_find xs v.
Proof. exact find_refines. Qed.
Print Assumptions C31_find_refines.

Theorem C31_index_refines :
  forall xs v, index xs v = if py_inb xs v then Ok (py_find xs v) else Err EValue.
Proof. exact index_refines. Qed.
Print Assumptions C31_index_refines.

Theorem C31_remove_refines :
  forall xs v, remove xs v = match py_remove xs v with Some xs' => Ok xs' | None => Err EValue end.
Proof. exact remove_refines. Qed.
Print Assumptions C31_remove_refines.

(** ** contains over a field of characteristic p (count is a sum IN the field): equal to list membership
       for every list shorter than the characteristic — and the guard is tight (boundary of F-C31-2) *)

Theorem C31_contains_char_guard :
  forall (p : Z) (xs : list Z) (v : Z), (Z.of_nat (length xs) < p)%Z ->
    count_mod p xs v = py_count xs v /\ contains_mod p xs v = b2z (py_inb xs v).
Proof. exact contains_char_guard. Qed.
Print Assumptions C31_contains_char_guard.

Theorem C31_contains_char_boundary :
  forall (p v : Z), (0 < p)%Z ->
    let xs := repeat v (Z.to_nat p) in
    Z.of_nat (length xs) = p /\ py_inb xs v = true /\ contains_mod p xs v = 0%Z.
Proof. exact contains_char_boundary. Qed.
Print Assumptions C31_contains_char_boundary.

Example C31_nonvacuous_contains_char :
  contains_mod 2 [3; 5; 3]%Z 3%Z = 0%Z /\ contains_mod 257 [3; 5; 3]%Z 3%Z = 1%Z /\ contains_mod 2 [7]%Z 7%Z = 1%Z.
Proof. vm_compute. repeat split. Qed.

(** ** Comparisons: _less_than/_norm is Python's lexicographic list <, for ALL pairs of lists
       (equal lengths, proper prefixes either way, empties) *)

Theorem C31_lexicographic_lt_correct : forall x y, less_than x y = b2z (py_lt x y).
Proof. exact lexicographic_lt_correct. Qed.
Print Assumptions C31_lexicographic_lt_correct.

Theorem C31_compare_correct : forall c x y, compare_op c x y = b2z (py_compare c x y).
Proof. exact compare_correct. Qed.
Print Assumptions C31_compare_correct.

(** ** Histories: the model and the abstract Python-list interpreter agree step by step (state
       and output after every operation), for every operation sequence with in-range secret indices *)

Theorem C31_step_refines : forall xs o, valid_op xs o -> step xs o = pystep xs o.
Proof. exact step_refines. Qed.
Print Assumptions C31_step_refines.

Theorem C31_history_refines :
  forall ops xs, valid_hist xs ops -> run step xs ops = run pystep xs ops.
Proof. exact history_refines. Qed.
Print Assumptions C31_history_refines.

Theorem C31_history_refines_fold :
  forall ops xs, valid_hist xs ops -> run_fold step xs ops = run_fold pystep xs ops.
Proof. exact history_refines_fold. Qed.
Print Assumptions C31_history_refines_fold.

(** ** Non-vacuity: concrete instances meeting the hypotheses *)

Example C31_nonvacuous_keys :
  valid_keyb (KNum 2) 4 = true /\
  valid_keyb (KVec [0; 0; 1; 0]%Z) 4 = true /\
  valid_keyb (KSec 1 [0; 1; 0]%Z) 4 = true /\
  valid_keyb (KAdd 1 [0; 1]%Z 0 [1; 0]%Z) 4 = true /\
  valid_keyb (KNum 4) 4 = false /\ valid_keyb (KVec [0; 1; 1; 0]%Z) 4 = false.
Proof. vm_compute. repeat split. Qed.

Example C31_nonvacuous_history :
  let xs := [5; 3; 7; 3; 9]%Z in
  let ops := [Get (KNum 2); SetK (KVec [0; 1; 0; 0; 0]%Z) 42%Z; Del (KSec 1 [1; 0; 0; 0]%Z);
              Insert (KNum 4) 11%Z; Pop (KAdd 1 [0; 1]%Z 0 [1; 0; 0]%Z); Remove 3%Z; Find 9%Z;
              Cmp CLt false [5; 7; 10]%Z; Cmp CLe true [5]%Z] in
  valid_hist xs ops /\
  run step xs ops =
    [([5; 3; 7; 3; 9], OZ 7); ([5; 42; 7; 3; 9], ONone); ([5; 7; 3; 9], ONone);
     ([5; 7; 3; 9; 11], ONone); ([5; 7; 9; 11], OZ 3); ([5; 7; 9; 11], OErr EValue);
     ([5; 7; 9; 11], OZ 2); ([5; 7; 9; 11], OZ 1); ([5; 7; 9; 11], OZ 1)]%Z.
Proof.
  cbv zeta. split; [apply valid_histb_sound|]; vm_compute; reflexivity.
Qed.
