(** Barrier.v — the `_pc_level` counter (asyncoro.typed_asyncoro / _reconcile), `barrier`, `shutdown`.

    typed_asyncoro:  `_pc_level += 1` on entry (Start); exactly one of the exit paths runs later:
      ExStop     StopIteration in the first segment            (-1, returns the value)
      ExExc      exception in the first segment                (-1, re-raised)
      ExNoAsync  no_async: completion of the synchronous loop  (-1)
      ExNoAsyncE no_async: exception in the synchronous loop   (-1, re-raised)
      ExTask     done-callback `_reconcile` of the Task        (-1, first statement)
    (that each path decrements exactly once is the generated obligation [balanced], below).          *)
From Coq Require Import ZArith List Bool Lia String.
Import ListNotations.
Local Open Scope nat_scope.

Inductive how := ExStop | ExExc | ExNoAsync | ExNoAsyncE | ExTask.
Inductive cev := Start (i : nat) | Exit (i : nat) (h : how).

Record cstate := mkc { level : Z; live : list nat; ever : list nat }.

Definition cinit : cstate := mkc 0 [] [].

Fixpoint remove1 (i : nat) (l : list nat) : list nat :=
  match l with
  | [] => []
  | h :: t => if Nat.eqb h i then t else h :: remove1 i t
  end.

Definition cstep (s : cstate) (e : cev) : cstate :=
  match e with
  | Start i => mkc (level s + 1) (i :: live s) (i :: ever s)
  | Exit i _ => mkc (level s - 1) (remove1 i (live s)) (ever s)
  end.

(** "each started coroutine exits at most once" (and only after it started; identifiers are fresh) *)
Definition cvalid1 (s : cstate) (e : cev) : Prop :=
  match e with
  | Start i => ~ In i (ever s)
  | Exit i _ => In i (live s)
  end.

Fixpoint cvalid (s : cstate) (evs : list cev) : Prop :=
  match evs with
  | [] => True
  | e :: t => cvalid1 s e /\ cvalid (cstep s e) t
  end.

Definition crun (evs : list cev) : cstate := fold_left cstep evs cinit.

Definition cinv (s : cstate) : Prop :=
  level s = Z.of_nat (List.length (live s)) /\ NoDup (live s) /\ (forall i, In i (live s) -> In i (ever s)).

Lemma remove1_length : forall i l, In i l -> S (List.length (remove1 i l)) = List.length l.
Proof.
  induction l as [|h t IH]; intros Hin; [destruct Hin|]. simpl.
  destruct (Nat.eqb h i) eqn:E; [reflexivity|].
  simpl. f_equal. apply IH. destruct Hin as [->|]; [|assumption].
  rewrite Nat.eqb_refl in E. discriminate.
Qed.

Lemma remove1_In : forall i j l, In j (remove1 i l) -> In j l.
Proof.
  induction l as [|h t IH]; simpl; [auto|].
  destruct (Nat.eqb h i); simpl; intuition.
Qed.

Lemma remove1_NoDup : forall i l, NoDup l -> NoDup (remove1 i l).
Proof.
  induction l as [|h t IH]; intros Hnd; simpl; [constructor|].
  inversion Hnd; subst. destruct (Nat.eqb h i); [assumption|].
  constructor; [|auto]. intros Hin. apply remove1_In in Hin. contradiction.
Qed.

Lemma cstep_inv : forall s e, cinv s -> cvalid1 s e -> cinv (cstep s e).
Proof.
  intros s e (Hl & Hnd & Hsub) Hv. destruct e as [i|i h]; unfold cinv; cbn [cstep level live ever cvalid1] in *.
  - split; [|split].
    + rewrite Hl. cbn [List.length]. lia.
    + constructor; [|assumption]. intros Hin. apply Hv, Hsub, Hin.
    + intros j [->|Hj]; [left; reflexivity|right; auto].
  - split; [|split].
    + rewrite Hl. pose proof (remove1_length i (live s) Hv). lia.
    + apply remove1_NoDup, Hnd.
    + intros j Hj. apply Hsub. eapply remove1_In; eauto.
Qed.

Lemma crun_inv : forall evs s, cinv s -> cvalid s evs -> cinv (fold_left cstep evs s).
Proof.
  induction evs as [|e t IH]; intros s Hi Hv; simpl; [assumption|].
  destruct Hv as [H1 H2]. apply IH; [apply cstep_inv; assumption|assumption].
Qed.

Lemma cinit_inv : cinv cinit.
Proof. split; [reflexivity|split; [constructor|intros i []]]. Qed.

(** _pc_level = number of started-and-not-yet-finished coroutines, after every valid event sequence *)
Theorem pc_level_counts : forall evs, cvalid cinit evs ->
  level (crun evs) = Z.of_nat (List.length (live (crun evs))).
Proof. intros evs Hv. destruct (crun_inv evs cinit cinit_inv Hv) as [H _]. exact H. Qed.

(** executable helper for the correspondence run: level and number of live coroutines after each event *)
Fixpoint clevels (s : cstate) (evs : list cev) : list (Z * nat) :=
  match evs with
  | [] => []
  | e :: t => let s' := cstep s e in (level s', List.length (live s')) :: clevels s' t
  end.

(** the barrier / shutdown loop `while self._pc_level > self._program_counter[1]: await sleep(0)` *)
Definition loop_continues (lvl : Z) (depth : nat) : bool := (Z.of_nat depth <? lvl)%Z.

Theorem barrier_at_depth : forall evs depth, cvalid cinit evs ->
  loop_continues (level (crun evs)) depth = false -> List.length (live (crun evs)) <= depth.
Proof.
  intros evs depth Hv Hl. rewrite (pc_level_counts evs Hv) in Hl.
  unfold loop_continues in Hl. apply Z.ltb_ge in Hl. lia.
Qed.

(** at top level (depth 0) a returning barrier means: no started coroutine is unfinished *)
Theorem barrier_top_level : forall evs, cvalid cinit evs ->
  loop_continues (level (crun evs)) 0 = false -> live (crun evs) = [].
Proof.
  intros evs Hv Hl. pose proof (barrier_at_depth evs 0 Hv Hl) as H.
  destruct (live (crun evs)); [reflexivity|simpl in H; lia].
Qed.

(** every coroutine started before the barrier returned has exited *)
Lemma live_spec : forall evs s, (forall i, In i (live s) -> In i (ever s)) ->
  forall i, In i (ever (fold_left cstep evs s)) -> In i (ever s) \/ In (Start i) evs.
Proof.
  induction evs as [|e t IH]; intros s Hs i Hin; simpl in *; [left; exact Hin|].
  destruct (IH (cstep s e)) with (i := i) as [H|H]; auto.
  - destruct e; simpl; intros j Hj; [destruct Hj; [left|right]; auto|].
    apply Hs. eapply remove1_In; eauto.
  - destruct e; simpl in H; [destruct H as [->|H]; [right; left; reflexivity|left; exact H]|left; exact H].
Qed.

(* ------------------------------------------------------------------------------------------ *)
(** * Generated obligation: every exit path of typed_asyncoro is balanced                         *)

Local Open Scope string_scope.
Definition required_paths : list string :=
  ["first_segment:StopIteration"; "first_segment:Exception"; "no_async:StopIteration"; "no_async:Exception";
   "task:_reconcile"].

Definition path_balanced (p : string * nat * nat * bool) : bool :=
  match p with (_, i, d, _) => Nat.eqb i 1 && Nat.eqb d 1 end.

Definition balanced (paths : list (string * nat * nat * bool)) : bool :=
  forallb path_balanced paths &&
  forallb (fun r => existsb (fun p => match p with (n, _, _, _) => String.eqb n r end) paths) required_paths &&
  Nat.eqb (List.length paths) (List.length required_paths).

(** shape of the completion bookkeeping in asyncoro.py, as recognised by the translator (anything else is emitted as
    "unrecognised: ..." and fails):
      increment_first        typed_asyncoro starts with `_pc_level += 1`, before the coroutine object is even created,
                             i.e. for all three declaration forms (returnType(type), returnType(None), annotation);
      declaration_neutral    the `if rettype:` branch (annotation form) does not touch `_pc_level`;
      task_tail_straight     after the no_async block: [wrap in program-counter wrapper]; Task(...); f_back;
                             add_done_callback(_reconcile); return -- no branch on `decl`, no `_pc_level` assignment:
                             the decrement of an asynchronous coroutine happens only at COMPLETION of its task;
      reconcile_first        `_reconcile` decrements in its first statement, before looking at decl / the task result
                             (so also when the task ended with an exception and when nothing is returned);
      wrapper_finally        _ProgramCounterWrapper.__await__ restores the caller's program counter in a `finally`
                             around coro.send (also when the coroutine raises), and saves the private one in `else`. *)
Definition completion_shape_wf (l : list string) : bool :=
  match l with
  | ["increment_first"; "declaration_neutral"; "task_tail_straight"; "reconcile_first"; "wrapper_finally"] => true
  | _ => false
  end.

(** order of the statements of Runtime.shutdown *)
Definition shutdown_order_wf (l : list string) : bool :=
  match l with
  | ["wait_level"; "return_if_single"; "transfer"; "close"; "await_own"] => true
  | ["wait_level"; "transfer"; "close"; "await_own"] => true
  | _ => false
  end.

(** condition of Runtime.unset_protocol under which the future awaited at the end of shutdown is resolved:
    the translator emits "all_peers_except_self" only for
      `all(p.protocol is None for p in self.parties if p.pid != self.pid)`
    (this is [forallb (fun q => mem q (slost s)) peers] in the machine below, [peers] = everyone but pid) *)
Definition unset_condition_wf (c : string) : bool := String.eqb c "all_peers_except_self".
Local Close Scope string_scope.

(* ------------------------------------------------------------------------------------------ *)
(** * Shutdown state machine of one party (statement order of Runtime.shutdown)

      while _pc_level > depth: await sleep(0)          SWait   --Poll (level <= depth)-->  SSync
      await self.transfer(self.pid)                     SSync   --Gathered (all peers' messages in)--> SClose
      for peer in parties[pid+1:]: close_connection()   SClose  --CloseAll--> SOwn
      await self.parties[self.pid].protocol             SOwn    --AllLost--> SDone                       *)

Inductive sphase := SWait | SSync | SClose | SOwn | SDone.
Inductive sev :=
| SLevel (l : Z)          (* the environment changes _pc_level (coroutines finishing / starting) *)
| SPoll                   (* one evaluation of the loop condition *)
| SRecv (q : nat)         (* the shutdown message of party q arrives *)
| SGathered               (* transfer's gather completes: possible only when every peer's message is in *)
| SCloseAll               (* the for loop closing the connections to higher-numbered parties *)
| SLost (q : nat)         (* connection_lost for peer q *)
| SAllLost.

Record sstate := mks { sph : sphase; slevel : Z; srecvd : list nat; sclosed : list nat; slost : list nat;
                       squiesced : bool }.

Section Shutdown.
Variables (pid m depth : nat).

Definition peers : list nat := filter (fun q => negb (Nat.eqb q pid)) (seq 0 m).
Definition higher : list nat := filter (fun q => Nat.ltb pid q) (seq 0 m).
Definition mem (q : nat) (l : list nat) : bool := existsb (Nat.eqb q) l.

Definition sinit (lvl : Z) : sstate := mks SWait lvl [] [] [] false.

Definition sstep (s : sstate) (e : sev) : sstate :=
  match e with
  | SLevel l => mks (sph s) l (srecvd s) (sclosed s) (slost s) (squiesced s)
  | SRecv q => mks (sph s) (slevel s) (q :: srecvd s) (sclosed s) (slost s) (squiesced s)
  | SLost q => mks (sph s) (slevel s) (srecvd s) (sclosed s) (q :: slost s) (squiesced s)
  | SPoll =>
      match sph s with
      | SWait => if loop_continues (slevel s) depth then s
                 else mks SSync (slevel s) (srecvd s) (sclosed s) (slost s) true
      | _ => s
      end
  | SGathered =>
      match sph s with
      | SSync => if forallb (fun q => mem q (srecvd s)) peers
                 then mks SClose (slevel s) (srecvd s) (sclosed s) (slost s) (squiesced s) else s
      | _ => s
      end
  | SCloseAll =>
      match sph s with
      | SClose => mks SOwn (slevel s) (srecvd s) higher (slost s) (squiesced s)
      | _ => s
      end
  | SAllLost =>
      match sph s with
      | SOwn => if forallb (fun q => mem q (slost s)) peers
                then mks SDone (slevel s) (srecvd s) (sclosed s) (slost s) (squiesced s) else s
      | _ => s
      end
  end.

Definition srun (lvl : Z) (evs : list sev) : sstate := fold_left sstep evs (sinit lvl).

Definition got_all (s : sstate) : Prop := forall q, In q peers -> In q (srecvd s).

Definition sinv (s : sstate) : Prop :=
  match sph s with
  | SWait => sclosed s = [] /\ squiesced s = false
  | SSync => sclosed s = [] /\ squiesced s = true
  | SClose => sclosed s = [] /\ squiesced s = true /\ got_all s
  | SOwn | SDone => squiesced s = true /\ got_all s
  end.

Lemma mem_In : forall q l, mem q l = true -> In q l.
Proof.
  intros q l H. unfold mem in H. apply existsb_exists in H. destruct H as (x & Hx & He).
  apply Nat.eqb_eq in He. subst. exact Hx.
Qed.

Lemma got_all_mono : forall s s', (forall q, In q (srecvd s) -> In q (srecvd s')) -> got_all s -> got_all s'.
Proof. intros s s' H G q Hq. apply H, G, Hq. Qed.

Lemma sstep_inv : forall s e, sinv s -> sinv (sstep s e).
Proof.
  intros s e H. unfold sinv in *. destruct e; simpl.
  - destruct (sph s); simpl; exact H.
  - destruct (sph s) eqn:E; simpl; try rewrite E; try exact H.
    destruct (loop_continues (slevel s) depth); simpl; [rewrite E; exact H|].
    destruct H as [H1 H2]. split; [exact H1|reflexivity].
  - destruct (sph s) eqn:E; simpl; try exact H.
    + destruct H as (H1 & H2 & H3). repeat split; auto. intros q0 Hq. right. apply H3, Hq.
    + destruct H as (H2 & H3). repeat split; auto. intros q0 Hq. right. apply H3, Hq.
    + destruct H as (H2 & H3). repeat split; auto. intros q0 Hq. right. apply H3, Hq.
  - destruct (sph s) eqn:E; simpl; try rewrite E; try exact H.
    destruct (forallb (fun q => mem q (srecvd s)) peers) eqn:Fa; simpl; [|rewrite E; exact H].
    destruct H as [H1 H2]. repeat split; auto.
    intros q Hq. rewrite forallb_forall in Fa. apply mem_In, Fa, Hq.
  - destruct (sph s) eqn:E; simpl; try rewrite E; try exact H.
    destruct H as (H1 & H2 & H3). split; assumption.
  - destruct (sph s); simpl; exact H.
  - destruct (sph s) eqn:E; simpl; try rewrite E; try exact H.
    destruct (forallb (fun q => mem q (slost s)) peers); simpl; [exact H|rewrite E; exact H].
Qed.

Lemma srun_inv : forall evs s, sinv s -> sinv (fold_left sstep evs s).
Proof. induction evs as [|e t IH]; intros s H; simpl; [exact H|]. apply IH, sstep_inv, H. Qed.

(** no connection is closed by this party before its _pc_level was seen at (or below) its depth and it has
    received every other party's shutdown message *)
Theorem shutdown_closes_after_quiescence : forall lvl evs,
  sclosed (srun lvl evs) <> [] ->
  squiesced (srun lvl evs) = true /\ (forall q, In q peers -> In q (srecvd (srun lvl evs))).
Proof.
  intros lvl evs Hc.
  assert (H : sinv (srun lvl evs)) by (apply srun_inv; unfold sinv; simpl; split; reflexivity).
  unfold sinv in H. destruct (sph (srun lvl evs)).
  - destruct H as [H _]. contradiction.
  - destruct H as [H _]. contradiction.
  - destruct H as [H _]. contradiction.
  - exact H.
  - exact H.
Qed.

(** [squiesced] is set only by a poll that saw level <= depth *)
Lemma quiesced_was_polled : forall evs s,
  squiesced s = false -> squiesced (fold_left sstep evs s) = true ->
  exists pre post s1, evs = pre ++ SPoll :: post /\ s1 = fold_left sstep pre s /\
                      loop_continues (slevel s1) depth = false.
Proof.
  induction evs as [|e t IH]; intros s Hq Hf; simpl in *; [congruence|].
  destruct (squiesced (sstep s e)) eqn:Q.
  - (* this very step set it *)
    destruct e; simpl in Q; try congruence.
    + destruct (sph s); simpl in Q; try congruence.
      destruct (loop_continues (slevel s) depth) eqn:B; simpl in Q; try congruence.
      exists [], t, s. repeat split; auto.
    + destruct (sph s); simpl in Q; try congruence.
      destruct (forallb (fun q => mem q (srecvd s)) peers); simpl in Q; congruence.
    + destruct (sph s); simpl in Q; congruence.
    + destruct (sph s); simpl in Q; try congruence.
      destruct (forallb (fun q => mem q (slost s)) peers); simpl in Q; congruence.
  - destruct (IH _ Q Hf) as (pre & post & s1 & -> & -> & Hl).
    exists (e :: pre), post, (fold_left sstep pre (sstep s e)). repeat split; auto.
Qed.

End Shutdown.

(** closing completes for everyone: connection {i<j} is closed by i (the lower party) *)
Lemma higher_spec : forall pid m q, In q (higher pid m) <-> pid < q < m.
Proof.
  intros pid m q. unfold higher. rewrite filter_In, in_seq. rewrite Nat.ltb_lt. lia.
Qed.

Theorem every_connection_has_a_closer : forall m i j, i < j < m -> In j (higher i m).
Proof. intros. apply higher_spec. lia. Qed.
